#!/usr/bin/env python3
"""Regenerates MANIFEST.json from props_table.py (keeps the manifest valid and in sync)."""
import json, os, sys
sys.path.insert(0, os.path.dirname(os.path.abspath(__file__)))
from props_table import PROPS, NOT_APPLICABLE, HOOK_COMMITS

checks = []
for pid in sorted(PROPS):
    p = PROPS[pid]
    checks.append({
        "property_id": pid,
        "quick_cmd": f"./check {pid} --tier quick",
        "thorough_cmd": f"./check {pid} --tier thorough",
        "evidence_file": f"/verif/evidence/{pid}.json",
        "replay_cmd_template": f"./check {pid} --replay {{path}}",
        "engine": "lean4-proof+correspondence",
        "level_claimed": {"category": p["level"], "text": p["level_text"], "design_ref": p.get("design_ref", f"DESIGN.md §5 {pid}")},
        "level_note": p["level_note"],
        "technique": p["technique"],
    })
m = {
    "version": 1,
    "setup_cmd": "./setup.sh",
    "hooks": {
        "guard": "verif",
        "enable": "go build -tags verif (the harness under /verif/harness imports /repo through a replace directive); one hook file: x/evm/statedb/verif_hooks.go (StateDB.VerifDirtyCount, read-only, used by the C05 store-trace monitor)",
        "baseline_off_cmd": "cd /repo && go test -vet=off -count=1 -timeout 25m ./...",
        "source_commits": HOOK_COMMITS,
        "add_only": True,
    },
    "engines": [
        {"name": "lean4-proof+correspondence", "path": "/verif/check", "serves_properties": sorted(PROPS),
         "kind_free_text": "Lean 4 theorems over a hand-written executable model + facts regenerated from the source on every run (go/ast extractor) + differential correspondence (real Go code vs compiled Lean driver on the same op lines) + implementation-side monitors for the failing-input search"},
    ],
    "checks": checks,
    "notes": "Every check regenerates lean/HaqqModel/Generated/Facts.lean from /repo, rebuilds the property's Lean module (kernel re-check) and the Go harness from /repo's working tree, then runs correspondence and monitors. known_findings.json lists recorded and fixed findings.",
    "not_applicable": [{"property_id": k, "reason": v} for k, v in sorted(NOT_APPLICABLE.items()) if k not in PROPS],
}
json.dump(m, open(os.path.join(os.path.dirname(os.path.abspath(__file__)), "MANIFEST.json"), "w"), indent=1)
print("MANIFEST.json:", len(checks), "checks,", len(m["not_applicable"]), "not_applicable")
