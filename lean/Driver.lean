/-
  Line-protocol oracle: one operation per stdin line, first token = property id, one output line per
  input line.  Imports model files only (core Lean), so it can also be compiled as a `lean_exe`.
-/
import HaqqModel.Driver.C12
import HaqqModel.Driver.C09
import HaqqModel.Driver.C17
import HaqqModel.Driver.C13
import HaqqModel.Driver.C11
import HaqqModel.Driver.C06
import HaqqModel.Driver.C18
import HaqqModel.Driver.C14
import HaqqModel.Driver.C07
import HaqqModel.Driver.C08
import HaqqModel.Driver.C05
import HaqqModel.Driver.C04
import HaqqModel.Driver.C03
import HaqqModel.Driver.C10

open Haqq.Driver

structure All where
  c12 : C12.St := {}
  c09 : C09.St := {}
  c13 : C13.St := {}
  c05 : C05.St := {}
  c10 : C10.St := {}

def stepLine (st : All) (line : String) : All × String :=
  -- everything from a "#" token on is harness-only annotation
  let toks := ((line.trimAscii.toString.splitOn " ").filter (· ≠ "")).takeWhile (· ≠ "#")
  match toks with
  | "C12" :: rest => let (s, o) := C12.step st.c12 rest; ({ st with c12 := s }, o)
  | "C09" :: rest => let (s, o) := C09.step st.c09 rest; ({ st with c09 := s }, o)
  | "C17" :: rest => (st, C17.step rest)
  | "C11" :: rest => (st, C11.step rest)
  | "C06" :: rest => (st, C06.step rest)
  | "C18" :: rest => (st, C18.step rest)
  | "C14" :: rest => (st, C14.step rest)
  | "C07" :: rest => (st, C07.step rest)
  | "C08" :: rest => (st, C08.step rest)
  | "C05" :: rest => let (s, o) := C05.step st.c05 rest; ({ st with c05 := s }, o)
  | "C02" :: rest => let (s, o) := C05.step st.c05 rest; ({ st with c05 := s }, o)
  | "C04" :: rest => (st, C04.step rest)
  | "C03" :: rest => (st, C03.step rest)
  | "C10" :: rest => let (s, o) := C10.step st.c10 rest; ({ st with c10 := s }, o)
  | "C13" :: rest => let (s, o) := C13.step st.c13 rest; ({ st with c13 := s }, o)
  | _ => (st, "bad-op")

partial def loop (h : IO.FS.Stream) (out : IO.FS.Stream) (st : All) : IO Unit := do
  let line ← h.getLine
  if line.isEmpty then return ()
  let (st', o) := stepLine st line
  out.putStrLn o
  loop h out st'

def main : IO Unit := do
  let stdin ← IO.getStdin
  let stdout ← IO.getStdout
  loop stdin stdout {}
