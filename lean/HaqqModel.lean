import HaqqModel.Prelude.Basic
import HaqqModel.Model.Dao
import HaqqModel.Lemmas.Dao
import HaqqModel.Generated.Facts
import HaqqModel.Props.C12
import HaqqModel.Driver.C12
