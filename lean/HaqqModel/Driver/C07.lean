import HaqqModel.Model.Fees
import HaqqModel.Driver.Util

namespace Haqq.Driver.C07
open Haqq.Fees

def step : List String → String
  | ["cfloor", mg, gas, fee] =>
    match mg.toNat?, gas.toNat?, fee.toNat? with
    | some mg, some gas, some fee => if cosmosFloorAccept mg gas fee then "accept" else "reject"
    | _, _, _ => "bad-op"
  | ["cfloor", mg, gas, fee, base] =>
    -- the decorator alone, base fee in force: the declared fee and what would be charged both reach the floor
    match mg.toNat?, gas.toNat?, fee.toNat?, base.toNat? with
    | some mg, some gas, some fee, some b => if cosmosFloorAcceptTx true true mg gas fee b none then "accept" else "reject"
    | _, _, _, _ => "bad-op"
  | ["efloor", mg, typ, gas, gp, tip, cap, base] =>
    match mg.toNat?, typ.toNat?, gas.toNat?, gp.toNat?, tip.toNat?, cap.toNat?, base.toNat? with
    | some mg, some typ, some gas, some gp, some tip, some cap, some base =>
      if ethFloorAccept mg typ gas gp tip cap base then "accept" else "reject"
    | _, _, _, _, _, _, _ => "bad-op"
  | ["efloor2", mg, base, t1, g1, p1, i1, c1, t2, g2, p2, i2, c2] =>
    match mg.toNat?, base.toNat?, [t1, g1, p1, i1, c1, t2, g2, p2, i2, c2].mapM String.toNat? with
    | some mg, some base, some [t1, g1, p1, i1, c1, t2, g2, p2, i2, c2] =>
      if ethFloorAcceptTx mg base [(t1, g1, p1, i1, c1), (t2, g2, p2, i2, c2)] then "accept" else "reject"
    | _, _, _ => "bad-op"
  | ["vfee", typ, gas, gp, tip, cap, base] =>
    match typ.toNat?, gas.toNat?, gp.toNat?, tip.toNat?, cap.toNat?, base.toNat? with
    | some typ, some gas, some gp, some tip, some cap, some base =>
      match verifyFee typ gas gp tip cap base with
      | some f => s!"ok {f}"
      | none => "err"
    | _, _, _, _, _, _ => "bad-op"
  | ["gas", limit, raw, mult, price] =>
    -- raw = EVM gas consumed after refunds, measured by the harness with the multiplier set to 0
    match limit.toNat?, raw.toNat?, mult.toNat?, price.toNat? with
    | some limit, some raw, some mult, some price =>
      let used := gasUsed limit raw 0 1 mult
      let st := settle limit used price
      s!"used={used} pay={st.deducted - st.refunded} refund={st.refunded}"
    | _, _, _, _ => "bad-op"
  | ["gasfail", limit, price] =>
    -- a tx whose message cannot start (ApplyMessage error): the whole up-front deduction is kept
    match limit.toNat?, price.toNat? with
    | some limit, some price => s!"used={limit} pay={limit * price} refund=0"
    | _, _ => "bad-op"
  | "deploy" :: _ => "ok"
  | ["cpay", mg, gas, fee, base, tip] =>
    -- a delivered Cosmos transaction: refused when the declared fee is below the floor, when (fee market in force) its
    -- price per gas is below the base fee, or when what it would be charged is below the floor
    (match mg.toNat?, gas.toNat?, fee.toNat? with
     | some mg, some gas, some fee =>
       let tipO : Option Nat := if tip == "-" then none else tip.toNat?
       if base == "nil" then (if cosmosFloorAccept mg gas fee then "accept" else "reject")
       else match base.toNat? with
         | some b =>
           if gas = 0 then "bad-op"
           else if fee / gas < b then "reject"
           else if cosmosFloorAcceptTx true true mg gas fee b tipO then "accept" else "reject"
         | none => "bad-op"
     | _, _, _ => "bad-op")
  | _ => "bad-op"

end Haqq.Driver.C07
