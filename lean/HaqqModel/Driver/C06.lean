import HaqqModel.Model.Ante
import HaqqModel.Driver.Util
import HaqqModel.Generated.Facts

namespace Haqq.Driver.C06
open Haqq.Ante

/- tree syntax (no spaces):  E | V | O<k> | G:E | G:V | G:O<k> | X(<tree>,<tree>,…) | X()
   a message list is a comma-separated sequence of trees; "-" is the empty list -/

def digits (cs : List Char) : Nat × List Char :=
  let ds := cs.takeWhile Char.isDigit
  (ds.foldl (fun acc c => acc * 10 + (c.toNat - '0'.toNat)) 0, cs.dropWhile Char.isDigit)

mutual
  partial def parseMsg : List Char → Option (Msg × List Char)
    | 'E' :: r => some (.eth, r)
    | 'V' :: r => some (.createVesting, r)
    | 'O' :: r => let (k, r') := digits r; some (.other k, r')
    | 'G' :: ':' :: 'E' :: r => some (.grant .eth, r)
    | 'G' :: ':' :: 'V' :: r => some (.grant .createVesting, r)
    | 'G' :: ':' :: 'O' :: r => let (k, r') := digits r; some (.grant (.other k), r')
    | 'X' :: '(' :: ')' :: r => some (.exec .nil, r)
    | 'X' :: '(' :: r =>
      match parseList r with
      | some (ms, ')' :: r') => some (.exec ms, r')
      | _ => none
    | _ => none
  partial def parseList (cs : List Char) : Option (MsgList × List Char) :=
    match parseMsg cs with
    | none => none
    | some (m, ',' :: r) =>
      match parseList r with
      | some (ms, r') => some (.cons m ms, r')
      | none => none
    | some (m, r) => some (.cons m .nil, r)
end

def parseMsgs (s : String) : Option MsgList :=
  if s == "-" then some .nil else
  match parseList s.toList with
  | some (ms, []) => some ms
  | _ => none

def parseExts (s : String) : Option (List Ext) :=
  if s == "-" then some [] else
  (s.splitOn ",").mapM fun t =>
    if t == "e" then some .ethTx else if t == "w" then some .web3Tx else if t == "d" then some .dynamicFee
    else if t.startsWith "u" then (t.drop 1).toNat?.map Ext.unknown else none

def maxN : Nat := Haqq.Facts.authzMaxNestedMsgs

/-- verdict classes as the harness observes them (anything behind the gate is "later"; on the EIP-712
    route the extension-count test sits behind fee deduction, so it is "later" as well) -/
def showVerdict (opts : List Ext) : Verdict → String
  | .rejectExt => "ext"
  | .rejectExtCount => if route opts == .eip712 then "later" else "extcount"
  | .rejectEthMsg => "ethmsg"
  | .rejectAuthz => "authz"
  | .rejectNonEth => "noneth"
  | .passGate => "later"

def step : List String → String
  | ["limiter", ms] =>
    match parseMsgs ms with
    | some ms => if authzLimiter maxN ms then "ok" else "reject"
    | none => "bad-op"
  | ["rejectmsgs", ms] =>
    match parseMsgs ms with
    | some ms => if hasTopLevelEth ms then "reject" else "ok"
    | none => "bad-op"
  | ["gate", opts, ms] =>
    match parseExts opts, parseMsgs ms with
    | some opts, some ms => showVerdict opts (deliver maxN opts ms)
    | _, _ => "bad-op"
  | ["gate712", opts] =>
    -- a validly signed EIP-712 transaction (one ordinary message) with these extension options, delivered: executed
    -- when the gate lets it pass, refused otherwise (here the signature verifier's own option count is reached)
    match parseExts opts, parseMsgs "O1" with
    | some opts, some ms => if deliver maxN opts ms = .passGate then "executed" else "reject"
    | _, _ => "bad-op"
  | ["ante", opts, ms] =>
    match parseExts opts, parseMsgs ms with
    | some opts, some ms => showVerdict opts (gate maxN opts ms)
    | _, _ => "bad-op"
  | _ => "bad-op"

end Haqq.Driver.C06
