import HaqqModel.Props.C08Model
import HaqqModel.Driver.Sched

namespace Haqq.Driver.C08
open Haqq.Sched Haqq.Vest Haqq.Driver

def step : List String → String
  | ["vspend", kind, pre, bal, amt, now] =>
    match parseWAcct pre, bal.toNat?, amt.toNat?, now.toInt? with
    | some (.vest a), some bal, some amt, some now =>
      if kind == "delegate" then
        if 0 < amt && delegateGuard bal (a.unvested now 0) amt && decide (amt ≤ bal) then "ok" else "reject"
      else
        match bankDebit bal (a.lockedCoins wireM now 0) amt with
        | some _ => "ok"
        | none => "reject"
    | some _, some bal, some amt, some _ => if amt ≤ bal then "ok" else "reject"     -- not a vesting account
    | _, _, _, _ => "bad-op"
  | "vgrant" :: _ => "skip"
  | "vtime" :: _ => "skip"
  | "vclaw" :: _ => "skip"
  | ["vunconv", pre, now] =>
    match parseWAcct pre, now.toInt? with
    | some (.vest a), some now => if unconvertGuard wireM a now then "ok" else "reject"
    | some _, some _ => "reject"                                                      -- not a vesting account
    | _, _ => "bad-op"
  | "vmon" :: _ => "skip"
  | ["vsuicide"] => "skip"
  | _ => "bad-op"

end Haqq.Driver.C08
