import HaqqModel.Model.Authz
import HaqqModel.Driver.Util

namespace Haqq.Driver.C04
open Haqq.Authz

/-- grant encoding: `none` | `U/<allow>` | `L<limit>/<allow>`; allow = comma separated validator ids or `-` -/
def parseGrant (s : String) : Option (Option Grant) :=
  if s == "none" then some none else
  match s.splitOn "/" with
  | [l, a] =>
    match parseNats a with
    | none => none
    | some allow =>
      if l == "U" then some (some { limit := none, allow := allow })
      else if l.startsWith "L" then (l.drop 1).toNat?.map fun n => some { limit := some n, allow := allow }
      else none
  | _ => none

def showGrant : Option Grant → String
  | none => "none"
  | some g => (match g.limit with | none => "U" | some l => s!"L{l}") ++ "/" ++ showNats g.allow

def step : List String → String
  | ["scall", o, c, d, v, a, g, n] =>
    match o.toNat?, c.toNat?, d.toNat?, v.toNat?, a.toNat?, parseGrant g with
    | some o, some c, some d, some v, some a, some g =>
      (match stakingCall { origin := o, caller := c, delegator := d, val := v, amt := a, native := n == "1" } g with
       | .reject => "reject"
       | .ok deb g' => s!"ok {deb} {showGrant g'}")
    | _, _, _, _, _, _ => "bad-op"
  | ["sallow", op, arg, allow, g] =>
    match parseGrant g, parseNats allow with
    | some g, some allow =>
      let aop : Option AOp :=
        match op with
        | "approve" => if arg == "max" then some (.approve none allow) else arg.toNat?.map fun n => .approve (some n) allow
        | "increase" => arg.toNat?.map .increase
        | "decrease" => arg.toNat?.map .decrease
        | "revoke" => some .revoke
        | _ => none
      (match aop with
       | some aop => let r := astep g aop; s!"{if r.2 then "ok" else "fail"} {showGrant r.1}"
       | none => "bad-op")
    | _, _ => "bad-op"
  | ["sallow2", op, arg, allow, gU, gD] =>
    match parseGrant gU, parseGrant gD with
    | some gU, some gD =>
      let aop : Option AOp :=
        match op with
        | "approve" => (match arg.toNat?, parseNats allow with | some n, some al => some (.approve (some n) al) | _, _ => none)
        | "increase" => arg.toNat?.map .increase
        | "decrease" => arg.toNat?.map .decrease
        | "revoke" => some .revoke
        | _ => none
      (match aop with
       | some aop =>
         let r := astepMany [gU, gD] aop
         s!"{if r.2 then "ok" else "fail"} {" ".intercalate (r.1.map showGrant)}"
       | none => "bad-op")
    | _, _ => "bad-op"
  | ["newval"] => "skip"
  | ["jailval", _] => "skip"
  | ["tick"] => "skip"
  | ["sdeny"] => "skip"
  | ["unjailval", _] => "skip"
  | _ => "bad-op"

end Haqq.Driver.C04
