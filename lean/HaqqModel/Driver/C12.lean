import HaqqModel.Model.Dao
import HaqqModel.Driver.Util
import HaqqModel.Generated.Facts

namespace Haqq.Driver.C12
open Haqq.Dao Haqq.Driver

structure St where
  M : Nat := 4
  s : State := State.init

def allowed (d : Nat) : Bool := d < 3      -- 0 = aISLM, 1,2 = aLIQUID<n>, 3 = foreign denom

def showErr : Err → String
  | .disabled => "err:disabled" | .insufficientBank => "err:insufficientBank"
  | .invalidDenom => "err:invalidDenom" | .notEligible => "err:notEligible"
  | .insufficientFunds => "err:insufficientFunds" | .invalidCoins => "err:invalidCoins"

/-! The state components are functions, and what the model's operations return are towers of closures that re-run the
    operation at every lookup.  After each operation the driver replaces them by pointwise-equal copies that answer
    from a table on the first 16 addresses and `M` denominations (and from the original function elsewhere). -/
def tab1 (n : Nat) (f : Nat → Nat) : Array Nat := ((List.range n).map f).toArray
def fromTab1 (t : Array Nat) (f : Nat → Nat) : Nat → Nat := fun d => match t[d]? with | some v => v | none => f d
def tab2 (n m : Nat) (f : Nat → Nat → Nat) : Array (Array Nat) := ((List.range n).map fun a => tab1 m (f a)).toArray
def fromTab2 (t : Array (Array Nat)) (f : Nat → Nat → Nat) : Nat → Nat → Nat :=
  fun a d => match t[a]? with
    | some r => (match r[d]? with | some v => v | none => f a d)
    | none => f a d
def tabB (n : Nat) (f : Nat → Bool) : Array Bool := ((List.range n).map f).toArray
def fromTabB (t : Array Bool) (f : Nat → Bool) : Nat → Bool := fun a => match t[a]? with | some v => v | none => f a

def normState (M : Nat) (s : State) : State :=
  { s with bal := fromTab2 (tab2 16 M s.bal) s.bal, total := fromTab1 (tab1 M s.total) s.total,
           holders := fromTabB (tabB 16 s.holders) s.holders, modBal := fromTab1 (tab1 M s.modBal) s.modBal,
           bank := fromTab2 (tab2 16 M s.bank) s.bank }

theorem range_map_get {β : Type} (n : Nat) (f : Nat → β) (d : Nat) (v : β)
    (h : ((List.range n).map f).toArray[d]? = some v) : v = f d := by
  rw [List.getElem?_toArray, List.getElem?_map] at h
  by_cases hd : d < n
  · rw [List.getElem?_range hd] at h
    simpa using h.symm
  · rw [List.getElem?_eq_none (by simpa using hd)] at h
    cases h

theorem fromTab1_tab1 (n : Nat) (f : Nat → Nat) : fromTab1 (tab1 n f) f = f := by
  funext d
  simp only [fromTab1, tab1]
  cases h : ((List.range n).map f).toArray[d]? with
  | none => rfl
  | some v => exact range_map_get n f d v h

theorem fromTabB_tabB (n : Nat) (f : Nat → Bool) : fromTabB (tabB n f) f = f := by
  funext d
  simp only [fromTabB, tabB]
  cases h : ((List.range n).map f).toArray[d]? with
  | none => rfl
  | some v => exact range_map_get n f d v h

theorem fromTab2_tab2 (n m : Nat) (f : Nat → Nat → Nat) : fromTab2 (tab2 n m f) f = f := by
  funext a d
  simp only [fromTab2, tab2]
  cases h : ((List.range n).map fun a => tab1 m (f a)).toArray[a]? with
  | none => rfl
  | some r =>
    have hr := range_map_get n (fun a => tab1 m (f a)) a r h
    simp only
    cases h2 : r[d]? with
    | none => rfl
    | some v =>
      rw [hr] at h2
      exact range_map_get m (f a) d v h2

/-- the table-backed copy is the same state -/
theorem normState_eq (M : Nat) (s : State) : normState M s = s := by
  simp only [normState, fromTab1_tab1, fromTab2_tab2, fromTabB_tabB]

def apply (st : St) (r : Except Err State) : St × String :=
  match r with
  | .ok s' => ({ st with s := normState st.M s' }, "ok")
  | .error e => (st, showErr e)

def dump (st : St) (N : Nat) : String :=
  let addrs := List.range N
  let dens := List.range st.M
  let bal := addrs.flatMap fun a => dens.filterMap fun d =>
    if st.s.bal a d > 0 then some s!"{a}:{d}={st.s.bal a d}" else none
  let tot := dens.filterMap fun d => if st.s.total d > 0 then some s!"{d}={st.s.total d}" else none
  let md := dens.filterMap fun d => if st.s.modBal d > 0 then some s!"{d}={st.s.modBal d}" else none
  let hs := addrs.filter fun a => st.s.holders a
  let bk := addrs.flatMap fun a => dens.filterMap fun d =>
    if st.s.bank a d > 0 then some s!"{a}:{d}={st.s.bank a d}" else none
  s!"bal[{",".intercalate bal}] total[{",".intercalate tot}] mod[{",".intercalate md}] holders[{showNats hs}] bank[{",".intercalate bk}]"

def order : Bool := Haqq.Facts.daoTransferCreditFirst

def step (st : St) : List String → St × String
  | ["reset", m] => match m.toNat? with
      | some m => ({ M := m, s := State.init }, "ok")
      | none => (st, "bad-op")
  | ["mint", a, d, v] => match a.toNat?, d.toNat?, v.toNat? with
      | some a, some d, some v => apply st (Dao.step st.M allowed order st.s (.bankMint a d v))
      | _, _, _ => (st, "bad-op")
  | ["enable", b] => apply st (Dao.step st.M allowed order st.s (.setEnabled (b == "1")))
  | ["fund", a, c] => match a.toNat?, parseCoins c with
      | some a, some c => apply st (Dao.step st.M allowed order st.s (.fund a c))
      | _, _ => (st, "bad-op")
  | ["xferall", a, b] => match a.toNat?, b.toNat? with
      | some a, some b => apply st (Dao.step st.M allowed order st.s (.transferAll a b))
      | _, _ => (st, "bad-op")
  | ["xferamt", a, b, c] => match a.toNat?, b.toNat?, parseCoins c with
      | some a, some b, some c => apply st (Dao.step st.M allowed order st.s (.transferAmount a b c))
      | _, _, _ => (st, "bad-op")
  | ["xferratio", a, b, r] =>
      -- msgServer.TransferOwnershipWithRatio: ValidateBasic 0 < ratio ≤ 1 (18-decimal raw integer),
      -- then amount_d = ⌊bal_d · ratio⌋ for every held denomination (zero amounts kept in the list)
      match a.toNat?, b.toNat?, r.toNat? with
      | some a, some b, some r =>
        if r = 0 || r > 10^18 then (st, "err:invalidRatio")
        else
          let coins := (accountCoins (st.s.bal a) st.M).map fun (d, v) => (d, v * r / 10^18)
          if coins.isEmpty then (st, "err:notEligible")
          else apply st (Dao.transfer st.M order st.s a b coins)
      | _, _, _ => (st, "bad-op")
  | ["crowd", _] => (st, "skip")
  | ["export"] => (st, "skip")
  | "reimport" :: _ => (st, "skip")
  | ["dump", n] => match n.toNat? with
      | some n => (st, dump st n)
      | none => (st, "bad-op")
  | _ => (st, "bad-op")

end Haqq.Driver.C12
