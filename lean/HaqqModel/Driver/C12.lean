import HaqqModel.Model.Dao
import HaqqModel.Driver.Util
import HaqqModel.Generated.Facts

namespace Haqq.Driver.C12
open Haqq.Dao Haqq.Driver

structure St where
  M : Nat := 4
  s : State := State.init

def allowed (d : Nat) : Bool := d < 3      -- 0 = aISLM, 1,2 = aLIQUID<n>, 3 = foreign denom

def showErr : Err → String
  | .disabled => "err:disabled" | .insufficientBank => "err:insufficientBank"
  | .invalidDenom => "err:invalidDenom" | .notEligible => "err:notEligible"
  | .insufficientFunds => "err:insufficientFunds" | .invalidCoins => "err:invalidCoins"

def apply (st : St) (r : Except Err State) : St × String :=
  match r with
  | .ok s' => ({ st with s := s' }, "ok")
  | .error e => (st, showErr e)

def dump (st : St) (N : Nat) : String :=
  let addrs := List.range N
  let dens := List.range st.M
  let bal := addrs.flatMap fun a => dens.filterMap fun d =>
    if st.s.bal a d > 0 then some s!"{a}:{d}={st.s.bal a d}" else none
  let tot := dens.filterMap fun d => if st.s.total d > 0 then some s!"{d}={st.s.total d}" else none
  let md := dens.filterMap fun d => if st.s.modBal d > 0 then some s!"{d}={st.s.modBal d}" else none
  let hs := addrs.filter fun a => st.s.holders a
  let bk := addrs.flatMap fun a => dens.filterMap fun d =>
    if st.s.bank a d > 0 then some s!"{a}:{d}={st.s.bank a d}" else none
  s!"bal[{",".intercalate bal}] total[{",".intercalate tot}] mod[{",".intercalate md}] holders[{showNats hs}] bank[{",".intercalate bk}]"

def order : Bool := Haqq.Facts.daoTransferCreditFirst

def step (st : St) : List String → St × String
  | ["reset", m] => match m.toNat? with
      | some m => ({ M := m, s := State.init }, "ok")
      | none => (st, "bad-op")
  | ["mint", a, d, v] => match a.toNat?, d.toNat?, v.toNat? with
      | some a, some d, some v => apply st (Dao.step st.M allowed order st.s (.bankMint a d v))
      | _, _, _ => (st, "bad-op")
  | ["enable", b] => apply st (Dao.step st.M allowed order st.s (.setEnabled (b == "1")))
  | ["fund", a, c] => match a.toNat?, parseCoins c with
      | some a, some c => apply st (Dao.step st.M allowed order st.s (.fund a c))
      | _, _ => (st, "bad-op")
  | ["xferall", a, b] => match a.toNat?, b.toNat? with
      | some a, some b => apply st (Dao.step st.M allowed order st.s (.transferAll a b))
      | _, _ => (st, "bad-op")
  | ["xferamt", a, b, c] => match a.toNat?, b.toNat?, parseCoins c with
      | some a, some b, some c => apply st (Dao.step st.M allowed order st.s (.transferAmount a b c))
      | _, _, _ => (st, "bad-op")
  | ["xferratio", a, b, r] =>
      -- msgServer.TransferOwnershipWithRatio: ValidateBasic 0 < ratio ≤ 1 (18-decimal raw integer),
      -- then amount_d = ⌊bal_d · ratio⌋ for every held denomination (zero amounts kept in the list)
      match a.toNat?, b.toNat?, r.toNat? with
      | some a, some b, some r =>
        if r = 0 || r > 10^18 then (st, "err:invalidRatio")
        else
          let coins := (accountCoins (st.s.bal a) st.M).map fun (d, v) => (d, v * r / 10^18)
          if coins.isEmpty then (st, "err:notEligible")
          else apply st (Dao.transfer st.M order st.s a b coins)
      | _, _, _ => (st, "bad-op")
  | ["dump", n] => match n.toNat? with
      | some n => (st, dump st n)
      | none => (st, "bad-op")
  | _ => (st, "bad-op")

end Haqq.Driver.C12
