/-
  Line-protocol side of Model/Script.lean: parses the comma-separated script tokens of a `ptx` line and prints the
  reading (the reference outcome) the way harness/props/c05.go prints the one it computes itself.  Core Lean only.
-/
import HaqqModel.Model.Script
import HaqqModel.Driver.Util

namespace Haqq.Driver.Script
open Haqq.Script

/-- parses tokens up to the closing bracket of the current frame; returns the tokens, whether the frame was closed by
    `]R` (`some true`), by `]` (`some false`) or by the end of the input (`none`), and what is left -/
partial def parseSeq : List String → Option (List Tok × Option Bool × List String)
  | [] => some ([], none, [])
  | "]" :: rest => some ([], some false, rest)
  | "]R" :: rest => some ([], some true, rest)
  | "[" :: rest =>
    match parseSeq rest with
    | some (body, some rv, rest') =>
      (match parseSeq rest' with
       | some (ts, c, r) => some (Tok.frame rv body :: ts, c, r)
       | none => none)
    | _ => none
  | t :: rest =>
    let tok : Option Tok :=
      match t.splitOn ":" with
      | ["S", k, v] => (do let k ← k.toNat?; let v ← v.toNat?; pure (Tok.sstore k v))
      | ["L"] => some Tok.log
      | ["P", a] => a.toNat?.map Tok.pay
      | ["D", a] => a.toNat?.map Tok.delegE
      | ["d", a] => a.toNat?.map Tok.delegE
      | ["G", a] => a.toNat?.map Tok.delegP
      | ["U", a] => a.toNat?.map Tok.undelegE
      | ["W"] => some Tok.claimP
      | ["C"] => some Tok.claimP
      | ["Z", _] => some Tok.touchModule
      | ["z", _, _] => some Tok.touchModule
      | _ => none
    match tok, parseSeq rest with
    | some tk, some (ts, c, r) => some (tk :: ts, c, r)
    | _, _ => none

def optNat (s : String) : Option (Option Nat) := if s == "-" then some none else s.toNat?.map some

/-- ptx <value> <pending E> <pending P> <slot0,slot1,slot2> <script> -/
def step : List String → String
  | [value, pe, pp, slots, script] =>
    match value.toNat?, optNat pe, optNat pp, parseNats slots with
    | some value, some pe, some pp, some [s0, s1, s2] =>
      let toks := if script == "-" then some ([], none, []) else parseSeq (script.splitOn ",")
      (match toks with
       | some (ts, none, []) =>
         let r := evalToks (Ref.start value pe pp (fun i => if i = 0 then s0 else if i = 1 then s1 else if i = 2 then s2 else 0)) ts
         s!"ref dE={r.dE} dP={r.dP} dX={r.dX} bondE={r.bondE} bondP={r.bondP} logs={r.logs} slots={r.slots 0},{r.slots 1},{r.slots 2}"
       | _ => "bad-op")
    | _, _, _, _ => "bad-op"
  | _ => "bad-op"

end Haqq.Driver.Script
