import HaqqModel.Driver.Sched
import HaqqModel.Generated.Facts

namespace Haqq.Driver.C09
open Haqq.Sched Haqq.Vest Haqq.Driver

structure St where
  acct : Option Account := none

def showVErr : VErr → String
  | .startNotBeforeEnd => "err:startNotBeforeEnd" | .lockupBeyondEnd => "err:lockupBeyondEnd"
  | .lockupSum => "err:lockupSum" | .vestingBeyondEnd => "err:vestingBeyondEnd" | .vestingSum => "err:vestingSum"

def step (st : St) : List String → St × String
  | ["read", s, e, ps, tot, t] =>
    match s.toInt?, e.toInt?, parsePeriods ps, parseAmt tot, t.toInt? with
    | some s, some e, some ps, some tot, some t => (st, showAmt (readSchedule s e ps tot t))
    | _, _, _, _, _ => (st, "bad-op")
  | ["past", s, e, ps, t] =>
    match s.toInt?, e.toInt?, parsePeriods ps, t.toInt? with
    | some s, some e, some ps, some t => (st, toString (readPastPeriodCount s e ps t))
    | _, _, _, _ => (st, "bad-op")
  | ["disj", sA, sB, pA, pB] =>
    match sA.toInt?, sB.toInt?, parsePeriods pA, parsePeriods pB with
    | some sA, some sB, some pA, some pB => (st, showMerged (disjunctPeriods sA sB pA pB))
    | _, _, _, _ => (st, "bad-op")
  | ["conj", sA, sB, pA, pB] =>
    match sA.toInt?, sB.toInt?, parsePeriods pA, parsePeriods pB with
    | some sA, some sB, some pA, some pB => (st, showMerged (conjunctPeriods wireM sA sB pA pB))
    | _, _, _, _ => (st, "bad-op")
  | ["align", sA, sB, pA, pB] =>
    match sA.toInt?, sB.toInt?, parsePeriods pA, parsePeriods pB with
    | some sA, some sB, some pA, some pB =>
      let r := alignSchedules sA sB pA pB
      (st, s!"{r.1} {r.2}")
    | _, _, _, _ => (st, "bad-op")
  | ["acct", f, s, orig, l, v] =>
    -- NewClawbackVestingAccount(funder, originalVesting, start, lockup, vesting)
    match f.toNat?, s.toInt?, parseAmt orig, parsePeriods l, parsePeriods v with
    | some f, some s, some orig, some l, some v =>
      let a := newAccount f s orig l v
      ({ acct := some a }, showAccount a)
    | _, _, _, _, _ => (st, "bad-op")
  | ["deleg", df, dv] =>
    match st.acct, parseAmt df, parseAmt dv with
    | some a, some df, some dv => ({ acct := some { a with delegatedFree := df, delegatedVesting := dv } }, "ok")
    | _, _, _ => (st, "bad-op")
  | ["setend", e] =>
    match st.acct, e.toInt? with
    | some a, some e => ({ acct := some { a with endT := e } }, "ok")
    | _, _ => (st, "bad-op")
  | ["q", t] =>
    match st.acct, t.toInt? with
    | some a, some t =>
      (st, s!"unl={showAmt (a.unlocked t)} ves={showAmt (a.vested t)} unv={showAmt (a.unvested t)} lup={showAmt (a.lockedUp t)} uv={showAmt (a.unlockedVested t)} luv={showAmt (a.lockedUpVested t)} locked={showAmt (a.lockedCoins wireM t)}")
    | _, _ => (st, "bad-op")
  | ["validate"] =>
    match st.acct with
    | some a => (st, match a.validate Haqq.Facts.vestingValidateStrict wireM with | .ok _ => "ok" | .error e => showVErr e)
    | none => (st, "bad-op")
  | ["claw", t] =>
    match st.acct, t.toInt? with
    | some a, some t =>
      let r := a.computeClawback wireM t
      let a' := normAccount r.1
      ({ acct := some a' }, s!"clawed={showAmt r.2} {showAccount a'}")
    | _, _ => (st, "bad-op")
  -- ---- message level (stateless: the pre-state is part of the op line) ----
  | ["mreset"] => (st, "ok")
  | ["mtime", _] => (st, "ok")
  | ["mcreate", kind, pre, funder, start, l, v, merge] =>
    -- kind = C: MsgCreateClawbackVestingAccount ; kind = A: MsgConvertIntoVestingAccount (ApplyVestingSchedule)
    match parseWAcct pre, funder.toNat?, start.toInt?, parsePeriods l, parsePeriods v with
    | some pre, some funder, some start, some l, some v =>
      match msgSchedules l v with
      | none => (st, "err:unequal")
      | some (l', v', coins) =>
        let mergeB := merge == "1"
        match pre with
        | .none => (st, s!"ok {showWAcct (newAccount funder start coins l' v')}")
        | .plain =>
          if kind == "C" then (st, "err:exists")
          else (st, s!"ok {showWAcct (newAccount funder start coins l' v')}")   -- EthAccount converted in place
        | .vest a =>
          if !mergeB then (st, "err:exists")
          else if a.funder ≠ funder then (st, "err:funder")
          else
            let gs := if kind == "C" then start else applyGrantStart Haqq.Facts.vestingApplyUsesMin a.start start
            let a' := a.addGrant gs l' v' coins
            -- addGrant resets the delegation tracking from staking state (nothing delegated in these runs)
            (st, s!"ok {showWAcct { a' with delegatedFree := Amt.zero, delegatedVesting := Amt.zero }}")
    | _, _, _, _, _ => (st, "bad-op")
  | ["mclaw", pre, msgFunder, now] =>
    match parseWAcct pre, msgFunder.toNat?, now.toInt? with
    | some pre, some mf, some now =>
      let acc := match pre with | .vest a => some a | _ => none
      match clawbackMsg wireM acc mf false now with
      | .ok (a', amt) => (st, s!"ok clawed={showAmt amt} {showWAcct a'}")
      | .error .notVesting => (st, "err:notVesting")
      | .error .noPeriods => (st, "err:noPeriods")
      | .error .notFunder => (st, "err:notFunder")
      | .error .blocked => (st, "err:blocked")
    | _, _, _ => (st, "bad-op")
  | ["mfunder", pre, msgFunder, newFunder] =>
    match parseWAcct pre, msgFunder.toNat?, newFunder.toNat? with
    | some pre, some mf, some nf =>
      let acc := match pre with | .vest a => some a | _ => none
      match updateFunderMsg acc mf nf false with
      | .ok a' => (st, s!"ok {showWAcct a'}")
      | .error .notVesting => (st, "err:notVesting")
      | .error .notFunder => (st, "err:notFunder")
      | .error _ => (st, "err:other")
    | _, _, _ => (st, "bad-op")
  | _ => (st, "bad-op")

end Haqq.Driver.C09
