import HaqqModel.Model.Peg
import HaqqModel.Driver.Util

namespace Haqq.Driver.C10
open Haqq.Peg

structure St where
  pairs : List (Nat × Pair) := []

def getPair (st : St) (id : Nat) : Option Pair := (st.pairs.find? (·.1 == id)).map (·.2)
def setPair (st : St) (id : Nat) (p : Pair) : St := { pairs := (id, p) :: st.pairs.filter (·.1 != id) }

def users : List Nat := [1, 2, 3]

def dump (p : Pair) : String :=
  s!"esc={p.escrow} cs={p.coinSupply} ts={p.tokSupply} mod={p.tokBal modAddr} c={",".intercalate (users.map fun u => toString (p.coinBal u))} t={",".intercalate (users.map fun u => toString (p.tokBal u))}"

def run (st : St) (id : String) (f : Pair → Pair × Bool) : St × String :=
  match id.toNat? with
  | none => (st, "bad-op")
  | some id =>
    match getPair st id with
    | none => (st, "no-pair")
    | some p =>
      let r := f p
      (setPair st id r.1, (if r.2 then "ok " else "rej ") ++ dump r.1)

def step (st : St) : List String → St × String
  | ["preset", id, ext, c1, c2, c3, t1, t2, t3] =>
    match id.toNat?, [c1, c2, c3].mapM (·.toNat?), [t1, t2, t3].mapM (·.toNat?) with
    | some id, some cs, some ts =>
      let cb : Nat → Nat := fun a => if a = 0 then 0 else cs.getD (a - 1) 0
      let tb : Nat → Nat := fun a => if a = 0 then 0 else ts.getD (a - 1) 0
      let p : Pair := { external := ext == "1", enabled := true, escrow := 0, coinSupply := cs.foldl (· + ·) 0,
                        coinBal := cb, tokSupply := ts.foldl (· + ·) 0, tokBal := tb }
      (setPair st id p, "ok " ++ dump p)
    | _, _, _ => (st, "bad-op")
  | ["cc", id, s, r, x] =>
    (match s.toNat?, r.toNat?, x.toNat? with
     | some s, some r, some x => run st id (fun p => Haqq.Peg.step p (.convertCoin s r x))
     | _, _, _ => (st, "bad-op"))
  | ["ccalias", id, _, _, _] =>
    -- MsgConvertCoin naming the pair by its contract address: the sender's balance of that "denomination" is 0, so the
    -- conversion is `convertCoin` of an account without coins: refused (convertCoin_without_coins_refused)
    run st id (fun p => (p, false))
  | ["ce", id, s, r, x] =>
    (match s.toNat?, r.toNat?, x.toNat? with
     | some s, some r, some x => run st id (fun p => Haqq.Peg.step p (.convertERC20 s r x))
     | _, _, _ => (st, "bad-op"))
  | ["tr", id, f, t, x] =>
    (match f.toNat?, t.toNat?, x.toNat? with
     | some f, some t, some x => run st id (fun p => Haqq.Peg.step p (.transfer f t x))
     | _, _, _ => (st, "bad-op"))
  | ["burn", id, f, x] =>
    (match f.toNat?, x.toNat? with
     | some f, some x => run st id (fun p => Haqq.Peg.step p (.burnOwn f x))
     | _, _ => (st, "bad-op"))
  | ["mint", id, r, x] =>
    (match r.toNat?, x.toNat? with
     | some r, some x => run st id (fun p => Haqq.Peg.step p (.mintExt r x))
     | _, _ => (st, "bad-op"))
  | ["toggle", id] => run st id (fun p => Haqq.Peg.step p .toggle)
  | ["send", id, f, t, x] =>
    (match f.toNat?, t.toNat?, x.toNat? with
     | some f, some t, some x => run st id (fun p => sendStep p f t x)
     | _, _, _ => (st, "bad-op"))
  | ["appr", id, _, _, _] => run st id (fun p => (p, true))     -- ERC20 approve: no balance moves
  | ["multi", id, x, _] =>
    -- one transaction: the contract (address 4) transfers x tokens to user 2, then two Transfer logs of an
    -- UNREGISTERED token name the module address: only the first has any effect on the pair
    (match x.toNat? with
     | some x => run st id (fun p => Haqq.Peg.step p (.transfer 4 2 x))
     | none => (st, "bad-op"))
  | "mal" :: _ => (st, "skip")
  | _ => (st, "bad-op")

end Haqq.Driver.C10
