import HaqqModel.Model.LiquidVesting
import HaqqModel.Driver.Sched

namespace Haqq.Driver.C11
open Haqq.Sched Haqq.Vest Haqq.Liquid Haqq.Driver

def step : List String → String
  | ["sub", ps, d, s] =>
    match parsePeriods ps, d.toNat?, s.toNat? with
    | some ps, some d, some s =>
      -- sdk.Int is a 256-bit integer: `minuendCoinAmount.Mul(subtrahendAmount)` panics on overflow
      -- (only after the "insufficient locked up funds" test passed)
      if (subtractAmountFromPeriods ps d s).isSome && ps.any (fun p => p.amount d * s ≥ 2 ^ 256) then "panic" else
      match subtractAmountFromPeriods ps d s with
      | some (dec, diff) => s!"ok dec={showPeriods dec} diff={showPeriods diff}"
      | none => "err"
    | _, _, _ => "bad-op"
  | ["upcoming", s, e, ps, t] =>
    match s.toInt?, e.toInt?, parsePeriods ps, t.toInt? with
    | some s, some e, some ps, some t => showPeriods (extractUpcoming s e ps t)
    | _, _, _, _ => "bad-op"
  | ["pastp", s, e, ps, t] =>
    match s.toInt?, e.toInt?, parsePeriods ps, t.toInt? with
    | some s, some e, some ps, some t => showPeriods (extractPast s e ps t)
    | _, _, _, _ => "bad-op"
  | ["rtail", ps, rp] =>
    match parsePeriods ps, parsePeriods rp with
    | some ps, some rp => showPeriods (replaceTail ps rp)
    | _, _ => "bad-op"
  | ["shift", s, now, ps] =>
    match s.toInt?, now.toInt?, parsePeriods ps with
    | some s, some now, some ps => toString (currentPeriodShift s now ps)
    | _, _, _ => "bad-op"
  | _ => "bad-op"

end Haqq.Driver.C11
