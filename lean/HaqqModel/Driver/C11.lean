import HaqqModel.Model.LiquidVesting
import HaqqModel.Driver.Sched
import HaqqModel.Generated.Facts

namespace Haqq.Driver.C11
open Haqq.Sched Haqq.Vest Haqq.Liquid Haqq.Driver

def step : List String → String
  | ["sub", ps, d, s] =>
    match parsePeriods ps, d.toNat?, s.toNat? with
    | some ps, some d, some s =>
      -- sdk.Int is a 256-bit integer: `minuendCoinAmount.Mul(subtrahendAmount)` panics on overflow
      -- (only after the "insufficient locked up funds" test passed)
      if (subtractAmountFromPeriods ps d s).isSome && ps.any (fun p => p.amount d * s ≥ 2 ^ 256) then "panic" else
      match subtractAmountFromPeriods ps d s with
      | some (dec, diff) => s!"ok dec={showPeriods dec} diff={showPeriods diff}"
      | none => "err"
    | _, _, _ => "bad-op"
  | ["upcoming", s, e, ps, t] =>
    match s.toInt?, e.toInt?, parsePeriods ps, t.toInt? with
    | some s, some e, some ps, some t => showPeriods (extractUpcoming s e ps t)
    | _, _, _, _ => "bad-op"
  | ["pastp", s, e, ps, t] =>
    match s.toInt?, e.toInt?, parsePeriods ps, t.toInt? with
    | some s, some e, some ps, some t => showPeriods (extractPast s e ps t)
    | _, _, _, _ => "bad-op"
  | ["rtail", ps, rp] =>
    match parsePeriods ps, parsePeriods rp with
    | some ps, some rp => showPeriods (replaceTail ps rp)
    | _, _ => "bad-op"
  | ["shift", s, now, ps] =>
    match s.toInt?, now.toInt?, parsePeriods ps with
    | some s, some now, some ps => toString (currentPeriodShift s now ps)
    | _, _, _ => "bad-op"
  -- ---- message level (stateless) ----
  | ["mreset"] => "ok"
  | ["mtime", _] => "ok"
  | "mcreate" :: _ => "skip"      -- account set-up for the liquid-vesting cases; checked under C09
  | ["mliq", pre, amt, now] =>
    match parseWAcct pre, amt.toNat?, now.toInt? with
    | some (.vest a), some amt, some now =>
      match liquidate wireM a 0 amt now with
      | .ok (a', ld) => s!"ok {showWAcct a'} denom={ld.start},{ld.endT},{showPeriods ld.periods}"
      | .error .hasUnvested => "err:hasUnvested"
      | .error .noTarget => "err:noTarget"
      | .error .insufficientLocked => "err:insufficientLocked"
      | .error .scheduleFailed => "err:scheduleFailed"
    | some _, some _, some _ => "err:notVesting"
    | _, _, _ => "bad-op"
  | ["mredeem", dstart, dend, dperiods, pre, amt, now] =>
    -- pre = the recipient before the redeem; output: what is left of the denomination and the recipient after
    match dstart.toInt?, dend.toInt?, parsePeriods dperiods, parseWAcct pre, amt.toNat?, now.toInt? with
    | some ds, some de, some dp, some pre, some amt, some now =>
      -- the holder's balance is at most the supply, which equals the schedule's total (C11 backing invariant)
      if dp.isEmpty then "err:schedule" else
      if amt > sumList (dp.map fun p => p.amount 0) then "err:insufficient" else
      match redeem { start := ds, endT := de, periods := dp } 0 amt now with
      | none => "err:schedule"
      | some (left, grant) =>
        let leftS := match left with | some l => s!"{l.start},{l.endT},{showPeriods l.periods}" | none => "deleted"
        let coins : Amt := single 0 amt
        let acctS := match grant with
          | none => (match pre with | .vest a => showWAcct a | _ => "plain")
          | some (gs, gl, gv) =>
            match pre with
            | .vest a =>
              let gs' := applyGrantStart Haqq.Facts.vestingApplyUsesMin a.start gs
              let a' := a.addGrant gs' gl gv coins
              showWAcct { a' with delegatedFree := Amt.zero, delegatedVesting := Amt.zero }
            | _ => showWAcct (newAccount 999 gs coins gl gv)      -- funder = the module account (printed as 999)
        s!"ok left={leftS} acct={acctS}"
    | _, _, _, _, _, _ => "bad-op"
  | _ => "bad-op"

end Haqq.Driver.C11
