import HaqqModel.Model.EthTx
import HaqqModel.Driver.Util

namespace Haqq.Driver.C18
open Haqq.EthTx

def hexVal (c : Char) : Nat :=
  if c.isDigit then c.toNat - '0'.toNat else if 'a' ≤ c && c ≤ 'f' then c.toNat - 'a'.toNat + 10 else 0

def parseHex (s : String) : List Nat :=
  if s == "-" then [] else
  let rec go : List Char → List Nat
    | a :: b :: rest => (hexVal a * 16 + hexVal b) :: go rest
    | _ => []
  go s.toList

def hexDigit (n : Nat) : Char := if n < 10 then Char.ofNat (n + 48) else Char.ofNat (n - 10 + 97)
def showHex (bs : List Nat) : String :=
  if bs.isEmpty then "-" else String.ofList (bs.flatMap fun b => [hexDigit (b / 16), hexDigit (b % 16)])

def showOpt : Option Nat → String
  | some n => toString n
  | none => "nil"

/-- "addr:key.key;addr:" | "-" -/
def parseAccess (s : String) : Option (List (Nat × List Nat)) :=
  if s == "-" then some [] else
  (s.splitOn ";").mapM fun t =>
    match t.splitOn ":" with
    | [a, ks] => do
      let a ← a.toNat?
      let ks ← if ks == "" then some [] else (ks.splitOn ".").mapM (·.toNat?)
      pure (a, ks)
    | _ => none

def step : List String → String
  | ["tx", typ, chain, nonce, gas, gp, tip, cap, to, value, data, access, v, r, s, base] =>
    match typ.toNat?, chain.toNat?, nonce.toNat?, gas.toNat?, gp.toNat?, tip.toNat?, cap.toNat?, value.toNat?,
          parseAccess access, v.toNat?, r.toNat?, s.toNat?, (if base == "nil" then some none else base.toNat?.map some) with
    | some typ, some chain, some nonce, some gas, some gp, some tip, some cap, some value, some access,
      some v, some r, some s, some baseO =>
      let toO : Option Nat := if to == "-" then none else to.toNat?
      let t : EthTx := { typ := typ, chainId := (if typ = 0 then 0 else chain),   -- a legacy tx carries its chain id only inside v
                         nonce := nonce, gas := gas, gasPrice := gp, gasTipCap := tip,
                         gasFeeCap := cap, to := toO, value := value, data := parseHex data, access := access,
                         v := v, r := r, s := s }
      match fromEth t with
      | none => "err:overflow"
      | some p =>
        let rt := if asEth p == t then "1" else "0"
        let ep := (p.effectiveGasPriceO true baseO).getD 0
        s!"ok chain={showOpt p.chainId} gp={showOpt p.gasPrice} tip={showOpt p.gasTipCap} cap={showOpt p.gasFeeCap} amt={showOpt p.amount} to={showOpt p.to} vb={showHex p.v} rb={showHex p.r} sb={showHex p.s} fee={p.fee} cost={p.cost} ep={ep} ef={ep * p.gas} ec={ep * p.gas + p.amount.getD 0} rt={rt}"
    | _, _, _, _, _, _, _, _, _, _, _, _, _ => "bad-op"
  | _ => "bad-op"

end Haqq.Driver.C18
