import HaqqModel.Model.Vesting
import HaqqModel.Driver.Util

namespace Haqq.Driver
open Haqq.Sched Haqq.Vest

/-- number of denominations used on the wire -/
def wireM : Nat := 3

def amtOfCoins (l : List (Nat × Nat)) : Amt :=
  fun d => (l.filter (·.1 == d)).foldl (fun acc p => acc + p.2) 0

def coinsOfAmt (a : Amt) : List (Nat × Nat) :=
  (List.range wireM).filterMap fun d => if a d > 0 then some (d, a d) else none

def showAmt (a : Amt) : String := showCoins (coinsOfAmt a)

/-! Amounts are functions, and what the model's operations return are towers of closures that re-run the operation at
    every lookup.  Between operations the driver replaces them by pointwise-equal copies that answer from a table on
    the denominations the wire uses (and from the original function elsewhere). -/
def amtTable (a : Amt) : Array Nat := ((List.range wireM).map a).toArray
def tableAmt (arr : Array Nat) (orig : Amt) : Amt := fun d => match arr[d]? with | some v => v | none => orig d
def normAmt (a : Amt) : Amt := tableAmt (amtTable a) a
def normPeriods (ps : List Period) : List Period := ps.map fun p => ⟨p.length, tableAmt (amtTable p.amount) p.amount⟩
def normAccount (a : Account) : Account :=
  { a with original := tableAmt (amtTable a.original) a.original, lockup := normPeriods a.lockup, vesting := normPeriods a.vesting,
           delegatedFree := tableAmt (amtTable a.delegatedFree) a.delegatedFree,
           delegatedVesting := tableAmt (amtTable a.delegatedVesting) a.delegatedVesting }

theorem tableAmt_amtTable (a : Amt) : tableAmt (amtTable a) a = a := by
  funext d
  simp only [tableAmt, amtTable]
  cases h : ((List.range wireM).map a).toArray[d]? with
  | none => rfl
  | some v =>
    simp only
    rw [List.getElem?_toArray, List.getElem?_map] at h
    cases h2 : (List.range wireM)[d]? with
    | none => rw [h2] at h; cases h
    | some i =>
      rw [h2] at h
      simp only [Option.map_some, Option.some.injEq] at h
      have : i = d := by
        have := List.getElem?_range (n := wireM) (i := d)
        by_cases hd : d < wireM
        · rw [List.getElem?_range hd] at h2; exact (Option.some.inj h2).symm
        · rw [List.getElem?_eq_none (by simpa using hd)] at h2; cases h2
      rw [← h, this]

def parseAmt (s : String) : Option Amt := (parseCoins s).map amtOfCoins

/-- "len@coins;len@coins" | "-" -/
def parsePeriods (s : String) : Option (List Period) :=
  if s == "-" then some [] else
  (s.splitOn ";").mapM fun item =>
    match item.splitOn "@" with
    | [l, c] => do let l ← l.toInt?; let a ← parseAmt c; pure ⟨l, a⟩
    | _ => none

theorem normPeriods_eq (ps : List Period) : normPeriods ps = ps := by
  induction ps with
  | nil => rfl
  | cons p ps ih =>
    simp only [normPeriods, List.map_cons, tableAmt_amtTable] at ih ⊢
    rw [ih]

/-- the table-backed copy is the same account -/
theorem normAccount_eq (a : Account) : normAccount a = a := by
  simp only [normAccount, tableAmt_amtTable, normPeriods_eq]

def showPeriods (ps : List Period) : String :=
  if ps.isEmpty then "-" else ";".intercalate (ps.map fun p => s!"{p.length}@{showAmt p.amount}")

def showMerged (m : Merged) : String := s!"{m.start} {m.endT} {showPeriods m.periods}"

def showAccount (a : Account) : String :=
  s!"funder={a.funder} start={a.start} end={a.endT} orig={showAmt a.original} lockup={showPeriods a.lockup} vesting={showPeriods a.vesting} df={showAmt a.delegatedFree} dv={showAmt a.delegatedVesting}"

end Haqq.Driver

namespace Haqq.Driver
open Haqq.Sched Haqq.Vest

/-- account on the wire: "none" | "plain" | funder|start|end|orig|lockup|vesting|df|dv (8 fields joined by '|') -/
inductive WAcct | none | plain | vest (a : Account)

def parseWAcct (s : String) : Option WAcct :=
  if s == "none" then some .none else if s == "plain" then some .plain else
  match s.splitOn "|" with
  | [f, st, e, o, l, v, df, dv] => do
    let f ← f.toNat?; let st ← st.toInt?; let e ← e.toInt?; let o ← parseAmt o
    let l ← parsePeriods l; let v ← parsePeriods v; let df ← parseAmt df; let dv ← parseAmt dv
    pure (.vest { funder := f, start := st, endT := e, original := o, lockup := l, vesting := v,
                  delegatedFree := df, delegatedVesting := dv })
  | _ => Option.none

def showWAcct (a : Account) : String :=
  s!"{a.funder}|{a.start}|{a.endT}|{showAmt a.original}|{showPeriods a.lockup}|{showPeriods a.vesting}|{showAmt a.delegatedFree}|{showAmt a.delegatedVesting}"

/-- the schedule defaults and the equal-totals test shared by MsgCreateClawbackVestingAccount and
    MsgConvertIntoVestingAccount: (lockup, vesting, coins) or none ("lockup and vesting amounts must be equal") -/
def msgSchedules (lockup vesting : List Period) : Option (List Period × List Period × Amt) :=
  let vc := totalAmount vesting
  let lc := totalAmount lockup
  let lockup' := if !Amt.isZero wireM vc && lockup.isEmpty then [(⟨0, vc⟩ : Period)] else lockup
  let lc' := if !Amt.isZero wireM vc && lockup.isEmpty then vc else lc
  let vesting' := if !Amt.isZero wireM lc' && vesting.isEmpty then [(⟨0, lc'⟩ : Period)] else vesting
  let vc' := if !Amt.isZero wireM lc' && vesting.isEmpty then lc' else vc
  if amtEq wireM vc' lc' then some (lockup', vesting', vc') else Option.none

end Haqq.Driver
