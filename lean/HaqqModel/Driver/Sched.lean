import HaqqModel.Model.Vesting
import HaqqModel.Driver.Util

namespace Haqq.Driver
open Haqq.Sched Haqq.Vest

/-- number of denominations used on the wire -/
def wireM : Nat := 3

def amtOfCoins (l : List (Nat × Nat)) : Amt :=
  fun d => (l.filter (·.1 == d)).foldl (fun acc p => acc + p.2) 0

def coinsOfAmt (a : Amt) : List (Nat × Nat) :=
  (List.range wireM).filterMap fun d => if a d > 0 then some (d, a d) else none

def showAmt (a : Amt) : String := showCoins (coinsOfAmt a)

def parseAmt (s : String) : Option Amt := (parseCoins s).map amtOfCoins

/-- "len@coins;len@coins" | "-" -/
def parsePeriods (s : String) : Option (List Period) :=
  if s == "-" then some [] else
  (s.splitOn ";").mapM fun item =>
    match item.splitOn "@" with
    | [l, c] => do let l ← l.toInt?; let a ← parseAmt c; pure ⟨l, a⟩
    | _ => none

def showPeriods (ps : List Period) : String :=
  if ps.isEmpty then "-" else ";".intercalate (ps.map fun p => s!"{p.length}@{showAmt p.amount}")

def showMerged (m : Merged) : String := s!"{m.start} {m.endT} {showPeriods m.periods}"

def showAccount (a : Account) : String :=
  s!"funder={a.funder} start={a.start} end={a.endT} orig={showAmt a.original} lockup={showPeriods a.lockup} vesting={showPeriods a.vesting} df={showAmt a.delegatedFree} dv={showAmt a.delegatedVesting}"

end Haqq.Driver
