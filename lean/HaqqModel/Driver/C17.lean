import HaqqModel.Model.FeeMarket
import HaqqModel.Driver.Util

namespace Haqq.Driver.C17
open Haqq.FeeMarket

def showRes : Result → String
  | .nil => "nil" | .fee v => s!"fee {v}" | .panic => "panic"

def parseParams (l : List String) : Option Params :=
  match l with
  | [nb, eh, bf, el, dn, mg, mm] => do
    let eh ← eh.toInt?; let bf ← bf.toNat?; let el ← el.toNat?; let dn ← dn.toNat?
    let mg ← mg.toNat?; let mm ← mm.toNat?
    pure { noBaseFee := nb == "1", enableHeight := eh, baseFee := bf, elasticity := el, denominator := dn,
           minGasPrice := mg, minGasMultiplier := mm }
  | _ => none

def step : List String → String
  | "bf" :: rest =>
    match parseParams (rest.take 7), rest.drop 7 with
    | some p, [h, mx, g] =>
      match h.toInt?, mx.toInt?, g.toNat? with
      | some h, some mx, some g => showRes (calcBaseFee p h mx g)
      | _, _, _ => "bad-op"
    | _, _ => "bad-op"
  | ["eb", w, u, m] =>
    match w.toNat?, u.toNat?, m.toNat? with
    | some w, some u, some m => match endBlockGas w u m with | some g => toString g | none => "none"
    | _, _, _ => "bad-op"
  | ["gw", mx, gs] =>
    -- GasWantedDecorator: a transaction declaring more than the block gas limit is refused; what the others declare is
    -- added up (the block gas limit is 2^64 − 1 when MaxGas = −1)
    match mx.toInt?, parseNats gs with
    | some mx, some gs =>
      let limit : Nat := if mx < 0 then 2 ^ 64 - 1 else mx.toNat
      let ok := gs.filter (· ≤ limit)
      s!"{ok.foldl (· + ·) 0} rejected={gs.length - ok.length}"
    | _, _ => "bad-op"
  | "pv" :: rest =>
    match parseParams rest with
    | some p => if p.valid then "ok" else "err"
    | none => "bad-op"
  | _ => "bad-op"

end Haqq.Driver.C17
