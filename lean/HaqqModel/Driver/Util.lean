/-
  Line-protocol helpers shared by all per-property drivers (core Lean only).
-/
namespace Haqq.Driver

def parseNat (s : String) : Option Nat := s.toNat?
def parseInt (s : String) : Option Int := s.toInt?

/-- "d:v,d:v" → list of pairs; "-" is the empty list -/
def parseCoins (s : String) : Option (List (Nat × Nat)) :=
  if s == "-" then some [] else
  (s.splitOn ",").mapM fun item =>
    match item.splitOn ":" with
    | [d, v] => do let d ← d.toNat?; let v ← v.toNat?; pure (d, v)
    | _ => none

def showCoins (l : List (Nat × Nat)) : String :=
  if l.isEmpty then "-" else ",".intercalate (l.map fun (d, v) => s!"{d}:{v}")

def parseNats (s : String) : Option (List Nat) :=
  if s == "-" then some [] else (s.splitOn ",").mapM (·.toNat?)

def parseInts (s : String) : Option (List Int) :=
  if s == "-" then some [] else (s.splitOn ",").mapM (·.toInt?)

def showNats (l : List Nat) : String :=
  if l.isEmpty then "-" else ",".intercalate (l.map toString)

def showInts (l : List Int) : String :=
  if l.isEmpty then "-" else ",".intercalate (l.map toString)

end Haqq.Driver
