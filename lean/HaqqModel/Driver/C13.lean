import HaqqModel.Model.Coinomics
import HaqqModel.Driver.Util
import HaqqModel.Generated.Facts

namespace Haqq.Driver.C13
open Haqq.Coinomics

structure St where
  s : State := { enabled := true, rewardCoeff := 0, prevTS := 0, maxSupply := 0 }

def b2s (b : Bool) : String := if b then "1" else "0"

def step (st : St) : List String → St × String
  | ["reset", en, rc, prev, mx, _supply] =>
    match rc.toInt?, prev.toInt?, mx.toInt? with
    | some rc, some prev, some mx => ({ s := { enabled := en == "1", rewardCoeff := rc, prevTS := prev, maxSupply := mx } }, "ok")
    | _, _, _ => (st, "bad-op")
  | ["enable", en] => ({ s := { st.s with enabled := en == "1" } }, "ok")
  | ["setcoef", rc] => (match rc.toInt? with
    | some rc => ({ s := { st.s with rewardCoeff := rc } }, "ok")
    | none => (st, "bad-op"))
  | ["setmax", mx] => match mx.toInt? with
    | some mx => ({ s := { st.s with maxSupply := mx } }, "ok")
    | none => (st, "bad-op")
  | ["blk", t, bonded, supply] =>
    match t.toInt?, bonded.toInt?, supply.toInt? with
    | some t, some bonded, some supply =>
      let b : Block := { timeMs := t, year := civilYear (t.fdiv 1000), bonded := bonded, supply := supply }
      let r := endBlock Haqq.Facts.coinomicsResetsPrevTSWhenDisabled st.s b
      ({ s := r.1 }, s!"minted={r.2} enabled={b2s r.1.enabled} prevTS={r.1.prevTS}")
    | _, _, _ => (st, "bad-op")
  | ["year", t] => match t.toInt? with
    | some t => (st, toString (civilYear t))
    | none => (st, "bad-op")
  | _ => (st, "bad-op")

end Haqq.Driver.C13
