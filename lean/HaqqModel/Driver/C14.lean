import HaqqModel.Model.Ledger
import HaqqModel.Driver.Util
import HaqqModel.Generated.Facts

namespace Haqq.Driver.C14
open Haqq.Ledger

/-- module numbering of the harness ↔ the identifiers used in the source -/
def label : Nat → String
  | 0 => "distrtypes.ModuleName" | 1 => "govtypes.ModuleName" | 2 => "stakingtypes.BondedPoolName"
  | 3 => "stakingtypes.NotBondedPoolName" | 4 => "erc20types.ModuleName" | 5 => "liquidvestingtypes.ModuleName"
  | 6 => "coinomicstypes.ModuleName" | 7 => "evmtypes.ModuleName" | 8 => "ucdaotypes.ModuleName"
  | 9 => "ibctransfertypes.ModuleName" | _ => "?"

def redirected (m : Nat) : Bool := Haqq.Facts.bankBurnRedirectedModules.contains (label m)

def burner (m : Nat) : Bool :=
  match Haqq.Facts.maccPerms.find? (·.1 == label m) with
  | some (_, p) => (p.splitOn ",").contains "Burner"
  | none => false

def step : List String → String
  | ["burn", m, amt, bal] =>
    match m.toNat?, amt.toNat?, bal.toNat? with
    | some m, some amt, some bal =>
      let s : State := { bal := fun x => if x = m then bal else 0, supply := bal + 1000000, communityPool := 0 }
      match burnCoins redirected burner s m amt with
      | .ok s' => s!"ok dsupply={(s.supply : Int) - s'.supply} dpool={s'.communityPool} ddistr={if m = 0 then 0 else s'.bal 0} dmod={(s.bal m : Int) - s'.bal m}"
      | .error .insufficient => "err:insufficient"
      | .error .noPermission => "panic"
    | _, _, _ => "bad-op"
  | ["burn2", m, a, b] =>
    -- one BurnCoins call with two denominations: each denomination is burned (or redirected) on its own
    match m.toNat?, a.toNat?, b.toNat? with
    | some m, some a, some b =>
      let one (amt : Nat) : String :=
        let s : State := { bal := fun x => if x = m then amt else 0, supply := amt + 1000000, communityPool := 0 }
        match burnCoins redirected burner s m amt with
        | .ok s' => s!"{(s.supply : Int) - s'.supply}/{s'.communityPool}/{if m = 0 then 0 else s'.bal 0}"
        | .error _ => "err"
      s!"ok a={one a} b={one b}"
    | _, _, _ => "bad-op"
  | "fund" :: _ => "ok"
  | "fundpool" :: _ => "ok"
  | "pooldust" :: _ => "skip"
  | ["sendoff"] => "skip"
  | ["sendon"] => "skip"
  | "creset" :: _ => "ok"
  | "slash" :: _ => "skip"
  | "govburn" :: _ => "skip"
  | _ => "bad-op"

end Haqq.Driver.C14
