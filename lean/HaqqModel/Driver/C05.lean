import HaqqModel.Model.StateDB
import HaqqModel.Driver.Util
import HaqqModel.Driver.Script

namespace Haqq.Driver.C05
open Haqq.SDB

def nAddr : Nat := 6
def nKey : Nat := 3
def addrs : List Nat := List.range nAddr
def keys : List Nat := List.range nKey

structure St where
  db : DB := DB.new { exist := fun _ => false, bal := fun _ => 0, nonce := fun _ => 0, store := fun _ _ => 0, supply := 0 }

def b2s (b : Bool) : String := if b then "1" else "0"

def dump (db : DB) : String :=
  let cache := addrs.map fun a =>
    match db.get a with
    | some o => s!"{a}:b={o.bal},n={o.nonce},s={b2s o.suicided},st={",".intercalate (keys.map fun k => toString (db.getState a k))}"
    | none => s!"{a}:none"
  let keep := addrs.map fun a =>
    s!"{a}:e={b2s (db.k.exist a)},b={db.k.bal a},n={db.k.nonce a},st={",".intercalate (keys.map fun k => toString (db.k.store a k))}"
  let acc := addrs.map fun a => s!"{b2s (db.accA a)}/{"".intercalate (keys.map fun k => b2s (db.accS a k))}"
  s!"cache[{" ".intercalate cache}] keeper[{" ".intercalate keep}] refund={db.refund} logs={db.logs} acc[{" ".intercalate acc}] supply={db.k.supply}"

/-- the harness looks at every account after these operations (Exist / GetBalance / …): the objects get cached -/
def loadAll (db : DB) : DB := addrs.foldl (fun d a => d.load a) db

def nat2 (a b : String) (f : Nat → Nat → DB) (st : St) : St × String :=
  match a.toNat?, b.toNat? with
  | some a, some b => ({ db := f a b }, "ok")
  | _, _ => (st, "bad-op")

def step (st : St) : List String → St × String
  | "sreset" :: bals =>
    match bals.mapM (·.toNat?) with
    | some bs =>
      let balf : Nat → Nat := fun a => bs.getD a 0
      let k : Keeper := { exist := fun a => a < bs.length, bal := balf, nonce := fun _ => 0, store := fun _ _ => 0, supply := 0 }
      ({ db := DB.new k }, "ok")
    | none => (st, "bad-op")
  | ["addbal", a, x] => nat2 a x (addBalance st.db) st
  | ["subbal", a, x] => nat2 a x (subBalance st.db) st
  | ["xfer", a, b, x] =>
    match a.toNat?, b.toNat?, x.toNat? with
    | some a, some b, some x => ({ db := addBalance (subBalance st.db a x) b x }, "ok")
    | _, _, _ => (st, "bad-op")
  | ["setnonce", a, v] => nat2 a v (setNonce st.db) st
  | ["setstate", a, k, v] =>
    match a.toNat?, k.toNat?, v.toNat? with
    | some a, some k, some v => ({ db := setState st.db a k v }, "ok")
    | _, _, _ => (st, "bad-op")
  | ["prestate", a, k, v] =>
    -- storage held by the keeper before the transaction (only meaningful before the object is loaded)
    match a.toNat?, k.toNat?, v.toNat? with
    | some a, some k, some v =>
      ({ db := { st.db with k := { st.db.k with store := fun a' k' => if a' = a ∧ k' = k then v else st.db.k.store a' k' } } }, "ok")
    | _, _, _ => (st, "bad-op")
  | ["addrefund", g] => (match g.toNat? with | some g => ({ db := addRefund st.db g }, "ok") | none => (st, "bad-op"))
  | ["subrefund", g] =>
    match g.toNat? with
    | some g => if g > st.db.refund then ({ db := st.db.push (.refund st.db.refund) }, "panic") else ({ db := subRefund st.db g }, "ok")
    | none => (st, "bad-op")
  | ["addlog"] => ({ db := addLog st.db }, "ok")
  | ["suicide", a] => (match a.toNat? with | some a => ({ db := suicide st.db a }, "ok") | none => (st, "bad-op"))
  | ["accaddr", a] => (match a.toNat? with | some a => ({ db := addAddressToAccessList st.db a }, "ok") | none => (st, "bad-op"))
  | ["accslot", a, k] => nat2 a k (addSlotToAccessList st.db) st
  | ["snap"] => let r := snapshot st.db; ({ db := loadAll r.1 }, s!"id={r.2}")
  | ["revert", id] =>
    match id.toNat? with
    | some id => (match revertTo st.db id with | some db => ({ db := loadAll db }, "ok") | none => (st, "panic"))
    | none => (st, "bad-op")
  | ["commit"] => ({ db := loadAll (commit st.db addrs keys) }, "ok")
  | ["selfdestruct", a, b, x] =>
    -- SELFDESTRUCT: the beneficiary is paid the balance (filled in by the executor), then Suicide
    match a.toNat?, b.toNat?, x.toNat? with
    | some a, some b, some x => ({ db := suicide (addBalance st.db b x) a }, "ok")
    | _, _, _ => (st, "bad-op")
  | ["bank", a, sign, x] =>
    -- a Cosmos-side balance change made behind the StateDB's back (what a precompile's message does): coins
    -- move between the account and an address outside the universe, the supply does not change
    match a.toNat?, x.toNat? with
    | some a, some x =>
      if x = 0 then (st, "ok") else
      let k := st.db.k
      let nb := if sign == "+" then k.bal a + x else k.bal a - x
      ({ db := { st.db with k := { k with bal := upd k.bal a nb, exist := upd k.exist a true } } }, "ok")
    | _, _ => (st, "bad-op")
  | ["bankm", a, sign, x] =>
    -- a precompile's bank movement of its caller followed by the mirroring AddBalance / SubBalance
    match a.toNat?, x.toNat? with
    | some a, some x =>
      if x = 0 then (st, "ok") else
      let k := st.db.k
      let nb := if sign == "+" then k.bal a + x else k.bal a - x
      let db1 : DB := { st.db with k := { k with bal := upd k.bal a nb, exist := upd k.exist a true } }
      ({ db := if sign == "+" then addBalance db1 a x else subBalance db1 a x }, "ok")
    | _, _ => (st, "bad-op")
  | ["createacct", a] => (match a.toNat? with | some a => ({ db := createAccount st.db a }, "ok") | none => (st, "bad-op"))
  | ["sync"] => ({ db := syncBalances st.db addrs }, "ok")
  | "ptx" :: rest => (st, Haqq.Driver.Script.step rest)
  | "dtx" :: _ => (st, "skip")
  | "psup" :: _ => (st, "skip")
  | "sd3" :: _ => (st, "skip")
  | ["noop"] => (st, "ok")
  | ["dump"] => ({ db := loadAll st.db }, dump st.db)
  | _ => (st, "bad-op")

end Haqq.Driver.C05
