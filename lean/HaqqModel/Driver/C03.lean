import HaqqModel.Model.Replay
import HaqqModel.Driver.Util

namespace Haqq.Driver.C03
open Haqq.Replay

def step : List String → String
  | ["eth", seq, ns] =>
    match seq.toNat?, parseNats ns with
    | some seq, some ns => (match ethAccept seq ns with | some s => s!"accept {s}" | none => s!"reject {seq}")
    | _, _ => "bad-op"
  | ["cos", seq, txseq, chainOk, intact] =>
    match seq.toNat?, txseq.toNat? with
    | some seq, some t => (match cosAccept seq t (chainOk == "1") (intact == "1") with | some s => s!"accept {s}" | none => s!"reject {seq}")
    | _, _ => "bad-op"
  | "mut" :: _ => "not-for-signer"
  | "vconv" :: _ => "skip"
  | "ethfrom" :: _ => "skip"
  | _ => "bad-op"

end Haqq.Driver.C03
