import HaqqModel.Lemmas.Schedule

namespace Haqq.Sched

/-- what one `consume*` step of ConjunctPeriods does, given that the running result does not exceed
    the new minimum (which makes the code's `IsAllLTE` guard true) -/
theorem conjEmit_spec (M : Nat) (next e : Int) (totA totB res : Amt)
    (hle : ∀ d, d < M → res d ≤ min (totA d) (totB d)) :
    (∀ d, d < M → (conjEmit M next e totA totB res).2.2 d = min (totA d) (totB d)) ∧
    ((conjEmit M next e totA totB res).1 = none →
        (conjEmit M next e totA totB res).2.1 = e ∧ ∀ d, d < M → min (totA d) (totB d) = res d) ∧
    (∀ p, (conjEmit M next e totA totB res).1 = some p →
        (conjEmit M next e totA totB res).2.1 = next ∧ p.length = next - e ∧
        ∀ d, d < M → p.amount d + res d = min (totA d) (totB d)) := by
  have hguard : Amt.allLE M res (Amt.min totA totB) = true := by
    rw [Amt.allLE_iff]; intro d hd; simpa using hle d hd
  unfold conjEmit
  simp only [hguard, if_true]
  by_cases hz : Amt.isZero M (Amt.sub (Amt.min totA totB) res) = true
  · have hz' := (Amt.isZero_iff M _).1 hz
    simp only [hz, Bool.not_true, Bool.false_eq_true, if_false]
    refine ⟨?_, ?_, ?_⟩
    · intro d hd
      have := hz' d hd; have := hle d hd
      simp only [Amt.sub_apply, Amt.min_apply] at *; omega
    · intro _
      refine ⟨by first | rfl | trivial, ?_⟩
      intro d hd
      have := hz' d hd; have := hle d hd
      simp only [Amt.sub_apply, Amt.min_apply] at *; omega
    · intro p hp; simp at hp
  · have hz2 : Amt.isZero M (Amt.sub (Amt.min totA totB) res) = false := by
      cases h : Amt.isZero M (Amt.sub (Amt.min totA totB) res) <;> simp_all
    simp only [hz2, Bool.not_false, if_true]
    refine ⟨?_, ?_, ?_⟩
    · intro d hd
      have := hle d hd
      simp only [Amt.add_apply, Amt.sub_apply, Amt.min_apply] at *; omega
    · intro h; simp at h
    · intro p hp
      simp only [Option.some.injEq] at hp
      subst hp
      refine ⟨by first | rfl | trivial, by first | rfl | trivial, ?_⟩
      intro d hd
      have := hle d hd
      simp only [Amt.sub_apply, Amt.min_apply] at *; omega

/-- reading the list produced by one consume step followed by `rest` -/
theorem consume_read (M : Nat) (next e : Int) (totA' totB' res : Amt) (rest : List Period) (t : Int) (d : Nat)
    (hd : d < M) (hle : ∀ d, d < M → res d ≤ min (totA' d) (totB' d)) (he : e ≤ next)
    (hlow : t < next → readLoop (conjEmit M next e totA' totB' res).2.1 rest t d = 0) :
    readLoop e (consOpt (conjEmit M next e totA' totB' res).1 rest) t d + res d =
      if t < next then res d
      else readLoop (conjEmit M next e totA' totB' res).2.1 rest t d + min (totA' d) (totB' d) := by
  obtain ⟨_, hnone, hsome⟩ := conjEmit_spec M next e totA' totB' res hle
  cases hr : (conjEmit M next e totA' totB' res).1 with
  | none =>
    obtain ⟨he', hmin⟩ := hnone hr
    simp only [consOpt]
    rw [he'] at hlow ⊢
    split
    · rename_i hlt; rw [hlow hlt]; simp
    · rw [hmin d hd]
  | some p =>
    obtain ⟨he', hlen, hamt⟩ := hsome p hr
    simp only [consOpt]
    rw [he'] at hlow ⊢
    conv => lhs; lhs; unfold readLoop
    have : e + p.length = next := by omega
    rw [this]
    split
    · simp
    · have := hamt d hd
      simp only [Amt.add_apply]; omega

/-- **pointwise minimum**: reading the list produced by ConjunctPeriods' loops, plus what had been
    emitted before, equals the minimum of the two running totals -/
theorem conj_read (M : Nat) (tA tB e : Int) (totA totB res : Amt) (as bs : List Period) (t : Int) (d : Nat)
    (hd : d < M) (hA : WF as) (hB : WF bs) (nA : Next tA e as) (nB : Next tB e bs)
    (hinv : ∀ d, d < M → res d = min (totA d) (totB d)) :
    readLoop e (conj M tA tB e totA totB res as bs) t d + min (totA d) (totB d) =
      min (totA d + readLoop tA as t d) (totB d + readLoop tB bs t d) := by
  fun_induction conj M tA tB e totA totB res as bs with
  | case1 => simp [readLoop]
  | case2 tA tB e totA totB res a as totA' r ih =>
    have hle : ∀ d, d < M → res d ≤ min (totA' d) (totB d) := by
      intro d hd; rw [hinv d hd]; have : totA d ≤ totA' d := by simp [totA']
      omega
    obtain ⟨hnew, hnone, hsome⟩ := conjEmit_spec M (tA + a.length) e totA' totB res hle
    have he : e ≤ tA + a.length := by simpa [Next] using nA
    have he' : r.2.1 ≤ tA + a.length := by
      cases hr : r.1 with
      | none => rw [(hnone hr).1]; exact he
      | some p => rw [(hsome p hr).1]; exact Int.le_refl _
    have nA' : Next (tA + a.length) r.2.1 as := by
      cases as with
      | nil => trivial
      | cons x xs => have := WF_head (WF_tail hA); simp only [Next]; omega
    have ih' := ih (WF_tail hA) hB nA' (by trivial) hnew
    have hlow : t < tA + a.length → readLoop r.2.1 (conj M (tA + a.length) tB r.2.1 totA' totB r.2.2 as []) t d = 0 := by
      intro hlt
      rw [readLoop_zero_of_lt (tA + a.length) as t d (WF_tail hA) hlt] at ih'
      simp only [readLoop, Amt.zero_apply] at ih'
      omega
    have hc := consume_read M (tA + a.length) e totA' totB res _ t d hd hle he hlow
    rw [← hinv d hd, hc]
    conv => rhs; unfold readLoop
    split
    · simp only [readLoop, Amt.zero_apply, Nat.add_zero]; exact hinv d hd
    · rw [ih']; simp [totA', readLoop]; omega
  | case3 tA tB e totA totB res b bs totB' r ih =>
    have hle : ∀ d, d < M → res d ≤ min (totA d) (totB' d) := by
      intro d hd; rw [hinv d hd]; have : totB d ≤ totB' d := by simp [totB']
      omega
    obtain ⟨hnew, hnone, hsome⟩ := conjEmit_spec M (tB + b.length) e totA totB' res hle
    have he : e ≤ tB + b.length := by simpa [Next] using nB
    have he' : r.2.1 ≤ tB + b.length := by
      cases hr : r.1 with
      | none => rw [(hnone hr).1]; exact he
      | some p => rw [(hsome p hr).1]; exact Int.le_refl _
    have nB' : Next (tB + b.length) r.2.1 bs := by
      cases bs with
      | nil => trivial
      | cons x xs => have := WF_head (WF_tail hB); simp only [Next]; omega
    have ih' := ih hA (WF_tail hB) (by trivial) nB' hnew
    have hlow : t < tB + b.length → readLoop r.2.1 (conj M tA (tB + b.length) r.2.1 totA totB' r.2.2 [] bs) t d = 0 := by
      intro hlt
      rw [readLoop_zero_of_lt (tB + b.length) bs t d (WF_tail hB) hlt] at ih'
      simp only [readLoop, Amt.zero_apply] at ih'
      omega
    have hc := consume_read M (tB + b.length) e totA totB' res _ t d hd hle he hlow
    rw [← hinv d hd, hc]
    conv => rhs; rhs; unfold readLoop
    split
    · simp only [readLoop, Amt.zero_apply, Nat.add_zero]; exact hinv d hd
    · rw [ih']; simp [totB', readLoop]; omega
  | case4 tA tB e totA totB res a as b bs hlt totA' r ih =>
    have hle : ∀ d, d < M → res d ≤ min (totA' d) (totB d) := by
      intro d hd; rw [hinv d hd]; have : totA d ≤ totA' d := by simp [totA']
      omega
    obtain ⟨hnew, hnone, hsome⟩ := conjEmit_spec M (tA + a.length) e totA' totB res hle
    have he : e ≤ tA + a.length := by simpa [Next] using nA
    have he' : r.2.1 ≤ tA + a.length := by
      cases hr : r.1 with
      | none => rw [(hnone hr).1]; exact he
      | some p => rw [(hsome p hr).1]; exact Int.le_refl _
    have nA' : Next (tA + a.length) r.2.1 as := by
      cases as with
      | nil => trivial
      | cons x xs => have := WF_head (WF_tail hA); simp only [Next]; omega
    have nB' : Next tB r.2.1 (b :: bs) := by simp only [Next]; omega
    have ih' := ih (WF_tail hA) hB nA' nB' hnew
    have hbz : t < tA + a.length → readLoop tB (b :: bs) t d = 0 := by
      intro h; unfold readLoop; have : t < tB + b.length := by omega
      simp [this]
    have hlow : t < tA + a.length → readLoop r.2.1 (conj M (tA + a.length) tB r.2.1 totA' totB r.2.2 as (b :: bs)) t d = 0 := by
      intro h
      rw [readLoop_zero_of_lt (tA + a.length) as t d (WF_tail hA) h, hbz h] at ih'
      omega
    have hc := consume_read M (tA + a.length) e totA' totB res _ t d hd hle he hlow
    rw [← hinv d hd, hc]
    conv => rhs; lhs; unfold readLoop
    split
    · rename_i h; rw [hbz h]; simp only [Amt.zero_apply, Nat.add_zero]; exact hinv d hd
    · rw [ih']; simp [totA']; omega
  | case5 tA tB e totA totB res a as b bs hnlt hlt totB' r ih =>
    have hle : ∀ d, d < M → res d ≤ min (totA d) (totB' d) := by
      intro d hd; rw [hinv d hd]; have : totB d ≤ totB' d := by simp [totB']
      omega
    obtain ⟨hnew, hnone, hsome⟩ := conjEmit_spec M (tB + b.length) e totA totB' res hle
    have he : e ≤ tB + b.length := by simpa [Next] using nB
    have he' : r.2.1 ≤ tB + b.length := by
      cases hr : r.1 with
      | none => rw [(hnone hr).1]; exact he
      | some p => rw [(hsome p hr).1]; exact Int.le_refl _
    have nB' : Next (tB + b.length) r.2.1 bs := by
      cases bs with
      | nil => trivial
      | cons x xs => have := WF_head (WF_tail hB); simp only [Next]; omega
    have nA' : Next tA r.2.1 (a :: as) := by simp only [Next]; omega
    have ih' := ih hA (WF_tail hB) nA' nB' hnew
    have haz : t < tB + b.length → readLoop tA (a :: as) t d = 0 := by
      intro h; unfold readLoop; have : t < tA + a.length := by omega
      simp [this]
    have hlow : t < tB + b.length → readLoop r.2.1 (conj M tA (tB + b.length) r.2.1 totA totB' r.2.2 (a :: as) bs) t d = 0 := by
      intro h
      rw [readLoop_zero_of_lt (tB + b.length) bs t d (WF_tail hB) h, haz h] at ih'
      omega
    have hc := consume_read M (tB + b.length) e totA totB' res _ t d hd hle he hlow
    rw [← hinv d hd, hc]
    conv => rhs; rhs; unfold readLoop
    split
    · rename_i h; rw [haz h]; simp only [Amt.zero_apply, Nat.add_zero]; exact hinv d hd
    · rw [ih']; simp [totB']; omega
  | case6 tA tB e totA totB res a as b bs hnlt hnlt2 totA' totB' r ih =>
    have heq : tA + a.length = tB + b.length := by omega
    have hle : ∀ d, d < M → res d ≤ min (totA' d) (totB' d) := by
      intro d hd; rw [hinv d hd]
      have h1 : totA d ≤ totA' d := by simp [totA']
      have h2 : totB d ≤ totB' d := by simp [totB']
      omega
    obtain ⟨hnew, hnone, hsome⟩ := conjEmit_spec M (tA + a.length) e totA' totB' res hle
    have he : e ≤ tA + a.length := by simpa [Next] using nA
    have he' : r.2.1 ≤ tA + a.length := by
      cases hr : r.1 with
      | none => rw [(hnone hr).1]; exact he
      | some p => rw [(hsome p hr).1]; exact Int.le_refl _
    have nA' : Next (tA + a.length) r.2.1 as := by
      cases as with
      | nil => trivial
      | cons x xs => have := WF_head (WF_tail hA); simp only [Next]; omega
    have nB' : Next (tB + b.length) r.2.1 bs := by
      cases bs with
      | nil => trivial
      | cons x xs => have := WF_head (WF_tail hB); simp only [Next]; omega
    have ih' := ih (WF_tail hA) (WF_tail hB) nA' nB' hnew
    have hlow : t < tA + a.length → readLoop r.2.1 (conj M (tA + a.length) (tB + b.length) r.2.1 totA' totB' r.2.2 as bs) t d = 0 := by
      intro h
      rw [readLoop_zero_of_lt (tA + a.length) as t d (WF_tail hA) h,
          readLoop_zero_of_lt (tB + b.length) bs t d (WF_tail hB) (by omega)] at ih'
      omega
    have hc := consume_read M (tA + a.length) e totA' totB' res _ t d hd hle he hlow
    rw [← hinv d hd, hc]
    conv => rhs; lhs; unfold readLoop
    conv => rhs; rhs; unfold readLoop
    split
    · rename_i h
      have h' : t < tB + b.length := by omega
      simp only [h', if_true, Amt.zero_apply, Nat.add_zero]; exact hinv d hd
    · rename_i h
      have h' : ¬ t < tB + b.length := by omega
      rw [ih']; simp [totA', totB', h']; omega


theorem consOpt_total (o : Option Period) (rest : List Period) (d : Nat) :
    totalAmount (consOpt o rest) d = (match o with | some p => p.amount d | none => 0) + totalAmount rest d := by
  cases o <;> simp [consOpt, totalAmount]

/-- one consume step, totals view -/
theorem consume_total (M : Nat) (next e : Int) (totA' totB' res : Amt) (rest : List Period) (d : Nat)
    (hd : d < M) (hle : ∀ d, d < M → res d ≤ min (totA' d) (totB' d)) :
    totalAmount (consOpt (conjEmit M next e totA' totB' res).1 rest) d + res d =
      totalAmount rest d + min (totA' d) (totB' d) := by
  obtain ⟨_, hnone, hsome⟩ := conjEmit_spec M next e totA' totB' res hle
  rw [consOpt_total]
  cases hr : (conjEmit M next e totA' totB' res).1 with
  | none => have := (hnone hr).2 d hd; simp only; omega
  | some p => have := (hsome p hr).2.2 d hd; simp only; omega

/-- the emitted periods sum to the minimum of the two totals -/
theorem conj_total (M : Nat) (tA tB e : Int) (totA totB res : Amt) (as bs : List Period) (d : Nat)
    (hd : d < M) (hinv : ∀ d, d < M → res d = min (totA d) (totB d)) :
    totalAmount (conj M tA tB e totA totB res as bs) d + min (totA d) (totB d) =
      min (totA d + totalAmount as d) (totB d + totalAmount bs d) := by
  fun_induction conj M tA tB e totA totB res as bs with
  | case1 => simp [totalAmount]
  | case2 tA tB e totA totB res a as totA' r ih =>
    have hle : ∀ d, d < M → res d ≤ min (totA' d) (totB d) := by
      intro d hd; rw [hinv d hd]; have : totA d ≤ totA' d := by simp [totA']
      omega
    have hnew := (conjEmit_spec M (tA + a.length) e totA' totB res hle).1
    have ih' := ih hnew
    have hc := consume_total M (tA + a.length) e totA' totB res (conj M (tA + a.length) tB r.2.1 totA' totB r.2.2 as []) d hd hle
    rw [← hinv d hd, hc, ih']
    simp [totA', totalAmount]; omega
  | case3 tA tB e totA totB res b bs totB' r ih =>
    have hle : ∀ d, d < M → res d ≤ min (totA d) (totB' d) := by
      intro d hd; rw [hinv d hd]; have : totB d ≤ totB' d := by simp [totB']
      omega
    have hnew := (conjEmit_spec M (tB + b.length) e totA totB' res hle).1
    have ih' := ih hnew
    have hc := consume_total M (tB + b.length) e totA totB' res (conj M tA (tB + b.length) r.2.1 totA totB' r.2.2 [] bs) d hd hle
    rw [← hinv d hd, hc, ih']
    simp [totB', totalAmount]; omega
  | case4 tA tB e totA totB res a as b bs hlt totA' r ih =>
    have hle : ∀ d, d < M → res d ≤ min (totA' d) (totB d) := by
      intro d hd; rw [hinv d hd]; have : totA d ≤ totA' d := by simp [totA']
      omega
    have hnew := (conjEmit_spec M (tA + a.length) e totA' totB res hle).1
    have ih' := ih hnew
    have hc := consume_total M (tA + a.length) e totA' totB res (conj M (tA + a.length) tB r.2.1 totA' totB r.2.2 as (b :: bs)) d hd hle
    rw [← hinv d hd, hc, ih']
    simp [totA', totalAmount]; omega
  | case5 tA tB e totA totB res a as b bs hnlt hlt totB' r ih =>
    have hle : ∀ d, d < M → res d ≤ min (totA d) (totB' d) := by
      intro d hd; rw [hinv d hd]; have : totB d ≤ totB' d := by simp [totB']
      omega
    have hnew := (conjEmit_spec M (tB + b.length) e totA totB' res hle).1
    have ih' := ih hnew
    have hc := consume_total M (tB + b.length) e totA totB' res (conj M tA (tB + b.length) r.2.1 totA totB' r.2.2 (a :: as) bs) d hd hle
    rw [← hinv d hd, hc, ih']
    simp [totB', totalAmount]; omega
  | case6 tA tB e totA totB res a as b bs hnlt hnlt2 totA' totB' r ih =>
    have hle : ∀ d, d < M → res d ≤ min (totA' d) (totB' d) := by
      intro d hd; rw [hinv d hd]
      have h1 : totA d ≤ totA' d := by simp [totA']
      have h2 : totB d ≤ totB' d := by simp [totB']
      omega
    have hnew := (conjEmit_spec M (tA + a.length) e totA' totB' res hle).1
    have ih' := ih hnew
    have hc := consume_total M (tA + a.length) e totA' totB' res (conj M (tA + a.length) (tB + b.length) r.2.1 totA' totB' r.2.2 as bs) d hd hle
    rw [← hinv d hd, hc, ih']
    simp [totA', totB', totalAmount]; omega

theorem consOpt_WF (M : Nat) (next e : Int) (totA' totB' res : Amt) (rest : List Period)
    (hle : ∀ d, d < M → res d ≤ min (totA' d) (totB' d)) (he : e ≤ next) (hr : WF rest) :
    WF (consOpt (conjEmit M next e totA' totB' res).1 rest) := by
  obtain ⟨_, _, hsome⟩ := conjEmit_spec M next e totA' totB' res hle
  cases h : (conjEmit M next e totA' totB' res).1 with
  | none => simpa [consOpt] using hr
  | some p =>
    simp only [consOpt]
    exact WF_cons (by rw [(hsome p h).2.1]; omega) hr

theorem conjEmit_time (M : Nat) (next e : Int) (totA' totB' res : Amt)
    (hle : ∀ d, d < M → res d ≤ min (totA' d) (totB' d)) (he : e ≤ next) :
    (conjEmit M next e totA' totB' res).2.1 ≤ next := by
  obtain ⟨_, hnone, hsome⟩ := conjEmit_spec M next e totA' totB' res hle
  cases hr : (conjEmit M next e totA' totB' res).1 with
  | none => rw [(hnone hr).1]; exact he
  | some p => rw [(hsome p hr).1]; exact Int.le_refl _

/-- the produced list is well-formed (emitted lengths are differences of non-decreasing times) -/
theorem conj_WF (M : Nat) (tA tB e : Int) (totA totB res : Amt) (as bs : List Period)
    (hA : WF as) (hB : WF bs) (nA : Next tA e as) (nB : Next tB e bs)
    (hinv : ∀ d, d < M → res d = min (totA d) (totB d)) :
    WF (conj M tA tB e totA totB res as bs) := by
  fun_induction conj M tA tB e totA totB res as bs with
  | case1 => exact WF_nil
  | case2 tA tB e totA totB res a as totA' r ih =>
    have hle : ∀ d, d < M → res d ≤ min (totA' d) (totB d) := by
      intro d hd; rw [hinv d hd]; have : totA d ≤ totA' d := by simp [totA']
      omega
    have hnew := (conjEmit_spec M (tA + a.length) e totA' totB res hle).1
    have he : e ≤ tA + a.length := by simpa [Next] using nA
    have he' : r.2.1 ≤ tA + a.length := conjEmit_time M (tA + a.length) e totA' totB res hle he
    have nA' : Next (tA + a.length) r.2.1 as := by
      cases as with
      | nil => trivial
      | cons x xs => have := WF_head (WF_tail hA); simp only [Next]; omega
    exact consOpt_WF M _ e totA' totB res _ hle he (ih (WF_tail hA) hB nA' (by trivial) hnew)
  | case3 tA tB e totA totB res b bs totB' r ih =>
    have hle : ∀ d, d < M → res d ≤ min (totA d) (totB' d) := by
      intro d hd; rw [hinv d hd]; have : totB d ≤ totB' d := by simp [totB']
      omega
    have hnew := (conjEmit_spec M (tB + b.length) e totA totB' res hle).1
    have he : e ≤ tB + b.length := by simpa [Next] using nB
    have he' : r.2.1 ≤ tB + b.length := conjEmit_time M (tB + b.length) e totA totB' res hle he
    have nB' : Next (tB + b.length) r.2.1 bs := by
      cases bs with
      | nil => trivial
      | cons x xs => have := WF_head (WF_tail hB); simp only [Next]; omega
    exact consOpt_WF M _ e totA totB' res _ hle he (ih hA (WF_tail hB) (by trivial) nB' hnew)
  | case4 tA tB e totA totB res a as b bs hlt totA' r ih =>
    have hle : ∀ d, d < M → res d ≤ min (totA' d) (totB d) := by
      intro d hd; rw [hinv d hd]; have : totA d ≤ totA' d := by simp [totA']
      omega
    have hnew := (conjEmit_spec M (tA + a.length) e totA' totB res hle).1
    have he : e ≤ tA + a.length := by simpa [Next] using nA
    have he' : r.2.1 ≤ tA + a.length := conjEmit_time M (tA + a.length) e totA' totB res hle he
    have nA' : Next (tA + a.length) r.2.1 as := by
      cases as with
      | nil => trivial
      | cons x xs => have := WF_head (WF_tail hA); simp only [Next]; omega
    have nB' : Next tB r.2.1 (b :: bs) := by simp only [Next]; omega
    exact consOpt_WF M _ e totA' totB res _ hle he (ih (WF_tail hA) hB nA' nB' hnew)
  | case5 tA tB e totA totB res a as b bs hnlt hlt totB' r ih =>
    have hle : ∀ d, d < M → res d ≤ min (totA d) (totB' d) := by
      intro d hd; rw [hinv d hd]; have : totB d ≤ totB' d := by simp [totB']
      omega
    have hnew := (conjEmit_spec M (tB + b.length) e totA totB' res hle).1
    have he : e ≤ tB + b.length := by simpa [Next] using nB
    have he' : r.2.1 ≤ tB + b.length := conjEmit_time M (tB + b.length) e totA totB' res hle he
    have nB' : Next (tB + b.length) r.2.1 bs := by
      cases bs with
      | nil => trivial
      | cons x xs => have := WF_head (WF_tail hB); simp only [Next]; omega
    have nA' : Next tA r.2.1 (a :: as) := by simp only [Next]; omega
    exact consOpt_WF M _ e totA totB' res _ hle he (ih hA (WF_tail hB) nA' nB' hnew)
  | case6 tA tB e totA totB res a as b bs hnlt hnlt2 totA' totB' r ih =>
    have heq : tA + a.length = tB + b.length := by omega
    have hle : ∀ d, d < M → res d ≤ min (totA' d) (totB' d) := by
      intro d hd; rw [hinv d hd]
      have h1 : totA d ≤ totA' d := by simp [totA']
      have h2 : totB d ≤ totB' d := by simp [totB']
      omega
    have hnew := (conjEmit_spec M (tA + a.length) e totA' totB' res hle).1
    have he : e ≤ tA + a.length := by simpa [Next] using nA
    have he' : r.2.1 ≤ tA + a.length := conjEmit_time M (tA + a.length) e totA' totB' res hle he
    have nA' : Next (tA + a.length) r.2.1 as := by
      cases as with
      | nil => trivial
      | cons x xs => have := WF_head (WF_tail hA); simp only [Next]; omega
    have nB' : Next (tB + b.length) r.2.1 bs := by
      cases bs with
      | nil => trivial
      | cons x xs => have := WF_head (WF_tail hB); simp only [Next]; omega
    exact consOpt_WF M _ e totA' totB' res _ hle he (ih (WF_tail hA) (WF_tail hB) nA' nB' hnew)

end Haqq.Sched
