import HaqqModel.Model.Schedule

namespace Haqq.Sched

@[simp] theorem Amt.zero_apply (d : Nat) : Amt.zero d = 0 := rfl
@[simp] theorem Amt.add_apply (a b : Amt) (d : Nat) : Amt.add a b d = a d + b d := rfl
@[simp] theorem Amt.min_apply (a b : Amt) (d : Nat) : Amt.min a b d = Min.min (a d) (b d) := rfl
@[simp] theorem Amt.sub_apply (a b : Amt) (d : Nat) : Amt.sub a b d = a d - b d := rfl

theorem Amt.allLE_iff (M : Nat) (a b : Amt) : Amt.allLE M a b = true ↔ ∀ d, d < M → a d ≤ b d := by
  unfold Amt.allLE
  rw [Bool.not_eq_true', ← Bool.not_eq_true, anyTo_iff]
  constructor
  · intro h d hd
    apply Nat.le_of_not_lt
    intro hlt
    exact h ⟨d, hd, by simpa using hlt⟩
  · rintro h ⟨d, hd, hp⟩
    have := h d hd
    simp at hp
    omega

theorem Amt.isZero_iff (M : Nat) (a : Amt) : Amt.isZero M a = true ↔ ∀ d, d < M → a d = 0 := by
  unfold Amt.isZero
  rw [Bool.not_eq_true', ← Bool.not_eq_true, anyTo_iff]
  constructor
  · intro h d hd
    apply Nat.eq_zero_of_not_pos
    intro hlt
    exact h ⟨d, hd, by simpa using hlt⟩
  · rintro h ⟨d, hd, hp⟩
    have := h d hd
    simp at hp
    omega

/-- well-formed period list: no negative length (ValidateBasic demands ≥ 1; the defaults and the
    merge functions produce 0) -/
def WF (ps : List Period) : Prop := ∀ p ∈ ps, 0 ≤ p.length

theorem WF_nil : WF [] := fun _ h => by cases h
theorem WF_tail {p : Period} {ps : List Period} (h : WF (p :: ps)) : WF ps :=
  fun q hq => h q (List.mem_cons_of_mem _ hq)
theorem WF_head {p : Period} {ps : List Period} (h : WF (p :: ps)) : 0 ≤ p.length :=
  h p List.mem_cons_self
theorem WF_cons {p : Period} {ps : List Period} (h0 : 0 ≤ p.length) (h : WF ps) : WF (p :: ps) := by
  intro q hq
  cases hq with
  | head => exact h0
  | tail _ hq' => exact h q hq'

theorem totalLength_nonneg (ps : List Period) (h : WF ps) : 0 ≤ totalLength ps := by
  induction ps with
  | nil => simp [totalLength]
  | cons p rest ih =>
    have := WF_head h
    have := ih (WF_tail h)
    simp only [totalLength]; omega

/-! ### ReadSchedule -/

theorem readLoop_zero_of_lt (e : Int) (ps : List Period) (t : Int) (d : Nat) (h : WF ps) (ht : t < e) :
    readLoop e ps t d = 0 := by
  cases ps with
  | nil => rfl
  | cons p rest =>
    have := WF_head h
    unfold readLoop
    have : t < e + p.length := by omega
    simp [this]

theorem readLoop_mono (ps : List Period) : ∀ (e t1 t2 : Int) (d : Nat), t1 ≤ t2 →
    readLoop e ps t1 d ≤ readLoop e ps t2 d := by
  induction ps with
  | nil => intro e t1 t2 d _; simp [readLoop]
  | cons p rest ih =>
    intro e t1 t2 d h
    unfold readLoop
    by_cases h1 : t1 < e + p.length
    · simp [h1]
    · have h2 : ¬ t2 < e + p.length := by omega
      simp only [h1, h2, if_false, Amt.add_apply]
      have := ih (e + p.length) t1 t2 d h
      omega

theorem readLoop_le_total (ps : List Period) : ∀ (e t : Int) (d : Nat),
    readLoop e ps t d ≤ totalAmount ps d := by
  induction ps with
  | nil => intro e t d; simp [readLoop, totalAmount]
  | cons p rest ih =>
    intro e t d
    unfold readLoop
    simp only [totalAmount, Amt.add_apply]
    split
    · simp
    · have := ih (e + p.length) t d
      simp only [Amt.add_apply]; omega

theorem readLoop_all (ps : List Period) : ∀ (e t : Int) (d : Nat), WF ps → e + totalLength ps ≤ t →
    readLoop e ps t d = totalAmount ps d := by
  induction ps with
  | nil => intro e t d _ _; simp [readLoop, totalAmount]
  | cons p rest ih =>
    intro e t d hw h
    have h0 := WF_head hw
    have hr := totalLength_nonneg rest (WF_tail hw)
    simp only [totalLength] at h
    unfold readLoop
    have : ¬ t < e + p.length := by omega
    simp only [this, if_false, totalAmount, Amt.add_apply]
    rw [ih (e + p.length) t d (WF_tail hw) (by omega)]

/-- the reference step function: Σ of the amounts of all periods whose absolute end time is ≤ t
    (no early exit) -/
def stepLoop (e : Int) (ps : List Period) (t : Int) : Amt :=
  match ps with
  | [] => Amt.zero
  | p :: rest => Amt.add (if e + p.length ≤ t then p.amount else Amt.zero) (stepLoop (e + p.length) rest t)

theorem stepLoop_zero_of_lt (ps : List Period) : ∀ (e t : Int) (d : Nat), WF ps → t < e →
    stepLoop e ps t d = 0 := by
  induction ps with
  | nil => intro e t d _ _; rfl
  | cons p rest ih =>
    intro e t d hw ht
    have h0 := WF_head hw
    unfold stepLoop
    have : ¬ e + p.length ≤ t := by omega
    simp only [this, if_false, Amt.add_apply, Amt.zero_apply, Nat.zero_add]
    exact ih _ _ _ (WF_tail hw) (by omega)

/-- the loop of ReadSchedule computes the step function (for well-formed period lists) -/
theorem readLoop_eq_step (ps : List Period) : ∀ (e t : Int) (d : Nat), WF ps →
    readLoop e ps t d = stepLoop e ps t d := by
  induction ps with
  | nil => intro e t d _; rfl
  | cons p rest ih =>
    intro e t d hw
    unfold readLoop stepLoop
    by_cases h : t < e + p.length
    · have h' : ¬ e + p.length ≤ t := by omega
      simp only [h, h', if_true, if_false, Amt.add_apply, Amt.zero_apply, Nat.zero_add]
      exact (stepLoop_zero_of_lt rest _ _ _ (WF_tail hw) h).symm
    · have h' : e + p.length ≤ t := by omega
      simp only [h, h', if_true, if_false, Amt.add_apply]
      rw [ih _ _ _ (WF_tail hw)]

/-- a schedule as the account stores it: periods, start, an end time not before the last event, and
    a total equal to the sum of the period amounts (what `Validate()` checks) -/
structure Valid (start endT : Int) (ps : List Period) (total : Amt) : Prop where
  wf : WF ps
  endOk : start + totalLength ps ≤ endT
  sum : ∀ d, total d = totalAmount ps d

theorem read_zero (start endT : Int) (ps : List Period) (total : Amt) (t : Int) (h : t ≤ start) :
    readSchedule start endT ps total t = Amt.zero := by
  simp [readSchedule, h]

theorem read_total (start endT : Int) (ps : List Period) (total : Amt) (t : Int)
    (hs : start < t) (h : endT ≤ t) : readSchedule start endT ps total t = total := by
  have : ¬ t ≤ start := by omega
  simp [readSchedule, this, h]

/-- **step function**: strictly after the start, ReadSchedule yields the sum of all periods ended
    by t -/
theorem read_eq_step (start endT : Int) (ps : List Period) (total : Amt) (t : Int) (d : Nat)
    (hv : Valid start endT ps total) (hs : start < t) :
    readSchedule start endT ps total t d = stepLoop start ps t d := by
  unfold readSchedule
  have : ¬ t ≤ start := by omega
  simp only [this, if_false]
  split
  · rename_i he
    rw [hv.sum d, ← readLoop_eq_step ps start t d hv.wf]
    exact (readLoop_all ps start t d hv.wf (by have := hv.endOk; omega)).symm
  · exact readLoop_eq_step ps start t d hv.wf

theorem read_le_total (start endT : Int) (ps : List Period) (total : Amt) (t : Int) (d : Nat)
    (hv : Valid start endT ps total) : readSchedule start endT ps total t d ≤ total d := by
  unfold readSchedule
  split
  · simp
  · split
    · exact Nat.le_refl _
    · rw [hv.sum d]; exact readLoop_le_total ps start t d

/-- non-decreasing in t -/
theorem read_mono (start endT : Int) (ps : List Period) (total : Amt) (t1 t2 : Int) (d : Nat)
    (hv : Valid start endT ps total) (h : t1 ≤ t2) :
    readSchedule start endT ps total t1 d ≤ readSchedule start endT ps total t2 d := by
  by_cases h1 : t1 ≤ start
  · rw [read_zero start endT ps total t1 h1]; simp
  · have h2 : ¬ t2 ≤ start := by omega
    by_cases e2 : endT ≤ t2
    · rw [read_total start endT ps total t2 (by omega) e2]
      exact read_le_total start endT ps total t1 d hv
    · have e1 : ¬ endT ≤ t1 := by omega
      have e1' : ¬ t1 ≥ endT := by omega
      have e2' : ¬ t2 ≥ endT := by omega
      simp only [readSchedule, h1, h2, e1', e2', if_false]
      exact readLoop_mono ps start t1 t2 d h

/-- vested + unvested = original, locked + unlocked = original (no truncated subtraction) -/
theorem read_add_rest (start endT : Int) (ps : List Period) (total : Amt) (t : Int) (d : Nat)
    (hv : Valid start endT ps total) :
    readSchedule start endT ps total t d + (Amt.sub total (readSchedule start endT ps total t)) d = total d := by
  have := read_le_total start endT ps total t d hv
  simp only [Amt.sub_apply]; omega

/-! ### ReadPastPeriodCount -/

theorem totalAmount_take_pastLoop (ps : List Period) : ∀ (e t : Int) (d : Nat),
    totalAmount (ps.take (pastLoop e ps t)) d = readLoop e ps t d := by
  induction ps with
  | nil => intro e t d; simp [pastLoop, readLoop, totalAmount]
  | cons p rest ih =>
    intro e t d
    unfold pastLoop readLoop
    split
    · simp [totalAmount]
    · rw [Nat.add_comm 1, List.take_succ_cons]
      simp only [totalAmount, Amt.add_apply, ih]

/-- reading the passed prefix at the same instant gives the same amount -/
theorem readLoop_take_pastLoop (ps : List Period) : ∀ (e t : Int) (d : Nat),
    readLoop e (ps.take (pastLoop e ps t)) t d = readLoop e ps t d := by
  induction ps with
  | nil => intro e t d; simp [pastLoop, readLoop]
  | cons p rest ih =>
    intro e t d
    unfold pastLoop
    split
    · rename_i h; simp [readLoop, h]
    · rename_i h
      rw [Nat.add_comm 1, List.take_succ_cons]
      simp only [readLoop, h, if_false, Amt.add_apply, ih]

theorem pastLoop_le_length (ps : List Period) : ∀ (e t : Int), pastLoop e ps t ≤ ps.length := by
  induction ps with
  | nil => intro e t; simp [pastLoop]
  | cons p rest ih =>
    intro e t
    unfold pastLoop
    split
    · simp
    · have := ih (e + p.length) t; simp only [List.length_cons]; omega

/-- the passed prefix sums to what ReadSchedule reports -/
theorem pastCount_sum (start endT : Int) (ps : List Period) (total : Amt) (t : Int) (d : Nat)
    (hv : Valid start endT ps total) :
    totalAmount (ps.take (readPastPeriodCount start endT ps t)) d = readSchedule start endT ps total t d := by
  unfold readPastPeriodCount readSchedule
  split
  · simp [totalAmount]
  · split
    · simp [hv.sum d]
    · exact totalAmount_take_pastLoop ps start t d

theorem WF_take (ps : List Period) (n : Nat) (h : WF ps) : WF (ps.take n) :=
  fun p hp => h p (List.mem_of_mem_take hp)

theorem totalLength_take_le (ps : List Period) (n : Nat) (h : WF ps) :
    totalLength (ps.take n) ≤ totalLength ps := by
  induction ps generalizing n with
  | nil => simp [totalLength]
  | cons p rest ih =>
    cases n with
    | zero => simp only [List.take_zero, totalLength]; have := totalLength_nonneg _ h; simpa [totalLength] using this
    | succ k =>
      simp only [List.take_succ_cons, totalLength]
      have := ih k (WF_tail h); omega

/-! ### DisjunctPeriods -/

/-- the next event of a side is not before the last emitted time -/
def Next (tX e : Int) (xs : List Period) : Prop :=
  match xs with
  | [] => True
  | x :: _ => e ≤ tX + x.length

theorem Next_tail (tX : Int) (x : Period) (xs : List Period) (h : WF (x :: xs)) :
    Next (tX + x.length) (tX + x.length) xs := by
  cases xs with
  | nil => trivial
  | cons y ys => have := WF_head (WF_tail h); simp only [Next]; omega

/-- reading the merged list = reading both inputs (for every t and denomination) -/
theorem disj_read (tA tB e : Int) (as bs : List Period) (t : Int) (d : Nat)
    (hA : WF as) (hB : WF bs) (nA : Next tA e as) (nB : Next tB e bs) :
    readLoop e (disj tA tB e as bs) t d = readLoop tA as t d + readLoop tB bs t d := by
  fun_induction disj tA tB e as bs with
  | case1 => simp [readLoop]
  | case2 tA tB e a as ih =>
    have ih' := ih (WF_tail hA) hB (Next_tail tA a as hA) (by trivial)
    simp only [readLoop] at *
    have : e + (tA + a.length - e) = tA + a.length := by omega
    rw [this]
    split <;> simp [ih']
  | case3 tA tB e b bs ih =>
    have ih' := ih hA (WF_tail hB) (by trivial) (Next_tail tB b bs hB)
    simp only [readLoop] at *
    have : e + (tB + b.length - e) = tB + b.length := by omega
    rw [this]
    split <;> simp [ih']
  | case4 tA tB e a as b bs hlt ih =>
    have hnB : Next tB (tA + a.length) (b :: bs) := by simp only [Next]; omega
    have ih' := ih (WF_tail hA) hB (Next_tail tA a as hA) hnB
    have he : e + (tA + a.length - e) = tA + a.length := by omega
    conv => lhs; unfold readLoop
    conv => rhs; lhs; unfold readLoop
    simp only [he]
    by_cases h : t < tA + a.length
    · have h2 : readLoop tB (b :: bs) t d = 0 := by
        unfold readLoop; have : t < tB + b.length := by omega
        simp [this]
      simp [h, h2]
    · simp only [h, if_false, Amt.add_apply, ih']; omega
  | case5 tA tB e a as b bs hnlt hlt ih =>
    have hnA : Next tA (tB + b.length) (a :: as) := by simp only [Next]; omega
    have ih' := ih hA (WF_tail hB) hnA (Next_tail tB b bs hB)
    have he : e + (tB + b.length - e) = tB + b.length := by omega
    conv => lhs; unfold readLoop
    conv => rhs; rhs; unfold readLoop
    simp only [he]
    by_cases h : t < tB + b.length
    · have h2 : readLoop tA (a :: as) t d = 0 := by
        unfold readLoop; have : t < tA + a.length := by omega
        simp [this]
      simp [h, h2]
    · simp only [h, if_false, Amt.add_apply, ih']; omega
  | case6 tA tB e a as b bs hnlt hnlt2 ih =>
    have heq : tA + a.length = tB + b.length := by omega
    have hnB : Next (tB + b.length) (tA + a.length) bs := by
      rw [heq]; exact Next_tail tB b bs hB
    have ih' := ih (WF_tail hA) (WF_tail hB) (Next_tail tA a as hA) hnB
    have he : e + (tA + a.length - e) = tA + a.length := by omega
    conv => lhs; unfold readLoop
    conv => rhs; lhs; unfold readLoop
    conv => rhs; rhs; unfold readLoop
    rw [he]
    by_cases h : t < tA + a.length
    · have h' : t < tB + b.length := by omega
      simp [h, h']
    · have h' : ¬ t < tB + b.length := by omega
      simp only [h, h', if_false, Amt.add_apply, ih']; omega

/-- nothing is created or lost by the merge -/
theorem disj_total (tA tB e : Int) (as bs : List Period) (d : Nat) :
    totalAmount (disj tA tB e as bs) d = totalAmount as d + totalAmount bs d := by
  fun_induction disj tA tB e as bs with
  | case1 => simp [totalAmount]
  | case2 tA tB e a as ih => simp only [totalAmount, Amt.add_apply, ih, Amt.zero_apply]; omega
  | case3 tA tB e b bs ih => simp only [totalAmount, Amt.add_apply, ih, Amt.zero_apply]; omega
  | case4 tA tB e a as b bs hlt ih => simp only [totalAmount, Amt.add_apply, ih]; omega
  | case5 tA tB e a as b bs hnlt hlt ih => simp only [totalAmount, Amt.add_apply, ih]; omega
  | case6 tA tB e a as b bs hnlt hnlt2 ih => simp only [totalAmount, Amt.add_apply, ih]; omega

/-- the merged list is well-formed -/
theorem disj_WF (tA tB e : Int) (as bs : List Period)
    (hA : WF as) (hB : WF bs) (nA : Next tA e as) (nB : Next tB e bs) : WF (disj tA tB e as bs) := by
  fun_induction disj tA tB e as bs with
  | case1 => exact WF_nil
  | case2 tA tB e a as ih =>
    refine WF_cons ?_ (ih (WF_tail hA) hB (Next_tail tA a as hA) (by trivial))
    simp only [Next] at nA; simp only; omega
  | case3 tA tB e b bs ih =>
    refine WF_cons ?_ (ih hA (WF_tail hB) (by trivial) (Next_tail tB b bs hB))
    simp only [Next] at nB; simp only; omega
  | case4 tA tB e a as b bs hlt ih =>
    have hnB : Next tB (tA + a.length) (b :: bs) := by simp only [Next]; omega
    refine WF_cons ?_ (ih (WF_tail hA) hB (Next_tail tA a as hA) hnB)
    simp only [Next] at nA; simp only; omega
  | case5 tA tB e a as b bs hnlt hlt ih =>
    have hnA : Next tA (tB + b.length) (a :: as) := by simp only [Next]; omega
    refine WF_cons ?_ (ih hA (WF_tail hB) hnA (Next_tail tB b bs hB))
    simp only [Next] at nB; simp only; omega
  | case6 tA tB e a as b bs hnlt hnlt2 ih =>
    have heq : tA + a.length = tB + b.length := by omega
    have hnB : Next (tB + b.length) (tA + a.length) bs := by rw [heq]; exact Next_tail tB b bs hB
    refine WF_cons ?_ (ih (WF_tail hA) (WF_tail hB) (Next_tail tA a as hA) hnB)
    simp only [Next] at nA; simp only; omega

/-- end of the merged list = the later of the two ends (a side without periods does not count) -/
theorem disj_end (tA tB e : Int) (as bs : List Period)
    (hA : WF as) (hB : WF bs) (nA : Next tA e as) (nB : Next tB e bs) :
    e + totalLength (disj tA tB e as bs) =
      max e (max (if as.isEmpty then e else tA + totalLength as) (if bs.isEmpty then e else tB + totalLength bs)) := by
  fun_induction disj tA tB e as bs with
  | case1 => simp [totalLength]
  | case2 tA tB e a as ih =>
    have ih' := ih (WF_tail hA) hB (Next_tail tA a as hA) (by trivial)
    have hr := totalLength_nonneg as (WF_tail hA)
    simp only [Next] at nA
    simp only [totalLength, List.isEmpty_cons, List.isEmpty_nil] at *
    cases as with
    | nil => simp [totalLength] at *; omega
    | cons x xs => simp only [List.isEmpty_cons] at ih'; simp at *; omega
  | case3 tA tB e b bs ih =>
    have ih' := ih hA (WF_tail hB) (by trivial) (Next_tail tB b bs hB)
    have hr := totalLength_nonneg bs (WF_tail hB)
    simp only [Next] at nB
    simp only [totalLength, List.isEmpty_cons, List.isEmpty_nil] at *
    cases bs with
    | nil => simp [totalLength] at *; omega
    | cons x xs => simp only [List.isEmpty_cons] at ih'; simp at *; omega
  | case4 tA tB e a as b bs hlt ih =>
    have hnB : Next tB (tA + a.length) (b :: bs) := by simp only [Next]; omega
    have ih' := ih (WF_tail hA) hB (Next_tail tA a as hA) hnB
    have hr := totalLength_nonneg as (WF_tail hA)
    have hrb := totalLength_nonneg bs (WF_tail hB)
    simp only [Next] at nA nB
    simp only [totalLength, List.isEmpty_cons] at *
    cases as with
    | nil => simp [totalLength] at *; omega
    | cons x xs => simp only [List.isEmpty_cons] at ih'; simp at *; omega
  | case5 tA tB e a as b bs hnlt hlt ih =>
    have hnA : Next tA (tB + b.length) (a :: as) := by simp only [Next]; omega
    have ih' := ih hA (WF_tail hB) hnA (Next_tail tB b bs hB)
    have hr := totalLength_nonneg as (WF_tail hA)
    have hrb := totalLength_nonneg bs (WF_tail hB)
    simp only [Next] at nA nB
    simp only [totalLength, List.isEmpty_cons] at *
    cases bs with
    | nil => simp [totalLength] at *; omega
    | cons x xs => simp only [List.isEmpty_cons] at ih'; simp at *; omega
  | case6 tA tB e a as b bs hnlt hnlt2 ih =>
    have heq : tA + a.length = tB + b.length := by omega
    have hnB : Next (tB + b.length) (tA + a.length) bs := by rw [heq]; exact Next_tail tB b bs hB
    have ih' := ih (WF_tail hA) (WF_tail hB) (Next_tail tA a as hA) hnB
    have hr := totalLength_nonneg as (WF_tail hA)
    have hrb := totalLength_nonneg bs (WF_tail hB)
    simp only [Next] at nA nB
    simp only [totalLength, List.isEmpty_cons] at *
    cases as with
    | nil =>
      cases bs with
      | nil => simp [totalLength] at *; omega
      | cons y ys => simp only [List.isEmpty_cons, List.isEmpty_nil] at ih'; simp [totalLength] at *; omega
    | cons x xs =>
      cases bs with
      | nil => simp only [List.isEmpty_cons, List.isEmpty_nil] at ih'; simp [totalLength] at *; omega
      | cons y ys => simp only [List.isEmpty_cons] at ih'; simp at *; omega

end Haqq.Sched
