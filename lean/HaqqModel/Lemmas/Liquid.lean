import HaqqModel.Model.LiquidVesting
import HaqqModel.Lemmas.Schedule

namespace Haqq.Liquid
open Haqq.Sched Haqq.Vest

/-! ### the residue pass -/

def fsts (l : List (Nat × Nat)) : List Nat := l.map (·.1)
def snds (l : List (Nat × Nat)) : List Nat := l.map (·.2)
def sums (l : List (Nat × Nat)) : List Nat := l.map fun x => x.1 + x.2

theorem pushResidue_spec (l : List (Nat × Nat)) : ∀ r,
    sums (pushResidue l r).1 = sums l ∧
    sumList (snds (pushResidue l r).1) + (pushResidue l r).2 = sumList (snds l) + r ∧
    (r ≤ sumList (fsts l) → (pushResidue l r).2 = 0) := by
  induction l with
  | nil => intro r; simp [pushResidue, sums, snds, fsts, sumList]
  | cons hd tl ih =>
    intro r
    obtain ⟨dc, df⟩ := hd
    unfold pushResidue
    split
    · rename_i hlt
      obtain ⟨h1, h2, h3⟩ := ih (r - dc)
      refine ⟨?_, ?_, ?_⟩
      · simp only [sums, List.map_cons] at *; rw [h1]; simp; omega
      · simp only [snds, List.map_cons, sumList] at *; omega
      · intro hle
        simp only [fsts, List.map_cons, sumList] at *
        exact h3 (by omega)
    · rename_i hge
      refine ⟨?_, ?_, ?_⟩
      · simp only [sums, List.map_cons]; congr 1; omega
      · simp only [snds, List.map_cons, sumList]; omega
      · intro _; rfl

theorem sumList_append (a b : List Nat) : sumList (a ++ b) = sumList a + sumList b := by
  induction a with
  | nil => simp [sumList]
  | cons x xs ih => simp only [List.cons_append, sumList, ih]; omega

theorem sumList_reverse (a : List Nat) : sumList a.reverse = sumList a := by
  induction a with
  | nil => rfl
  | cons x xs ih => simp only [List.reverse_cons, sumList_append, sumList, ih]; omega

/-! ### the proportional pass -/

theorem share_le (a s T : Nat) (hs : s ≤ T) (hT : 0 < T) : a * s / T ≤ a := by
  calc a * s / T ≤ a * T / T := Nat.div_le_div_right (Nat.mul_le_mul_left a hs)
    _ = a := Nat.mul_div_cancel a hT

theorem mul_sum_shares_le (as : List Nat) (s T : Nat) :
    T * sumList (shares as s T) ≤ sumList as * s := by
  induction as with
  | nil => simp [shares, sumList]
  | cons a rest ih =>
    simp only [shares, List.map_cons, sumList] at *
    have := Nat.mul_div_le (a * s) T
    rw [Nat.mul_add, Nat.add_mul]
    omega

theorem sum_shares_le (as : List Nat) (s : Nat) (hT : 0 < sumList as) :
    sumList (shares as s (sumList as)) ≤ s := by
  have h := mul_sum_shares_le as s (sumList as)
  rw [Nat.mul_comm (sumList as) s] at h
  have := Nat.le_of_mul_le_mul_left (by rw [Nat.mul_comm s] at h; exact h) hT
  exact this

theorem pairs_facts (as : List Nat) (s T : Nat) (hs : s ≤ T) (hT : 0 < T) :
    sums (mkPairs as (shares as s T)) = as ∧
    snds (mkPairs as (shares as s T)) = shares as s T ∧
    sumList (fsts (mkPairs as (shares as s T))) + sumList (shares as s T) = sumList as := by
  induction as with
  | nil => simp [shares, mkPairs, sums, snds, fsts, sumList]
  | cons a rest ih =>
    obtain ⟨h1, h2, h3⟩ := ih
    have hle := share_le a s T hs hT
    simp only [shares, List.map_cons, mkPairs, sums, snds, fsts, sumList] at *
    refine ⟨?_, ?_, ?_⟩
    · rw [h1]; congr 1; omega
    · rw [h2]
    · omega

theorem sums_reverse (l : List (Nat × Nat)) : sums l.reverse = (sums l).reverse := by
  simp [sums, List.map_reverse]
theorem snds_reverse (l : List (Nat × Nat)) : snds l.reverse = (snds l).reverse := by
  simp [snds, List.map_reverse]
theorem fsts_reverse (l : List (Nat × Nat)) : fsts l.reverse = (fsts l).reverse := by
  simp [fsts, List.map_reverse]

/-- SubtractAmountFromPeriods on one denomination: per period left + moved = original, the moved
    amounts sum to the requested amount, and it fails exactly when the total is zero or too small -/
theorem subtractAmounts_spec (as : List Nat) (s : Nat) :
    (subtractAmounts as s = none ↔ (sumList as < s ∨ sumList as = 0)) ∧
    ∀ pairs, subtractAmounts as s = some pairs → sums pairs = as ∧ sumList (snds pairs) = s := by
  unfold subtractAmounts
  by_cases hc : sumList as < s ∨ sumList as = 0
  · have : (decide (sumList as < s) || decide (sumList as = 0)) = true := by
      rcases hc with h | h <;> simp [h]
    simp [this, hc]
  · have hdec : (decide (sumList as < s) || decide (sumList as = 0)) = false := by
      have h1 : ¬ sumList as < s := fun h => hc (Or.inl h)
      have h2 : ¬ sumList as = 0 := fun h => hc (Or.inr h)
      simp [h1, h2]
    simp only [hdec, Bool.false_eq_true, if_false, hc, iff_false]
    refine ⟨by simp, ?_⟩
    intro pairs hp
    simp only [Option.some.injEq] at hp
    subst hp
    have hs : s ≤ sumList as := by omega
    have hT : 0 < sumList as := by omega
    obtain ⟨p1, p2, p3⟩ := pairs_facts as s (sumList as) hs hT
    have hsh := sum_shares_le as s hT
    obtain ⟨q1, q2, q3⟩ := pushResidue_spec
      (mkPairs as (shares as s (sumList as))).reverse (s - sumList (shares as s (sumList as)))
    have hres : (pushResidue (mkPairs as (shares as s (sumList as))).reverse
        (s - sumList (shares as s (sumList as)))).2 = 0 := by
      apply q3
      rw [fsts_reverse, sumList_reverse]; omega
    constructor
    · rw [sums_reverse, q1, sums_reverse, List.reverse_reverse, p1]
    · rw [snds_reverse, sumList_reverse]
      rw [hres, snds_reverse, sumList_reverse, p2] at q2
      omega

theorem pushResidue_length (l : List (Nat × Nat)) : ∀ r, (pushResidue l r).1.length = l.length := by
  induction l with
  | nil => intro r; rfl
  | cons hd tl ih =>
    intro r; obtain ⟨dc, df⟩ := hd
    unfold pushResidue
    split
    · simp [ih]
    · simp

theorem subtractAmounts_length (as : List Nat) (s : Nat) (pairs : List (Nat × Nat))
    (h : subtractAmounts as s = some pairs) : pairs.length = as.length := by
  have := (subtractAmounts_spec as s).2 pairs h
  have h1 : (sums pairs).length = as.length := by rw [this.1]
  simpa [sums] using h1

/-! ### period level -/

/-- `ps` splits into `qs` (stays) and `rs` (moves) at denomination d: same lengths period by period,
    amounts add up -/
def SplitAt (d : Nat) : List Period → List Period → List Period → Prop
  | [], [], [] => True
  | p :: ps, q :: qs, r :: rs =>
      q.length = p.length ∧ r.length = p.length ∧ p.amount d = q.amount d + r.amount d ∧ SplitAt d ps qs rs
  | _, _, _ => False

theorem zip_split (denom d : Nat) : ∀ (ps : List Period) (pairs : List (Nat × Nat)),
    pairs.length = ps.length → sums pairs = ps.map (fun p => p.amount denom) →
    SplitAt d ps (mkDec denom ps pairs) (mkDiff denom ps pairs) := by
  intro ps
  induction ps with
  | nil => intro pairs hl _; cases pairs <;> simp_all [SplitAt, mkDec, mkDiff]
  | cons p rest ih =>
    intro pairs hl hs
    cases pairs with
    | nil => simp at hl
    | cons x xs =>
      simp only [List.length_cons, Nat.add_right_cancel_iff] at hl
      simp only [sums, List.map_cons, List.cons.injEq] at hs
      simp only [mkDec, mkDiff, SplitAt]
      refine ⟨by first | rfl | trivial, by first | rfl | trivial, ?_, ih xs hl hs.2⟩
      simp only [setDenom, single]
      by_cases h : d = denom
      · subst h; simp; omega
      · simp [h]

theorem mkDiff_amounts (denom : Nat) : ∀ (ps : List Period) (pairs : List (Nat × Nat)),
    pairs.length = ps.length → (mkDiff denom ps pairs).map (fun p => p.amount denom) = snds pairs := by
  intro ps
  induction ps with
  | nil => intro pairs hl; cases pairs <;> simp_all [snds, mkDiff]
  | cons p rest ih =>
    intro pairs hl
    cases pairs with
    | nil => simp at hl
    | cons x xs =>
      simp only [List.length_cons, Nat.add_right_cancel_iff] at hl
      simp only [mkDiff, List.map_cons, snds, single, if_true, List.cons.injEq, true_and]
      exact ih xs hl

theorem mkDec_amounts (denom : Nat) : ∀ (ps : List Period) (pairs : List (Nat × Nat)),
    pairs.length = ps.length → (mkDec denom ps pairs).map (fun p => p.amount denom) = fsts pairs := by
  intro ps
  induction ps with
  | nil => intro pairs hl; cases pairs <;> simp_all [fsts, mkDec]
  | cons p rest ih =>
    intro pairs hl
    cases pairs with
    | nil => simp at hl
    | cons x xs =>
      simp only [List.length_cons, Nat.add_right_cancel_iff] at hl
      simp only [mkDec, List.map_cons, fsts, setDenom, if_true, List.cons.injEq, true_and]
      exact ih xs hl

theorem mkDiff_other (denom : Nat) : ∀ (ps : List Period) (pairs : List (Nat × Nat)),
    ∀ p ∈ mkDiff denom ps pairs, ∀ d, d ≠ denom → p.amount d = 0 := by
  intro ps
  induction ps with
  | nil => intro pairs p hp; cases pairs <;> simp [mkDiff] at hp
  | cons q rest ih =>
    intro pairs p hp d hd
    cases pairs with
    | nil => simp [mkDiff] at hp
    | cons x xs =>
      simp only [mkDiff, List.mem_cons] at hp
      rcases hp with h | h
      · subst h; simp [single, hd]
      · exact ih xs p h d hd

/-- **exact split**: on success every period keeps its length in both results, left + moved equals the
    original amount in every denomination, only the target denomination moves, and the moved amounts
    sum to the requested amount -/
theorem subtract_spec (ps : List Period) (denom s : Nat) (dec diff : List Period)
    (h : subtractAmountFromPeriods ps denom s = some (dec, diff)) :
    (∀ d, SplitAt d ps dec diff) ∧
    sumList (diff.map fun p => p.amount denom) = s ∧
    (∀ p ∈ diff, ∀ d, d ≠ denom → p.amount d = 0) ∧
    sumList (dec.map fun p => p.amount denom) + s = sumList (ps.map fun p => p.amount denom) := by
  unfold subtractAmountFromPeriods at h
  split at h
  · simp at h
  · rename_i pairs hp
    simp only [Option.some.injEq, Prod.mk.injEq] at h
    obtain ⟨hdec, hdiff⟩ := h
    obtain ⟨hsums, hsnd⟩ := (subtractAmounts_spec _ s).2 pairs hp
    have hlen : pairs.length = ps.length := by
      have := subtractAmounts_length _ s pairs hp; simpa using this
    subst hdec; subst hdiff
    refine ⟨fun d => zip_split denom d ps pairs hlen hsums, ?_, mkDiff_other denom ps pairs, ?_⟩
    · rw [mkDiff_amounts denom ps pairs hlen, hsnd]
    · rw [mkDec_amounts denom ps pairs hlen, ← hsums, ← hsnd]
      clear hsums hsnd hp hlen
      induction pairs with
      | nil => simp [fsts, snds, sums, sumList]
      | cons x xs ih => simp only [fsts, snds, sums, List.map_cons, sumList] at *; omega

/-- it fails exactly when the periods hold less than the amount, or nothing at all -/
theorem subtract_none_iff (ps : List Period) (denom s : Nat) :
    subtractAmountFromPeriods ps denom s = none ↔
      (sumList (ps.map fun p => p.amount denom) < s ∨ sumList (ps.map fun p => p.amount denom) = 0) := by
  unfold subtractAmountFromPeriods
  have := (subtractAmounts_spec (ps.map fun p => p.amount denom) s).1
  split
  · rename_i h; simp [this.1 h]
  · rename_i pairs h
    simp only [reduceCtorEq, false_iff]
    intro hc
    rw [this.2 hc] at h
    simp at h

/-- reading a split schedule: the two parts add up to the original, at every instant -/
theorem readLoop_split (d : Nat) : ∀ (ps qs rs : List Period) (e t : Int), SplitAt d ps qs rs →
    readLoop e ps t d = readLoop e qs t d + readLoop e rs t d := by
  intro ps
  induction ps with
  | nil =>
    intro qs rs e t h
    cases qs <;> cases rs <;> simp_all [SplitAt, readLoop]
  | cons p rest ih =>
    intro qs rs e t h
    cases qs with
    | nil => cases rs <;> simp [SplitAt] at h
    | cons q qs' =>
      cases rs with
      | nil => simp [SplitAt] at h
      | cons r rs' =>
        obtain ⟨hq, hr, ha, hrest⟩ := h
        unfold readLoop
        rw [hq, hr]
        split
        · simp
        · simp only [Amt.add_apply, ih qs' rs' _ t hrest, ha]; omega

theorem split_lengths (d : Nat) : ∀ (ps qs rs : List Period), SplitAt d ps qs rs →
    totalLength qs = totalLength ps ∧ totalLength rs = totalLength ps ∧ qs.length = ps.length ∧ rs.length = ps.length ∧
    (WF ps → WF qs ∧ WF rs) := by
  intro ps
  induction ps with
  | nil => intro qs rs h; cases qs <;> cases rs <;> simp_all [SplitAt, totalLength, WF]
  | cons p rest ih =>
    intro qs rs h
    cases qs with
    | nil => cases rs <;> simp [SplitAt] at h
    | cons q qs' =>
      cases rs with
      | nil => simp [SplitAt] at h
      | cons r rs' =>
        obtain ⟨hq, hr, _, hrest⟩ := h
        obtain ⟨i1, i2, i3, i4, i5⟩ := ih qs' rs' hrest
        refine ⟨by simp only [totalLength]; omega, by simp only [totalLength]; omega, by simp [i3], by simp [i4], ?_⟩
        intro hw
        obtain ⟨w1, w2⟩ := i5 (WF_tail hw)
        have h0 := WF_head hw
        exact ⟨WF_cons (by omega) w1, WF_cons (by omega) w2⟩

theorem split_total (d : Nat) : ∀ (ps qs rs : List Period), SplitAt d ps qs rs →
    totalAmount ps d = totalAmount qs d + totalAmount rs d := by
  intro ps
  induction ps with
  | nil => intro qs rs h; cases qs <;> cases rs <;> simp_all [SplitAt, totalAmount]
  | cons p rest ih =>
    intro qs rs h
    cases qs with
    | nil => cases rs <;> simp [SplitAt] at h
    | cons q qs' =>
      cases rs with
      | nil => simp [SplitAt] at h
      | cons r rs' =>
        obtain ⟨_, _, ha, hrest⟩ := h
        simp only [totalAmount, Amt.add_apply, ih qs' rs' hrest, ha]; omega

/-! ### time bookkeeping -/

/-- shortening the first period by k while starting k later leaves every event where it was -/
theorem readLoop_shift (e k : Int) (ps : List Period) (t : Int) (d : Nat) :
    readLoop (e + k) (alignFirst ps (-k)) t d = readLoop e ps t d := by
  cases ps with
  | nil => rfl
  | cons p rest =>
    simp only [alignFirst, readLoop]
    have : e + k + (p.length + -k) = e + p.length := by omega
    rw [this]

/-- reading a concatenation after the whole head has passed: the head's total plus the tail's reading -/
theorem readLoop_append_ge (xs : List Period) : ∀ (e : Int) (ys : List Period) (t : Int) (d : Nat), WF xs →
    e + totalLength xs ≤ t →
    readLoop e (xs ++ ys) t d = totalAmount xs d + readLoop (e + totalLength xs) ys t d := by
  induction xs with
  | nil => intro e ys t d _ _; simp [totalLength, totalAmount]
  | cons x rest ih =>
    intro e ys t d hw hle
    have h0 := WF_head hw
    have hr := totalLength_nonneg rest (WF_tail hw)
    simp only [totalLength] at hle
    have h : ¬ t < e + x.length := by omega
    have e1 : e + x.length + totalLength rest = e + totalLength (x :: rest) := by simp only [totalLength]; omega
    have lhs : readLoop e (x :: rest ++ ys) t d = x.amount d + readLoop (e + x.length) (rest ++ ys) t d := by
      simp only [List.cons_append]
      conv => lhs; unfold readLoop
      simp [h]
    rw [lhs, ih (e + x.length) ys t d (WF_tail hw) (by omega), e1]
    simp only [totalAmount, Amt.add_apply]; omega

/-- … and before that the tail is not reached -/
theorem readLoop_append_lt (xs : List Period) : ∀ (e : Int) (ys : List Period) (t : Int) (d : Nat), WF xs → WF ys →
    t < e + totalLength xs → readLoop e (xs ++ ys) t d = readLoop e xs t d := by
  induction xs with
  | nil =>
    intro e ys t d _ hy hlt
    simp only [totalLength] at hlt
    simp only [List.nil_append]
    rw [readLoop_zero_of_lt e ys t d hy (by omega)]; simp [readLoop]
  | cons x rest ih =>
    intro e ys t d hw hy hlt
    simp only [totalLength] at hlt
    simp only [List.cons_append]
    by_cases h : t < e + x.length
    · conv => lhs; unfold readLoop
      conv => rhs; unfold readLoop
      simp [h]
    · conv => lhs; unfold readLoop
      conv => rhs; unfold readLoop
      simp only [h, if_false, Amt.add_apply]
      rw [ih (e + x.length) ys t d (WF_tail hw) hy (by omega)]

/-- the periods counted as passed end by `t`, and the next one (if any) has not -/
theorem pastLoop_bounds (ps : List Period) : ∀ (e t : Int), WF ps → e ≤ t →
    e + totalLength (ps.take (pastLoop e ps t)) ≤ t ∧
    (∀ p rest, ps.drop (pastLoop e ps t) = p :: rest → t < e + totalLength (ps.take (pastLoop e ps t)) + p.length) := by
  induction ps with
  | nil => intro e t _ h; simp [pastLoop, totalLength]; omega
  | cons x rest ih =>
    intro e t hw h
    unfold pastLoop
    split
    · rename_i hlt
      simp only [List.take_zero, totalLength, List.drop_zero]
      refine ⟨by omega, ?_⟩
      intro p r hp
      simp only [List.cons.injEq] at hp
      rw [← hp.1]; omega
    · rename_i hge
      rw [Nat.add_comm 1, List.take_succ_cons, List.drop_succ_cons]
      obtain ⟨i1, i2⟩ := ih (e + x.length) t (WF_tail hw) (by omega)
      simp only [totalLength]
      refine ⟨by omega, ?_⟩
      intro p r hp
      have := i2 p r hp
      omega

/-- CurrentPeriodShift agrees with ReadPastPeriodCount: it is the distance from the end of the passed
    prefix to now (or 0 when every period has passed) -/
theorem shiftLoop_eq (ps : List Period) : ∀ (e now : Int),
    shiftLoop e now ps =
      if pastLoop e ps now = ps.length then 0 else now - (e + totalLength (ps.take (pastLoop e ps now))) := by
  induction ps with
  | nil => intro e now; simp [shiftLoop, pastLoop]
  | cons x rest ih =>
    intro e now
    unfold shiftLoop pastLoop
    by_cases h : now < e + x.length
    · have h' : e + x.length > now := by omega
      simp [h, h', totalLength]
    · have h' : ¬ e + x.length > now := by omega
      simp only [h, h', if_false, ih (e + x.length) now]
      rw [Nat.add_comm 1, List.take_succ_cons]
      simp only [List.length_cons, Nat.add_right_cancel_iff, totalLength]
      split
      · rfl
      · omega

end Haqq.Liquid
