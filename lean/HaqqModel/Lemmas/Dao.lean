import HaqqModel.Model.Dao

namespace Haqq.Dao

def amountOf : Coins → Nat → Nat
  | [], _ => 0
  | (d, v) :: rest, x => (if x = d then v else 0) + amountOf rest x

theorem setBal_apply (bal : Nat → Nat → Nat) (a : Nat) (d : Nat) (v : Nat) (a' : Nat) (d' : Nat) :
    setBal bal a d v a' d' = if a' = a ∧ d' = d then v else bal a' d' := by
  unfold setBal upd
  by_cases h1 : a' = a <;> by_cases h2 : d' = d <;> simp [h1, h2]

theorem addCoins_apply (c : Coins) : ∀ (bal : Nat → Nat → Nat) (a a' : Nat) (d : Nat),
    addCoins bal a c a' d = bal a' d + (if a' = a then amountOf c d else 0) := by
  induction c with
  | nil => intro bal a a' d; simp [addCoins, amountOf]
  | cons hd tl ih =>
    intro bal a a' d
    obtain ⟨d0, v⟩ := hd
    simp only [addCoins, amountOf]
    rw [ih, setBal_apply]
    by_cases h1 : a' = a <;> by_cases h2 : d = d0 <;> simp [h1, h2] <;> omega

theorem modCredit_apply (c : Coins) : ∀ (m : Nat → Nat) (d : Nat),
    modCredit m c d = m d + amountOf c d := by
  induction c with
  | nil => intro m d; simp [modCredit, amountOf]
  | cons hd tl ih =>
    intro m d
    obtain ⟨d0, v⟩ := hd
    simp only [modCredit, amountOf]
    rw [ih]
    by_cases h2 : d = d0 <;> simp [upd, h2] <;> omega

theorem totalCredit_apply (c : Coins) : ∀ (m : Nat → Nat) (d : Nat),
    totalCredit m c d = m d + amountOf c d := by
  induction c with
  | nil => intro m d; simp [totalCredit, amountOf]
  | cons hd tl ih =>
    intro m d
    obtain ⟨d0, v⟩ := hd
    simp only [totalCredit, amountOf]
    rw [ih]
    by_cases h2 : d = d0 <;> simp [upd, h2] <;> omega

/-- bank debit: on success every account's bank balance is the old one minus what was sent -/
theorem bankDebit_apply (c : Coins) : ∀ (bank bank' : Nat → Nat → Nat) (a : Nat),
    bankDebit bank a c = some bank' →
    ∀ a' d, bank' a' d + (if a' = a then amountOf c d else 0) = bank a' d := by
  induction c with
  | nil => intro bank bank' a h a' d; simp [bankDebit] at h; subst h; simp [amountOf]
  | cons hd tl ih =>
    intro bank bank' a h a' d
    obtain ⟨d0, v⟩ := hd
    simp only [bankDebit] at h
    split at h
    · rename_i hle
      have := ih _ _ _ h a' d
      rw [setBal_apply] at this
      simp only [amountOf]
      by_cases h1 : a' = a <;> by_cases h2 : d = d0 <;> simp [h1, h2] at this ⊢ <;> omega
    · simp at h

/-- strictly increasing denominations: the head denomination does not occur in the tail -/
theorem coinsValid_tail {d v} {rest : Coins} (h : coinsValid ((d, v) :: rest) = true) :
    coinsValid rest = true ∧ 0 < v ∧ ∀ p ∈ rest, d < p.1 := by
  induction rest generalizing d v with
  | nil => simp [coinsValid] at h ⊢; exact h
  | cons hd tl ih =>
    obtain ⟨d', v'⟩ := hd
    simp only [coinsValid, Bool.and_eq_true, decide_eq_true_eq] at h
    obtain ⟨⟨hv, hlt⟩, hrest⟩ := h
    refine ⟨hrest, hv, ?_⟩
    intro p hp
    cases hp with
    | head => exact hlt
    | tail _ hp' =>
      have := (ih hrest).2.2 p hp'
      omega

theorem amountOf_zero_of_lt (rest : Coins) (d : Nat) (h : ∀ p ∈ rest, d < p.1) :
    amountOf rest d = 0 := by
  induction rest with
  | nil => rfl
  | cons hd tl ih =>
    obtain ⟨d', v'⟩ := hd
    have h1 : d < d' := h (d', v') List.mem_cons_self
    have h2 := ih (fun p hp => h p (List.mem_cons_of_mem _ hp))
    simp only [amountOf, h2]
    have : d ≠ d' := by omega
    simp [this]

/-- for a valid amount, `leftovers` succeeds iff every coin is covered, and then writing the
    leftovers sets the owner's balance to `b d - amount d` on the touched denominations -/
theorem setCoins_leftovers (c : Coins) : ∀ (b : Nat → Nat) (l : Coins),
    coinsValid c = true → leftovers b c = .ok l →
    (∀ d, amountOf c d ≤ b d) ∧
    ∀ (bal : Nat → Nat → Nat) (a a' : Nat) (d : Nat),
      setCoins bal a l a' d = if a' = a ∧ 0 < amountOf c d then b d - amountOf c d else bal a' d := by
  induction c with
  | nil =>
    intro b l _ h
    simp [leftovers] at h
    subst h
    simp [amountOf, setCoins]
  | cons hd tl ih =>
    intro b l hv h
    obtain ⟨d0, v⟩ := hd
    obtain ⟨hvt, hpos, hlt⟩ := coinsValid_tail hv
    have hz := amountOf_zero_of_lt tl d0 hlt
    simp only [leftovers] at h
    have hv0 : ¬ v = 0 := by omega
    simp only [hv0, if_false] at h
    split at h
    · simp at h
    · split at h
      · simp at h
      · rename_i hb0 hbv
        split at h
        · simp at h
        · rename_i l' hl'
          simp only [Except.ok.injEq] at h
          subst h
          obtain ⟨hle, hset⟩ := ih b l' hvt hl'
          constructor
          · intro d
            simp only [amountOf]
            by_cases hd : d = d0
            · subst hd; simp [hz]; omega
            · simp [hd]; exact hle d
          · intro bal a a' d
            simp only [setCoins, amountOf]
            rw [hset, setBal_apply]
            by_cases h1 : a' = a <;> by_cases h2 : d = d0
            · subst h2; simp [h1, hz, hpos]
            · simp [h1, h2]
            · simp [h1]
            · simp [h1]

theorem leftovers_error_keeps (b : Nat → Nat) (c : Coins) (e : Err) (h : leftovers b c = .error e) :
    e = .insufficientFunds := by
  induction c with
  | nil => simp [leftovers] at h
  | cons hd tl ih =>
    obtain ⟨d0, v⟩ := hd
    simp only [leftovers] at h
    split at h
    · exact ih h
    · split at h
      · simp at h; exact h.symm
      · split at h
        · simp at h; exact h.symm
        · split at h
          · rename_i e' he'
            simp at h; subst h; exact ih he'
          · simp at h

/-- accountCoins lists exactly the non-zero balances below M -/
theorem amountOf_accountCoins (b : Nat → Nat) (M : Nat) (d : Nat) :
    amountOf (accountCoins b M) d = if d < M then b d else 0 := by
  induction M with
  | zero => simp [accountCoins, amountOf]
  | succ m ih =>
    have happ : ∀ (l1 l2 : Coins), amountOf (l1 ++ l2) d = amountOf l1 d + amountOf l2 d := by
      intro l1 l2
      induction l1 with
      | nil => simp [amountOf]
      | cons hd tl ih2 => obtain ⟨x, y⟩ := hd; simp only [List.cons_append, amountOf, ih2]; omega
    simp only [accountCoins, happ, ih]
    by_cases hpos : 0 < b m
    · simp only [hpos, if_true, amountOf]
      by_cases h1 : d = m
      · subst h1; simp
      · by_cases h2 : d < m
        · have : d < m + 1 := by omega
          simp [h1, h2, this]
        · have : ¬ d < m + 1 := by omega
          simp [h1, h2, this]
    · simp only [hpos, if_false, amountOf]
      by_cases h1 : d = m
      · subst h1; simp; omega
      · by_cases h2 : d < m
        · have : d < m + 1 := by omega
          simp [h2, this]
        · have : ¬ d < m + 1 := by omega
          simp [h2, this]

theorem accountCoins_lt (b : Nat → Nat) (M : Nat) : ∀ p ∈ accountCoins b M, p.1 < M ∧ 0 < p.2 := by
  induction M with
  | zero => simp [accountCoins]
  | succ m ih =>
    intro p hp
    simp only [accountCoins, List.mem_append] at hp
    cases hp with
    | inl h => have := ih p h; omega
    | inr h =>
      split at h
      · simp at h; subst h; simp; omega
      · simp at h

theorem coinsValid_append_single (l : Coins) (d v : Nat) (hl : coinsValid l = true) (hv : 0 < v)
    (hlt : ∀ p ∈ l, p.1 < d) : coinsValid (l ++ [(d, v)]) = true := by
  induction l with
  | nil => simp [coinsValid, hv]
  | cons hd tl ih =>
    obtain ⟨d0, v0⟩ := hd
    obtain ⟨hvt, hpos, _⟩ := coinsValid_tail hl
    have ih' := ih hvt (fun p hp => hlt p (List.mem_cons_of_mem _ hp))
    cases tl with
    | nil =>
      have := hlt (d0, v0) List.mem_cons_self
      simp [coinsValid, hpos, hv]; exact this
    | cons hd2 tl2 =>
      obtain ⟨d1, v1⟩ := hd2
      simp only [coinsValid, Bool.and_eq_true, decide_eq_true_eq] at hl
      simp only [List.cons_append, coinsValid, Bool.and_eq_true, decide_eq_true_eq]
      exact ⟨⟨hpos, hl.1.2⟩, ih'⟩

theorem accountCoins_valid (b : Nat → Nat) (M : Nat) : coinsValid (accountCoins b M) = true := by
  induction M with
  | zero => rfl
  | succ m ih =>
    simp only [accountCoins]
    split
    · rename_i hpos
      exact coinsValid_append_single _ m (b m) ih hpos (fun p hp => (accountCoins_lt b m p hp).1)
    · simpa using ih

end Haqq.Dao
