/-
  Model of x/liquidvesting/types/schedule.go (SubtractAmountFromPeriods, ExtractUpcoming/PastPeriods,
  ReplacePeriodsTail, CurrentPeriodShift) and of the schedule manipulation in
  x/liquidvesting/keeper/msg_server.go (Liquidate, Redeem).  Core Lean only.
-/
import HaqqModel.Model.Vesting

namespace Haqq.Liquid
open Haqq.Sched Haqq.Vest

/-- first pass: per-period proportional share ⌊aᵢ·s / T⌋ -/
def shares (as : List Nat) (s T : Nat) : List Nat := as.map fun a => a * s / T

/-- second pass over the *reversed* lists of (left-on-period, moved) pairs: push the residue from the
    tail towards the head; returns the updated pairs and the residue that could not be placed -/
def pushResidue : List (Nat × Nat) → Nat → List (Nat × Nat) × Nat
  | [], r => ([], r)
  | (dc, df) :: rest, r =>
    if dc < r then
      let p := pushResidue rest (r - dc)
      ((0, df + dc) :: p.1, p.2)
    else ((dc - r, df + r) :: rest, 0)

def sumList : List Nat → Nat
  | [] => 0
  | x :: xs => x + sumList xs

/-- after the first pass: (left on the period, moved) -/
def mkPairs : List Nat → List Nat → List (Nat × Nat)
  | a :: as, x :: xs => (a - x, x) :: mkPairs as xs
  | _, _ => []

/-- SubtractAmountFromPeriods on the amounts of the target denomination: per period (left, moved) -/
def subtractAmounts (as : List Nat) (s : Nat) : Option (List (Nat × Nat)) :=
  if sumList as < s || sumList as = 0 then none
  else some (pushResidue (mkPairs as (shares as s (sumList as))).reverse (s - sumList (shares as s (sumList as)))).1.reverse

def setDenom (a : Amt) (d v : Nat) : Amt := fun x => if x = d then v else a x
def single (d v : Nat) : Amt := fun x => if x = d then v else 0

def mkDec (denom : Nat) : List Period → List (Nat × Nat) → List Period
  | p :: ps, x :: xs => { p with amount := setDenom p.amount denom x.1 } :: mkDec denom ps xs
  | _, _ => []

def mkDiff (denom : Nat) : List Period → List (Nat × Nat) → List Period
  | p :: ps, x :: xs => { length := p.length, amount := single denom x.2 } :: mkDiff denom ps xs
  | _, _ => []

/-- SubtractAmountFromPeriods: (decreasedPeriods, diffPeriods) -/
def subtractAmountFromPeriods (ps : List Period) (denom s : Nat) : Option (List Period × List Period) :=
  match subtractAmounts (ps.map fun p => p.amount denom) s with
  | none => none
  | some pairs => some (mkDec denom ps pairs, mkDiff denom ps pairs)

def extractUpcoming (start endT : Int) (ps : List Period) (t : Int) : List Period :=
  ps.drop (readPastPeriodCount start endT ps t)

def extractPast (start endT : Int) (ps : List Period) (t : Int) : List Period :=
  ps.take (readPastPeriodCount start endT ps t)

/-- ReplacePeriodsTail -/
def replaceTail (ps repl : List Period) : List Period :=
  if repl.length ≥ ps.length then repl else ps.take (ps.length - repl.length) ++ repl

def shiftLoop (elapsed now : Int) : List Period → Int
  | [] => 0
  | p :: rest => if elapsed + p.length > now then now - elapsed else shiftLoop (elapsed + p.length) now rest

/-- CurrentPeriodShift -/
def currentPeriodShift (start now : Int) (ps : List Period) : Int :=
  if start ≥ now then 0 else shiftLoop start now ps

/-- a liquid denomination record (types.Denom) -/
structure LDenom where
  start : Int
  endT : Int
  periods : List Period

inductive LErr | hasUnvested | noTarget | insufficientLocked | scheduleFailed
  deriving Repr, DecidableEq

/-- the schedule part of keeper.Liquidate for amount `s` of denomination `denom` at block time `now`:
    the updated account and the new liquid denomination -/
def liquidate (M : Nat) (a : Account) (denom s : Nat) (now : Int) : Except LErr (Account × LDenom) :=
  if !Amt.isZero M (a.unvested now) then .error .hasUnvested
  else if a.lockedUp now denom = 0 then .error .noTarget
  else if a.lockedUp now denom < s then .error .insufficientLocked
  else
    let upcoming := extractUpcoming a.start a.endT a.lockup now
    match subtractAmountFromPeriods upcoming denom s with
    | none => .error .scheduleFailed
    | some (dec, diff) =>
      let lockup' := replaceTail a.lockup dec
      match subtractAmountFromPeriods a.vesting denom s with
      | none => .error .scheduleFailed
      | some (decV, _) =>
        let a' := { a with lockup := lockup', vesting := replaceTail a.vesting decV,
                           original := fun x => if x = denom then a.original x - s else a.original x }
        let shift := currentPeriodShift a.start now lockup'
        let diff' := alignFirst diff (-shift)
        .ok (a', { start := now, endT := now + totalLength diff', periods := diff' })

/-- the schedule part of keeper.Redeem: the denomination's remaining schedule (none = deleted) and the
    grant handed to ApplyVestingSchedule (none = everything already unlocked, plain transfer) -/
def redeem (ld : LDenom) (denom s : Nat) (now : Int) :
    Option (Option LDenom × Option (Int × List Period × List Period)) :=
  match subtractAmountFromPeriods ld.periods denom s with
  | none => none
  | some (dec, diff) =>
    let left := if sumList (dec.map fun p => p.amount denom) = 0 then none else some { ld with periods := dec }
    let upcoming := extractUpcoming ld.start ld.endT diff now
    let grant := if upcoming.isEmpty then none else some (ld.start, diff, [(⟨0, single denom s⟩ : Period)])
    some (left, grant)

end Haqq.Liquid
