/-
  Model of one ERC20 <-> coin token pair of x/erc20 with an honest token contract (ERC20MinterBurnerDecimals):
  the two message conversions in both ownership modes (x/erc20/keeper/msg_server.go), an ERC20 transfer through
  the EVM with the PostTxProcessing hook (x/erc20/keeper/evm_hooks.go), a holder burning its own tokens, the
  external owner minting, and the governance toggle.  Core Lean only.  Address 0 is the erc20 module account.
-/
import HaqqModel.Prelude.Basic

namespace Haqq.Peg

structure Pair where
  external : Bool          -- OWNER_EXTERNAL (ERC20-origin) / OWNER_MODULE (coin-origin)
  enabled : Bool
  escrow : Nat             -- coins of the pair's denomination held by the erc20 module account
  coinSupply : Nat         -- bank supply of the denomination
  coinBal : Nat → Nat      -- users' coin balances
  tokSupply : Nat          -- ERC20 totalSupply
  tokBal : Nat → Nat       -- ERC20 balances; address 0 = the module

def modAddr : Nat := 0

inductive Op
  | convertCoin (s r x : Nat)      -- MsgConvertCoin: coins of s → tokens for r
  | convertERC20 (s r x : Nat)     -- MsgConvertERC20: tokens of s → coins for r
  | transfer (f t x : Nat)         -- ERC20 transfer in an Ethereum transaction (the hook runs afterwards)
  | burnOwn (f x : Nat)            -- a holder burns its own tokens
  | mintExt (r x : Nat)            -- the external owner of an ERC20-origin token mints
  | toggle

/-- every operation either applies completely or is refused without effect -/
def step (p : Pair) : Op → Pair × Bool
  | .convertCoin s r x =>
    if !p.enabled ∨ x = 0 ∨ s = modAddr ∨ r = modAddr ∨ p.coinBal s < x then (p, false)
    else if !p.external then
      -- escrow the coins, mint tokens to the receiver
      ({ p with coinBal := upd p.coinBal s (p.coinBal s - x), escrow := p.escrow + x,
                tokBal := upd p.tokBal r (p.tokBal r + x), tokSupply := p.tokSupply + x }, true)
    else if p.tokBal modAddr < x then (p, false)
    else
      -- escrow and burn the coins, release escrowed tokens to the receiver
      let tb := upd p.tokBal modAddr (p.tokBal modAddr - x)
      ({ p with coinBal := upd p.coinBal s (p.coinBal s - x), coinSupply := p.coinSupply - x,
                tokBal := upd tb r (tb r + x) }, true)
  | .convertERC20 s r x =>
    if !p.enabled ∨ x = 0 ∨ s = modAddr ∨ r = modAddr ∨ p.tokBal s < x then (p, false)
    else if !p.external then
      if p.escrow < x then (p, false)
      else
        -- tokens to the module and burned, coins released from escrow
        ({ p with tokBal := upd p.tokBal s (p.tokBal s - x), tokSupply := p.tokSupply - x,
                  escrow := p.escrow - x, coinBal := upd p.coinBal r (p.coinBal r + x) }, true)
    else
      -- tokens escrowed by the module, coins minted to the receiver
      let tb := upd p.tokBal s (p.tokBal s - x)
      ({ p with tokBal := upd tb modAddr (tb modAddr + x), coinSupply := p.coinSupply + x,
                coinBal := upd p.coinBal r (p.coinBal r + x) }, true)
  | .transfer f t x =>
    if x = 0 ∨ f = modAddr ∨ p.tokBal f < x ∨ f = t then (p, false)
    else if t ≠ modAddr then
      let tb := upd p.tokBal f (p.tokBal f - x)
      ({ p with tokBal := upd tb t (tb t + x) }, true)
    else if !p.enabled then
      -- the hook skips a disabled pair: the tokens simply sit in the module's account
      let tb := upd p.tokBal f (p.tokBal f - x)
      ({ p with tokBal := upd tb modAddr (tb modAddr + x) }, true)
    else if !p.external then
      if p.escrow < x then
        let tb := upd p.tokBal f (p.tokBal f - x)
        ({ p with tokBal := upd tb modAddr (tb modAddr + x) }, true)
      else
        -- hook: burn the received tokens, send the escrowed coins to the sender
        ({ p with tokBal := upd p.tokBal f (p.tokBal f - x), tokSupply := p.tokSupply - x,
                  escrow := p.escrow - x, coinBal := upd p.coinBal f (p.coinBal f + x) }, true)
    else
      -- hook: the module keeps the tokens, coins are minted to the sender
      let tb := upd p.tokBal f (p.tokBal f - x)
      ({ p with tokBal := upd tb modAddr (tb modAddr + x), coinSupply := p.coinSupply + x,
                coinBal := upd p.coinBal f (p.coinBal f + x) }, true)
  | .burnOwn f x =>
    if f = modAddr ∨ p.tokBal f < x then (p, false)
    else ({ p with tokBal := upd p.tokBal f (p.tokBal f - x), tokSupply := p.tokSupply - x }, true)
  | .mintExt r x =>
    if !p.external ∨ r = modAddr then (p, false)
    else ({ p with tokBal := upd p.tokBal r (p.tokBal r + x), tokSupply := p.tokSupply + x }, true)
  | .toggle => ({ p with enabled := !p.enabled }, true)

/-- the bank MsgSend wrapper (x/bank/keeper/msg_server.go sendCoinsWithERC20) for the pair's denomination: the
    sender's whole coin balance is converted to tokens, then `x` tokens are transferred to the recipient; a
    disabled pair is an ordinary coin send.  The module account is a blocked recipient. -/
def sendStep (p : Pair) (f t x : Nat) : Pair × Bool :=
  if f = modAddr ∨ t = modAddr ∨ x = 0 ∨ f = t then (p, false)
  else if !p.enabled then
    if p.coinBal f < x then (p, false)
    else
      let cb := upd p.coinBal f (p.coinBal f - x)
      ({ p with coinBal := upd cb t (cb t + x) }, true)
  else if p.coinBal f + p.tokBal f < x then (p, false)
  else
    let r1 := if p.coinBal f = 0 then (p, true) else step p (.convertCoin f f (p.coinBal f))
    if !r1.2 then (p, false)
    else
      let r2 := step r1.1 (.transfer f t x)
      if r2.2 then r2 else (p, false)

/-- the backing (in)equation -/
def Backed (p : Pair) : Prop :=
  if p.external then p.coinSupply ≤ p.tokBal modAddr else p.tokSupply ≤ p.escrow

/-- a token contract that forges a `Transfer(from, module, n)` log without moving tokens: the hook of an
    ERC20-origin pair mints n coins to `from` -/
def forgedLog (p : Pair) (f n : Nat) : Pair :=
  if p.external ∧ p.enabled ∧ 0 < n then
    { p with coinSupply := p.coinSupply + n, coinBal := upd p.coinBal f (p.coinBal f + n) }
  else p

/-- a token whose `transfer` secretly approves a third address on the recipient: after tokens have reached the module,
    that address takes `n` of the module's tokens with `transferFrom` (an honest token never lets this happen: the module
    approves nobody) -/
def drainEscrow (p : Pair) (thief n : Nat) : Pair :=
  if n ≤ p.tokBal modAddr ∧ thief ≠ modAddr then
    let tb := upd p.tokBal modAddr (p.tokBal modAddr - n)
    { p with tokBal := upd tb thief (tb thief + n) }
  else p

end Haqq.Peg
