/-
  Model of x/feemarket/keeper/eip1559.go (CalculateBaseFee) and abci.go (EndBlock gas figure).
  Core Lean only.
-/
namespace Haqq.FeeMarket

structure Params where
  noBaseFee : Bool
  enableHeight : Int
  baseFee : Nat           -- params.BaseFee: the parent block's base fee
  elasticity : Nat        -- uint32
  denominator : Nat       -- uint32
  minGasPrice : Nat       -- LegacyDec raw value (18 decimals), non-negative
  minGasMultiplier : Nat  -- LegacyDec raw value, 0 … 10^18

inductive Result
  | nil                   -- CalculateBaseFee returns nil: base fee left unchanged
  | fee (v : Nat)
  | panic                 -- Go run-time panic (big.Int division by zero)
  deriving Repr, DecidableEq

def dec18 : Nat := 10 ^ 18

/-- block gas limit as the code derives it from the consensus params (`MaxGas > -1`, else 2^64-1) -/
def gasLimit (maxGas : Int) : Nat := if maxGas > -1 then maxGas.toNat else 2 ^ 64 - 1

/-- the target T = gas limit / elasticity -/
def target (p : Params) (maxGas : Int) : Nat := gasLimit maxGas / p.elasticity

/-- CalculateBaseFee; `g` = the stored block gas figure of the parent block (uint64) -/
def calcBaseFee (p : Params) (height : Int) (maxGas : Int) (g : Nat) : Result :=
  if p.noBaseFee || height < p.enableHeight then .nil
  else if height = p.enableHeight then .fee p.baseFee
  else if p.elasticity = 0 then .panic
  else
    let T := target p maxGas
    if T ≥ 2 ^ 64 then .nil
    else if g = T then .fee p.baseFee
    else if p.denominator = 0 then .panic
    else if g > T then
      if T = 0 then .panic
      else .fee (p.baseFee + max (p.baseFee * (g - T) / T / p.denominator) 1)
    else
      .fee (max (p.baseFee - p.baseFee * (T - g) / T / p.denominator) (p.minGasPrice / dec18))

/-- EndBlock: the gas figure stored for the next block's base-fee computation
    (`none`: int64 overflow guard hit, nothing stored) -/
def endBlockGas (wanted used mult : Nat) : Option Nat :=
  if wanted ≥ 2 ^ 63 || used ≥ 2 ^ 63 then none
  else some (max (wanted * mult / dec18) used)

/-- Params.Validate (the fields used here) -/
def Params.valid (p : Params) : Bool :=
  p.denominator != 0 && p.elasticity != 0 && decide (0 ≤ p.enableHeight) && decide (p.minGasMultiplier ≤ dec18)

end Haqq.FeeMarket
