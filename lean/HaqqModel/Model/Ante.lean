/-
  Model of app/ante/ante.go (route selection), app/ante/cosmos/reject_msgs.go,
  app/ante/cosmos/authz.go (checkDisabledMsgs) and of the gate-keeping part of the three decorator chains
  (extension-option rules, "only MsgEthereumTx on the eth route").  Core Lean only.
-/
namespace Haqq.Ante

/-- message type URLs that matter here -/
inductive Url
  | eth                 -- /ethermint.evm.v1.MsgEthereumTx
  | createVesting       -- /cosmos.vesting.v1beta1.MsgCreateVestingAccount
  | other (k : Nat)
  deriving Repr, DecidableEq

mutual
  inductive Msg
    | eth
    | createVesting
    | other (k : Nat)
    | exec (inner : MsgList)        -- authz.MsgExec
    | grant (url : Url)             -- authz.MsgGrant carrying an authorization for `url`
  inductive MsgList
    | nil
    | cons (m : Msg) (rest : MsgList)
end

/-- the types NewAuthzLimiterDecorator is constructed with -/
def disabled : Url → Bool
  | .eth => true
  | .createVesting => true
  | .other _ => false

mutual
  /-- the loop of checkDisabledMsgs over `msgs`, with the running (mutable) `nestedLvl`;
      `true` = no error -/
  def checkLoop (maxNested : Nat) : MsgList → Bool → Nat → Bool
    | .nil, _, _ => true
    | .cons m rest, inner, lvl =>
      match m with
      | .exec ims =>
        -- nestedLvl++ ; recurse with the incremented level; the increment is kept for the siblings
        checkEnter maxNested ims (lvl + 1) && checkLoop maxNested rest inner (lvl + 1)
      | .grant url => !disabled url && checkLoop maxNested rest inner lvl
      | .eth => !(inner && disabled .eth) && checkLoop maxNested rest inner lvl
      | .createVesting => !(inner && disabled .createVesting) && checkLoop maxNested rest inner lvl
      | .other _ => checkLoop maxNested rest inner lvl
  /-- entry of checkDisabledMsgs for the inner messages of a MsgExec: the nesting cap, then the loop -/
  def checkEnter (maxNested : Nat) : MsgList → Nat → Bool
    | ms, lvl => if lvl ≥ maxNested then false else checkLoop maxNested ms true lvl
end

/-- AuthzLimiterDecorator.AnteHandle: checkDisabledMsgs(tx.GetMsgs(), false, 1) -/
def authzLimiter (maxNested : Nat) (msgs : MsgList) : Bool :=
  if 1 ≥ maxNested then false else checkLoop maxNested msgs false 1

def hasTopLevelEth : MsgList → Bool
  | .nil => false
  | .cons .eth _ => true
  | .cons _ rest => hasTopLevelEth rest

def allEth : MsgList → Bool
  | .nil => true
  | .cons .eth rest => allEth rest
  | .cons _ _ => false

/-- critical extension options of a tx -/
inductive Ext
  | ethTx | web3Tx | dynamicFee | unknown (k : Nat)
  deriving Repr, DecidableEq

inductive Route | evm | eip712 | cosmos | rejected
  deriving Repr, DecidableEq

/-- NewAnteHandler: the route is chosen by the first extension option -/
def route : List Ext → Route
  | [] => .cosmos
  | .ethTx :: _ => .evm
  | .web3Tx :: _ => .eip712
  | .dynamicFee :: _ => .cosmos
  | .unknown _ :: _ => .rejected

inductive Verdict
  | rejectExt           -- unknown / unsupported extension option (router or ExtensionOptionsDecorator)
  | rejectExtCount      -- eth / EIP-712 route: not exactly one extension option
  | rejectEthMsg        -- MsgEthereumTx on a Cosmos route (RejectMessagesDecorator)
  | rejectAuthz         -- AuthzLimiterDecorator (disabled type or nesting cap)
  | rejectNonEth        -- non-MsgEthereumTx on the eth route
  | passGate            -- reaches the remaining (fee / signature / …) decorators
  deriving Repr, DecidableEq

/-- the gate-keeping prefix of the composed ante handler on DeliverTx -/
def gate (maxNested : Nat) (opts : List Ext) (msgs : MsgList) : Verdict :=
  match route opts with
  | .rejected => .rejectExt
  | .evm =>
    -- EthValidateBasicDecorator (first decorator that inspects the tx unconditionally on DeliverTx when no
    -- min gas price is set): the extension-option count is tested before its message loop; the loops of
    -- the earlier decorators (mempool fee: CheckTx only; min gas price: only when set) reject non-eth
    -- messages as well
    if opts.length ≠ 1 then .rejectExtCount
    else if !allEth msgs then .rejectNonEth
    else .passGate
  | .eip712 =>
    if hasTopLevelEth msgs then .rejectEthMsg
    else if !authzLimiter maxNested msgs then .rejectAuthz
    else if opts.length ≠ 1 then .rejectExtCount
    else .passGate
  | .cosmos =>
    if hasTopLevelEth msgs then .rejectEthMsg
    else if !authzLimiter maxNested msgs then .rejectAuthz
    else if !opts.all (· == .dynamicFee) then .rejectExt      -- ExtensionOptionsDecorator(HasDynamicFeeExtensionOption)
    else .passGate

def isUnknown : Ext → Bool
  | .unknown _ => true
  | _ => false

/-- DeliverTx: the transaction decoder refuses any extension option whose type is not registered as a
    `TxExtensionOptionI` (only the three known ones are) before the ante handler runs -/
def deliver (maxNested : Nat) (opts : List Ext) (msgs : MsgList) : Verdict :=
  if opts.any isUnknown then .rejectExt else gate maxNested opts msgs

mutual
  /-- a blocked message somewhere below a MsgExec, or a MsgGrant for a blocked type, at any depth -/
  def badList : MsgList → Bool → Bool
    | .nil, _ => false
    | .cons m rest, inner => badMsg m inner || badList rest inner
  def badMsg : Msg → Bool → Bool
    | .eth, inner => inner
    | .createVesting, inner => inner
    | .other _, _ => false
    | .grant u, _ => disabled u
    | .exec ims, _ => badList ims true
end

/-- n-fold MsgExec wrapping of a single message -/
def nestExec : Nat → Msg → Msg
  | 0, m => m
  | n + 1, m => .exec (.cons (nestExec n m) .nil)

end Haqq.Ante
