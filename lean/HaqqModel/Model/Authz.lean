/-
  Model of the staking precompile's authority logic (precompiles/staking/tx.go Delegate / Undelegate,
  precompiles/authorization/types.go CheckAuthzAndAllowanceForGranter, precompiles/staking/approve.go) and of
  the SDK's StakeAuthorization.Accept.  Core Lean only.  Accounts and validators are naturals.
-/
namespace Haqq.Authz

/-- a staking grant (granter = signer, grantee = calling contract, one message type) -/
structure Grant where
  limit : Option Nat        -- none = unlimited (approve with 2^256-1)
  allow : List Nat          -- validator allow-list, snapshot at approval time
  deriving Repr, DecidableEq

structure Call where
  origin : Nat              -- tx.origin, the signer
  caller : Nat              -- contract.CallerAddress
  delegator : Nat           -- the delegator named in the arguments
  val : Nat
  amt : Nat
  /-- would the native message succeed for the named delegator in the current state (enough coins / stake, the
      validator exists)?  The precompile runs the module's own message server; its failure fails the call. -/
  native : Bool := true
  deriving Repr

inductive Out
  | reject
  /-- the message ran for `debited` (the delegator named in the message); the grant afterwards -/
  | ok (debited : Nat) (grant' : Option Grant)
  deriving Repr, DecidableEq

/-- CheckAuthzAndAllowanceForGranter: the amount exceeds a limited grant -/
def exceeds (limit : Option Nat) (amt : Nat) : Bool :=
  match limit with
  | some l => decide (l < amt)
  | none => false

/-- StakeAuthorization.Accept: allow-list, then the limit -/
def accept (g : Grant) (val amt : Nat) : Option (Option Grant) :=
  if !g.allow.contains val then none
  else match g.limit with
    | none => some (some g)
    | some l =>
      if l < amt then none
      else if l - amt = 0 then some none               -- Delete
      else some (some { g with limit := some (l - amt) })

/-- Delegate / Undelegate through the precompile.  `g` is the live (unexpired) grant from origin to caller for
    the message type, if any. -/
def stakingCall (c : Call) (g : Option Grant) : Out :=
  if !c.native then .reject else
  let isCallerOrigin := c.caller == c.origin
  let isCallerDelegator := c.caller == c.delegator
  -- "the provided delegator address should always be equal to the origin address", unless the caller names itself
  if !isCallerDelegator && c.origin != c.delegator then .reject
  else if isCallerOrigin then .ok c.delegator g            -- owner of the funds: no grant consulted
  else
    match g with
    | none => .reject                                       -- absent or expired
    | some gr =>
      -- CheckAuthzAndAllowanceForGranter: only the limit
      if exceeds gr.limit c.amt then .reject
      else
        -- the message runs, then UpdateStakingAuthorization → Accept; a failing Accept fails the call
        match accept gr c.val c.amt with
        | none => .reject
        | some g' => .ok c.delegator g'

/-! ### what a call leaves behind on the Cosmos side

A failing precompile call only rewinds the EVM's journal: whatever the message server has written to the Cosmos stores
before the failure stays if the calling contract carries on (a low-level CALL whose result it ignores).  So the *order* in
which the method consults the authorization and runs the message matters, not only the verdict. -/

/-- the order of the method's steps: `acceptFirst` = check, Accept, message, update (the code since 5f6ffb7);
    `acceptAfter` = check (limit only), message, update-with-Accept (the code before) -/
inductive Order
  | acceptFirst
  | acceptAfter
  deriving Repr, DecidableEq

structure Effects where
  ok : Bool                            -- what the call returns to the EVM
  ran : Option (Nat × Nat × Nat)       -- the message the message server executed: (delegator, validator, amount)
  grant : Option Grant                 -- the stored grant afterwards
  deriving Repr, DecidableEq

def stakingEffects (ord : Order) (c : Call) (g : Option Grant) : Effects :=
  let isCallerOrigin := c.caller == c.origin
  let isCallerDelegator := c.caller == c.delegator
  if !isCallerDelegator && c.origin != c.delegator then ⟨false, none, g⟩
  else if isCallerOrigin then
    if c.native then ⟨true, some (c.delegator, c.val, c.amt), g⟩ else ⟨false, none, g⟩
  else
    match g with
    | none => ⟨false, none, g⟩
    | some gr =>
      if exceeds gr.limit c.amt then ⟨false, none, g⟩
      else match ord with
        | .acceptFirst =>
          (match accept gr c.val c.amt with
           | none => ⟨false, none, g⟩                                    -- refused before anything runs
           | some g' =>
             if c.native then ⟨true, some (c.delegator, c.val, c.amt), g'⟩
             else ⟨false, none, g⟩)                                       -- the message server failed: nothing saved
        | .acceptAfter =>
          if !c.native then ⟨false, none, g⟩
          else
            (match accept gr c.val c.amt with
             | none => ⟨false, some (c.delegator, c.val, c.amt), g⟩      -- the message has run; the refusal comes too late
             | some g' => ⟨true, some (c.delegator, c.val, c.amt), g'⟩)

/-! ### allowance bookkeeping through approve / increase / decrease / revoke -/

inductive AOp
  | approve (amt : Option Nat) (allow : List Nat)     -- none = unlimited; amount 0 deletes
  | increase (x : Nat)
  | decrease (x : Nat)
  | revoke
  | spend (val amt : Nat)                             -- a staking call by the grantee
  deriving Repr

/-- one (granter, grantee, message type) slot of the authz store; returns the new slot and whether the op succeeded -/
def astep (g : Option Grant) : AOp → Option Grant × Bool
  | .approve none allow => (some { limit := none, allow := allow }, true)
  | .approve (some 0) _ => (none, g.isSome)             -- DeleteGrant fails when there is none
  | .approve (some a) allow => (some { limit := some a, allow := allow }, true)
  | .increase x =>
    match g with
    | none => (none, false)
    | some gr => (match gr.limit with
        | none => (some gr, true)
        | some l => (some { gr with limit := some (l + x) }, true))
  | .decrease x =>
    match g with
    | none => (none, false)
    | some gr => (match gr.limit with
        | none => (some gr, true)
        | some l => if l < x then (some gr, false) else (some { gr with limit := some (l - x) }, true))
  | .revoke => (none, g.isSome)
  | .spend val amt =>
    match g with
    | none => (none, false)
    | some gr =>
      if exceeds gr.limit amt then (some gr, false)
      else match accept gr val amt with
        | none => (some gr, false)
        | some g' => (g', true)

/-- one precompile call naming several message types: every named slot takes the same step; the call fails as a
    whole, and nothing changes, if the step fails for one of them -/
def astepMany (gs : List (Option Grant)) (op : AOp) : List (Option Grant) × Bool :=
  let rs := gs.map (fun g => astep g op)
  if rs.all (·.2) then (rs.map (·.1), true) else (gs, false)

end Haqq.Authz
