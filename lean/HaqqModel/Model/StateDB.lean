/-
  Model of x/evm/statedb (StateDB, journal, stateObject) and of the keeper side it commits to
  (x/evm/keeper/statedb.go: GetAccount / SetAccount → SetBalance mint-or-burn / SetState / DeleteAccount).
  Core Lean only.  Addresses, storage keys and values are naturals; code is not modelled (a code hash change
  is the same kind of journal entry as a nonce change).
-/
import HaqqModel.Prelude.Basic

namespace Haqq.SDB

/-- a cached state object -/
structure Obj where
  bal : Nat
  nonce : Nat
  suicided : Bool
  stor : Nat → Nat                  -- effective storage view: dirtyStorage over originStorage (the committed store)
  base : Nat → Nat                  -- what Commit compares a slot with: transientStorage (the value the last Commit of
                                    -- this object wrote) where there is one, originStorage otherwise

inductive Entry
  | create (a : Nat)                                  -- createObjectChange
  | balance (a prev : Nat)                            -- balanceChange
  | nonce (a prev : Nat)                              -- nonceChange
  | storage (a k prev : Nat)                          -- storageChange
  | refund (prev : Nat)                               -- refundChange
  | log                                               -- addLogChange
  | suicide (a : Nat) (prevS : Bool) (prevBal : Nat)  -- suicideChange
  | accAddr (a : Nat)                                 -- accessListAddAccountChange
  | accSlot (a k : Nat)                               -- accessListAddSlotChange
  | reset (a : Nat) (prev : Obj)                      -- resetObjectChange (CreateAccount over an existing object)

def Entry.dirtied : Entry → Option Nat
  | .create a => some a
  | .balance a _ => some a
  | .nonce a _ => some a
  | .storage a _ _ => some a
  | .suicide a _ _ => some a
  | _ => none

/-- the Cosmos side the StateDB reads from and commits to -/
structure Keeper where
  exist : Nat → Bool               -- an auth account exists
  bal : Nat → Nat                  -- bank balance in the EVM denomination
  nonce : Nat → Nat
  store : Nat → Nat → Nat          -- contract storage
  supply : Int                     -- total supply of the EVM denomination (relative)

structure DB where
  objs : Nat → Option Obj
  journal : List Entry             -- newest first
  dirties : Nat → Nat              -- journal.dirties
  refund : Nat
  logs : Nat
  accA : Nat → Bool
  accS : Nat → Nat → Bool
  revisions : List (Nat × Nat)     -- (id, journal length), newest first
  nextRev : Nat
  k : Keeper

def DB.new (k : Keeper) : DB :=
  { objs := fun _ => none, journal := [], dirties := fun _ => 0, refund := 0, logs := 0,
    accA := fun _ => false, accS := fun _ _ => false, revisions := [], nextRev := 0, k := k }

/-- getStateObject: the cached object, or one loaded from the keeper -/
def DB.get (db : DB) (a : Nat) : Option Obj :=
  match db.objs a with
  | some o => some o
  | none => if db.k.exist a then some { bal := db.k.bal a, nonce := db.k.nonce a, suicided := false, stor := db.k.store a, base := db.k.store a } else none

def DB.getState (db : DB) (a k : Nat) : Nat :=
  match db.get a with
  | some o => o.stor k
  | none => 0

def DB.push (db : DB) (e : Entry) : DB :=
  -- (the new count is computed before the closure is built: a `match` in function position would be eta-expanded
  -- by the compiler and re-evaluate the old count on every lookup)
  match e.dirtied with
  | some a =>
    let n := db.dirties a + 1
    { db with journal := e :: db.journal, dirties := upd db.dirties a n }
  | none => { db with journal := e :: db.journal }

def DB.setObj (db : DB) (a : Nat) (o : Obj) : DB := { db with objs := upd db.objs a (some o) }

/-! ### micro-operations: each appends at most one journal entry -/

inductive MOp
  | create (a : Nat)                -- createObject when the account does not exist
  | setBal (a v : Nat)
  | setNonce (a v : Nat)
  | setState (a k v : Nat)
  | setRefund (v : Nat)
  | addLog
  | suicide (a : Nat)
  | accAddr (a : Nat)
  | accSlot (a k : Nat)
  | createAccount (a : Nat)         -- StateDB.CreateAccount (CREATE / CREATE2 target): a fresh object, the balance carried over

/-- getStateObject caches what it loads: a later bank-side change of the account is not seen through the cache -/
def DB.load (db : DB) (a : Nat) : DB :=
  match db.objs a with
  | some _ => db
  | none =>
    if db.k.exist a then
      { db with objs := upd db.objs a (some { bal := db.k.bal a, nonce := db.k.nonce a, suicided := false, stor := db.k.store a, base := db.k.store a }) }
    else db

/-- the address whose object an operation looks up (access-list operations look up none) -/
def MOp.addr : MOp → Option Nat
  | .create a => some a
  | .setBal a _ => some a
  | .setNonce a _ => some a
  | .setState a _ _ => some a
  | .suicide a => some a
  | .createAccount a => some a
  | _ => none

def mstepCore (db : DB) : MOp → DB
  | .create a =>
    match db.get a with
    | some _ => db
    | none => (db.push (.create a)).setObj a { bal := 0, nonce := 0, suicided := false, stor := db.k.store a, base := db.k.store a }
  | .setBal a v =>
    match db.get a with
    | some o => (db.push (.balance a o.bal)).setObj a { o with bal := v }
    | none => db
  | .setNonce a v =>
    match db.get a with
    | some o => (db.push (.nonce a o.nonce)).setObj a { o with nonce := v }
    | none => db
  | .setState a k v =>
    match db.get a with
    | some o =>
      if o.stor k = v then db
      else (db.push (.storage a k (o.stor k))).setObj a { o with stor := upd o.stor k v }
    | none => db
  | .setRefund v => { db.push (.refund db.refund) with refund := v }
  | .addLog => { db.push .log with logs := db.logs + 1 }
  | .suicide a =>
    match db.get a with
    | some o => (db.push (.suicide a o.suicided o.bal)).setObj a { o with suicided := true, bal := 0 }
    | none => db
  | .accAddr a => if db.accA a then db else { db.push (.accAddr a) with accA := upd db.accA a true }
  | .accSlot a k =>
    if db.accS a k then db else { db.push (.accSlot a k) with accS := upd db.accS a (upd (db.accS a) k true) }
  | .createAccount a =>
    match db.get a with
    | none => (db.push (.create a)).setObj a { bal := 0, nonce := 0, suicided := false, stor := db.k.store a, base := db.k.store a }
    | some prev =>
      -- resetObjectChange marks nothing dirty; the new object reads committed storage, the balance is carried over
      (db.push (.reset a prev)).setObj a { bal := prev.bal, nonce := 0, suicided := false, stor := db.k.store a, base := db.k.store a }

def mstep (db : DB) (op : MOp) : DB :=
  match op.addr with
  | some a => mstepCore (db.load a) op
  | none => mstepCore db op

/-- The specification shape of `DB.push` (what the proofs unfold to). -/
theorem DB.push_def (db : DB) (e : Entry) : db.push e =
    { db with journal := e :: db.journal,
              dirties := match e.dirtied with | some a => upd db.dirties a (db.dirties a + 1) | none => db.dirties } := by
  unfold DB.push; cases e.dirtied <;> rfl

/-- JournalEntry.Revert -/
def undo (db : DB) : Entry → DB
  | .create a => { db with objs := upd db.objs a none }
  | .balance a prev => (match db.get a with | some o => db.setObj a { o with bal := prev } | none => db)
  | .nonce a prev => (match db.get a with | some o => db.setObj a { o with nonce := prev } | none => db)
  | .storage a k prev => (match db.get a with | some o => db.setObj a { o with stor := upd o.stor k prev } | none => db)
  | .refund prev => { db with refund := prev }
  | .log => { db with logs := db.logs - 1 }
  | .suicide a prevS prevBal => (match db.get a with | some o => db.setObj a { o with suicided := prevS, bal := prevBal } | none => db)
  | .accAddr a => { db with accA := upd db.accA a false }
  | .accSlot a k => { db with accS := upd db.accS a (upd (db.accS a) k false) }
  | .reset a prev => db.setObj a prev

/-- undo the newest journal entry and lower the dirty count of the address it touched -/
def undoTop (db : DB) (e : Entry) : DB :=
  let db1 := undo db e
  match e.dirtied with
  | some a =>
    let n := db1.dirties a - 1
    { db1 with dirties := upd db1.dirties a n }
  | none => db1

/-- The specification shape of `undoTop` (what the proofs unfold to). -/
theorem undoTop_def (db : DB) (e : Entry) : undoTop db e =
    { undo db e with dirties := match e.dirtied with
                                | some a => upd (undo db e).dirties a ((undo db e).dirties a - 1)
                                | none => (undo db e).dirties } := by
  unfold undoTop; cases e.dirtied <;> rfl

/-- journal.Revert: undo the entries (newest first) until only `n` are left -/
def revertEntries (db : DB) : List Entry → Nat → DB
  | [], _ => { db with journal := [] }
  | e :: rest, n =>
    if rest.length + 1 ≤ n then { db with journal := e :: rest }
    else revertEntries (undoTop db e) rest n

def revertJournal (db : DB) (n : Nat) : DB := revertEntries db db.journal n

/-- Snapshot -/
def snapshot (db : DB) : DB × Nat :=
  ({ db with revisions := (db.nextRev, db.journal.length) :: db.revisions, nextRev := db.nextRev + 1 }, db.nextRev)

/-- RevertToSnapshot: none = "revision id cannot be reverted" (panic) -/
def revertTo (db : DB) (id : Nat) : Option DB :=
  match db.revisions.find? (·.1 == id) with
  | none => none
  | some (_, n) =>
    let db1 := revertJournal db n
    -- validRevisions is cut back to the entries older than `id`
    some { db1 with revisions := db.revisions.filter (fun r => decide (r.1 < id)) }

/-! ### macro operations as the EVM / precompiles call them -/

def ensure (db : DB) (a : Nat) : DB := mstep db (.create a)      -- getOrNewStateObject

def addBalance (db : DB) (a x : Nat) : DB :=
  let db1 := ensure db a
  if x = 0 then db1 else
  match db1.get a with
  | some o => mstep db1 (.setBal a (o.bal + x))
  | none => db1

/-- a read of an account (GetBalance, GetNonce, GetState, Exist, …): no journal entry, but the object is cached -/
def read (db : DB) (a : Nat) : DB := db.load a

/-- SubBalance (big.Int: a debit below zero is representable in Go; the EVM never asks for it) -/
def subBalance (db : DB) (a x : Nat) : DB :=
  let db1 := ensure db a
  if x = 0 then db1 else
  match db1.get a with
  | some o => mstep db1 (.setBal a (o.bal - x))
  | none => db1

def setNonce (db : DB) (a v : Nat) : DB := mstep (ensure db a) (.setNonce a v)
def setState (db : DB) (a k v : Nat) : DB := mstep (ensure db a) (.setState a k v)
def addRefund (db : DB) (g : Nat) : DB := mstep db (.setRefund (db.refund + g))
def subRefund (db : DB) (g : Nat) : DB := mstep db (.setRefund (db.refund - g))
def addLog (db : DB) : DB := mstep db .addLog
def suicide (db : DB) (a : Nat) : DB := mstep db (.suicide a)
def createAccount (db : DB) (a : Nat) : DB := mstep db (.createAccount a)
def addAddressToAccessList (db : DB) (a : Nat) : DB := mstep db (.accAddr a)
def addSlotToAccessList (db : DB) (a k : Nat) : DB := mstep (mstep db (.accAddr a)) (.accSlot a k)

/-- SyncBalances for one address: a cached, not self-destructed object whose balance differs from the bank's
    takes the bank's balance (journalled like any balance change) -/
def syncOne (db : DB) (a : Nat) : DB :=
  match db.objs a with
  | none => db
  | some o =>
    if o.suicided then db
    else if db.k.exist a = false then db
    else if o.bal = db.k.bal a then db
    else (db.push (.balance a o.bal)).setObj a { o with bal := db.k.bal a }

/-- StateDB.SyncBalances: every cached object, in address order (`addrs` lists the addresses the run can mention) -/
def syncBalances (db : DB) (addrs : List Nat) : DB := addrs.foldl syncOne db

/-- keeper.SetBalance: mint or burn the difference -/
def Keeper.setBalance (k : Keeper) (a v : Nat) : Keeper :=
  { k with bal := upd k.bal a v, supply := k.supply + (v : Int) - (k.bal a : Int) }

/-- a dirty slot is written unless it holds the value the object last saw committed ("skip noop changes");
    a slot that is not dirty holds that value by construction -/
def writeSlot (o : Obj) (a : Nat) (kk : Keeper) (key : Nat) : Keeper :=
  if o.stor key = o.base key then kk
  else { kk with store := upd kk.store a (upd (kk.store a) key (o.stor key)) }

/-- Commit of one dirty address -/
def commitOne (db : DB) (k : Keeper) (a : Nat) (keys : List Nat) : Keeper :=
  match db.objs a with
  | none => k
  | some o =>
    if o.suicided then
      -- DeleteAccount: only if an account exists: burn the balance, clear the storage, remove the account
      if k.exist a then
        let k1 := k.setBalance a 0
        { k1 with exist := upd k1.exist a false, nonce := upd k1.nonce a 0, store := upd k1.store a (fun _ => 0) }
      else k
    else
      let k1 := k.setBalance a o.bal
      let k2 := { k1 with exist := upd k1.exist a true, nonce := upd k1.nonce a o.nonce }
      keys.foldl (writeSlot o a) k2

/-- what Commit leaves in a written object: transientStorage[key] = the value just written -/
def flushObj (o : Obj) (keys : List Nat) : Obj :=
  if o.suicided then o else { o with base := fun key => if key ∈ keys then o.stor key else o.base key }

/-- Commit: every address with a positive dirty count, in ascending order (`addrs` lists the addresses
    and `keys` the storage keys the run can mention) -/
def commit (db : DB) (addrs keys : List Nat) : DB :=
  { db with k := addrs.foldl (fun k a => if db.dirties a > 0 then commitOne db k a keys else k) db.k,
            objs := fun a => if a ∈ addrs ∧ db.dirties a > 0 then (db.objs a).map (fun o => flushObj o keys) else db.objs a }

end Haqq.SDB
