/-
  The property's own reading of a puppet script (harness/props/puppet.go, puppetCompileFor): what one Ethereum
  transaction to the script-interpreting contract must do to the bank balances of the origin E, the contract P and the
  payee X, to their delegations, to the unbonding pool and to the distribution module's account — with nested call frames
  that revert or not.  Core Lean only.
-/
namespace Haqq.Script

inductive Tok
  | sstore (k v : Nat)
  | log
  | pay (amt : Nat)            -- P:amt   the contract pays amt to X
  | delegE (amt : Nat)         -- D:amt / d:amt   staking.delegate of the origin's coins, by grant
  | delegP (amt : Nat)         -- G:amt   staking.delegate of the contract's own coins
  | undelegE (amt : Nat)       -- U:amt   staking.undelegate of the origin's stake
  | claimP                     -- W / C   the contract collects its staking rewards
  | touchModule                -- Z / z   a call (with or without value) to a module account: a module account cannot be
                               --         paid from the EVM, so a transaction that attaches value fails as a whole; in the
                               --         reading of a transaction that goes through, the call has moved nothing
  | frame (reverts : Bool) (body : List Tok)

structure Ref where
  dE : Int
  dP : Int
  dX : Int
  bondE : Int
  bondP : Int
  unbond : Int                 -- what moved into the unbonding (not-bonded) pool
  distr : Int                  -- what the distribution module's account paid out (negative) 
  pendE : Option Nat           -- staking rewards waiting for the origin: paid with its first staking message
  pendP : Option Nat
  logs : Nat
  slots : Nat → Nat
  
def Ref.payE (r : Ref) : Ref :=
  match r.pendE with
  | some x => { r with dE := r.dE + x, distr := r.distr - x, pendE := none }
  | none => r

def Ref.payP (r : Ref) : Ref :=
  match r.pendP with
  | some x => { r with dP := r.dP + x, distr := r.distr - x, pendP := none }
  | none => r

mutual
  def evalTok (r : Ref) : Tok → Ref
    | .sstore k v => { r with slots := fun i => if i = k then v else r.slots i }
    | .log => { r with logs := r.logs + 1 }
    | .pay amt => { r with dP := r.dP - amt, dX := r.dX + amt }
    | .delegE amt => ({ r with dE := r.dE - amt, bondE := r.bondE + amt } : Ref).payE
    | .delegP amt => ({ r with dP := r.dP - amt, bondP := r.bondP + amt } : Ref).payP
    | .undelegE amt => ({ r with bondE := r.bondE - amt, unbond := r.unbond + amt } : Ref).payE
    | .claimP => r.payP
    | .touchModule => r
    | .frame reverts body => if reverts then r else evalToks r body
  def evalToks (r : Ref) : List Tok → Ref
    | [] => r
    | t :: ts => evalToks (evalTok r t) ts
end

/-- the coins the reading accounts for: balances, delegations, the unbonding pool and the distribution account -/
def Ref.total (r : Ref) : Int := r.dE + r.dP + r.dX + r.bondE + r.bondP + r.unbond + r.distr

/-- the starting point for a transaction that sends `value` along: the origin −value, the contract +value -/
def Ref.start (value : Nat) (pendE pendP : Option Nat) (slots : Nat → Nat) : Ref :=
  { dE := -(value : Int), dP := value, dX := 0, bondE := 0, bondP := 0, unbond := 0, distr := 0, pendE, pendP, logs := 0, slots }

end Haqq.Script
