/-
  The account-sequence state machine of the two transaction routes
  (app/ante/evm/eth.go EthIncrementSenderSequenceDecorator; SDK IncrementSequenceDecorator with the sequence in the
  signed document) and the abstract signature binding.  Core Lean only.
-/
namespace Haqq.Replay

/-- Ethereum route: one Cosmos transaction carries a list of Ethereum messages of one sender; each message's
    nonce must equal the account sequence, which is then incremented.  `none` = the whole transaction is refused
    (the ante handler runs on a cached context: nothing of a refused transaction persists). -/
def ethAccept (seq : Nat) : List Nat → Option Nat
  | [] => some seq
  | n :: rest => if n = seq then ethAccept (seq + 1) rest else none

/-- Cosmos / EIP-712 route: the signed document contains the sequence; it must equal the account's -/
def cosAccept (seq txSeq : Nat) (chainOk intact : Bool) : Option Nat :=
  if txSeq = seq ∧ chainOk ∧ intact then some (seq + 1) else none

/-- a history of Ethereum-route transactions of one account: the sequence afterwards and the nonces executed -/
def runEth (seq : Nat) : List (List Nat) → Nat × List Nat
  | [] => (seq, [])
  | tx :: rest =>
    match ethAccept seq tx with
    | some s' => let r := runEth s' rest; (r.1, tx ++ r.2)
    | none => runEth seq rest

/-! ### execution after the ante handler: what the messages themselves do to the sender's nonce

The ante handler has advanced the sequence past every message of the transaction before the first one runs.  A call
leaves the nonce alone; a contract creation resets it to the message's nonce (go-ethereum's `Create` derives the new
address from it and increments it) and sets it afterwards — to `n + 1` in the code before 37d9750 (`keepAdvance = false`),
to `max (nonce on entry) (n + 1)` since. -/

/-- one executed message: its nonce and whether it is a contract creation -/
structure EMsg where
  nonce : Nat
  create : Bool
  deriving Repr, DecidableEq

def execMsg (keepAdvance : Bool) (cur : Nat) (m : EMsg) : Nat :=
  if m.create then (if keepAdvance then max cur (m.nonce + 1) else m.nonce + 1) else cur

/-- the sender's nonce after the messages of one accepted transaction have run (`cur` = what the ante handler left) -/
def execAll (keepAdvance : Bool) (cur : Nat) (ms : List EMsg) : Nat := ms.foldl (execMsg keepAdvance) cur

/-- a whole Ethereum-route transaction: ante handler, then execution; `none` = refused -/
def ethTx (keepAdvance : Bool) (seq : Nat) (ms : List EMsg) : Option Nat :=
  (ethAccept seq (ms.map (·.nonce))).map (fun s' => execAll keepAdvance s' ms)

/-- what can happen to one account between genesis and now: transactions of both routes, and anything else that
    rewrites the stored account (`other newSeq`: conversion into a vesting account, a clawback, an upgrade handler, …) -/
inductive Ev
  | eth (nonces : List Nat)
  | cos (txSeq : Nat) (chainOk intact : Bool)
  | other (newSeq : Nat)

/-- a mixed history: the sequence afterwards and the sequence numbers under which transactions were executed -/
def runMixed (seq : Nat) : List Ev → Nat × List Nat
  | [] => (seq, [])
  | .eth ns :: rest =>
    (match ethAccept seq ns with
     | some s' => let r := runMixed s' rest; (r.1, ns ++ r.2)
     | none => runMixed seq rest)
  | .cos t c i :: rest =>
    (match cosAccept seq t c i with
     | some s' => let r := runMixed s' rest; (r.1, t :: r.2)
     | none => runMixed seq rest)
  | .other n :: rest => runMixed n rest

end Haqq.Replay
