/-
  The account-sequence state machine of the two transaction routes
  (app/ante/evm/eth.go EthIncrementSenderSequenceDecorator; SDK IncrementSequenceDecorator with the sequence in the
  signed document) and the abstract signature binding.  Core Lean only.
-/
namespace Haqq.Replay

/-- Ethereum route: one Cosmos transaction carries a list of Ethereum messages of one sender; each message's
    nonce must equal the account sequence, which is then incremented.  `none` = the whole transaction is refused
    (the ante handler runs on a cached context: nothing of a refused transaction persists). -/
def ethAccept (seq : Nat) : List Nat → Option Nat
  | [] => some seq
  | n :: rest => if n = seq then ethAccept (seq + 1) rest else none

/-- Cosmos / EIP-712 route: the signed document contains the sequence; it must equal the account's -/
def cosAccept (seq txSeq : Nat) (chainOk intact : Bool) : Option Nat :=
  if txSeq = seq ∧ chainOk ∧ intact then some (seq + 1) else none

/-- a history of Ethereum-route transactions of one account: the sequence afterwards and the nonces executed -/
def runEth (seq : Nat) : List (List Nat) → Nat × List Nat
  | [] => (seq, [])
  | tx :: rest =>
    match ethAccept seq tx with
    | some s' => let r := runEth s' rest; (r.1, tx ++ r.2)
    | none => runEth seq rest

/-- what can happen to one account between genesis and now: transactions of both routes, and anything else that
    rewrites the stored account (`other newSeq`: conversion into a vesting account, a clawback, an upgrade handler, …) -/
inductive Ev
  | eth (nonces : List Nat)
  | cos (txSeq : Nat) (chainOk intact : Bool)
  | other (newSeq : Nat)

/-- a mixed history: the sequence afterwards and the sequence numbers under which transactions were executed -/
def runMixed (seq : Nat) : List Ev → Nat × List Nat
  | [] => (seq, [])
  | .eth ns :: rest =>
    (match ethAccept seq ns with
     | some s' => let r := runMixed s' rest; (r.1, ns ++ r.2)
     | none => runMixed seq rest)
  | .cos t c i :: rest =>
    (match cosAccept seq t c i with
     | some s' => let r := runMixed s' rest; (r.1, t :: r.2)
     | none => runMixed seq rest)
  | .other n :: rest => runMixed n rest

end Haqq.Replay
