/-
  Model of x/evm/types: NewTxDataFromTx / NewLegacyTx / newAccessListTx / NewDynamicFeeTx (eth → proto),
  AsEthereumData + go-ethereum's NewTx copy normalisation (proto → eth), Fee / Cost / EffectiveGasPrice,
  the 256-bit guard (SafeNewIntFromBigInt).  Core Lean only.
-/
namespace Haqq.EthTx

/-- big.Int.Bytes(): big-endian, minimal (zero is the empty slice) — little-endian digits reversed -/
def leBytes (n : Nat) : List Nat :=
  if h : n = 0 then [] else (n % 256) :: leBytes (n / 256)
termination_by n
decreasing_by exact Nat.div_lt_self (Nat.pos_of_ne_zero h) (by decide)

def ofLE : List Nat → Nat
  | [] => 0
  | b :: bs => b + 256 * ofLE bs

def bigBytes (n : Nat) : List Nat := (leBytes n).reverse
/-- new(big.Int).SetBytes -/
def setBytes (bs : List Nat) : Nat := ofLE bs.reverse

/-- a go-ethereum transaction as `NewTx` holds it (every *big.Int field non-nil) -/
structure EthTx where
  typ : Nat                      -- 0 legacy, 1 access list, 2 dynamic fee
  chainId : Nat                  -- typed txs only (legacy: derived from v)
  nonce : Nat
  gas : Nat
  gasPrice : Nat                 -- legacy / access list
  gasTipCap : Nat                -- dynamic fee
  gasFeeCap : Nat                -- dynamic fee
  to : Option Nat                -- none = contract creation
  value : Nat
  data : List Nat
  access : List (Nat × List Nat) -- typed txs only
  v : Nat
  r : Nat
  s : Nat
  deriving Repr, DecidableEq

/-- the protobuf TxData (LegacyTx / AccessListTx / DynamicFeeTx): sdk.Int pointers are options, the
    signature components are byte slices, `to` is "" for creation -/
structure PTx where
  typ : Nat
  chainId : Option Nat
  nonce : Nat
  gas : Nat
  gasPrice : Option Nat
  gasTipCap : Option Nat
  gasFeeCap : Option Nat
  to : Option Nat
  amount : Option Nat
  data : List Nat
  access : List (Nat × List Nat)
  v : List Nat
  r : List Nat
  s : List Nat
  deriving Repr, DecidableEq

def fits256 (n : Nat) : Bool := n < 2 ^ 256

/-- go-ethereum's copy normalisation for the fields a type does not carry (they read as zero) -/
def EthTx.normal (t : EthTx) : Bool :=
  match t.typ with
  | 0 => t.gasTipCap == 0 && t.gasFeeCap == 0 && t.chainId == 0 && t.access.isEmpty
  | 1 => t.gasTipCap == 0 && t.gasFeeCap == 0
  | _ => t.gasPrice == 0 && t.typ == 2

/-- NewTxDataFromTx: fails when a big field does not fit 256 bits (SafeNewIntFromBigInt) -/
def fromEth (t : EthTx) : Option PTx :=
  match t.typ with
  | 0 =>
    if fits256 t.value && fits256 t.gasPrice then
      some { typ := 0, chainId := none, nonce := t.nonce, gas := t.gas, gasPrice := some t.gasPrice,
             gasTipCap := none, gasFeeCap := none, to := t.to, amount := some t.value, data := t.data,
             access := [], v := bigBytes t.v, r := bigBytes t.r, s := bigBytes t.s }
    else none
  | 1 =>
    if fits256 t.value && fits256 t.gasPrice && fits256 t.chainId then
      some { typ := 1, chainId := some t.chainId, nonce := t.nonce, gas := t.gas, gasPrice := some t.gasPrice,
             gasTipCap := none, gasFeeCap := none, to := t.to, amount := some t.value, data := t.data,
             access := t.access, v := bigBytes t.v, r := bigBytes t.r, s := bigBytes t.s }
    else none
  | _ =>
    if fits256 t.value && fits256 t.gasTipCap && fits256 t.gasFeeCap && fits256 t.chainId then
      some { typ := 2, chainId := some t.chainId, nonce := t.nonce, gas := t.gas, gasPrice := none,
             gasTipCap := some t.gasTipCap, gasFeeCap := some t.gasFeeCap, to := t.to, amount := some t.value,
             data := t.data, access := t.access, v := bigBytes t.v, r := bigBytes t.r, s := bigBytes t.s }
    else none

/-- rawSignatureValues: an empty slice reads as nil, which NewTx copies to zero -/
def sigVal (bs : List Nat) : Nat := if bs.isEmpty then 0 else setBytes bs

/-- AsEthereumData followed by go-ethereum's NewTx (nil → zero) -/
def asEth (p : PTx) : EthTx :=
  { typ := p.typ, chainId := p.chainId.getD 0, nonce := p.nonce, gas := p.gas,
    gasPrice := p.gasPrice.getD 0, gasTipCap := p.gasTipCap.getD 0, gasFeeCap := p.gasFeeCap.getD 0,
    to := p.to, value := p.amount.getD 0, data := p.data, access := if p.typ = 0 then [] else p.access,
    v := sigVal p.v, r := sigVal p.r, s := sigVal p.s }

/-- Transaction.WithSignature: a copy with the three signature values replaced -/
def withSignature (t : EthTx) (v r s : Nat) : EthTx := { t with v := v, r := r, s := s }

/-- MsgEthereumTx.Sign: unwrap, sign, wrap again (`tx.WithSignature` then `FromEthereumTx`) -/
def signMsg (p : PTx) (v r s : Nat) : Option PTx := fromEth (withSignature (asEth p) v r s)

/-- TxData.Fee: gas × (gasPrice | gasFeeCap) -/
def PTx.fee (p : PTx) : Nat := (if p.typ = 2 then p.gasFeeCap.getD 0 else p.gasPrice.getD 0) * p.gas
/-- TxData.Cost: fee + value -/
def PTx.cost (p : PTx) : Nat := p.fee + p.amount.getD 0
/-- TxData.EffectiveGasPrice(baseFee) -/
def PTx.effectiveGasPrice (p : PTx) (baseFee : Nat) : Nat :=
  if p.typ = 2 then min (p.gasTipCap.getD 0 + baseFee) (p.gasFeeCap.getD 0) else p.gasPrice.getD 0
/-- the same with the base fee possibly absent (London not active): a dynamic-fee message is priced at its fee cap, as
    go-ethereum's AsMessage does (`nilSafe`); before that repair the computation dereferenced the missing base fee (`none`) -/
def PTx.effectiveGasPriceO (nilSafe : Bool) (p : PTx) : Option Nat → Option Nat
  | some b => some (p.effectiveGasPrice b)
  | none => if p.typ = 2 then (if nilSafe then some (p.gasFeeCap.getD 0) else none) else some (p.gasPrice.getD 0)
def PTx.effectiveFee (p : PTx) (baseFee : Nat) : Nat := p.effectiveGasPrice baseFee * p.gas
def PTx.effectiveCost (p : PTx) (baseFee : Nat) : Nat := p.effectiveFee baseFee + p.amount.getD 0

/-- go-ethereum's own figures -/
def EthTx.gasPriceField (t : EthTx) : Nat := if t.typ = 2 then t.gasFeeCap else t.gasPrice
def EthTx.cost (t : EthTx) : Nat := t.gasPriceField * t.gas + t.value

end Haqq.EthTx
