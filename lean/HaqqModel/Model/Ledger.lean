/-
  Bank ledger primitives over module accounts and the Haqq BurnCoins override
  (x/bank/keeper/keeper.go).  Core Lean only.  One denomination at a time (every primitive is pointwise).
-/
import HaqqModel.Prelude.Basic

namespace Haqq.Ledger

/-- module accounts are numbered; `distr` is the distribution module account -/
structure State where
  bal : Nat → Nat          -- balance per module account (ordinary accounts are not touched by burns)
  supply : Nat
  communityPool : Nat      -- distribution FeePool.CommunityPool (integer part)

def distr : Nat := 0

inductive Err | insufficient | noPermission
  deriving Repr, DecidableEq

/-- the BurnCoins override: `redirected m` ⇔ m is one of the case labels; `burner m` ⇔ maccPerms gives
    m the Burner permission (the SDK BurnCoins panics without it) -/
def burnCoins (redirected burner : Nat → Bool) (s : State) (m amt : Nat) : Except Err State :=
  if redirected m then
    if s.bal m < amt then .error .insufficient
    else
      let bal1 := upd s.bal m (s.bal m - amt)
      let bal2 := upd bal1 distr (bal1 distr + amt)
      .ok { s with bal := bal2, communityPool := s.communityPool + amt }
  else if !burner m then .error .noPermission
  else if s.bal m < amt then .error .insufficient
  else .ok { s with bal := upd s.bal m (s.bal m - amt), supply := s.supply - amt }

end Haqq.Ledger
