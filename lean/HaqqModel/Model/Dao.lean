/-
  Model of x/ucdao/keeper (keeper.go Fund / TransferOwnership, msg_server.go).
  Core Lean only.  Go counterpart of each definition is named in its doc comment.

  State components (all total functions; addresses and denominations are naturals):
    bal     : DAO share ledger   (store prefix BalancesPrefix)
    total   : recorded DAO total (store prefix TotalBalanceKey)
    holders : holders index      (store prefix HoldersPrefix)
    modBal  : bank balance of the DAO module account
    bank    : bank (spendable) balances of ordinary accounts
-/
import HaqqModel.Prelude.Basic

namespace Haqq.Dao

abbrev Coins := List (Nat × Nat)

structure State where
  bal     : Nat → Nat → Nat
  total   : Nat → Nat
  holders : Nat → Bool
  modBal  : Nat → Nat
  bank    : Nat → Nat → Nat
  enabled : Bool

def State.init : State :=
  { bal := fun _ _ => 0, total := fun _ => 0, holders := fun _ => false,
    modBal := fun _ => 0, bank := fun _ _ => 0, enabled := true }

inductive Err | disabled | insufficientBank | invalidDenom | notEligible | insufficientFunds | invalidCoins
  deriving Repr, DecidableEq

/-- keeper.setBalance on one (addr, denom) -/
def setBal (bal : Nat → Nat → Nat) (a : Nat) (d : Nat) (v : Nat) : Nat → Nat → Nat :=
  upd bal a (upd (bal a) d v)

/-- keeper.addCoinsToAccount (the `IsValid` precondition is checked by the caller model) -/
def addCoins (bal : Nat → Nat → Nat) (a : Nat) : Coins → Nat → Nat → Nat
  | [] => bal
  | (d, v) :: rest => addCoins (setBal bal a d (bal a d + v)) a rest

/-- keeper.setHoldersIndex: M is the number of denominations in use -/
def setHoldersIndex (M : Nat) (bal : Nat → Nat → Nat) (holders : Nat → Bool) (a : Nat) :
    Nat → Bool :=
  upd holders a (anyTo (fun d => decide (0 < bal a d)) M)

/-- sdk.Coins.IsValid: strictly increasing denominations, strictly positive amounts -/
def coinsValid : Coins → Bool
  | [] => true
  | [(_, v)] => decide (0 < v)
  | (d, v) :: (d', v') :: rest => decide (0 < v) && decide (d < d') && coinsValid ((d', v') :: rest)

/-- bank SendCoinsFromAccountToModule: all-or-nothing debit of `a`, credit of the module -/
def bankDebit (bank : Nat → Nat → Nat) (a : Nat) : Coins → Option (Nat → Nat → Nat)
  | [] => some bank
  | (d, v) :: rest =>
    if v ≤ bank a d then bankDebit (setBal bank a d (bank a d - v)) a rest else none

def modCredit (m : Nat → Nat) : Coins → Nat → Nat
  | [] => m
  | (d, v) :: rest => modCredit (upd m d (m d + v)) rest

def totalCredit (t : Nat → Nat) : Coins → Nat → Nat
  | [] => t
  | (d, v) :: rest => totalCredit (upd t d (t d + v)) rest

/-- keeper.Fund (through msgServer.Fund: ValidateBasic requires `amount.IsValid`).
    `allowed d` = (d = aISLM ∨ IsLiquidToken d).  A failure leaves the state unchanged
    (the message runs in a cached context). -/
def fund (M : Nat) (allowed : Nat → Bool) (s : State) (sender : Nat) (amount : Coins) :
    Except Err State :=
  if !coinsValid amount then .error .invalidCoins
  else if !s.enabled then .error .disabled
  else match bankDebit s.bank sender amount with
  | none => .error .insufficientBank
  | some bank' =>
    if !amount.all (fun c => allowed c.1) then .error .invalidDenom
    else
      let bal' := addCoins s.bal sender amount
      .ok { s with bank := bank', modBal := modCredit s.modBal amount,
                   bal := bal', total := totalCredit s.total amount,
                   holders := setHoldersIndex M bal' s.holders sender }

/-- leftovers loop of keeper.TransferOwnership: looked up in the *pre-state* balances -/
def leftovers (balOwner : Nat → Nat) : Coins → Except Err Coins
  | [] => .ok []
  | (d, v) :: rest =>
    if v = 0 then leftovers balOwner rest
    else if balOwner d = 0 then .error .insufficientFunds
    else if balOwner d < v then .error .insufficientFunds
    else match leftovers balOwner rest with
      | .error e => .error e
      | .ok l => .ok ((d, balOwner d - v) :: l)

def setCoins (bal : Nat → Nat → Nat) (a : Nat) : Coins → Nat → Nat → Nat
  | [] => bal
  | (d, v) :: rest => setCoins (setBal bal a d v) a rest

/-- keeper.TransferOwnership, in the code's order. `creditFirst` records the order of the two
    writes: the pinned commit credits the recipient first and then overwrites the owner with the
    precomputed leftovers (`true`); the repaired code debits the owner first (`false`). -/
def transfer (M : Nat) (creditFirst : Bool) (s : State) (owner newOwner : Nat) (amount : Coins) :
    Except Err State :=
  if !s.enabled then .error .disabled
  else if !anyTo (fun d => decide (0 < s.bal owner d)) M then .error .notEligible
  else match leftovers (s.bal owner) amount with
  | .error e => .error e
  | .ok left =>
    if !coinsValid amount then .error .invalidCoins
    else
      let bal' := if creditFirst then setCoins (addCoins s.bal newOwner amount) owner left
                  else addCoins (setCoins s.bal owner left) newOwner amount
      let h1 := setHoldersIndex M bal' s.holders newOwner
      let h2 := setHoldersIndex M bal' h1 owner
      .ok { s with bal := bal', holders := h2 }

/-- all balances of an account as a coin list (GetAccountBalances): ascending denominations,
    zero entries absent -/
def accountCoins (bal : Nat → Nat) : Nat → Coins
  | 0 => []
  | m + 1 => accountCoins bal m ++ (if 0 < bal m then [(m, bal m)] else [])

inductive Op
  | fund (sender : Nat) (amount : Coins)
  | transferAll (owner newOwner : Nat)
  | transferAmount (owner newOwner : Nat) (amount : Coins)
  | setEnabled (b : Bool)
  | bankMint (a : Nat) (d : Nat) (v : Nat)      -- test fixture: give an account coins

def Op.addrs : Op → List Nat
  | .fund a _ => [a]
  | .transferAll a b => [a, b]
  | .transferAmount a b _ => [a, b]
  | .setEnabled _ => []
  | .bankMint a _ _ => [a]

def Op.denoms : Op → List Nat
  | .fund _ c => c.map (·.1)
  | .transferAll _ _ => []
  | .transferAmount _ _ c => c.map (·.1)
  | .setEnabled _ => []
  | .bankMint _ d _ => [d]

/-- msgServer.Transfer*: `GetAccountBalances(owner).IsZero()` is tested by the message server
    before the keeper is entered (so "not eligible" wins over "module disabled"). -/
def eligible (M : Nat) (s : State) (a : Nat) : Bool := anyTo (fun d => decide (0 < s.bal a d)) M

def step (M : Nat) (allowed : Nat → Bool) (creditFirst : Bool) (s : State) : Op → Except Err State
  | .fund a c => fund M allowed s a c
  | .transferAll a b =>
      -- msgServer.TransferOwnership: amount := GetAccountBalances(owner)
      if !eligible M s a then .error .notEligible
      else transfer M creditFirst s a b (accountCoins (s.bal a) M)
  | .transferAmount a b c =>
      -- msgServer.TransferOwnershipWithAmount: ValidateBasic requires IsValid
      if !coinsValid c then .error .invalidCoins
      else if !eligible M s a then .error .notEligible
      else transfer M creditFirst s a b c
  | .setEnabled b => .ok { s with enabled := b }
  | .bankMint a d v => .ok { s with bank := setBal s.bank a d (s.bank a d + v) }

/-- a failed message leaves the state untouched -/
def stepKeep (M : Nat) (allowed : Nat → Bool) (creditFirst : Bool) (s : State) (op : Op) : State :=
  match step M allowed creditFirst s op with
  | .ok s' => s'
  | .error _ => s

def run (M : Nat) (allowed : Nat → Bool) (creditFirst : Bool) (s : State) (ops : List Op) : State :=
  ops.foldl (stepKeep M allowed creditFirst) s

end Haqq.Dao
