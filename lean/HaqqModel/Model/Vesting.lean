/-
  Model of x/vesting/types/clawback_vesting_account.go and the schedule part of
  x/vesting/keeper/msg_server.go (addGrant, transferClawback, the funder checks).
  Core Lean only.
-/
import HaqqModel.Model.Schedule

namespace Haqq.Vest
open Haqq.Sched

structure Account where
  funder  : Nat
  start   : Int
  endT    : Int
  original : Amt
  lockup  : List Period
  vesting : List Period
  delegatedFree : Amt := Amt.zero
  delegatedVesting : Amt := Amt.zero

/-- NewClawbackVestingAccount: EndTime from AlignSchedules with equal starts -/
def newAccount (funder : Nat) (start : Int) (original : Amt) (lockup vesting : List Period) : Account :=
  { funder, start, endT := (alignSchedules start start lockup vesting).2, original, lockup, vesting }

def Account.unlocked (a : Account) (t : Int) : Amt := readSchedule a.start a.endT a.lockup a.original t
def Account.vested (a : Account) (t : Int) : Amt := readSchedule a.start a.endT a.vesting a.original t
def Account.unvested (a : Account) (t : Int) : Amt := Amt.sub a.original (a.vested t)         -- GetVestingCoins
def Account.lockedUp (a : Account) (t : Int) : Amt := Amt.sub a.original (a.unlocked t)        -- GetLockedUpCoins
def Account.unlockedVested (a : Account) (t : Int) : Amt := Amt.min (a.unlocked t) (a.vested t)
def Account.lockedUpVested (a : Account) (t : Int) : Amt := Amt.sub (a.vested t) (a.unlockedVested t)

/-- LockedCoins: original − (unlockedVested + min(delegated, lockedUpVested)), empty if the SafeSub
    would go negative in some denomination in use -/
def Account.lockedCoins (M : Nat) (a : Account) (t : Int) : Amt :=
  let deleg := Amt.min (Amt.add a.delegatedFree a.delegatedVesting) (a.lockedUpVested t)
  let sub := Amt.add (a.unlockedVested t) deleg
  if Amt.allLE M sub a.original then Amt.sub a.original sub else Amt.zero

inductive VErr | startNotBeforeEnd | lockupBeyondEnd | lockupSum | vestingBeyondEnd | vestingSum
  deriving Repr, DecidableEq

def amtEq (M : Nat) (a b : Amt) : Bool := Amt.allLE M a b && Amt.allLE M b a   -- CoinEq

/-- ClawbackVestingAccount.Validate (the clawback-specific part).  `strict` = the first clause rejects
    start ≥ end (the pinned commit); otherwise only start > end (a regenerated fact says which). -/
def Account.validate (strict : Bool) (M : Nat) (a : Account) : Except VErr Unit :=
  if (if strict then decide (a.start ≥ a.endT) else decide (a.start > a.endT)) then .error .startNotBeforeEnd
  else if a.start + totalLength a.lockup > a.endT then .error .lockupBeyondEnd
  else if !amtEq M (totalAmount a.lockup) a.original then .error .lockupSum
  else if a.start + totalLength a.vesting > a.endT then .error .vestingBeyondEnd
  else if !amtEq M (totalAmount a.vesting) a.original then .error .vestingSum
  else .ok ()

/-- ComputeClawback -/
def Account.computeClawback (M : Nat) (a : Account) (t : Int) : Account × Amt :=
  let totalVested := a.vested t
  let totalUnvested := a.unvested t
  let n := readPastPeriodCount a.start a.endT a.vesting t
  let newVesting := a.vesting.take n
  let newVestingEnd := a.start + totalLength newVesting
  let cap : List Period := [⟨0, totalVested⟩]
  let c := conjunctPeriods M a.start a.start a.lockup cap
  ({ a with original := totalVested,
            endT := if newVestingEnd ≤ c.endT then c.endT else newVestingEnd,
            lockup := c.periods, vesting := newVesting }, totalUnvested)

/-- keeper.addGrant (schedule part; the delegation bookkeeping is reset by the keeper from staking
    state and is handled by the caller) -/
def Account.addGrant (a : Account) (grantStart : Int) (gLockup gVesting : List Period) (grantCoins : Amt) :
    Account :=
  let l := disjunctPeriods a.start grantStart a.lockup gLockup
  let v := disjunctPeriods a.start grantStart a.vesting gVesting
  { a with start := l.start, endT := if l.endT ≤ v.endT then v.endT else l.endT,
           lockup := l.periods, vesting := v.periods, original := Amt.add a.original grantCoins }

/-- Which start time the two merge entry points hand to addGrant.
    `MsgCreateClawbackVestingAccount{merge}` passes the grant's own start; `ApplyVestingSchedule`
    (used by `MsgConvertIntoVestingAccount{merge}` and liquid-vesting `Redeem`) passes
    `min(grantStart, accStart)` when `applyUsesMin` (the pinned commit) and the grant's own start
    otherwise. -/
def applyGrantStart (applyUsesMin : Bool) (accStart grantStart : Int) : Int :=
  if applyUsesMin then (if grantStart ≤ accStart then grantStart else accStart) else grantStart

/-! ### message-level decision logic (funder checks) -/

inductive MErr | notVesting | noPeriods | notFunder | blocked
  deriving Repr, DecidableEq

/-- keeper.Clawback: returns the updated account and the amount sent to `dest` -/
def clawbackMsg (M : Nat) (acc : Option Account) (msgFunder : Nat) (destBlocked : Bool) (now : Int) :
    Except MErr (Account × Amt) :=
  if destBlocked then .error .blocked else
  match acc with
  | none => .error .notVesting
  | some a =>
    if a.vesting.isEmpty && a.lockup.isEmpty then .error .noPeriods
    else if a.funder ≠ msgFunder then .error .notFunder
    else
      let r := a.computeClawback M now
      -- transferClawback: nothing to claw back ⇒ account left as it is
      if Amt.isZero M r.2 then .ok (a, Amt.zero) else .ok r

/-- keeper.UpdateVestingFunder -/
def updateFunderMsg (acc : Option Account) (msgFunder newFunder : Nat) (newBlocked : Bool) :
    Except MErr Account :=
  if newBlocked then .error .blocked else
  match acc with
  | none => .error .notVesting
  | some a => if a.funder ≠ msgFunder then .error .notFunder else .ok { a with funder := newFunder }

end Haqq.Vest
