/-
  Model of the fee floor and the EVM gas charging arithmetic:
    app/ante/cosmos/min_price.go (MinGasPriceDecorator), app/ante/evm/fees.go (EthMinGasPriceDecorator),
    x/evm/keeper/fees.go (VerifyFee), x/evm/keeper/gas.go (GasToRefund, RefundGas),
    x/evm/keeper/state_transition.go (the gasUsed computation of ApplyMessageWithConfig, ApplyTransaction).
  The EVM interpreter is not modelled: the gas it consumed and its refund counter are inputs.
  Core Lean only.  Prices and fees are integers; LegacyDec parameters are raw 18-decimal integers.
-/
namespace Haqq.Fees

def dec18 : Nat := 10 ^ 18

/-- ⌈minGasPrice · gas⌉ in base units: `gp.Amount.Mul(gasLimit).Ceil().RoundInt()` -/
def cosmosRequired (minGPraw gas : Nat) : Nat := (minGPraw * gas + dec18 - 1) / dec18

/-- MinGasPriceDecorator (DeliverTx, not simulating): `fee` is the fee amount in the EVM denomination
    (0 if the tx pays in another denomination or nothing) -/
def cosmosFloorAccept (minGPraw gas fee : Nat) : Bool :=
  if minGPraw = 0 then true
  else if cosmosRequired minGPraw gas = 0 then false    -- no positive required fee: `IsAnyGTE` of an empty set is false
  else decide (cosmosRequired minGPraw gas ≤ fee)

/-- what a Cosmos transaction is charged (DeductFeeDecorator with the dynamic fee checker, base fee in force):
    min(baseFee + tip, ⌊fee / gas⌋) × gas; without the dynamic-fee extension option the tip is 2^63 − 1 -/
def cosmosCharged (gas fee baseFee : Nat) (tip : Option Nat) : Nat :=
  min (baseFee + tip.getD (2 ^ 63 - 1)) (fee / gas) * gas

/-- MinGasPriceDecorator: before cda7d87 only the declared fee was compared (`chargedToo = false`); cda7d87 made the
    charged amount reach the floor for transactions carrying the extension option (`everyTx = false`); now, with a base
    fee in force, the charged amount of every Cosmos transaction has to reach it (without the option the price per gas
    is still rounded down) -/
def cosmosFloorAcceptTx (chargedToo everyTx : Bool) (minGPraw gas fee baseFee : Nat) (tip : Option Nat) : Bool :=
  cosmosFloorAccept minGPraw gas fee &&
    (!chargedToo || (tip.isNone && !everyTx) || gas = 0 || minGPraw = 0 ||
      decide (cosmosRequired minGPraw gas ≤ cosmosCharged gas fee baseFee tip))

/-- effective gas price of an Ethereum tx: legacy / access-list pay `gasPrice`, dynamic-fee pays
    min(tip + baseFee, cap) -/
def effectivePrice (dynamic : Bool) (gasPrice tip cap baseFee : Nat) : Nat :=
  if dynamic then min (tip + baseFee) cap else gasPrice

/-- EthMinGasPriceDecorator: legacy txs are measured with gasPrice·gas, typed txs with the effective fee -/
def ethFloorAccept (minGPraw : Nat) (typ : Nat) (gas gasPrice tip cap baseFee : Nat) : Bool :=
  if minGPraw = 0 then true
  else
    let fee := if typ = 0 then gasPrice * gas else effectivePrice (typ = 2) gasPrice tip cap baseFee * gas
    decide (minGPraw * gas ≤ fee * dec18)

/-- the decorator over a transaction carrying several Ethereum messages (typ, gas, gasPrice, tip, cap): the floor is
    enforced for every message on its own -/
def ethFloorAcceptTx (minGPraw baseFee : Nat) (msgs : List (Nat × Nat × Nat × Nat × Nat)) : Bool :=
  msgs.all fun m => ethFloorAccept minGPraw m.1 m.2.1 m.2.2.1 m.2.2.2.1 m.2.2.2.2 baseFee

/-- VerifyFee: the fee cap must not be below the base fee; the up-front fee is effectivePrice × gasLimit -/
def verifyFee (typ gas gasPrice tip cap baseFee : Nat) : Option Nat :=
  let feeCap := if typ = 2 then cap else gasPrice
  if feeCap < baseFee then none else some (effectivePrice (typ = 2) gasPrice tip cap baseFee * gas)

/-- GasToRefund -/
def gasToRefund (availableRefund gasConsumed refundQuotient : Nat) : Nat :=
  min (gasConsumed / refundQuotient) availableRefund

/-- the gasUsed computation: max(⌊minGasMultiplier · gasLimit⌋, consumed − refund) -/
def gasUsed (gasLimit consumed refundCounter refundQuotient multRaw : Nat) : Nat :=
  max (gasLimit * multRaw / dec18) (consumed - gasToRefund refundCounter consumed refundQuotient)

structure Settlement where
  deducted : Nat        -- ante: gasLimit × price, from the sender to the fee collector
  refunded : Nat        -- RefundGas: (gasLimit − gasUsed) × price, from the fee collector to the sender
  deriving Repr, DecidableEq

def settle (gasLimit used price : Nat) : Settlement :=
  { deducted := gasLimit * price, refunded := (gasLimit - used) * price }

end Haqq.Fees
