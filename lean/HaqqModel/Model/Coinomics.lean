/-
  Model of x/coinomics/keeper/inflation.go (MintAndAllocate), abci.go (EndBlocker) and the ledger
  effect of a mint (mint to the module account, forward the same coin to the fee collector).
  Core Lean only.
-/
import HaqqModel.Prelude.Dec

namespace Haqq.Coinomics
open Haqq.Dec

structure State where
  enabled : Bool
  rewardCoeff : Int        -- Params.RewardCoefficient, LegacyDec raw
  prevTS : Int             -- PrevBlockTS, unix milliseconds (0 = unset)
  maxSupply : Int          -- MaxSupply.Amount

structure Block where
  timeMs : Int             -- ctx.BlockTime().UnixMilli()
  year : Int               -- ctx.BlockTime().Year()  (UTC)
  bonded : Int             -- stakingKeeper.TotalBondedTokens
  supply : Int             -- bankKeeper.GetSupply(mintDenom)

def isLeap (y : Int) : Bool := (y % 4 == 0 && y % 100 != 0) || y % 400 == 0

def yearMs (y : Int) : Int := if isLeap y then 31622400000 else 31536000000

/-- blockMint as a LegacyDec raw value: bonded · (coeff / 100) · ((now − prev) / year) -/
def blockMintDec (st : State) (b : Block) : Int :=
  mul (mul (ofInt b.bonded) (quo st.rewardCoeff (ofInt 100)))
      (quo (ofInt (b.timeMs - st.prevTS)) (ofInt (yearMs b.year)))

/-- the cap test: `bankTotalSupply.Add(blockMint).GT(maxSupply)` -/
def crossing (st : State) (b : Block) : Bool :=
  decide (ofInt b.supply + blockMintDec st b > ofInt st.maxSupply)

/-- blockMint after the cap branch -/
def cappedMint (st : State) (b : Block) : Int :=
  if crossing st b then ofInt st.maxSupply - ofInt b.supply else blockMintDec st b

/-- MintAndAllocate: new state and the amount minted (and forwarded to the fee collector) -/
def mintAndAllocate (st : State) (b : Block) : State × Int :=
  if st.prevTS = 0 then ({ st with prevTS := b.timeMs }, 0)
  else if cappedMint st b < 0 then
    -- negative: logged, nothing minted; the block still becomes the reference of the next one (the cap branch may have
    -- switched off)
    ({ st with enabled := st.enabled && !crossing st b, prevTS := b.timeMs }, 0)
  else
    ({ st with enabled := st.enabled && !crossing st b, prevTS := b.timeMs }, roundInt (cappedMint st b))

/-- EndBlocker.  `reset`: while disabled the stored timestamp is cleared (a regenerated fact says
    whether the code does that). -/
def endBlock (reset : Bool) (st : State) (b : Block) : State × Int :=
  if !st.enabled then ((if reset then { st with prevTS := 0 } else st), 0)
  else mintAndAllocate st b

/-- ledger view of a mint: the coinomics module account mints and forwards the same coin -/
structure Ledger where
  supply : Int
  moduleBal : Int
  collector : Int

def applyMint (l : Ledger) (minted : Int) : Ledger :=
  let l1 := { l with supply := l.supply + minted, moduleBal := l.moduleBal + minted }   -- MintCoins
  { l1 with moduleBal := l1.moduleBal - minted, collector := l1.collector + minted }    -- SendCoinsFromModuleToModule

/-- civil year (UTC) of a unix timestamp in seconds — days-to-civil algorithm; differential-tested
    against Go's time.Unix(t,0).UTC().Year() -/
def civilYear (secs : Int) : Int :=
  let days := secs.fdiv 86400
  let z := days + 719468
  let era := (if z ≥ 0 then z else z - 146096).fdiv 146097
  let doe := z - era * 146097
  let yoe := (doe - doe.fdiv 1460 + doe.fdiv 36524 - doe.fdiv 146096).fdiv 365
  let y := yoe + era * 400
  let doy := doe - (365 * yoe + yoe.fdiv 4 - yoe.fdiv 100)
  let mp := (5 * doy + 2).fdiv 153
  let m := if mp < 10 then mp + 3 else mp - 9
  if m ≤ 2 then y + 1 else y

/-- a block history: each block carries its own bonded/supply readings; the supply reading of the
    next block is whatever the chain says (other modules may mint/burn) -/
def run (reset : Bool) (st : State) : List (Block × Option Bool) → State × List Int
  | [] => (st, [])
  | (b, sw) :: rest =>
    -- an optional governance switch of EnableCoinomics takes effect before the block's EndBlocker
    let st0 := match sw with | some e => { st with enabled := e } | none => st
    let r := endBlock reset st0 b
    let rr := run reset r.1 rest
    (rr.1, r.2 :: rr.2)

end Haqq.Coinomics
