/-
  Model of x/vesting/types/schedule.go (ReadSchedule, ReadPastPeriodCount, DisjunctPeriods,
  ConjunctPeriods, AlignSchedules).  Core Lean only.

  Amounts are `sdk.Coins`, modelled pointwise as total functions `denom → Nat` (Add / Min / Sub /
  IsAllLTE / IsZero are pointwise in the SDK).  The two *tests* `IsAllLTE` and `IsZero` inspect the
  finitely many denominations in use; `M` is their number (denominations are `0 … M-1`).
  Times and lengths are `Int` (Go: int64; the generators stay far from the 2^63 boundary and the
  Go code performs no overflow checks on them).
-/
import HaqqModel.Prelude.Basic

namespace Haqq.Sched

abbrev Amt := Nat → Nat

def Amt.zero : Amt := fun _ => 0
def Amt.add (a b : Amt) : Amt := fun d => a d + b d
def Amt.min (a b : Amt) : Amt := fun d => Min.min (a d) (b d)
def Amt.sub (a b : Amt) : Amt := fun d => a d - b d
/-- sdk.Coins.IsAllLTE over the denominations in use -/
def Amt.allLE (M : Nat) (a b : Amt) : Bool := !(anyTo (fun d => decide (b d < a d)) M)
/-- sdk.Coins.IsZero over the denominations in use -/
def Amt.isZero (M : Nat) (a : Amt) : Bool := !(anyTo (fun d => decide (0 < a d)) M)

structure Period where
  length : Int
  amount : Amt

def totalAmount : List Period → Amt
  | [] => Amt.zero
  | p :: ps => Amt.add p.amount (totalAmount ps)

def totalLength : List Period → Int
  | [] => 0
  | p :: ps => p.length + totalLength ps

/-- the loop of ReadSchedule: sum of the amounts of all periods whose end is ≤ t, stopping at the
    first period that has not ended -/
def readLoop (elapsed : Int) (ps : List Period) (t : Int) : Amt :=
  match ps with
  | [] => Amt.zero
  | p :: rest => if t < elapsed + p.length then Amt.zero else Amt.add p.amount (readLoop (elapsed + p.length) rest t)

/-- ReadSchedule -/
def readSchedule (start endT : Int) (ps : List Period) (total : Amt) (t : Int) : Amt :=
  if t ≤ start then Amt.zero
  else if t ≥ endT then total
  else readLoop start ps t

def pastLoop (elapsed : Int) (ps : List Period) (t : Int) : Nat :=
  match ps with
  | [] => 0
  | p :: rest => if t < elapsed + p.length then 0 else 1 + pastLoop (elapsed + p.length) rest t

/-- ReadPastPeriodCount -/
def readPastPeriodCount (start endT : Int) (ps : List Period) (t : Int) : Nat :=
  if t ≤ start then 0
  else if t ≥ endT then ps.length
  else pastLoop start ps t

/-- DisjunctPeriods main loops.  `tA`/`tB`: time of the last merged event of each side; `e`: end time
    of the last emitted period. -/
def disj (tA tB e : Int) : List Period → List Period → List Period
  | [], [] => []
  | a :: as, [] => ⟨tA + a.length - e, a.amount⟩ :: disj (tA + a.length) tB (tA + a.length) as []
  | [], b :: bs => ⟨tB + b.length - e, b.amount⟩ :: disj tA (tB + b.length) (tB + b.length) [] bs
  | a :: as, b :: bs =>
    if tA + a.length < tB + b.length then
      ⟨tA + a.length - e, a.amount⟩ :: disj (tA + a.length) tB (tA + a.length) as (b :: bs)
    else if tB + b.length < tA + a.length then
      ⟨tB + b.length - e, b.amount⟩ :: disj tA (tB + b.length) (tB + b.length) (a :: as) bs
    else ⟨tA + a.length - e, Amt.add a.amount b.amount⟩ :: disj (tA + a.length) (tB + b.length) (tA + a.length) as bs
termination_by as bs => as.length + bs.length

structure Merged where
  start : Int
  endT : Int
  periods : List Period

/-- DisjunctPeriods -/
def disjunctPeriods (sA sB : Int) (pA pB : List Period) : Merged :=
  let s := if sA ≤ sB then sA else sB
  let ps := disj sA sB s pA pB
  { start := s, endT := s + totalLength ps, periods := ps }

/-- one `consume*` step of ConjunctPeriods after the running totals were updated: emit the positive
    part of min(totA,totB) − resulting, if the guard holds -/
def conjEmit (M : Nat) (next e : Int) (totA totB res : Amt) : Option Period × Int × Amt :=
  let m := Amt.min totA totB
  if Amt.allLE M res m then
    let diff := Amt.sub m res
    if !Amt.isZero M diff then (some ⟨next - e, diff⟩, next, Amt.add res diff) else (none, e, res)
  else (none, e, res)

/-- What the compiler runs for `conjEmit`: `res + (m − res)` written as `max res m`, so that the running total is
    looked up once per step and not twice (the amounts are functions: looking `res` up twice at every one of `n`
    steps costs `2ⁿ`).  Proved equal below; `@[csimp]` makes the compiled driver use it, the theorems are about
    `conjEmit`. -/
def conjEmitFast (M : Nat) (next e : Int) (totA totB res : Amt) : Option Period × Int × Amt :=
  let m := Amt.min totA totB
  if Amt.allLE M res m then
    let diff := Amt.sub m res
    if !Amt.isZero M diff then (some ⟨next - e, diff⟩, next, fun d => Max.max (res d) (m d)) else (none, e, res)
  else (none, e, res)

@[csimp] theorem conjEmit_eq_fast : @conjEmit = @conjEmitFast := by
  funext M next e totA totB res
  unfold conjEmit conjEmitFast
  simp only
  split
  · split
    · congr 2
      funext d
      simp only [Amt.add, Amt.sub]
      omega
    · rfl
  · rfl

def consOpt (o : Option Period) (l : List Period) : List Period :=
  match o with
  | some p => p :: l
  | none => l

/-- ConjunctPeriods main loops -/
def conj (M : Nat) (tA tB e : Int) (totA totB res : Amt) : List Period → List Period → List Period
  | [], [] => []
  | a :: as, [] =>
    let totA' := Amt.add totA a.amount
    let r := conjEmit M (tA + a.length) e totA' totB res
    consOpt r.1 (conj M (tA + a.length) tB r.2.1 totA' totB r.2.2 as [])
  | [], b :: bs =>
    let totB' := Amt.add totB b.amount
    let r := conjEmit M (tB + b.length) e totA totB' res
    consOpt r.1 (conj M tA (tB + b.length) r.2.1 totA totB' r.2.2 [] bs)
  | a :: as, b :: bs =>
    if tA + a.length < tB + b.length then
      let totA' := Amt.add totA a.amount
      let r := conjEmit M (tA + a.length) e totA' totB res
      consOpt r.1 (conj M (tA + a.length) tB r.2.1 totA' totB r.2.2 as (b :: bs))
    else if tB + b.length < tA + a.length then
      let totB' := Amt.add totB b.amount
      let r := conjEmit M (tB + b.length) e totA totB' res
      consOpt r.1 (conj M tA (tB + b.length) r.2.1 totA totB' r.2.2 (a :: as) bs)
    else
      let totA' := Amt.add totA a.amount
      let totB' := Amt.add totB b.amount
      let r := conjEmit M (tA + a.length) e totA' totB' res
      consOpt r.1 (conj M (tA + a.length) (tB + b.length) r.2.1 totA' totB' r.2.2 as bs)
termination_by as bs => as.length + bs.length

/-- ConjunctPeriods -/
def conjunctPeriods (M : Nat) (sA sB : Int) (pA pB : List Period) : Merged :=
  let s := if sA ≤ sB then sA else sB
  let ps := conj M sA sB s Amt.zero Amt.zero Amt.zero pA pB
  { start := s, endT := s + totalLength ps, periods := ps }

/-- AlignSchedules: (startTime, endTime); the in-place lengthening of the first periods is
    `alignFirst` -/
def alignFirst (ps : List Period) (delta : Int) : List Period :=
  match ps with
  | [] => []
  | p :: rest => { p with length := p.length + delta } :: rest

def alignSchedules (sA sB : Int) (pA pB : List Period) : Int × Int :=
  let s := if sA ≤ sB then sA else sB
  let eA := s + totalLength (alignFirst pA (sA - s))
  let eB := s + totalLength (alignFirst pB (sB - s))
  (s, if eA ≤ eB then eB else eA)

end Haqq.Sched
