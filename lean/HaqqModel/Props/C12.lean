/-
  C12 — UC DAO ledger: shares always add up to the pooled funds.

  English statement (properties.jsonl):
    For every denomination, the sum of all holders' DAO balances equals the recorded DAO total
    and equals the coins held by the DAO module account; the holder index lists exactly the
    accounts with a non-zero balance.  Funding credits the depositor with exactly what was
    deposited, and an ownership transfer (full, by ratio, or by amount) moves exactly the stated
    amount from the signer's own balance to the recipient and can never create, destroy or touch
    anyone else's share.

  Formalisation: addresses `< N`, denominations `< M` (N, M arbitrary).  `Inv` is the conjunction of
  the three equalities and the index characterisation; it is proved for every reachable state
  (`run_inv`), for the write order the code has *now* (`Facts.daoTransferCreditFirst`, regenerated
  from x/ucdao/keeper/keeper.go on every run).  Ratio transfers are `transferAmount` with the
  truncated amounts computed by the message server (modelled in the driver).
-/
import HaqqModel.Lemmas.Dao
import HaqqModel.Generated.Facts

namespace Haqq.Dao

structure Inv (N M : Nat) (s : State) : Prop where
  sum_total  : ∀ d, sumTo (fun a => s.bal a d) N = s.total d
  total_mod  : ∀ d, s.total d = s.modBal d
  holders_ok : ∀ a, a < N → (s.holders a = true ↔ ∃ d, d < M ∧ 0 < s.bal a d)
  addr_bound : ∀ a d, N ≤ a → s.bal a d = 0
  den_bound  : ∀ a d, M ≤ d → s.bal a d = 0

theorem inv_init (N M : Nat) : Inv N M State.init := by
  constructor
  · intro d; simp [State.init]; exact sumTo_zero _ _ (fun _ _ => rfl)
  · intro d; rfl
  · intro a _; simp [State.init]
  · intro a d _; rfl
  · intro a d _; rfl

/-- what a transfer must do to the share ledger -/
def moveSpec (bal : Nat → Nat → Nat) (owner newOwner : Nat) (amt : Nat → Nat) : Nat → Nat → Nat :=
  fun a d => (if a = owner then bal a d - amt d else bal a d) + (if a = newOwner then amt d else 0)

theorem sum_moveSpec (bal : Nat → Nat → Nat) (owner newOwner N : Nat) (amt : Nat → Nat) (d : Nat)
    (ho : owner < N) (hn : newOwner < N) (hle : amt d ≤ bal owner d) :
    sumTo (fun a => moveSpec bal owner newOwner amt a d) N = sumTo (fun a => bal a d) N := by
  have e : (fun a => moveSpec bal owner newOwner amt a d) =
      upd (upd (fun a => bal a d) owner (bal owner d - amt d)) newOwner
        (upd (fun a => bal a d) owner (bal owner d - amt d) newOwner + amt d) := by
    funext a
    by_cases h1 : a = owner <;> by_cases h2 : a = newOwner <;> simp_all [moveSpec, upd]
  rw [e]
  have s1 := sumTo_upd (fun a => bal a d) owner (bal owner d - amt d) N ho
  have s2 := sumTo_upd (upd (fun a => bal a d) owner (bal owner d - amt d)) newOwner
    (upd (fun a => bal a d) owner (bal owner d - amt d) newOwner + amt d) N hn
  have hf := le_sumTo (fun a => bal a d) N owner ho
  omega

theorem holders_after (M : Nat) (bal : Nat → Nat → Nat) (h : Nat → Bool) (a x : Nat) :
    setHoldersIndex M bal h a x = if x = a then anyTo (fun d => decide (0 < bal a d)) M else h x := by
  simp [setHoldersIndex, upd]

theorem anyTo_pos_iff (M : Nat) (b : Nat → Nat) :
    anyTo (fun d => decide (0 < b d)) M = true ↔ ∃ d, d < M ∧ 0 < b d := by
  rw [anyTo_iff]; simp

/-- the ledger after a successful transfer in the *debit-first* order is `moveSpec` — for every
    owner / recipient pair, including owner = recipient -/
theorem transfer_debitFirst_bal (M : Nat) (s s' : State) (owner newOwner : Nat) (amount : Coins)
    (h : transfer M false s owner newOwner amount = .ok s') :
    s'.bal = moveSpec s.bal owner newOwner (amountOf amount) ∧
    (∀ d, amountOf amount d ≤ s.bal owner d) ∧
    s'.total = s.total ∧ s'.modBal = s.modBal ∧ s'.bank = s.bank ∧ s'.enabled = s.enabled ∧
    coinsValid amount = true ∧
    s'.holders = setHoldersIndex M s'.bal (setHoldersIndex M s'.bal s.holders newOwner) owner := by
  unfold transfer at h
  split at h; · simp at h
  split at h; · simp at h
  split at h; · simp at h
  rename_i left hleft
  split at h; · simp at h
  rename_i hvalid
  simp only [Bool.not_eq_eq_eq_not, Bool.not_true, Bool.not_eq_false] at hvalid
  simp only [Bool.false_eq_true, if_false, Except.ok.injEq] at h
  obtain ⟨hle, hset⟩ := setCoins_leftovers amount (s.bal owner) left hvalid hleft
  subst h
  refine ⟨?_, hle, rfl, rfl, rfl, rfl, hvalid, rfl⟩
  funext a d
  simp only [moveSpec]
  rw [addCoins_apply, hset]
  have := hle d
  by_cases h1 : a = owner <;> by_cases h3 : 0 < amountOf amount d <;> simp [h1, h3] <;> omega

/-- same for the *credit-first* order, but only when owner ≠ recipient -/
theorem transfer_creditFirst_bal (M : Nat) (s s' : State) (owner newOwner : Nat) (amount : Coins)
    (hne : owner ≠ newOwner)
    (h : transfer M true s owner newOwner amount = .ok s') :
    s'.bal = moveSpec s.bal owner newOwner (amountOf amount) ∧
    (∀ d, amountOf amount d ≤ s.bal owner d) ∧
    s'.total = s.total ∧ s'.modBal = s.modBal ∧ s'.bank = s.bank ∧ s'.enabled = s.enabled ∧
    coinsValid amount = true ∧
    s'.holders = setHoldersIndex M s'.bal (setHoldersIndex M s'.bal s.holders newOwner) owner := by
  unfold transfer at h
  split at h; · simp at h
  split at h; · simp at h
  split at h; · simp at h
  rename_i left hleft
  split at h; · simp at h
  rename_i hvalid
  simp only [Bool.not_eq_eq_eq_not, Bool.not_true, Bool.not_eq_false] at hvalid
  simp only [if_true, Except.ok.injEq] at h
  obtain ⟨hle, hset⟩ := setCoins_leftovers amount (s.bal owner) left hvalid hleft
  subst h
  refine ⟨?_, hle, rfl, rfl, rfl, rfl, hvalid, rfl⟩
  funext a d
  simp only [moveSpec]
  rw [hset, addCoins_apply]
  have := hle d
  have hne' : ¬ owner = newOwner := hne
  by_cases h1 : a = owner <;> by_cases h3 : 0 < amountOf amount d <;> simp [h1, h3, hne'] <;> omega

/-- F-C12-a on the model: with the credit-first order a self-transfer destroys shares
    (fund 1000, transfer 400 to oneself → 600 left, total still 1000). -/
theorem transfer_self_counterexample :
    ∃ s', run 1 (fun _ => true) true State.init
        [.bankMint 0 0 1000, .fund 0 [(0, 1000)], .transferAmount 0 0 [(0, 400)]] = s' ∧
      s'.bal 0 0 = 600 ∧ s'.total 0 = 1000 ∧ s'.modBal 0 = 1000 := by
  refine ⟨_, rfl, ?_, ?_, ?_⟩ <;> decide

/-- the invariant is preserved by a successful transfer whose ledger effect is `moveSpec` -/
theorem inv_of_moveSpec (N M : Nat) (s s' : State) (owner newOwner : Nat) (amt : Nat → Nat)
    (hi : Inv N M s) (ho : owner < N) (hn : newOwner < N)
    (hb : s'.bal = moveSpec s.bal owner newOwner amt)
    (hle : ∀ d, amt d ≤ s.bal owner d)
    (ht : s'.total = s.total) (hm : s'.modBal = s.modBal)
    (hh : s'.holders = setHoldersIndex M s'.bal (setHoldersIndex M s'.bal s.holders newOwner) owner) :
    Inv N M s' := by
  have hamtM : ∀ d, M ≤ d → amt d = 0 := by
    intro d hd; have := hle d; rw [hi.den_bound owner d hd] at this; omega
  constructor
  · intro d
    rw [hb, ht, sum_moveSpec s.bal owner newOwner N amt d ho hn (hle d)]
    exact hi.sum_total d
  · intro d; rw [ht, hm]; exact hi.total_mod d
  · intro a ha
    rw [hh, holders_after, holders_after]
    by_cases h1 : a = owner
    · simp only [h1, if_true]; exact anyTo_pos_iff M _
    · by_cases h2 : a = newOwner
      · subst h2
        simp only [h1, if_true, if_false]
        exact anyTo_pos_iff M (s'.bal a)
      · simp only [h1, h2, if_false]
        rw [hi.holders_ok a ha, hb]
        simp [moveSpec, h1, h2]
  · intro a d ha
    rw [hb]
    have h1 : a ≠ owner := by omega
    have h2 : a ≠ newOwner := by omega
    simp [moveSpec, h1, h2]; exact hi.addr_bound a d ha
  · intro a d hd
    rw [hb]
    simp only [moveSpec, hamtM d hd, hi.den_bound a d hd]
    simp

/-- Funding: the depositor is credited with exactly the deposit, nobody else's share moves, the
    recorded total and the module account grow by the deposit, the depositor's bank balance
    drops by it. -/
theorem fund_exact (M : Nat) (allowed : Nat → Bool) (s s' : State) (sender : Nat) (amount : Coins)
    (h : fund M allowed s sender amount = .ok s') :
    (∀ a d, s'.bal a d = s.bal a d + (if a = sender then amountOf amount d else 0)) ∧
    (∀ d, s'.total d = s.total d + amountOf amount d) ∧
    (∀ d, s'.modBal d = s.modBal d + amountOf amount d) ∧
    (∀ a d, s'.bank a d + (if a = sender then amountOf amount d else 0) = s.bank a d) ∧
    s'.holders = setHoldersIndex M s'.bal s.holders sender ∧
    (∀ p ∈ amount, allowed p.1 = true) := by
  unfold fund at h
  split at h; · simp at h
  split at h; · simp at h
  split at h
  · simp at h
  · rename_i bank' hbank
    split at h; · simp at h
    rename_i hall
    simp only [Except.ok.injEq] at h
    subst h
    refine ⟨fun a d => addCoins_apply _ _ _ _ _, fun d => totalCredit_apply _ _ _,
      fun d => modCredit_apply _ _ _, bankDebit_apply _ _ _ _ hbank, rfl, ?_⟩
    simpa using hall

theorem fund_inv (N M : Nat) (allowed : Nat → Bool) (s s' : State) (sender : Nat) (amount : Coins)
    (hi : Inv N M s) (hs : sender < N) (hden : ∀ p ∈ amount, p.1 < M)
    (h : fund M allowed s sender amount = .ok s') : Inv N M s' := by
  obtain ⟨hb, ht, hm, _, hh, _⟩ := fund_exact M allowed s s' sender amount h
  have hamtM : ∀ d, M ≤ d → amountOf amount d = 0 := by
    intro d hd
    clear hb ht hm hh h
    rename_i hx1 hx2
    clear hx1 hx2
    induction amount with
    | nil => rfl
    | cons hd' tl ih =>
      obtain ⟨d0, v⟩ := hd'
      have h0 : d0 < M := hden (d0, v) List.mem_cons_self
      have : d ≠ d0 := by omega
      simp only [amountOf, this, if_false, Nat.zero_add]
      exact ih (fun p hp => hden p (List.mem_cons_of_mem _ hp))
  constructor
  · intro d
    rw [ht]
    have e : (fun a => s'.bal a d) = upd (fun a => s.bal a d) sender (s.bal sender d + amountOf amount d) := by
      funext a; rw [hb]; by_cases h1 : a = sender <;> simp [upd, h1]
    rw [e]
    have := sumTo_upd (fun a => s.bal a d) sender (s.bal sender d + amountOf amount d) N hs
    have := hi.sum_total d
    omega
  · intro d; rw [ht, hm, hi.total_mod d]
  · intro a ha
    rw [hh, holders_after]
    by_cases h1 : a = sender
    · simp only [h1, if_true]; exact anyTo_pos_iff M _
    · simp only [h1, if_false]
      rw [hi.holders_ok a ha]
      constructor <;> rintro ⟨d, hd, hp⟩ <;> refine ⟨d, hd, ?_⟩
      · rw [hb]; simp [h1]; exact hp
      · rw [hb] at hp; simpa [h1] using hp
  · intro a d ha
    rw [hb]
    have h1 : a ≠ sender := by omega
    simp [h1]; exact hi.addr_bound a d ha
  · intro a d hd
    rw [hb, hi.den_bound a d hd, hamtM d hd]; simp

/-- The write order the code has now (regenerated fact). -/
abbrev codeOrder : Bool := Facts.daoTransferCreditFirst

/-- Ownership transfer, any of the three message kinds, for the order the code has now: moves exactly
    the stated amount from the owner's own share to the recipient, touches nobody else, leaves the
    total, the module account and the bank untouched — **including owner = recipient**. -/
theorem transfer_exact (M : Nat) (s s' : State) (owner newOwner : Nat) (amount : Coins)
    (h : transfer M codeOrder s owner newOwner amount = .ok s') :
    s'.bal = moveSpec s.bal owner newOwner (amountOf amount) ∧
    (∀ d, amountOf amount d ≤ s.bal owner d) ∧
    s'.total = s.total ∧ s'.modBal = s.modBal ∧ s'.bank = s.bank := by
  have hc : codeOrder = false := rfl
  rw [hc] at h
  obtain ⟨h1, h2, h3, h4, h5, _⟩ := transfer_debitFirst_bal M s s' owner newOwner amount h
  exact ⟨h1, h2, h3, h4, h5⟩

theorem transfer_inv (N M : Nat) (s s' : State) (owner newOwner : Nat) (amount : Coins)
    (hi : Inv N M s) (ho : owner < N) (hn : newOwner < N)
    (h : transfer M codeOrder s owner newOwner amount = .ok s') : Inv N M s' := by
  have hc : codeOrder = false := rfl
  rw [hc] at h
  obtain ⟨h1, h2, h3, h4, _, _, _, h8⟩ := transfer_debitFirst_bal M s s' owner newOwner amount h
  exact inv_of_moveSpec N M s s' owner newOwner _ hi ho hn h1 h2 h3 h4 h8

/-- partial result that still holds for the credit-first order (the pinned commit's order) -/
theorem transfer_inv_creditFirst_partial (N M : Nat) (s s' : State) (owner newOwner : Nat)
    (amount : Coins) (hne : owner ≠ newOwner)
    (hi : Inv N M s) (ho : owner < N) (hn : newOwner < N)
    (h : transfer M true s owner newOwner amount = .ok s') : Inv N M s' := by
  obtain ⟨h1, h2, h3, h4, _, _, _, h8⟩ :=
    transfer_creditFirst_bal M s s' owner newOwner amount hne h
  exact inv_of_moveSpec N M s s' owner newOwner _ hi ho hn h1 h2 h3 h4 h8

def Op.wf (N M : Nat) (op : Op) : Prop := (∀ a ∈ op.addrs, a < N) ∧ (∀ d ∈ op.denoms, d < M)

theorem step_inv (N M : Nat) (allowed : Nat → Bool) (s : State) (op : Op)
    (hi : Inv N M s) (hw : op.wf N M) : Inv N M (stepKeep M allowed codeOrder s op) := by
  unfold stepKeep
  split
  · rename_i s' hs'
    cases op with
    | fund a c =>
      refine fund_inv N M allowed s s' a c hi (hw.1 a (by simp [Op.addrs])) ?_ hs'
      intro p hp
      exact hw.2 p.1 (by simp only [Op.denoms, List.mem_map]; exact ⟨p, hp, rfl⟩)
    | transferAll a b =>
      simp only [step] at hs'
      split at hs'
      · simp at hs'
      · exact transfer_inv N M s s' a b _ hi (hw.1 a (by simp [Op.addrs])) (hw.1 b (by simp [Op.addrs])) hs'
    | transferAmount a b c =>
      simp only [step] at hs'
      split at hs'
      · simp at hs'
      · split at hs'
        · simp at hs'
        · exact transfer_inv N M s s' a b _ hi (hw.1 a (by simp [Op.addrs])) (hw.1 b (by simp [Op.addrs])) hs'
    | setEnabled b =>
      simp only [step, Except.ok.injEq] at hs'
      subst hs'
      exact ⟨hi.sum_total, hi.total_mod, hi.holders_ok, hi.addr_bound, hi.den_bound⟩
    | bankMint a d v =>
      simp only [step, Except.ok.injEq] at hs'
      subst hs'
      exact ⟨hi.sum_total, hi.total_mod, hi.holders_ok, hi.addr_bound, hi.den_bound⟩
  · exact hi

/-- **C12 for every reachable state**: after any sequence of fund / transfer messages (and module
    switches, and bank top-ups) over any number of accounts and denominations, the three equalities
    and the holders-index characterisation hold. -/
theorem run_inv (N M : Nat) (allowed : Nat → Bool) (ops : List Op) (hw : ∀ op ∈ ops, op.wf N M) :
    Inv N M (run M allowed codeOrder State.init ops) := by
  suffices ∀ s, Inv N M s → Inv N M (run M allowed codeOrder s ops) from this _ (inv_init N M)
  induction ops with
  | nil => intro s hs; exact hs
  | cons op rest ih =>
    intro s hs
    exact ih (fun o ho => hw o (List.mem_cons_of_mem _ ho)) _
      (step_inv N M allowed s op hs (hw op List.mem_cons_self))

/-- full transfer hands over the whole share -/
theorem transferAll_exact (M : Nat) (s s' : State) (owner newOwner : Nat)
    (hb : ∀ d, M ≤ d → s.bal owner d = 0)
    (h : step M (fun _ => true) codeOrder s (.transferAll owner newOwner) = .ok s') :
    s'.bal = moveSpec s.bal owner newOwner (s.bal owner) := by
  simp only [step] at h
  split at h
  · simp at h
  have := (transfer_exact M s s' owner newOwner _ h).1
  rw [this]
  congr 1
  funext d
  rw [amountOf_accountCoins]
  split
  · rfl
  · rename_i hd; exact (hb d (by omega)).symm

/-- non-vacuity: a concrete history with a self-transfer, a cross transfer and a failing one
    satisfies the hypotheses of `run_inv` and ends in a non-trivial state. -/
example :
    let ops : List Op := [.bankMint 0 0 1000, .bankMint 1 1 50, .fund 0 [(0, 700)], .fund 1 [(1, 50)],
      .transferAmount 0 0 [(0, 400)], .transferAmount 0 1 [(0, 300)], .transferAll 1 2,
      .transferAmount 0 1 [(0, 401)]]
    (∀ op ∈ ops, op.wf 3 2) ∧
    (run 2 (fun _ => true) codeOrder State.init ops).bal 2 0 = 300 ∧
    (run 2 (fun _ => true) codeOrder State.init ops).bal 0 0 = 400 ∧
    (run 2 (fun _ => true) codeOrder State.init ops).total 0 = 700 := by
  refine ⟨?_, ?_, ?_, ?_⟩
  · intro op hop
    simp only [List.mem_cons, List.mem_nil_iff, or_false] at hop
    rcases hop with h | h | h | h | h | h | h | h <;> subst h <;>
      constructor <;> simp [Op.addrs, Op.denoms]
  all_goals decide

end Haqq.Dao

/-! ## Genesis: the books a DAO genesis leaves behind -/

namespace Haqq.DaoGenesis

/-- a genesis balance entry: (address, amount of one denomination) -/
abbrev Entry := Nat × Nat

/-- the balance store after InitGenesis wrote the entries in order: a later entry for an address overwrites an earlier one -/
def store : List Entry → Nat → Nat
  | [] => fun _ => 0
  | e :: rest => fun a => if rest.any (·.1 == a) then store rest a else if a = e.1 then e.2 else 0

/-- the recorded total: every listed entry is added -/
def total (bs : List Entry) : Nat := (bs.map (·.2)).sum

/-- the holders' balances added up (each holder once) -/
def holdersSum (bs : List Entry) : Nat := (((bs.map (·.1)).eraseDups).map (store bs)).sum

/-- InitGenesis since 5f6d79f refuses a repeated address (`strict`); before, everything was taken -/
def accepts (strict : Bool) (bs : List Entry) : Bool := !strict || decide ((bs.map (·.1)).Nodup)

theorem store_cons_of_mem (e : Entry) (rest : List Entry) (a : Nat) (h : a ∈ rest.map (·.1)) :
    store (e :: rest) a = store rest a := by
  have : rest.any (·.1 == a) = true := by
    simp only [List.any_eq_true, beq_iff_eq]
    simpa [List.mem_map] using h
  simp [store, this]

theorem store_cons_self (e : Entry) (rest : List Entry) (h : e.1 ∉ rest.map (·.1)) :
    store (e :: rest) e.1 = e.2 := by
  have : rest.any (·.1 == e.1) = false := by
    cases hh : rest.any (·.1 == e.1) with
    | false => rfl
    | true =>
      simp only [List.any_eq_true, beq_iff_eq] at hh
      exact absurd (by simpa [List.mem_map] using hh) h
  simp [store, this]

theorem sum_over_keys (bs : List Entry) (h : (bs.map (·.1)).Nodup) :
    ((bs.map (·.1)).map (store bs)).sum = total bs := by
  induction bs with
  | nil => rfl
  | cons e rest ih =>
    simp only [List.map_cons, List.nodup_cons] at h
    have hrest : (rest.map (·.1)).map (store (e :: rest)) = (rest.map (·.1)).map (store rest) :=
      List.map_congr_left (fun a ha => store_cons_of_mem e rest a ha)
    simp only [List.map_cons, List.sum_cons, total, store_cons_self e rest h.1, hrest]
    have := ih h.2
    simp only [total] at this
    omega

theorem eraseDups_of_nodup (l : List Nat) (h : l.Nodup) : l.eraseDups = l := by
  induction l with
  | nil => rfl
  | cons a as ih =>
    simp only [List.nodup_cons] at h
    have hf : as.filter (fun b => !b == a) = as := by
      rw [List.filter_eq_self]
      intro b hb
      have : b ≠ a := fun e => h.1 (e ▸ hb)
      simp [this]
    rw [List.eraseDups_cons, hf, ih h.2]

/-- **C12, genesis.** A DAO genesis that InitGenesis accepts leaves books that add up: the holders' balances sum to the
    recorded total. -/
theorem accepted_genesis_adds_up (bs : List Entry) (h : accepts true bs = true) : holdersSum bs = total bs := by
  have hn : (bs.map (·.1)).Nodup := by simpa [accepts] using h
  unfold holdersSum
  rw [eraseDups_of_nodup _ hn]
  exact sum_over_keys bs hn

/-- before 5f6d79f: the genesis listing address 1 twice with 100 each was accepted; the holder has 100, the recorded total is
    200; now it is refused -/
theorem repeated_address_counterexample :
    accepts false [(1, 100), (1, 100)] = true ∧ holdersSum [(1, 100), (1, 100)] = 100 ∧ total [(1, 100), (1, 100)] = 200 ∧
    accepts true [(1, 100), (1, 100)] = false := by decide

/-- the premise is satisfiable -/
example : accepts true [(1, 100), (2, 5)] = true ∧ holdersSum [(1, 100), (2, 5)] = 105 := by decide

/-- the code's side of `accepts true`: InitGenesis refuses a repeated address (regenerated from x/ucdao/keeper/genesis.go) -/
theorem genesis_refuses_repeated_address : Haqq.Facts.daoGenesisRepeatedAddress = "refused" := by decide

end Haqq.DaoGenesis

