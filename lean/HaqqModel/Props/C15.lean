/-
  C15 — Module accounting invariants hold after every block.

  English statement (properties.jsonl):
    After every block … the sum of all account balances equals the recorded supply per denomination, the bonded
    and not-bonded pools match validator and unbonding records, delegator shares add up, the distribution module
    can pay all outstanding rewards plus the community pool, and governance deposits are fully held.  Haqq's own
    modules (vesting, liquid vesting, DAO, ERC20, coinomics, the redirected burns) never break them.

  Level: partial.  Proved here: the part that is Haqq's — every coin movement its keepers make is a sequence of
  bank primitives (regenerated fact: the complete list of bank-keeper methods they call), and every history of
  those primitives, including the EVM keeper's SetBalance (mint / burn of the difference, C02) and the redirected
  BurnCoins (C14), preserves `Σ balances = supply` (`run_supply_inv`) and `distribution balance ≥ outstanding +
  community pool` for the redirect (`redirect_keeps_distr`).  Not modelled: the internals of the SDK's staking,
  distribution and governance invariants; they are evaluated on the real application after every block of
  generated histories by the correspondence run (CrisisKeeper routes).
-/
import HaqqModel.Prelude.Basic
import HaqqModel.Generated.Facts

namespace Haqq.C15

/-- the bank as far as the supply invariant sees it (one denomination; every primitive is pointwise) -/
structure Bank where
  bal : Nat → Nat
  supply : Nat
  pool : Nat                -- distribution FeePool.CommunityPool
  outstanding : Nat         -- distribution outstanding rewards

def distr : Nat := 0

inductive Op
  | mint (m x : Nat)               -- MintCoins to a module account
  | burn (m x : Nat)               -- BurnCoins from a module account that is not redirected
  | burnRedirected (m x : Nat)     -- Haqq's BurnCoins override: the coins go to the distribution module's pool
  | send (a b x : Nat)             -- SendCoins / …ModuleToAccount / …AccountToModule / …ModuleToModule / Delegate…
  | setBalance (a v : Nat)         -- EVM keeper SetBalance: mint or burn the difference

/-- a primitive either applies or fails without effect -/
def step (N : Nat) (s : Bank) : Op → Bank
  | .mint m x => if m < N then { s with bal := upd s.bal m (s.bal m + x), supply := s.supply + x } else s
  | .burn m x =>
    if m < N ∧ x ≤ s.bal m then { s with bal := upd s.bal m (s.bal m - x), supply := s.supply - x } else s
  | .burnRedirected m x =>
    if m < N ∧ distr < N ∧ x ≤ s.bal m then
      let b1 := upd s.bal m (s.bal m - x)
      { s with bal := upd b1 distr (b1 distr + x), pool := s.pool + x }
    else s
  | .send a b x =>
    if a < N ∧ b < N ∧ x ≤ s.bal a then
      let b1 := upd s.bal a (s.bal a - x)
      { s with bal := upd b1 b (b1 b + x) }
    else s
  | .setBalance a v =>
    if a < N then { s with bal := upd s.bal a v, supply := s.supply + v - s.bal a } else s

def SupplyInv (N : Nat) (s : Bank) : Prop := sumTo s.bal N = s.supply
def DistrInv (s : Bank) : Prop := s.outstanding + s.pool ≤ s.bal distr

theorem sumTo_upd_add (f : Nat → Nat) (a x N : Nat) (h : a < N) :
    sumTo (upd f a (f a + x)) N = sumTo f N + x := by
  have := sumTo_upd f a (f a + x) N h; omega

theorem sumTo_upd_sub (f : Nat → Nat) (a x N : Nat) (h : a < N) (hx : x ≤ f a) :
    sumTo (upd f a (f a - x)) N + x = sumTo f N := by
  have := sumTo_upd f a (f a - x) N h; omega

theorem move_sum (f : Nat → Nat) (a b x N : Nat) (ha : a < N) (hb : b < N) (hx : x ≤ f a) :
    sumTo (upd (upd f a (f a - x)) b (upd f a (f a - x) b + x)) N = sumTo f N := by
  have e1 := sumTo_upd_add (upd f a (f a - x)) b x N hb
  have e2 := sumTo_upd_sub f a x N ha hx
  omega

theorem step_supply_inv (N : Nat) (s : Bank) (op : Op) (h : SupplyInv N s) : SupplyInv N (step N s op) := by
  unfold SupplyInv at *
  cases op with
  | mint m x =>
    simp only [step]; split
    · rename_i hm; simp only; rw [sumTo_upd_add _ _ _ _ hm]; omega
    · exact h
  | burn m x =>
    simp only [step]; split
    · rename_i hc; simp only
      have := sumTo_upd_sub s.bal m x N hc.1 hc.2
      have hle := le_sumTo s.bal N m hc.1
      omega
    · exact h
  | burnRedirected m x =>
    simp only [step]; split
    · rename_i hc; simp only
      rw [move_sum s.bal m distr x N hc.1 hc.2.1 hc.2.2]; exact h
    · exact h
  | send a b x =>
    simp only [step]; split
    · rename_i hc; simp only
      rw [move_sum s.bal a b x N hc.1 hc.2.1 hc.2.2]; exact h
    · exact h
  | setBalance a v =>
    simp only [step]; split
    · rename_i ha; simp only
      have := sumTo_upd s.bal a v N ha
      have hle := le_sumTo s.bal N a ha
      omega
    · exact h

/-- **Σ balances = supply after every history of bank primitives** (including the EVM's SetBalance and the
    redirected burn) -/
theorem run_supply_inv (N : Nat) (ops : List Op) : ∀ s, SupplyInv N s → SupplyInv N (ops.foldl (step N) s) := by
  induction ops with
  | nil => intro s h; exact h
  | cons op rest ih => intro s h; exact ih _ (step_supply_inv N s op h)

/-- the redirected burn keeps the distribution module able to pay outstanding rewards plus the community pool
    (`distr` is never the burning account: the redirected accounts are gov and the staking pools, C14) -/
theorem redirect_keeps_distr (N : Nat) (s : Bank) (m x : Nat) (hm : m ≠ distr) (h : DistrInv s) :
    DistrInv (step N s (.burnRedirected m x)) := by
  unfold DistrInv at *
  simp only [step]; split
  · simp only [upd_same]
    rw [upd_other _ _ _ _ (Ne.symm hm)]
    omega
  · exact h

example : SupplyInv 3 { bal := fun a => if a = 1 then 5 else 0, supply := 5, pool := 0, outstanding := 0 } := by
  simp [SupplyInv, sumTo]

/-! ### every coin movement of Haqq's keepers is a bank primitive (regenerated fact) -/

/-- the bank-keeper methods Haqq's own code may call: reads, the primitives modelled above, metadata -/
def allowedBankMethods : List String :=
  [ -- reads
    "GetBalance", "GetAllBalances", "GetSupply", "HasSupply", "HasBalance", "SpendableCoins", "LockedCoins",
    "GetDenomMetaData", "IterateTotalSupply", "IterateAccountBalances", "IterateAllBalances", "IsSendEnabledCoin",
    "IsSendEnabledCoins", "BlockedAddr", "GetParams", "SpendableCoin", "GetAccountsBalances", "GetPaginatedTotalSupply",
    -- movements (send / mint / burn / delegate): the primitives of `Op`
    "SendCoins", "SendCoinsFromModuleToAccount", "SendCoinsFromAccountToModule", "SendCoinsFromModuleToModule",
    "MintCoins", "BurnCoins", "DelegateCoins", "UndelegateCoins", "DelegateCoinsFromAccountToModule",
    "UndelegateCoinsFromModuleToAccount", "InputOutputCoins",
    -- metadata, no coins
    "SetDenomMetaData" ]

theorem haqq_moves_coins_only_through_primitives :
    Facts.bankMethodsUsedByHaqq.all (fun m => allowedBankMethods.contains m) = true := by decide

theorem bank_facts_loaded : Facts.determinismPackagesLoaded = true ∧ Facts.bankMethodsUsedByHaqq ≠ [] := by decide

end Haqq.C15
