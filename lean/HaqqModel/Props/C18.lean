/-
  C18 — Ethereum transactions survive the Cosmos envelope unchanged.

  English statement (properties.jsonl):
    Wrapping a signed Ethereum transaction into the chain's message format, encoding it into a Cosmos
    transaction, decoding it on the other side and unwrapping it yields a transaction with the same hash,
    the same recoverable sender and identical fields, for legacy, access-list and dynamic-fee
    transactions alike; the hash recorded in the message always equals the Ethereum hash.  Fee, cost and
    effective-price figures derived from the message equal those of the original transaction.

  Formalisation: the conversion eth → proto TxData → eth is modelled field by field (including the
  big-endian minimal byte encoding of V, R, S and go-ethereum's nil → 0 copy normalisation); the hash and
  the recovered sender are functions of the go-ethereum transaction, so field identity gives both.  The
  protobuf / Any / tx encoding in between is generated code: trusted here, exercised end-to-end by the
  correspondence run (sign → FromEthereumTx → BuildTx → encode → decode → AsTransaction).
-/
import HaqqModel.Model.EthTx

namespace Haqq.EthTx

theorem ofLE_leBytes (n : Nat) : ofLE (leBytes n) = n := by
  induction n using Nat.strongRecOn with
  | _ n ih =>
    unfold leBytes
    split
    · rename_i h; simp [ofLE, h]
    · rename_i h
      simp only [ofLE]
      rw [ih (n / 256) (Nat.div_lt_self (Nat.pos_of_ne_zero h) (by decide))]
      omega

/-- big.Int byte round trip: SetBytes(Bytes(n)) = n -/
theorem setBytes_bigBytes (n : Nat) : setBytes (bigBytes n) = n := by
  simp [setBytes, bigBytes, ofLE_leBytes]

theorem leBytes_nil_iff (n : Nat) : leBytes n = [] ↔ n = 0 := by
  constructor
  · intro h
    have := ofLE_leBytes n
    rw [h] at this; simpa [ofLE] using this.symm
  · intro h; subst h; unfold leBytes; simp

/-- a signature component survives: empty bytes ⇒ nil ⇒ 0, otherwise SetBytes -/
theorem sigVal_bigBytes (n : Nat) : sigVal (bigBytes n) = n := by
  unfold sigVal
  split
  · rename_i h
    have : leBytes n = [] := by simpa [bigBytes] using h
    exact ((leBytes_nil_iff n).1 this).symm
  · exact setBytes_bigBytes n

/-- **round trip**: for every transaction of the three types whose amounts fit 256 bits, wrapping and
    unwrapping yields the identical go-ethereum transaction (every field, including the signature) -/
theorem roundtrip (t : EthTx) (hn : t.normal = true) (p : PTx) (h : fromEth t = some p) : asEth p = t := by
  unfold fromEth at h
  unfold EthTx.normal at hn
  split at h
  · rename_i ht
    split at h
    · simp only [Option.some.injEq] at h
      subst h
      simp only [ht, Bool.and_eq_true, beq_iff_eq, List.isEmpty_iff] at hn
      obtain ⟨⟨⟨h1, h2⟩, h3⟩, h4⟩ := hn
      cases t
      simp_all [asEth, sigVal_bigBytes]
    · simp at h
  · rename_i ht
    split at h
    · simp only [Option.some.injEq] at h
      subst h
      simp only [ht, Bool.and_eq_true, beq_iff_eq] at hn
      obtain ⟨h1, h2⟩ := hn
      cases t
      simp_all [asEth, sigVal_bigBytes]
    · simp at h
  · rename_i ht0 ht1
    split at h
    · simp only [Option.some.injEq] at h
      subst h
      have ht2 : t.typ = 2 := by
        cases htt : t.typ with
        | zero => exact absurd htt ht0
        | succ k =>
          cases k with
          | zero => exact absurd htt ht1
          | succ j => simp [htt] at hn; omega
      simp only [Bool.and_eq_true, beq_iff_eq] at hn
      cases t
      simp_all [asEth, sigVal_bigBytes]
    · simp at h

/-- hash and sender are functions of the go-ethereum transaction (opaque `H`, `recover`): identical
    transactions give identical hash and sender; the message records `H t` at wrapping time -/
theorem hash_and_sender_preserved {α β : Type} (H : EthTx → α) (recover : EthTx → β) (t : EthTx)
    (hn : t.normal = true) (p : PTx) (h : fromEth t = some p) :
    H (asEth p) = H t ∧ recover (asEth p) = recover t := by
  rw [roundtrip t hn p h]; exact ⟨rfl, rfl⟩

/-- values that do not fit 256 bits are refused, never silently altered -/
theorem safeInt_guard (t : EthTx) (h : ¬ t.value < 2 ^ 256) : fromEth t = none := by
  unfold fromEth
  have : fits256 t.value = false := by simp [fits256, h]
  split <;> simp [this]

/-- fee, cost and effective price derived from the message equal go-ethereum's own figures -/
theorem fee_cost_agree (t : EthTx) (hn : t.normal = true) (p : PTx) (h : fromEth t = some p) (baseFee : Nat) :
    p.fee = t.gasPriceField * t.gas ∧ p.cost = t.cost ∧
    p.effectiveGasPrice baseFee = (if t.typ = 2 then min (t.gasTipCap + baseFee) t.gasFeeCap else t.gasPrice) ∧
    p.effectiveFee baseFee = p.effectiveGasPrice baseFee * t.gas ∧
    p.effectiveCost baseFee = p.effectiveGasPrice baseFee * t.gas + t.value := by
  have hr := roundtrip t hn p h
  have e : asEth p = t := hr
  subst e
  unfold fromEth at h
  split at h
  · rename_i ht
    split at h
    · simp only [Option.some.injEq] at h
      rw [← h]
      simp [PTx.fee, PTx.cost, PTx.effectiveGasPrice, PTx.effectiveFee, PTx.effectiveCost, EthTx.gasPriceField, EthTx.cost, asEth]
    · simp at h
  · rename_i ht
    split at h
    · simp only [Option.some.injEq] at h
      rw [← h]
      simp [PTx.fee, PTx.cost, PTx.effectiveGasPrice, PTx.effectiveFee, PTx.effectiveCost, EthTx.gasPriceField, EthTx.cost, asEth]
    · simp at h
  · split at h
    · simp only [Option.some.injEq] at h
      rw [← h]
      simp [PTx.fee, PTx.cost, PTx.effectiveGasPrice, PTx.effectiveFee, PTx.effectiveCost, EthTx.gasPriceField, EthTx.cost, asEth]
    · simp at h

/-- without a base fee (London not active) the message's effective price is go-ethereum's: the fee cap of a dynamic-fee
    transaction, the gas price of the other two types -/
theorem effective_price_without_base_fee (t : EthTx) (hn : t.normal = true) (p : PTx) (h : fromEth t = some p) :
    p.effectiveGasPriceO true none = some t.gasPriceField := by
  have hr := roundtrip t hn p h
  have e : asEth p = t := hr
  subst e
  unfold fromEth at h
  split at h
  · rename_i ht
    split at h
    · simp only [Option.some.injEq] at h
      rw [← h]
      simp [PTx.effectiveGasPriceO, EthTx.gasPriceField, asEth]
    · simp at h
  · rename_i ht
    split at h
    · simp only [Option.some.injEq] at h
      rw [← h]
      simp [PTx.effectiveGasPriceO, EthTx.gasPriceField, asEth]
    · simp at h
  · split at h
    · simp only [Option.some.injEq] at h
      rw [← h]
      simp [PTx.effectiveGasPriceO, EthTx.gasPriceField, asEth]
    · simp at h

/-- with the repair every message has an effective price, with or without a base fee (the driver's reading of the figure
    never falls back on a default) -/
theorem effective_price_total (p : PTx) (b : Option Nat) : (p.effectiveGasPriceO true b).isSome = true := by
  cases b <;> simp [PTx.effectiveGasPriceO] <;> split <;> rfl

/-- before the repair: a dynamic-fee message (tip 2, cap 10) had no effective price without a base fee — the computation
    dereferenced the missing value — where go-ethereum says 10 -/
theorem effective_price_nil_base_counterexample :
    let t : EthTx := { typ := 2, chainId := 11235, nonce := 3, gas := 21000, gasPrice := 0, gasTipCap := 2, gasFeeCap := 10,
                       to := some 1, value := 5, data := [], access := [], v := 0, r := 1, s := 1 }
    (fromEth t).map (fun p => (p.effectiveGasPriceO false none, p.effectiveGasPriceO true none)) = some (none, some 10) := by
  decide

/-- non-vacuity: a dynamic-fee creation tx with a two-tuple access list, zero `s`, maximal value -/
example :
    let t : EthTx := EthTx.mk 2 11235 7 21000 0 0 1000000000 none (2 ^ 256 - 1) [0, 255] [(1, [1]), (2, [2, 3])]
      1 (2 ^ 255 + 5) 0
    t.normal = true ∧ (fromEth t).map asEth = some t := by
  constructor
  · decide
  · simp [fromEth, fits256, asEth, sigVal_bigBytes]

/-! ### signing a message that already carries a signature -/

theorem normal_withSignature (t : EthTx) (v r s : Nat) : (withSignature t v r s).normal = t.normal := by
  simp [withSignature, EthTx.normal]

/-- **signing again forgets the old signature**: whatever signature the message carried before, the re-signed message
    unwraps to the same transaction carrying exactly the new values — in particular a new recovery id 0 replaces an
    old 1 -/
theorem resign_unwraps_to_new_signature (t : EthTx) (hn : t.normal = true) (p : PTx) (h : fromEth t = some p)
    (v r s : Nat) (p' : PTx) (h' : signMsg p v r s = some p') :
    asEth p' = withSignature t v r s := by
  have hp : asEth p = t := roundtrip t hn p h
  unfold signMsg at h'
  rw [hp] at h'
  exact roundtrip (withSignature t v r s) (by rw [normal_withSignature]; exact hn) p' h'

/-- … and does not depend on it: two messages that hold the same transaction under different signatures are re-signed
    to the same message -/
theorem resign_independent_of_old_signature (t : EthTx) (v1 r1 s1 v2 r2 s2 v r s : Nat) (p1 p2 : PTx)
    (hn : t.normal = true)
    (h1 : fromEth (withSignature t v1 r1 s1) = some p1) (h2 : fromEth (withSignature t v2 r2 s2) = some p2) :
    signMsg p1 v r s = signMsg p2 v r s := by
  have e1 := roundtrip _ (by rw [normal_withSignature]; exact hn) p1 h1
  have e2 := roundtrip _ (by rw [normal_withSignature]; exact hn) p2 h2
  unfold signMsg
  rw [e1, e2]
  simp [withSignature]

/-- non-vacuity: a dynamic-fee message signed with recovery id 1 is signed again with recovery id 0 — V is the empty
    byte string afterwards, not the old [1] -/
example :
    let t : EthTx := { typ := 2, chainId := 5, nonce := 1, gas := 21000, gasPrice := 0, gasTipCap := 1, gasFeeCap := 9,
                       to := some 7, value := 3, data := [], access := [], v := 1, r := 4, s := 5 }
    ((fromEth t).bind (fun p => signMsg p 0 8 9)).map (fun p => (p.v, p.r, p.s)) = some ([], [8], [9]) := by
  simp [fromEth, signMsg, withSignature, asEth, fits256, sigVal, bigBytes, setBytes, leBytes, ofLE]
end Haqq.EthTx
