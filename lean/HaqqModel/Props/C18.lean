/-
  C18 — Ethereum transactions survive the Cosmos envelope unchanged.

  English statement (properties.jsonl):
    Wrapping a signed Ethereum transaction into the chain's message format, encoding it into a Cosmos
    transaction, decoding it on the other side and unwrapping it yields a transaction with the same hash,
    the same recoverable sender and identical fields, for legacy, access-list and dynamic-fee
    transactions alike; the hash recorded in the message always equals the Ethereum hash.  Fee, cost and
    effective-price figures derived from the message equal those of the original transaction.

  Formalisation: the conversion eth → proto TxData → eth is modelled field by field (including the
  big-endian minimal byte encoding of V, R, S and go-ethereum's nil → 0 copy normalisation); the hash and
  the recovered sender are functions of the go-ethereum transaction, so field identity gives both.  The
  protobuf / Any / tx encoding in between is generated code: trusted here, exercised end-to-end by the
  correspondence run (sign → FromEthereumTx → BuildTx → encode → decode → AsTransaction).
-/
import HaqqModel.Model.EthTx

namespace Haqq.EthTx

theorem ofLE_leBytes (n : Nat) : ofLE (leBytes n) = n := by
  induction n using Nat.strongRecOn with
  | _ n ih =>
    unfold leBytes
    split
    · rename_i h; simp [ofLE, h]
    · rename_i h
      simp only [ofLE]
      rw [ih (n / 256) (Nat.div_lt_self (Nat.pos_of_ne_zero h) (by decide))]
      omega

/-- big.Int byte round trip: SetBytes(Bytes(n)) = n -/
theorem setBytes_bigBytes (n : Nat) : setBytes (bigBytes n) = n := by
  simp [setBytes, bigBytes, ofLE_leBytes]

theorem leBytes_nil_iff (n : Nat) : leBytes n = [] ↔ n = 0 := by
  constructor
  · intro h
    have := ofLE_leBytes n
    rw [h] at this; simpa [ofLE] using this.symm
  · intro h; subst h; unfold leBytes; simp

/-- a signature component survives: empty bytes ⇒ nil ⇒ 0, otherwise SetBytes -/
theorem sigVal_bigBytes (n : Nat) : sigVal (bigBytes n) = n := by
  unfold sigVal
  split
  · rename_i h
    have : leBytes n = [] := by simpa [bigBytes] using h
    exact ((leBytes_nil_iff n).1 this).symm
  · exact setBytes_bigBytes n

/-- **round trip**: for every transaction of the three types whose amounts fit 256 bits, wrapping and
    unwrapping yields the identical go-ethereum transaction (every field, including the signature) -/
theorem roundtrip (t : EthTx) (hn : t.normal = true) (p : PTx) (h : fromEth t = some p) : asEth p = t := by
  unfold fromEth at h
  unfold EthTx.normal at hn
  split at h
  · rename_i ht
    split at h
    · simp only [Option.some.injEq] at h
      subst h
      simp only [ht, Bool.and_eq_true, beq_iff_eq, List.isEmpty_iff] at hn
      obtain ⟨⟨⟨h1, h2⟩, h3⟩, h4⟩ := hn
      cases t
      simp_all [asEth, sigVal_bigBytes]
    · simp at h
  · rename_i ht
    split at h
    · simp only [Option.some.injEq] at h
      subst h
      simp only [ht, Bool.and_eq_true, beq_iff_eq] at hn
      obtain ⟨h1, h2⟩ := hn
      cases t
      simp_all [asEth, sigVal_bigBytes]
    · simp at h
  · rename_i ht0 ht1
    split at h
    · simp only [Option.some.injEq] at h
      subst h
      have ht2 : t.typ = 2 := by
        cases htt : t.typ with
        | zero => exact absurd htt ht0
        | succ k =>
          cases k with
          | zero => exact absurd htt ht1
          | succ j => simp [htt] at hn; omega
      simp only [Bool.and_eq_true, beq_iff_eq] at hn
      cases t
      simp_all [asEth, sigVal_bigBytes]
    · simp at h

/-- hash and sender are functions of the go-ethereum transaction (opaque `H`, `recover`): identical
    transactions give identical hash and sender; the message records `H t` at wrapping time -/
theorem hash_and_sender_preserved {α β : Type} (H : EthTx → α) (recover : EthTx → β) (t : EthTx)
    (hn : t.normal = true) (p : PTx) (h : fromEth t = some p) :
    H (asEth p) = H t ∧ recover (asEth p) = recover t := by
  rw [roundtrip t hn p h]; exact ⟨rfl, rfl⟩

/-- values that do not fit 256 bits are refused, never silently altered -/
theorem safeInt_guard (t : EthTx) (h : ¬ t.value < 2 ^ 256) : fromEth t = none := by
  unfold fromEth
  have : fits256 t.value = false := by simp [fits256, h]
  split <;> simp [this]

/-- fee, cost and effective price derived from the message equal go-ethereum's own figures -/
theorem fee_cost_agree (t : EthTx) (hn : t.normal = true) (p : PTx) (h : fromEth t = some p) (baseFee : Nat) :
    p.fee = t.gasPriceField * t.gas ∧ p.cost = t.cost ∧
    p.effectiveGasPrice baseFee = (if t.typ = 2 then min (t.gasTipCap + baseFee) t.gasFeeCap else t.gasPrice) ∧
    p.effectiveFee baseFee = p.effectiveGasPrice baseFee * t.gas ∧
    p.effectiveCost baseFee = p.effectiveGasPrice baseFee * t.gas + t.value := by
  have hr := roundtrip t hn p h
  have e : asEth p = t := hr
  subst e
  unfold fromEth at h
  split at h
  · rename_i ht
    split at h
    · simp only [Option.some.injEq] at h
      rw [← h]
      simp [PTx.fee, PTx.cost, PTx.effectiveGasPrice, PTx.effectiveFee, PTx.effectiveCost, EthTx.gasPriceField, EthTx.cost, asEth]
    · simp at h
  · rename_i ht
    split at h
    · simp only [Option.some.injEq] at h
      rw [← h]
      simp [PTx.fee, PTx.cost, PTx.effectiveGasPrice, PTx.effectiveFee, PTx.effectiveCost, EthTx.gasPriceField, EthTx.cost, asEth]
    · simp at h
  · split at h
    · simp only [Option.some.injEq] at h
      rw [← h]
      simp [PTx.fee, PTx.cost, PTx.effectiveGasPrice, PTx.effectiveFee, PTx.effectiveCost, EthTx.gasPriceField, EthTx.cost, asEth]
    · simp at h

/-- non-vacuity: a dynamic-fee creation tx with a two-tuple access list, zero `s`, maximal value -/
example :
    let t : EthTx := EthTx.mk 2 11235 7 21000 0 0 1000000000 none (2 ^ 256 - 1) [0, 255] [(1, [1]), (2, [2, 3])]
      1 (2 ^ 255 + 5) 0
    t.normal = true ∧ (fromEth t).map asEth = some t := by
  constructor
  · decide
  · simp [fromEth, fits256, asEth, sigVal_bigBytes]

end Haqq.EthTx
