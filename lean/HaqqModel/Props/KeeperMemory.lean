/-
  Process-local memory of the keepers — facts shared by C01 (replicas agree: also a replica that joins later from a
  copy of the state) and C20 (a restarted node behaves like one that never stopped).  A value a keeper holds outside
  the store lives as long as the process does: unless construction or the next BeginBlock rebuilds it from the store
  or the header, it is an input that is not a block input.
-/
import HaqqModel.Generated.Facts

namespace Haqq.KeeperMemory
open Haqq

/-- receiver-field writes that construction (or the next BeginBlock) repeats on the restarted node -/
def rebuiltWriters : List (String × String) :=
  [ ("x/epochs/keeper/keeper.go::Keeper.hooks", "Keeper.SetHooks"),                 -- NewHaqq wiring
    ("x/evm/keeper/keeper.go::Keeper.eip155ChainID", "Keeper.WithChainID"),         -- BeginBlock, from the header
    ("x/evm/keeper/keeper.go::Keeper.hooks", "Keeper.CleanHooks"),                  -- test helper, no caller in app
    ("x/evm/keeper/keeper.go::Keeper.hooks", "Keeper.SetHooks"),                    -- NewHaqq wiring
    ("x/evm/keeper/precompiles.go::Keeper.precompiles", "Keeper.WithPrecompiles"),  -- NewHaqq wiring
    ("x/evm/keeper/precompiles.go::Keeper.precompiles", "Keeper.AddEVMExtensions") ] -- no caller, see below

theorem packages_loaded : Facts.determinismPackagesLoaded = true := by decide

/-- every write to process-local keeper state is one of the rebuilt ones -/
theorem mem_writes_rebuilt : Facts.keeperFieldWriters.all (fun s => rebuiltWriters.contains s) = true := by decide

/-- the only container a keeper holds outside the store is the EVM keeper's precompile map, which construction fills
    (`WithPrecompiles`) and nothing changes afterwards (`mem_writes_rebuilt`, `no_dynamic_extensions`); a keeper
    field that can accumulate data in memory — a cache, a ring of recent values, a counter behind a pointer — is
    state a restarted node does not have -/
theorem keepers_hold_no_memory : Facts.keeperMemFields =
    [("x/evm/keeper::Keeper.eip155ChainID", "ptr:math/big.Int"),      -- re-derived from the header in every BeginBlock
     ("x/evm/keeper::Keeper.precompiles", "map")] := by decide

/-- the same for everything else that is built once per process and sits on the transaction path: ante / post
    decorators and precompiles hold no container, lock or private structure — the authz limiter's list of barred type
    URLs is filled at construction and never written (`handlers_never_write_their_fields`), the wrapped-coin precompile
    embeds the ERC20 precompile -/
theorem handlers_hold_no_memory : Facts.handlerMemFields =
    [("app/ante/cosmos::AuthzLimiterDecorator.disabledMsgTypes", "slice"),
     ("precompiles/werc20::Precompile.Precompile", "ptr:precompiles/erc20.Precompile")] := by decide

/-- no method of a decorator or precompile assigns to a field of its receiver -/
theorem handlers_never_write_their_fields : Facts.handlerFieldWriters = [] := by decide

/-- package-level variables are written by `init` and by the encoding set-up that construction runs, by nothing else:
    no package-level cache, counter or memo on the transaction path -/
theorem package_vars_written_at_construction_only : Facts.packageVarWriters =
    [("ethereum/eip712/encoding.go::aminoCodec", "SetEncodingConfig"),
     ("ethereum/eip712/encoding.go::protoCodec", "SetEncodingConfig")] := by decide

/-- no function writes through a slice a KVStore handed out: such a slice is the store's own (cached, committed) copy, a
    write through it bypasses the transaction's branch of the state and survives a failed message — memory of the process
    that a restarted node or a replica does not share -/
theorem store_slices_never_written_in_place : Facts.storeSlicesWrittenInPlace = [] := by decide

/-- extensions are never registered after construction: the only function that calls `AddEVMExtensions` is the
    ERC20 registration helper, and nothing calls that -/
theorem no_dynamic_extensions :
    Facts.dynamicExtensionCallers = ["x/erc20/keeper/precompiles.go::RegisterERC20Extensions→AddEVMExtensions"] := by
  decide

end Haqq.KeeperMemory
