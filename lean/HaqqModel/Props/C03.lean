/-
  C03 — Only the key holder can authorise a transaction, once.

  English statement (properties.jsonl):
    A transaction is executed on behalf of an account only if it carries a valid signature by that account's key
    over exactly the transaction content, the chain id and the account's current sequence number; changing any
    signed field, replaying it on this chain a second time, or replaying a signature made for another chain id is
    rejected.  This holds for Ethereum-signed transactions, for Cosmos transactions and for EIP-712-signed ones.

  Level: partial.  The cryptography (ECDSA recovery, Keccak, the EIP-712 hash) is assumed, explicitly:
  `Unforgeable` says a signature made over one payload does not verify for the same signer over a different
  payload.  Proved:
    * the replay logic, for every history: `ethAccept_iff` (a batch is accepted exactly when its nonces are
      seq, seq+1, …), `replay_rejected` (an accepted transaction is refused at every later point),
      `executed_consecutive` (over any history the nonces executed are exactly seq₀, seq₀+1, … — each once, in
      order), `cos_replay_rejected`;
    * the binding, under `Unforgeable`: `mutation_not_for_signer` (any change to the signed payload — any field,
      the chain id, the nonce — is not accepted for the original signer);
    * over regenerated facts: the Ethereum-route sequence decorator loads the account and compares the nonce for
      every message unconditionally, the signature decorator uses the chain's signer and refuses unprotected
      transactions unless the parameter allows them.
  The correspondence run drives the real ante chains and DeliverTx with valid, mutated (every field of every
  transaction type, signature kept), replayed, foreign-chain and batched transactions.
-/
import HaqqModel.Model.Replay
import HaqqModel.Generated.Facts

namespace Haqq.Replay

theorem ethAccept_iff (ns : List Nat) : ∀ seq s', ethAccept seq ns = some s' ↔
    (ns = List.range' seq ns.length ∧ s' = seq + ns.length) := by
  induction ns with
  | nil => intro seq s'; simp [ethAccept, eq_comm]
  | cons n rest ih =>
    intro seq s'
    simp only [ethAccept, List.length_cons, List.range'_succ]
    by_cases h : n = seq
    · subst h
      simp only [if_true, ih]
      constructor
      · rintro ⟨h1, h2⟩; exact ⟨by rw [← h1], by omega⟩
      · rintro ⟨h1, h2⟩
        injection h1 with _ h1
        exact ⟨h1, by omega⟩
    · simp only [h, if_false]
      constructor
      · intro h0; cases h0
      · rintro ⟨h1, _⟩; injection h1 with h1 _; exact absurd h1 h

/-- an accepted (non-empty) transaction is refused whenever it is submitted again later -/
theorem replay_rejected (seq : Nat) (ns : List Nat) (s' : Nat) (hne : ns ≠ []) (h : ethAccept seq ns = some s')
    (later : Nat) (hl : s' ≤ later) : ethAccept later ns = none := by
  obtain ⟨h1, h2⟩ := (ethAccept_iff ns seq s').mp h
  cases ns with
  | nil => exact absurd rfl hne
  | cons n rest =>
    simp only [List.length_cons, List.range'_succ] at h1
    injection h1 with hn _
    simp only [ethAccept]
    have : n ≠ later := by simp only [List.length_cons] at h2; omega
    simp [this]

theorem runEth_spec (txs : List (List Nat)) : ∀ seq,
    (runEth seq txs).2 = List.range' seq ((runEth seq txs).1 - seq) ∧ seq ≤ (runEth seq txs).1 := by
  induction txs with
  | nil => intro seq; simp [runEth]
  | cons tx rest ih =>
    intro seq
    simp only [runEth]
    cases h : ethAccept seq tx with
    | none => exact ih seq
    | some s' =>
      obtain ⟨h1, h2⟩ := (ethAccept_iff tx seq s').mp h
      obtain ⟨i1, i2⟩ := ih s'
      simp only
      refine ⟨?_, by omega⟩
      rw [i1]
      conv => lhs; rw [h1]
      have : (runEth s' rest).1 - seq = tx.length + ((runEth s' rest).1 - s') := by omega
      rw [this, h2, List.range'_append_1]

/-- **each nonce once, in order**: over any history of valid, duplicated, out-of-order and batched submissions the
    nonces that execute are exactly seq₀, seq₀+1, … up to the final sequence -/
theorem executed_consecutive (seq : Nat) (txs : List (List Nat)) :
    (runEth seq txs).2 = List.range' seq ((runEth seq txs).1 - seq) := (runEth_spec txs seq).1

theorem executed_nodup (seq : Nat) (txs : List (List Nat)) : (runEth seq txs).2.Nodup := by
  rw [executed_consecutive]; exact List.nodup_range'

theorem cos_replay_rejected (seq txSeq : Nat) (c i : Bool) (s' : Nat) (h : cosAccept seq txSeq c i = some s')
    (later : Nat) (hl : s' ≤ later) : cosAccept later txSeq c i = none := by
  unfold cosAccept at h ⊢
  split at h
  · rename_i hc
    injection h with h
    have : ¬ (txSeq = later ∧ c = true ∧ i = true) := by intro ⟨e, _, _⟩; omega
    simp [this]
  · cases h

/-! ### both routes and everything else that rewrites the account -/

/-- the other rewrites of the account keep its sequence (what every non-transaction code path that stores an account
    must do: conversion into a vesting account, clawback, upgrade handlers) -/
def KeepsSequence : Nat → List Ev → Prop
  | _, [] => True
  | seq, .eth ns :: rest =>
    (match ethAccept seq ns with
     | some s' => KeepsSequence s' rest
     | none => KeepsSequence seq rest)
  | seq, .cos t c i :: rest =>
    (match cosAccept seq t c i with
     | some s' => KeepsSequence s' rest
     | none => KeepsSequence seq rest)
  | seq, .other n :: rest => seq ≤ n ∧ KeepsSequence n rest

theorem runMixed_spec (evs : List Ev) : ∀ seq, KeepsSequence seq evs →
    seq ≤ (runMixed seq evs).1 ∧ (∀ x ∈ (runMixed seq evs).2, seq ≤ x ∧ x < (runMixed seq evs).1) ∧
    (runMixed seq evs).2.Nodup := by
  induction evs with
  | nil => intro seq _; simp [runMixed]
  | cons e rest ih =>
    intro seq hk
    cases e with
    | eth ns =>
      simp only [runMixed, KeepsSequence] at hk ⊢
      cases h : ethAccept seq ns with
      | none => rw [h] at hk; exact ih seq hk
      | some s' =>
        rw [h] at hk
        obtain ⟨h1, h2⟩ := (ethAccept_iff ns seq s').mp h
        obtain ⟨i1, i2, i3⟩ := ih s' hk
        simp only
        refine ⟨by omega, ?_, ?_⟩
        · intro x hx
          rcases List.mem_append.mp hx with hx | hx
          · rw [h1] at hx
            have := List.mem_range'_1.mp hx
            omega
          · have := i2 x hx; omega
        · rw [List.nodup_append]
          refine ⟨by rw [h1]; exact List.nodup_range', i3, ?_⟩
          intro a ha b hb hab
          rw [h1] at ha
          have h3 := List.mem_range'_1.mp ha
          have h4 := i2 b hb
          omega
    | cos t c i =>
      simp only [runMixed, KeepsSequence] at hk ⊢
      cases h : cosAccept seq t c i with
      | none => rw [h] at hk; exact ih seq hk
      | some s' =>
        rw [h] at hk
        have hs : t = seq ∧ s' = seq + 1 := by
          unfold cosAccept at h
          split at h
          · rename_i hc; injection h with h; exact ⟨hc.1, h.symm⟩
          · cases h
        obtain ⟨i1, i2, i3⟩ := ih s' hk
        simp only
        refine ⟨by omega, ?_, ?_⟩
        · intro x hx
          rcases List.mem_cons.mp hx with hx | hx
          · omega
          · have := i2 x hx; omega
        · rw [List.nodup_cons]
          refine ⟨?_, i3⟩
          intro hm
          have := i2 t hm
          omega
    | other n =>
      simp only [runMixed, KeepsSequence] at hk ⊢
      obtain ⟨i1, i2, i3⟩ := ih n hk.2
      refine ⟨by omega, ?_, i3⟩
      intro x hx
      have := i2 x hx
      omega

/-- **no sequence number is ever used twice**, over any history of transactions of both routes (valid, replayed, out of
    order, batched, tampered, for another chain) interleaved with other rewrites of the account — provided those keep
    the sequence -/
theorem sequence_numbers_used_once (seq : Nat) (evs : List Ev) (h : KeepsSequence seq evs) :
    (runMixed seq evs).2.Nodup := (runMixed_spec evs seq h).2.2

/-- … and the proviso is needed: a rewrite that resets the sequence makes an old signed transaction valid again -/
theorem sequence_reset_counterexample :
    (runMixed 0 [.eth [0], .eth [0], .other 0, .eth [0]]).2 = [0, 0] ∧
    ¬ KeepsSequence 0 [.eth [0], .eth [0], .other 0, .eth [0]] := by
  refine ⟨by decide, ?_⟩
  intro h
  simp [KeepsSequence, ethAccept] at h

/-! ### execution after the ante handler (what the messages do to the nonce) -/

theorem ethAccept_some_eq (ns : List Nat) : ∀ seq s', ethAccept seq ns = some s' → s' = seq + ns.length ∧
    ∀ n ∈ ns, n < s' := by
  induction ns with
  | nil => intro seq s' h; simp [ethAccept] at h; subst h; simp
  | cons n rest ih =>
    intro seq s' h
    simp only [ethAccept] at h
    split at h
    · rename_i hn
      obtain ⟨h1, h2⟩ := ih (seq + 1) s' h
      refine ⟨by simp; omega, ?_⟩
      intro x hx
      rcases List.mem_cons.mp hx with hx | hx
      · omega
      · exact h2 x hx
    · cases h

theorem execAll_keep (ms : List EMsg) : ∀ cur, (∀ m ∈ ms, m.nonce < cur) → execAll true cur ms = cur := by
  induction ms with
  | nil => intro cur _; rfl
  | cons m rest ih =>
    intro cur h
    have hm := h m (List.mem_cons_self)
    have : execMsg true cur m = cur := by
      unfold execMsg
      split
      · simp; omega
      · rfl
    simp only [execAll, List.foldl_cons, this]
    exact ih cur (fun x hx => h x (List.mem_cons_of_mem _ hx))

/-- **execution keeps what the ante handler advanced**: after an accepted transaction the sender's sequence is
    seq + (number of messages), whatever mix of calls and contract creations it carries — so every executed nonce lies
    behind the sequence and none of the messages is valid again -/
theorem exec_keeps_ante_sequence (seq : Nat) (ms : List EMsg) (s' : Nat) (h : ethTx true seq ms = some s') :
    s' = seq + ms.length ∧ ∀ m ∈ ms, m.nonce < s' := by
  unfold ethTx at h
  cases ha : ethAccept seq (ms.map (·.nonce)) with
  | none => simp [ha] at h
  | some a =>
    simp only [ha, Option.map_some, Option.some.injEq] at h
    obtain ⟨h1, h2⟩ := ethAccept_some_eq _ seq a ha
    have hlt : ∀ m ∈ ms, m.nonce < a := fun m hm => h2 m.nonce (List.mem_map.mpr ⟨m, hm, rfl⟩)
    rw [execAll_keep ms a hlt] at h
    subst h
    exact ⟨by simpa using h1, hlt⟩

/-- the code before 37d9750: a creation followed by another message leaves the sequence at the second message's nonce —
    that message, already executed, passes the ante handler again -/
theorem creation_moves_nonce_back_counterexample :
    ethTx false 5 [⟨5, true⟩, ⟨6, false⟩] = some 6 ∧ ethTx false 6 [⟨6, false⟩] = some 7 ∧
    ethTx true 5 [⟨5, true⟩, ⟨6, false⟩] = some 7 ∧ ethTx true 7 [⟨6, false⟩] = none := by decide

/-- the creation branch of ApplyMessageWithConfig has the shape `execMsg true` models (regenerated fact) -/
theorem creation_never_moves_nonce_back : Facts.evmCreateNonceAfter = "max(nonce on entry, msg.Nonce()+1)" := by decide

/-! ### binding of the signature to the content (cryptography assumed, explicitly) -/

section Binding
variable {Payload Sig Addr : Type}

/-- `signed a p s`: `s` is a signature the key holder `a` made over payload `p`; `verifies a p s`: what the ante
    handler checks.  Unforgeability: a signature made over `p` does not verify for `a` over another payload. -/
def Unforgeable (signed verifies : Addr → Payload → Sig → Prop) : Prop :=
  ∀ a p p' s, signed a p s → verifies a p' s → p' = p

/-- any change of the signed payload (the payload contains every transaction field, the chain id and the
    nonce / sequence) is not accepted on behalf of the original signer -/
theorem mutation_not_for_signer (signed verifies : Addr → Payload → Sig → Prop)
    (hu : Unforgeable signed verifies) (a : Addr) (p p' : Payload) (s : Sig)
    (hs : signed a p s) (hne : p' ≠ p) : ¬ verifies a p' s :=
  fun hv => hne (hu a p p' s hs hv)

end Binding

/-! ### which fields the signed payload carries (the assumption behind `mutation_not_for_signer`, made explicit)

A Cosmos transaction as the ante handler sees it, reduced to the fields a third party could change after signing.  The
direct sign mode signs the encoded body and auth info — everything.  The EIP-712 routes rebuild a typed-data document
from the decoded fields; that document has no place for a fee granter, a timeout height (current route) or extension
options, so a transaction that sets one of those must be refused, or the field is not bound by the signature. -/

structure CosTx where
  msgs : Nat          -- the messages (an opaque code)
  memo : Nat
  feeAmount : Nat
  gas : Nat
  timeout : Nat       -- 0 = none
  granter : Nat       -- 0 = none
  extOpts : Nat       -- 0 = none
  deriving Repr, DecidableEq

inductive Route | direct | eip712 | eip712Legacy | eip712Amino
  deriving Repr, DecidableEq

/-- the payload the signature is made over, per route -/
def payload : Route → CosTx → List Nat
  | .direct, t => [t.msgs, t.memo, t.feeAmount, t.gas, t.timeout, t.granter, t.extOpts]
  | .eip712, t => [t.msgs, t.memo, t.feeAmount, t.gas]
  | .eip712Legacy, t => [t.msgs, t.memo, t.feeAmount, t.gas, t.timeout]
  -- amino-JSON sign mode with an EIP-712 signature: the typed data wraps the amino sign document itself, fee granter
  -- and timeout included (extension options are not part of it)
  | .eip712Amino, t => [t.msgs, t.memo, t.feeAmount, t.gas, t.timeout, t.granter]

/-- what a route refuses outright because its payload cannot carry it; `refuseGranter` = the code since the repair -/
def admitted (refuseGranter : Bool) : Route → CosTx → Bool
  | .direct, _ => true
  | .eip712, t => t.timeout == 0 && t.extOpts == 0 && (!refuseGranter || t.granter == 0)
  | .eip712Legacy, t => (!refuseGranter || t.granter == 0)
  | .eip712Amino, t => t.extOpts == 0

/-- **every field is bound**: two transactions a route admits that have the same signed payload are the same
    transaction, up to the legacy route's own extension option (which carries the signature itself) — so changing any
    field either changes the payload (and then `mutation_not_for_signer` applies) or makes the route refuse -/
theorem admitted_payload_injective (r : Route) (t t' : CosTx) (h : admitted true r t = true) (h' : admitted true r t' = true)
    (hp : payload r t = payload r t') (hx : r = .eip712Legacy → t.extOpts = t'.extOpts) : t = t' := by
  cases t; cases t'
  cases r <;> simp_all [payload, admitted]

/-- before the repair the fee granter was bound on neither EIP-712 route: two admitted transactions with the same
    payload that differ in who pays the fee -/
theorem granter_unbound_counterexample :
    let t : CosTx := { msgs := 1, memo := 0, feeAmount := 5, gas := 9, timeout := 0, granter := 0, extOpts := 0 }
    let t' : CosTx := { t with granter := 7 }
    admitted false .eip712 t = true ∧ admitted false .eip712 t' = true ∧ payload .eip712 t = payload .eip712 t' ∧ t ≠ t' ∧
    admitted true .eip712 t' = false ∧ admitted true .eip712Legacy t' = false := by decide

/-- all three EIP-712 signature paths refuse a transaction that names a fee granter (regenerated fact) — which is what
    `admitted true` models -/
theorem eip712_refuses_fee_granter : Facts.eip712FeeGranter =
    [("eip712.decodeProtobufSignDoc", "granter-refused"), ("eip712.legacyDecodeProtobufSignDoc", "granter-refused"),
     ("ante.LegacyEip712SigVerification.VerifySignature", "granter-refused")] := by decide

/-! ### over the regenerated facts -/

theorem eth_sequence_checked_per_message :
    Facts.ethSeqDecoratorShape = "for-each-msg: GetAccount; nonce != sequence → reject; SetSequence(nonce+1)" := by decide

theorem eth_signature_bound_to_chain :
    Facts.ethSigVerifyShape = "MakeSigner(chain config); unprotected rejected unless AllowUnprotectedTxs; signer.Sender; From set from the recovered sender" := by
  decide

example : ethAccept 5 [5, 6, 7] = some 8 ∧ ethAccept 5 [5, 5] = none ∧ ethAccept 6 [5] = none := by decide

end Haqq.Replay
