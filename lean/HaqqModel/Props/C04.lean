/-
  C04 — Precompiles act only for the signer or caller, within grants.

  English statement (properties.jsonl):
    A state-changing precompile call changes an account's funds, stake, … only if that account is the transaction
    signer or the immediate calling contract; any other account can at most receive.  When the caller is not the
    signer, staking and ICS-20 operations additionally require a live grant from the signer to that caller
    covering the message type (and validator/channel) and the amount, and a limited grant is reduced by exactly
    the amount used and can never be overspent.

  Theorems over `Model/Authz.lean` (the staking family; the decision logic of the other families is exercised by
  the correspondence run):
    * `affected_is_signer_or_caller`, `needs_grant`, `limit_exact`, `unlimited_unchanged`, `not_in_allowlist_rejected`;
    * `never_overspent`: for every sequence of approve / increase / decrease / revoke / spend on one grant slot
      the amounts spent since the last approval plus the remaining limit equal the approved amount plus the
      increases minus the decreases;
    * what a call leaves behind (`stakingEffects`): in the order check, Accept, message, update — which is the order the
      regenerated fact `stakingGrantSpendOrder` reads off the four methods — a call that fails has run no message and
      changed no grant (`failed_call_leaves_nothing`), so a contract that ignores the failure gains nothing; in the older
      order (Accept after the message) that is false (`accept_after_message_counterexample`: the defect repaired by
      5f6ffb7); verdict, affected account and grant agree with `stakingCall` in both orders (`effects_refine_call`).
-/
import HaqqModel.Model.Authz
import HaqqModel.Generated.Facts

namespace Haqq.Authz

theorem accept_some (g : Grant) (val amt : Nat) (g' : Option Grant) (h : accept g val amt = some g') :
    g.allow.contains val = true ∧
    ((g.limit = none ∧ g' = some g) ∨
     (∃ l, g.limit = some l ∧ amt ≤ l ∧
        ((l - amt = 0 ∧ g' = none) ∨ (l - amt ≠ 0 ∧ g' = some { g with limit := some (l - amt) })))) := by
  unfold accept at h
  cases hc : g.allow.contains val with
  | false => rw [hc] at h; simp at h
  | true =>
    refine ⟨rfl, ?_⟩
    rw [hc] at h
    simp only [Bool.not_true, Bool.false_eq_true, if_false] at h
    cases hl : g.limit with
    | none =>
      simp only [hl] at h
      injection h with h1; exact Or.inl ⟨rfl, h1.symm⟩
    | some l =>
      simp only [hl] at h
      by_cases hlt : l < amt
      · simp [hlt] at h
      · simp only [hlt, if_false] at h
        right
        refine ⟨l, rfl, by omega, ?_⟩
        by_cases hz : l - amt = 0
        · simp only [hz, if_true] at h
          injection h with h1; exact Or.inl ⟨hz, h1.symm⟩
        · simp only [hz, if_false] at h
          injection h with h1; exact Or.inr ⟨hz, h1.symm⟩

theorem accept_none_of_not_allowed (g : Grant) (val amt : Nat) (h : g.allow.contains val = false) :
    accept g val amt = none := by
  unfold accept; rw [h]; rfl

/-- what a successful call says about its inputs -/
theorem stakingCall_ok (c : Call) (g : Option Grant) (d : Nat) (g' : Option Grant) (h : stakingCall c g = .ok d g') :
    d = c.delegator ∧ (c.caller = c.delegator ∨ c.origin = c.delegator) ∧
    ((c.caller = c.origin ∧ g' = g) ∨
     (c.caller ≠ c.origin ∧ ∃ gr, g = some gr ∧ exceeds gr.limit c.amt = false ∧ accept gr c.val c.amt = some g')) := by
  unfold stakingCall at h
  cases hn : c.native with
  | false => simp [hn] at h
  | true =>
  simp only [hn, Bool.not_true, Bool.false_eq_true, if_false] at h
  by_cases h1 : c.caller = c.delegator
  · by_cases h3 : c.caller = c.origin
    · have hb1 : (c.caller == c.delegator) = true := by simpa using h1
      have hb3 : (c.caller == c.origin) = true := by simpa using h3
      simp only [hb1, Bool.not_true, Bool.false_and, Bool.false_eq_true, if_false, hb3, if_true] at h
      injection h with e1 e2
      exact ⟨e1.symm, Or.inl h1, Or.inl ⟨h3, e2.symm⟩⟩
    · have hb : (c.caller == c.origin) = false := by simpa using h3
      have hb1 : (c.caller == c.delegator) = true := by simpa using h1
      simp only [hb1, Bool.not_true, Bool.false_and, Bool.false_eq_true, if_false, hb] at h
      cases g with
      | none => simp at h
      | some gr =>
        simp only at h
        by_cases he : exceeds gr.limit c.amt = true
        · simp [he] at h
        · simp only [he, Bool.false_eq_true, if_false] at h
          cases hacc : accept gr c.val c.amt with
          | none => simp [hacc] at h
          | some g2 =>
            simp only [hacc] at h
            injection h with e1 e2
            exact ⟨e1.symm, Or.inl h1, Or.inr ⟨h3, gr, rfl, by simpa using he, e2 ▸ hacc⟩⟩
  · have hb1 : (c.caller == c.delegator) = false := by simpa using h1
    by_cases h2 : c.origin = c.delegator
    · have hb2 : (c.origin != c.delegator) = false := by simp [h2]
      simp only [hb1, Bool.not_false, Bool.true_and, hb2, Bool.false_eq_true, if_false] at h
      by_cases h3 : c.caller = c.origin
      · have hb3 : (c.caller == c.origin) = true := by simpa using h3
        simp only [hb3, if_true] at h
        injection h with e1 e2
        exact ⟨e1.symm, Or.inr h2, Or.inl ⟨h3, e2.symm⟩⟩
      · have hb : (c.caller == c.origin) = false := by simpa using h3
        simp only [hb, Bool.false_eq_true, if_false] at h
        cases g with
        | none => simp at h
        | some gr =>
          simp only at h
          by_cases he : exceeds gr.limit c.amt = true
          · simp [he] at h
          · simp only [he, Bool.false_eq_true, if_false] at h
            cases hacc : accept gr c.val c.amt with
            | none => simp [hacc] at h
            | some g2 =>
              simp only [hacc] at h
              injection h with e1 e2
              exact ⟨e1.symm, Or.inr h2, Or.inr ⟨h3, gr, rfl, by simpa using he, e2 ▸ hacc⟩⟩
    · have hb2 : (c.origin != c.delegator) = true := by simpa using h2
      simp [hb1, hb2] at h

/-- whoever's coins or stake the message moves is the signer or the immediate caller -/
theorem affected_is_signer_or_caller (c : Call) (g : Option Grant) (d : Nat) (g' : Option Grant)
    (h : stakingCall c g = .ok d g') : d = c.origin ∨ d = c.caller := by
  obtain ⟨hd, hor, _⟩ := stakingCall_ok c g d g' h
  rcases hor with h1 | h2
  · exact Or.inr (by rw [hd, h1])
  · exact Or.inl (by rw [hd, h2])

/-- when the caller is not the signer a successful call had a grant that covers validator and amount -/
theorem needs_grant (c : Call) (g : Option Grant) (d : Nat) (g' : Option Grant) (hco : c.caller ≠ c.origin)
    (h : stakingCall c g = .ok d g') :
    ∃ gr, g = some gr ∧ gr.allow.contains c.val = true ∧ (∀ l, gr.limit = some l → c.amt ≤ l) := by
  obtain ⟨_, _, hcase⟩ := stakingCall_ok c g d g' h
  rcases hcase with ⟨h3, _⟩ | ⟨_, gr, hg, hex, hacc⟩
  · exact absurd h3 hco
  · refine ⟨gr, hg, (accept_some gr c.val c.amt g' hacc).1, ?_⟩
    intro l hl
    rw [hl] at hex
    simp [exceeds] at hex
    exact hex

/-- a limited grant is reduced by exactly the amount used (and deleted when it reaches zero) -/
theorem limit_exact (c : Call) (gr : Grant) (l d : Nat) (g' : Option Grant) (hco : c.caller ≠ c.origin)
    (hl : gr.limit = some l) (h : stakingCall c (some gr) = .ok d g') :
    c.amt ≤ l ∧ ((l - c.amt = 0 ∧ g' = none) ∨ (l - c.amt ≠ 0 ∧ g' = some { gr with limit := some (l - c.amt) })) := by
  obtain ⟨_, _, hcase⟩ := stakingCall_ok c (some gr) d g' h
  rcases hcase with ⟨h3, _⟩ | ⟨_, gr2, hg, _, hacc⟩
  · exact absurd h3 hco
  · injection hg with hg; subst hg
    rcases (accept_some gr c.val c.amt g' hacc).2 with ⟨hn, _⟩ | ⟨l2, hl2, hle, hres⟩
    · rw [hl] at hn; cases hn
    · rw [hl] at hl2; injection hl2 with hl2; subst hl2
      exact ⟨hle, hres⟩

/-- an unlimited grant is left as it was -/
theorem unlimited_unchanged (c : Call) (gr : Grant) (d : Nat) (g' : Option Grant) (hco : c.caller ≠ c.origin)
    (hl : gr.limit = none) (h : stakingCall c (some gr) = .ok d g') : g' = some gr := by
  obtain ⟨_, _, hcase⟩ := stakingCall_ok c (some gr) d g' h
  rcases hcase with ⟨h3, _⟩ | ⟨_, gr2, hg, _, hacc⟩
  · exact absurd h3 hco
  · injection hg with hg; subst hg
    rcases (accept_some gr c.val c.amt g' hacc).2 with ⟨_, hres⟩ | ⟨l2, hl2, _, _⟩
    · exact hres
    · rw [hl] at hl2; cases hl2

/-- a validator outside the allow-list is refused for limited and unlimited grants alike -/
theorem not_in_allowlist_rejected (c : Call) (gr : Grant) (hco : c.caller ≠ c.origin)
    (hv : gr.allow.contains c.val = false) : stakingCall c (some gr) = .reject := by
  cases hres : stakingCall c (some gr) with
  | reject => rfl
  | ok d g' =>
    obtain ⟨_, _, hcase⟩ := stakingCall_ok c (some gr) d g' hres
    rcases hcase with ⟨h3, _⟩ | ⟨_, gr2, hg, _, hacc⟩
    · exact absurd h3 hco
    · injection hg with hg; subst hg
      rw [accept_none_of_not_allowed gr c.val c.amt hv] at hacc; cases hacc

/-- a third party named as delegator is refused whoever calls -/
theorem third_party_rejected (c : Call) (g : Option Grant) (h1 : c.delegator ≠ c.origin) (h2 : c.delegator ≠ c.caller) :
    stakingCall c g = .reject := by
  cases hres : stakingCall c g with
  | reject => rfl
  | ok d g' =>
    obtain ⟨_, hor, _⟩ := stakingCall_ok c g d g' hres
    rcases hor with h | h
    · exact absurd h.symm h2
    · exact absurd h.symm h1

/-! ### the running allowance -/

/-- ghost ledger of one grant slot: what was granted since the last approval, what was spent since then -/
structure Ledger where
  g : Option Grant
  granted : Int      -- approved amount + increases − decreases since the last approval
  spent : Int        -- accepted spends since the last approval

def lstep (s : Ledger) (op : AOp) : Ledger :=
  let r := astep s.g op
  match op with
  | .approve (some a) _ => if a = 0 then { g := r.1, granted := 0, spent := 0 } else { g := r.1, granted := a, spent := 0 }
  | .approve none _ => { g := r.1, granted := 0, spent := 0 }
  | .increase x => if r.2 ∧ (s.g.bind (·.limit)).isSome then { s with g := r.1, granted := s.granted + x } else { s with g := r.1 }
  | .decrease x => if r.2 ∧ (s.g.bind (·.limit)).isSome then { s with g := r.1, granted := s.granted - x } else { s with g := r.1 }
  | .revoke => { g := r.1, granted := 0, spent := 0 }
  | .spend _ amt =>
    if r.2 ∧ (s.g.bind (·.limit)).isSome then { g := r.1, granted := s.granted, spent := s.spent + amt }
    else { s with g := r.1 }

/-- for a limited grant: remaining limit + spent = granted; when the slot is empty after a limited grant ran out,
    spent = granted -/
def LInv (s : Ledger) : Prop :=
  match s.g with
  | some gr => (match gr.limit with
      | some l => (l : Int) + s.spent = s.granted
      | none => True)
  | none => s.spent = s.granted ∨ (s.spent = 0 ∧ s.granted = 0)

theorem lstep_inv (s : Ledger) (op : AOp) (h : LInv s) : LInv (lstep s op) := by
  cases op with
  | approve amt allow =>
    cases amt with
    | none => simp [lstep, astep, LInv]
    | some a =>
      by_cases ha : a = 0
      · subst ha; simp [lstep, astep, LInv]
      · cases a with
        | zero => exact absurd rfl ha
        | succ n => simp [lstep, astep, LInv]
  | increase x =>
    cases hg : s.g with
    | none => simp [lstep, astep, LInv, hg] at h ⊢; exact h
    | some gr =>
      cases hl : gr.limit with
      | none => simp [lstep, astep, LInv, hg, hl]
      | some l =>
        simp only [LInv, hg, hl] at h
        simp [lstep, astep, LInv, hg, hl]
        omega
  | decrease x =>
    cases hg : s.g with
    | none => simp [lstep, astep, LInv, hg] at h ⊢; exact h
    | some gr =>
      cases hl : gr.limit with
      | none => simp [lstep, astep, LInv, hg, hl]
      | some l =>
        simp only [LInv, hg, hl] at h
        by_cases hlt : l < x
        · simp [lstep, astep, LInv, hg, hl, hlt]; exact h
        · simp [lstep, astep, LInv, hg, hl, hlt]
          omega
  | revoke => simp [lstep, astep, LInv]
  | spend val amt =>
    cases hg : s.g with
    | none => simp [lstep, astep, LInv, hg] at h ⊢; exact h
    | some gr =>
      cases hl : gr.limit with
      | none =>
        by_cases hm : val ∈ gr.allow <;> simp [lstep, astep, LInv, hg, hl, accept, hm, exceeds]
      | some l =>
        simp only [LInv, hg, hl] at h
        by_cases hlt : l < amt
        · simp [lstep, astep, LInv, hg, hl, hlt, exceeds]; exact h
        · by_cases hm : val ∈ gr.allow
          · by_cases hz : l - amt = 0
            · simp [lstep, astep, LInv, hg, hl, hlt, accept, hm, hz, exceeds]
              left; omega
            · simp [lstep, astep, LInv, hg, hl, hlt, accept, hm, hz, exceeds]
              omega
          · simp [lstep, astep, LInv, hg, hl, hlt, accept, hm, exceeds]; exact h

/-- **never overspent**: after any sequence of allowance operations and spends, the amounts spent since the last
    approval never exceed what was granted since then, and a limited grant's remaining limit is exactly the
    difference -/
theorem never_overspent (ops : List AOp) : ∀ s, LInv s → LInv (ops.foldl lstep s) := by
  induction ops with
  | nil => intro s h; exact h
  | cons op rest ih => intro s h; exact ih _ (lstep_inv s op h)

example : LInv { g := none, granted := 0, spent := 0 } := by simp [LInv]

/-- non-vacuity: approve 100, spend 30, increase 5, spend 75 — accepted; a further spend of 1 is refused -/
example :
    let ops := [AOp.approve (some 100) [1, 2], .spend 1 30, .increase 5, .spend 2 75]
    (ops.foldl lstep { g := none, granted := 0, spent := 0 }).g = none ∧
    (astep (ops.foldl lstep { g := none, granted := 0, spent := 0 }).g (.spend 1 1)).2 = false := by
  decide

/-! ### one call naming several message types -/

/-- a successful call naming several message types gives every named slot exactly what the same call naming that
    type alone would have given it -/
theorem many_is_each (gs : List (Option Grant)) (op : AOp) (h : (astepMany gs op).2 = true) :
    (astepMany gs op).1 = gs.map (fun g => (astep g op).1) := by
  unfold astepMany at h ⊢
  simp only at h ⊢
  split
  · simp [List.map_map]
  · rename_i hn; simp [hn] at h

/-- a failed call changes no slot -/
theorem many_failed_unchanged (gs : List (Option Grant)) (op : AOp) (h : (astepMany gs op).2 = false) :
    (astepMany gs op).1 = gs := by
  unfold astepMany at h ⊢
  simp only at h ⊢
  split
  · rename_i hy; simp [hy] at h
  · rfl

/-- `decreaseAllowance` over several limited grants: every limit goes down by the amount named, whatever the order
    and whatever the other limits are -/
theorem decrease_many_exact (gs : List Grant) (x : Nat) (ls : List Nat)
    (hl : gs.map (·.limit) = ls.map some) (hx : ∀ l ∈ ls, x ≤ l) :
    (astepMany (gs.map some) (.decrease x)).2 = true ∧
    (astepMany (gs.map some) (.decrease x)).1 = gs.map (fun g => some { g with limit := g.limit.map (· - x) }) := by
  have hstep : ∀ g ∈ gs, astep (some g) (.decrease x) = (some { g with limit := g.limit.map (· - x) }, true) := by
    intro g hg
    have : g.limit ∈ gs.map (·.limit) := List.mem_map_of_mem hg
    rw [hl] at this
    obtain ⟨l, hlm, hle⟩ := List.mem_map.mp this
    have hxl := hx l hlm
    simp only [astep, ← hle]
    have : ¬ l < x := by omega
    simp [this]
  have hall : ((gs.map some).map (fun g => astep g (.decrease x))).all (·.2) = true := by
    simp only [List.map_map, List.all_map, List.all_eq_true]
    intro g hg
    simp [Function.comp, hstep g hg]
  unfold astepMany
  simp only [hall, if_true, true_and]
  simp only [List.map_map]
  apply List.map_congr_left
  intro g hg
  simp [Function.comp, hstep g hg]

example : (astepMany [some { limit := some 4, allow := [1] }, some { limit := some 4, allow := [1] }] (.decrease 3)).1
    = [some { limit := some 1, allow := [1] }, some { limit := some 1, allow := [1] }] := by decide

/-! ### what a call leaves behind on the Cosmos side -/

/-- the effect-level model refines the verdict-level one, in either order: same verdict, same affected account, same
    grant afterwards on success -/
theorem effects_refine_call (ord : Order) (c : Call) (g : Option Grant) :
    (match stakingCall c g with
     | .reject => (stakingEffects ord c g).ok = false
     | .ok d g' => stakingEffects ord c g = ⟨true, some (d, c.val, c.amt), g'⟩) := by
  unfold stakingCall stakingEffects
  simp only []
  cases hn : c.native
  · -- the message server fails: rejected either way
    simp only [Bool.not_false, if_true]
    by_cases h1 : (!(c.caller == c.delegator) && c.origin != c.delegator) = true
    · simp [h1]
    · simp only [h1]
      by_cases h2 : (c.caller == c.origin) = true
      · simp [h2]
      · simp only [h2]
        cases g with
        | none => simp
        | some gr =>
          simp only
          by_cases h3 : exceeds gr.limit c.amt = true
          · simp [h3]
          · simp only [h3]
            cases ord <;> cases ha : accept gr c.val c.amt <;> simp
  · simp only [Bool.not_true]
    by_cases h1 : (!(c.caller == c.delegator) && c.origin != c.delegator) = true
    · simp [h1]
    · simp only [h1]
      by_cases h2 : (c.caller == c.origin) = true
      · simp [h2]
      · simp only [h2]
        cases g with
        | none => simp
        | some gr =>
          simp only
          by_cases h3 : exceeds gr.limit c.amt = true
          · simp [h3]
          · simp only [h3]
            cases ord <;> cases ha : accept gr c.val c.amt <;> simp

/-- **a call that fails leaves nothing behind** when the authorization accepts before the message runs: no message
    was executed and the stored grant is what it was — whatever the calling contract does with the failure -/
theorem failed_call_leaves_nothing (c : Call) (g : Option Grant)
    (h : (stakingEffects .acceptFirst c g).ok = false) :
    (stakingEffects .acceptFirst c g).ran = none ∧ (stakingEffects .acceptFirst c g).grant = g := by
  unfold stakingEffects at h ⊢
  simp only [] at h ⊢
  by_cases h1 : (!(c.caller == c.delegator) && c.origin != c.delegator) = true
  · simp [h1]
  · simp only [h1] at h ⊢
    by_cases h2 : (c.caller == c.origin) = true
    · simp only [h2] at h ⊢
      cases hn : c.native <;> simp [hn] at h ⊢
    · simp only [h2] at h ⊢
      cases g with
      | none => simp
      | some gr =>
        simp only at h ⊢
        by_cases h3 : exceeds gr.limit c.amt = true
        · simp [h3]
        · simp only [h3] at h ⊢
          cases ha : accept gr c.val c.amt with
          | none => simp
          | some g' =>
            simp only [ha] at h ⊢
            cases hn : c.native <;> simp [hn] at h ⊢

/-- every message that runs is covered: by ownership (caller = signer) or by a grant that accepted it -/
theorem ran_implies_authorised (c : Call) (g : Option Grant) (m : Nat × Nat × Nat)
    (h : (stakingEffects .acceptFirst c g).ran = some m) :
    m = (c.delegator, c.val, c.amt) ∧
    (c.caller = c.origin ∨ ∃ gr g', g = some gr ∧ accept gr c.val c.amt = some g') := by
  unfold stakingEffects at h
  simp only [] at h
  split at h
  · simp at h
  · split at h
    · rename_i hco
      split at h
      · simp at h; simp_all
      · simp at h
    · split at h
      · simp at h
      · split at h
        · simp at h
        · split at h
          · simp at h
          · rename_i g' hacc
            split at h
            · simp at h; exact ⟨h.symm, Or.inr ⟨_, _, rfl, hacc⟩⟩
            · simp at h

/-- with Accept after the message the refusal comes too late: validator 2 is outside the grant, the call fails, and the
    delegation to validator 2 has been made all the same (the defect repaired by 5f6ffb7) -/
theorem accept_after_message_counterexample :
    let c : Call := { origin := 1, caller := 9, delegator := 1, val := 2, amt := 50 }
    let g : Option Grant := some { limit := some 3000, allow := [0] }
    stakingEffects .acceptAfter c g = ⟨false, some (1, 2, 50), g⟩ ∧
    stakingEffects .acceptFirst c g = ⟨false, none, g⟩ := by decide

/-- the four methods that spend by grant run their steps in the order of `Order.acceptFirst` (regenerated fact) -/
theorem staking_accepts_before_executing : Facts.stakingGrantSpendOrder =
    [("Delegate", "check; accept; run; update"), ("Undelegate", "check; accept; run; update"),
     ("Redelegate", "check; accept; run; update"), ("CancelUnbondingDelegation", "check; accept; run; update")] := by
  decide

example : (stakingEffects .acceptFirst { origin := 1, caller := 9, delegator := 1, val := 0, amt := 50 }
    (some { limit := some 3000, allow := [0] })) = ⟨true, some (1, 0, 50), some { limit := some 2950, allow := [0] }⟩ := by
  decide

end Haqq.Authz
