/-
  C01 — Deterministic state machine: replicas agree on every block.

  English statement (properties.jsonl):
    Two nodes that start from the same genesis and are fed the same sequence of blocks produce identical
    transaction results, validator updates and application hash after every block.  Nothing outside the block
    inputs (process-local caches, map iteration order, wall-clock time, construction order of the node) may
    influence committed state.

  What a theorem can carry here (level: partial).  Go's map iteration order, goroutine scheduling and the wall
  clock are runtime behaviour no model exhibits; what *is* logic is the canonicalisation the code performs to
  defeat them.  This file proves
    * `commit_sorted_canonical`: flushing the dirty accounts in sorted order gives a result that does not depend
      on the order in which the (map-backed) dirty set was enumerated — although the flush itself is order
      sensitive (`commit_order_matters`: new accounts take consecutive account numbers);
    * over the facts regenerated from the current source: StateDB.Commit iterates `sortedDirties()` and
      `SortedKeys()`; every `range` over a map in consensus code either feeds a sort or is one of the listed
      order-insensitive sites; `time.Now()` and `go` statements occur only at the listed non-state sites; the
      Begin/End-blocker and InitGenesis orders are duplicate-free lists over the same module set.
  The replica run (two independently constructed applications fed the same generated blocks) searches for what
  the facts cannot see.
-/
import HaqqModel.Prelude.Basic
import HaqqModel.Generated.Facts

namespace Haqq.C01

/-- the auth keeper as far as a flush can disturb it: account numbers are handed out in order of creation -/
structure AK where
  next : Nat
  num : Nat → Option Nat

/-- SetAccount for an address: a new account takes the next account number -/
def AK.touch (k : AK) (a : Nat) : AK :=
  match k.num a with
  | some _ => k
  | none => { next := k.next + 1, num := upd k.num a (some k.next) }

/-- flush the dirty addresses in the given order -/
def flush (k : AK) (order : List Nat) : AK := order.foldl AK.touch k

def le (a b : Nat) : Bool := decide (a ≤ b)

/-- `sortedDirties`: the enumeration of the dirty set, sorted -/
def sortedDirties (enumeration : List Nat) : List Nat := enumeration.mergeSort le

theorem sorted_canonical (l1 l2 : List Nat) (h : l1.Perm l2) : sortedDirties l1 = sortedDirties l2 := by
  unfold sortedDirties
  have htrans : ∀ a b c : Nat, le a b = true → le b c = true → le a c = true := by
    intro a b c; simp only [le, decide_eq_true_eq]; omega
  have htotal : ∀ a b : Nat, (le a b || le b a) = true := by
    intro a b; simp only [le, Bool.or_eq_true, decide_eq_true_eq]; omega
  apply List.Perm.eq_of_pairwise (le := fun a b => le a b = true)
  · intro a b _ _ hab hba
    simp only [le, decide_eq_true_eq] at hab hba; omega
  · exact List.pairwise_mergeSort htrans htotal l1
  · exact List.pairwise_mergeSort htrans htotal l2
  · exact ((List.mergeSort_perm l1 le).trans h).trans (List.mergeSort_perm l2 le).symm

/-- **the flush over the sorted dirty set does not depend on the enumeration order of the dirty map** -/
theorem commit_sorted_canonical (k : AK) (l1 l2 : List Nat) (h : l1.Perm l2) :
    flush k (sortedDirties l1) = flush k (sortedDirties l2) := by
  rw [sorted_canonical l1 l2 h]

/-- without the sort the flush is order sensitive: two new accounts swap their account numbers -/
theorem commit_order_matters :
    let k : AK := { next := 9, num := fun _ => none }
    (flush k [1, 2]).num 1 = some 9 ∧ (flush k [2, 1]).num 1 = some 10 ∧ [1, 2].Perm [2, 1] := by
  refine ⟨by simp [flush, AK.touch, upd], by simp [flush, AK.touch, upd], ?_⟩
  exact List.Perm.swap 2 1 []

/-! ### facts regenerated from the source -/

/-- map ranges whose body is order-insensitive, with the reason -/
def orderInsensitive : List String :=
  [ -- copies the map into a fresh map
    "app/app.go::GetMaccPerms::maccPerms",
    -- one-off v1.7.5 upgrade handler: the collected redeem messages are sorted before they are executed
    "app/upgrades/v1.7.5/handler.go::processAccount::storage" ]

def mapRangeOk (s : String × String) : Bool := s.2 == "sorted" || orderInsensitive.contains s.1

/-- time.Now() only feeds telemetry / logging -/
def timeNowAllowed : List (String × String) :=
  [("x/coinomics/keeper/abci.go", "Keeper.EndBlocker"), ("x/epochs/keeper/abci.go", "Keeper.BeginBlocker"),
   ("x/ucdao/module.go", "AppModule.InitGenesis")]

/-- goroutines: the TPS counter (touches no store), the v1.7.5 upgrade's collection workers (appends under a mutex —
    `upgrade_workers_serialised` — and results sorted before use), the tracing query's timeout watchdog (query path) -/
def goAllowed : List (String × String) :=
  [("app/app.go", "NewHaqq"), ("app/upgrades/v1.7.5/handler.go", "TurnOffLiquidVesting"),
   ("x/evm/keeper/grpc_query.go", "Keeper.traceTx")]

theorem packages_loaded : Facts.determinismPackagesLoaded = true := by decide

theorem commit_iterates_sorted :
    Facts.statedbCommitRangesSortedDirties = true ∧ Facts.statedbCommitRangesSortedKeys = true := by decide

theorem no_unsorted_map_range : Facts.mapRangeSites.all mapRangeOk = true := by decide

theorem no_wallclock_in_state : Facts.timeNowSites.all (fun s => timeNowAllowed.contains s) = true := by decide

/-- no calendar field (year, month, day, …) is read from a time value that is in the host's time zone: values built
    by `time.Unix*` / `time.Now` are, until `.UTC()` is applied; `ctx.BlockTime()` is UTC -/
theorem no_local_time_reads : Facts.localTimeReads = [] := by decide

/-- the only goroutines that collect results for consensus state (the v1.7.5 upgrade's workers) append to their
    shared slices under a mutex (before the repair 257c969 they did not, and the set of redeemed accounts depended on
    scheduling); the slices are sorted before use -/
theorem upgrade_workers_serialised : Facts.upgrade175WorkersLockAppends = true := by decide

theorem goroutines_listed : Facts.goStmtSites.all (fun s => goAllowed.contains s) = true := by decide

def nodup (l : List String) : Bool :=
  match l with
  | [] => true
  | x :: xs => !xs.contains x && nodup xs

def sameSet (a b : List String) : Bool := a.all (fun x => b.contains x) && b.all (fun x => a.contains x)

/-- the three module orders are duplicate-free and range over one and the same module set -/
theorem orders_wellformed :
    nodup Facts.appOrderBeginBlockers = true ∧ nodup Facts.appOrderEndBlockers = true ∧
    nodup Facts.appOrderInitGenesis = true ∧
    sameSet Facts.appOrderBeginBlockers Facts.appOrderEndBlockers = true ∧
    sameSet Facts.appOrderBeginBlockers Facts.appOrderInitGenesis = true := by decide

end Haqq.C01
