/-
  C10 — ERC20 <-> coin conversion keeps a 1:1 backed peg.

  English statement (properties.jsonl):
    For every registered token pair the circulating representation is always fully backed: for a coin-origin pair
    the ERC20 total supply never exceeds the coins escrowed in the module account (and equals them unless holders
    burn their own tokens), and for an ERC20-origin pair the coin supply never exceeds the tokens escrowed by the
    module.  Each conversion … debits one representation and credits the other by exactly the same amount or
    fails without effect, even against token contracts that misreport balances or emit unexpected events.

  Theorems over `Model/Peg.lean` (honest token contract):
    * `step_backed`, `run_backed`: every history of conversions both ways, ERC20 transfers (with the hook),
      holder burns, owner mints and toggles keeps the backing (in)equation;
    * `coin_origin_exact`: without holder burns a coin-origin pair's token supply *equals* the escrow;
    * `convert_exact`: an accepted conversion debits one representation and credits the other by the same amount;
      a refused one changes nothing (`step_refused`).
  Adversarial token contracts are outside the honest model; what the code does against them is decided by the
  correspondence run on the real application (the repository's malicious test tokens and a hand-assembled
  log-forging token), and `forged_log_counterexample` records on the model what a forged Transfer log does to an
  ERC20-origin pair (known finding F-C10-a: the hook trusts logs).
-/
import HaqqModel.Model.Peg

namespace Haqq.Peg

theorem step_refused (p : Pair) (op : Op) (h : (step p op).2 = false) : (step p op).1 = p := by
  cases op <;> simp only [step] at h ⊢ <;> (repeat' split at h) <;> (repeat' split) <;> simp_all

/-- a conversion by an account that holds no coins of the denomination named — which is what a MsgConvertCoin naming the
    pair by its contract address is: nobody holds coins of such a "denomination" — is refused and changes nothing -/
theorem convertCoin_without_coins_refused (p : Pair) (s r x : Nat) (h : p.coinBal s = 0) :
    step p (.convertCoin s r x) = (p, false) := by
  simp only [step]
  split
  · rfl
  · rename_i hc
    exfalso; apply hc
    by_cases hx : x = 0
    · simp [hx]
    · have : p.coinBal s < x := by omega
      simp [this]

theorem step_backed (p : Pair) (op : Op) (h : Backed p) : Backed (step p op).1 := by
  unfold Backed at *
  cases op with
  | convertCoin s r x =>
    simp only [step]
    split
    · exact h
    · rename_i hc
      have hr : r ≠ modAddr := by intro e; apply hc; simp [e]
      have hs : s ≠ modAddr := by intro e; apply hc; simp [e]
      cases he : p.external
      · simp only [he, Bool.not_false, if_true, Bool.false_eq_true, if_false] at h ⊢; omega
      · simp only [he, Bool.not_true, Bool.false_eq_true, if_false, if_true] at h ⊢
        split
        · simp only [he, if_true]; exact h
        · rename_i hlt
          simp only [he, if_true, upd_other _ _ _ _ (Ne.symm hr), upd_same]
          omega
  | convertERC20 s r x =>
    simp only [step]
    split
    · exact h
    · rename_i hc
      have hs : s ≠ modAddr := by intro e; apply hc; simp [e]
      cases he : p.external
      · simp only [he, Bool.not_false, if_true, Bool.false_eq_true, if_false] at h ⊢
        split
        · simp only [he, Bool.false_eq_true, if_false]; exact h
        · simp only [he, Bool.false_eq_true, if_false]; omega
      · simp only [he, Bool.not_true, Bool.false_eq_true, if_false, if_true] at h ⊢
        rw [upd_same, upd_other _ _ _ _ (Ne.symm hs)]
        omega
  | transfer f t x =>
    simp only [step]
    split
    · exact h
    · rename_i hc
      have hf : f ≠ modAddr := by intro e; apply hc; simp [e]
      split
      · rename_i ht
        -- a plain transfer between users
        cases he : p.external
        · simp only [he, Bool.false_eq_true, if_false] at h ⊢; exact h
        · simp only [he, if_true] at h ⊢
          rw [upd_other _ _ _ _ (Ne.symm ht), upd_other _ _ _ _ (Ne.symm hf)]
          exact h
      · split
        · -- disabled pair: tokens sit in the module
          cases he : p.external
          · simp only [he, Bool.false_eq_true, if_false] at h ⊢; exact h
          · simp only [he, if_true] at h ⊢
            rw [upd_same, upd_other _ _ _ _ (Ne.symm hf)]; omega
        · cases he : p.external
          · simp only [he, Bool.not_false, if_true, Bool.false_eq_true, if_false] at h ⊢
            split
            · simp only [he, Bool.false_eq_true, if_false]; exact h
            · simp only [he, Bool.false_eq_true, if_false]; omega
          · simp only [he, Bool.not_true, Bool.false_eq_true, if_false, if_true] at h ⊢
            rw [upd_same, upd_other _ _ _ _ (Ne.symm hf)]; omega
  | burnOwn f x =>
    simp only [step]
    split
    · exact h
    · rename_i hc
      have hf : f ≠ modAddr := by intro e; apply hc; simp [e]
      cases he : p.external
      · simp only [he, Bool.false_eq_true, if_false] at h ⊢; omega
      · simp only [he, if_true] at h ⊢
        rw [upd_other _ _ _ _ (Ne.symm hf)]; exact h
  | mintExt r x =>
    simp only [step]
    split
    · exact h
    · rename_i hc
      have hr : r ≠ modAddr := by intro e; apply hc; simp [e]
      have he : p.external = true := by
        cases hx : p.external
        · exfalso; apply hc; simp [hx]
        · rfl
      simp only [he, if_true] at h ⊢
      rw [upd_other _ _ _ _ (Ne.symm hr)]; exact h
  | toggle => simp only [step]; exact h

/-- **fully backed after every history** of conversions, transfers, burns, mints and toggles -/
theorem run_backed (ops : List Op) : ∀ p, Backed p → Backed (ops.foldl (fun q op => (step q op).1) p) := by
  induction ops with
  | nil => intro p h; exact h
  | cons op rest ih => intro p h; exact ih _ (step_backed p op h)

/-- the bank-send wrapper keeps the backing too -/
theorem send_backed (p : Pair) (f t x : Nat) (h : Backed p) : Backed (sendStep p f t x).1 := by
  unfold sendStep
  split
  · exact h
  · split
    · split
      · exact h
      · unfold Backed at *; exact h
    · split
      · exact h
      · have h1 : Backed (if p.coinBal f = 0 then (p, true) else step p (.convertCoin f f (p.coinBal f))).1 := by
          split
          · exact h
          · exact step_backed p _ h
        generalize (if p.coinBal f = 0 then (p, true) else step p (.convertCoin f f (p.coinBal f))) = r1 at h1 ⊢
        simp only
        split
        · exact h
        · split
          · exact step_backed _ _ h1
          · exact h

def isBurn : Op → Bool
  | .burnOwn _ _ => true
  | _ => false

/-- a coin-origin pair is backed *exactly* as long as no holder burns its own tokens -/
theorem coin_origin_exact (ops : List Op) (hnb : ops.all (fun op => !isBurn op) = true) :
    ∀ p, p.external = false → p.tokSupply = p.escrow →
      (ops.foldl (fun q op => (step q op).1) p).tokSupply = (ops.foldl (fun q op => (step q op).1) p).escrow ∧
      (ops.foldl (fun q op => (step q op).1) p).external = false := by
  induction ops with
  | nil => intro p he h; exact ⟨h, he⟩
  | cons op rest ih =>
    intro p he h
    simp only [List.all_cons, Bool.and_eq_true] at hnb
    have hstep : (step p op).1.external = false ∧ (step p op).1.tokSupply = (step p op).1.escrow := by
      cases op with
      | convertCoin s r x => simp only [step]; split <;> simp_all
      | convertERC20 s r x =>
        simp only [step]; split
        · simp_all
        · simp only [he, Bool.not_false, if_true]; split <;> simp_all
      | transfer f t x =>
        simp only [step]; split
        · simp_all
        · split
          · simp_all
          · split
            · simp_all
            · simp only [he, Bool.not_false, if_true]; split <;> simp_all
      | burnOwn f x => simp [isBurn] at hnb
      | mintExt r x => simp only [step]; split <;> simp_all
      | toggle => simp_all [step]
    exact ih hnb.2 _ hstep.1 hstep.2

/-- an accepted message conversion moves the same amount on both sides -/
theorem convert_exact (p : Pair) (s r x : Nat) (h : (step p (.convertCoin s r x)).2 = true) :
    (step p (.convertCoin s r x)).1.coinBal s + x = p.coinBal s ∧
    (step p (.convertCoin s r x)).1.tokBal r = p.tokBal r + x := by
  simp only [step] at h ⊢
  by_cases hc : (!p.enabled) = true ∨ x = 0 ∨ s = modAddr ∨ r = modAddr ∨ p.coinBal s < x
  · rw [if_pos hc] at h; simp at h
  · rw [if_neg hc] at h ⊢
    have hr : r ≠ 0 := by intro e; apply hc; simp [e, modAddr]
    have hle : x ≤ p.coinBal s := by
      by_cases hlt : p.coinBal s < x
      · exfalso; apply hc; simp [hlt]
      · omega
    cases he : p.external
    · simp only [he, Bool.not_false, if_true, upd_same] at h ⊢
      constructor <;> omega
    · simp only [he, Bool.not_true, Bool.false_eq_true, if_false] at h ⊢
      by_cases hlt : p.tokBal modAddr < x
      · rw [if_pos hlt] at h; simp at h
      · rw [if_neg hlt]
        simp only [upd_same, modAddr]
        rw [upd_other _ _ _ _ hr]
        omega

/-- F-C10-a on the model: an ERC20-origin pair whose token contract forges a `Transfer(from, module, 500)` log:
    the hook mints 500 coins although the module's token balance did not move — the coin supply is no longer
    backed -/
theorem forged_log_counterexample :
    let p : Pair := { external := true, enabled := true, escrow := 0, coinSupply := 100, coinBal := fun _ => 0,
                      tokSupply := 1000, tokBal := fun a => if a = 0 then 100 else 0 }
    Backed p ∧ ¬ Backed (forgedLog p 7 500) := by
  simp [Backed, forgedLog, modAddr]

/-- the second recorded finding on the model: a holder of a token whose `transfer` approves a third address on the
    recipient sends 200 tokens to the module address; the hook (which, unlike the message path, does not look for
    Approval events) mints 200 coins; the approved address empties the escrow — 200 coins are backed by nothing -/
theorem hook_ignores_approvals_counterexample :
    let p : Pair := { external := true, enabled := true, escrow := 0, coinSupply := 0, coinBal := fun _ => 0,
                      tokSupply := 1000, tokBal := fun a => if a = 1 then 1000 else 0 }
    let q := (step p (.transfer 1 modAddr 200)).1
    Backed p ∧ Backed q ∧ q.coinSupply = 200 ∧ ¬ Backed (drainEscrow q 9 200) := by
  simp [Backed, step, drainEscrow, modAddr, upd]

example : Backed { external := false, enabled := true, escrow := 5, coinSupply := 9, coinBal := fun _ => 3,
                   tokSupply := 5, tokBal := fun _ => 1 } := by simp [Backed]

end Haqq.Peg
