/-
  C02 — EVM balances and bank balances never diverge; no coin is created or destroyed by the StateDB.

  English statement (properties.jsonl):
    EVM-visible balance changes reconcile exactly with the bank module: value transfers, precompile-driven bank
    movements and the StateDB's commit never create or destroy coins except by explicit mint and burn, and
    after every transaction the bank balance of each account equals what the EVM reported.

  Formalisation over the StateDB/keeper model (`Model/StateDB.lean`).  The keeper's `SetBalance` mints or
  burns the difference between the cached and the bank balance, so conservation is a statement about when that
  difference is zero in total:
    * `commit_accounting`: Commit changes the supply by exactly the sum of the balance changes it writes
      (no hypothesis: the mint/burn book-keeping itself is exact).
    * `commit_writes_view`: after Commit the bank balance of every account is what the EVM saw.
    * `sync_spec`: after `SyncBalances` the EVM sees the bank's balance of every account.
    * `evm_tx_conserves`: for every sequence of value transfers, storage / nonce writes, precompile queries
      (Commit) and stateful precompile calls (Commit, a Cosmos message moving coins of *arbitrary* accounts,
      SyncBalances), the final Commit leaves the supply unchanged and every bank balance equal to the EVM's view.
    * `precompiles_sync`: regenerated facts — every coin-moving precompile method has that shape.
    * `unsynced_counterexample` / `synced_same_history`: the defects this property exposed before the repair
      (delegation of a dirty origin's coins by grant; staking rewards paid out during a delegation; rewards paid
      to a withdraw address other than the caller): a bank movement under a cached object without the sync is
      overwritten by the final Commit (coins minted or burned); with the sync it is not.
-/
import HaqqModel.Model.StateDB
import HaqqModel.Props.C05
import HaqqModel.Generated.Facts

namespace Haqq.SDB

/-- the balance the EVM sees (GetBalance) -/
def view (db : DB) (a : Nat) : Nat :=
  match db.get a with
  | some o => o.bal
  | none => 0

/-! ### Commit: exact mint/burn accounting -/

theorem setBalance_acct (k : Keeper) (a v N : Nat) (h : a < N) :
    (k.setBalance a v).supply + (sumTo k.bal N : Int) = k.supply + (sumTo (k.setBalance a v).bal N : Int) := by
  have := sumTo_upd k.bal a v N h
  simp only [Keeper.setBalance]
  omega

theorem keysFold_same (o : Obj) (a : Nat) (keys : List Nat) : ∀ k : Keeper,
    (keys.foldl (writeSlot o a) k).bal = k.bal ∧
    (keys.foldl (writeSlot o a) k).supply = k.supply ∧
    (keys.foldl (writeSlot o a) k).exist = k.exist := by
  induction keys with
  | nil => intro k; exact ⟨rfl, rfl, rfl⟩
  | cons x xs ih =>
    intro k
    simp only [List.foldl_cons]
    obtain ⟨h1, h2, h3⟩ := ih (writeSlot o a k x)
    rw [h1, h2, h3]
    unfold writeSlot
    split <;> exact ⟨rfl, rfl, rfl⟩

theorem commitOne_acct (db : DB) (k : Keeper) (a N : Nat) (keys : List Nat) (h : a < N) :
    (commitOne db k a keys).supply + (sumTo k.bal N : Int) = k.supply + (sumTo (commitOne db k a keys).bal N : Int) := by
  unfold commitOne
  cases ho : db.objs a with
  | none => simp
  | some o =>
    simp only
    by_cases hs : o.suicided = true
    · simp only [hs, if_true]
      by_cases he : k.exist a = true
      · simp only [he, if_true]
        exact setBalance_acct k a 0 N h
      · simp [he]
    · simp only [hs, Bool.false_eq_true, if_false]
      obtain ⟨hb, hsup, _⟩ := keysFold_same o a keys
        { k.setBalance a o.bal with exist := upd (k.setBalance a o.bal).exist a true,
                                     nonce := upd (k.setBalance a o.bal).nonce a o.nonce }
      rw [hb, hsup]
      exact setBalance_acct k a o.bal N h

theorem commitOne_bal_other (db : DB) (k : Keeper) (a b : Nat) (keys : List Nat) (h : b ≠ a) :
    (commitOne db k a keys).bal b = k.bal b ∧ (commitOne db k a keys).exist b = k.exist b := by
  unfold commitOne
  cases ho : db.objs a with
  | none => simp
  | some o =>
    simp only
    by_cases hs : o.suicided = true
    · simp only [hs, if_true]
      by_cases he : k.exist a = true
      · simp [he, Keeper.setBalance, h]
      · simp [he]
    · simp only [hs, Bool.false_eq_true, if_false]
      obtain ⟨hb, _, hex⟩ := keysFold_same o a keys
        { k.setBalance a o.bal with exist := upd (k.setBalance a o.bal).exist a true,
                                     nonce := upd (k.setBalance a o.bal).nonce a o.nonce }
      rw [hb, hex]
      simp [Keeper.setBalance, h]

theorem commitOne_bal_self (db : DB) (k : Keeper) (a : Nat) (keys : List Nat) (o : Obj)
    (ho : db.objs a = some o) (hs : o.suicided = false) :
    (commitOne db k a keys).bal a = o.bal ∧ (commitOne db k a keys).exist a = true := by
  unfold commitOne
  simp only [ho, hs, Bool.false_eq_true, if_false]
  obtain ⟨hb, _, hex⟩ := keysFold_same o a keys
    { k.setBalance a o.bal with exist := upd (k.setBalance a o.bal).exist a true,
                                 nonce := upd (k.setBalance a o.bal).nonce a o.nonce }
  rw [hb, hex]
  simp [Keeper.setBalance]

/-- the keeper after committing the dirty addresses below `n` -/
def cfold (db : DB) (keys : List Nat) (n : Nat) : Keeper :=
  (List.range n).foldl (fun k a => if db.dirties a > 0 then commitOne db k a keys else k) db.k

theorem cfold_succ (db : DB) (keys : List Nat) (n : Nat) :
    cfold db keys (n + 1) = if db.dirties n > 0 then commitOne db (cfold db keys n) n keys else cfold db keys n := by
  simp [cfold, List.range_succ, List.foldl_append]

theorem commit_k (db : DB) (keys : List Nat) (N : Nat) : (commit db (List.range N) keys).k = cfold db keys N := rfl

theorem cfold_acct (db : DB) (keys : List Nat) (N : Nat) : ∀ n, n ≤ N →
    (cfold db keys n).supply + (sumTo db.k.bal N : Int) = db.k.supply + (sumTo (cfold db keys n).bal N : Int) := by
  intro n
  induction n with
  | zero => intro _; simp [cfold]
  | succ m ih =>
    intro hm
    have h1 := ih (by omega)
    rw [cfold_succ]
    split
    · have h2 := commitOne_acct db (cfold db keys m) m N keys (by omega)
      omega
    · exact h1

/-- **Commit books every balance it writes**: the supply changes by exactly the sum of the balance changes -/
theorem commit_accounting (db : DB) (keys : List Nat) (N : Nat) :
    (commit db (List.range N) keys).k.supply + (sumTo db.k.bal N : Int)
      = db.k.supply + (sumTo (commit db (List.range N) keys).k.bal N : Int) := by
  rw [commit_k]; exact cfold_acct db keys N N (Nat.le_refl N)

/-! ### the coherence invariant between the cache and the bank -/

structure Good (db : DB) (N : Nat) : Prop where
  /-- an address without an account holds no coins -/
  wf : ∀ a, db.k.exist a = false → db.k.bal a = 0
  /-- an address the journal has not touched shows its bank balance -/
  coh : ∀ a, db.dirties a = 0 → view db a = db.k.bal a
  /-- a dirty address is cached -/
  dc : ∀ a, 0 < db.dirties a → db.objs a ≠ none
  /-- no self-destructed object (SELFDESTRUCT burns explicitly and is outside this theorem) -/
  ns : ∀ a o, db.objs a = some o → o.suicided = false
  /-- every touched address is inside the universe `[0, N)` -/
  bd : ∀ a, N ≤ a → db.dirties a = 0

theorem good_new (k : Keeper) (N : Nat) (hwf : ∀ a, k.exist a = false → k.bal a = 0) : Good (DB.new k) N := by
  refine ⟨hwf, ?_, ?_, ?_, ?_⟩
  · intro a _
    simp only [view, DB.get, DB.new]
    by_cases he : k.exist a = true
    · simp [he]
    · have : k.exist a = false := by simpa using he
      simp [this, hwf a this]
  · intro a h; simp [DB.new] at h
  · intro a o h; simp [DB.new] at h
  · intro a _; rfl

theorem cfold_bal (db : DB) (keys : List Nat) (N : Nat) (hg : Good db N) : ∀ n b,
    (cfold db keys n).bal b = (if b < n ∧ 0 < db.dirties b then view db b else db.k.bal b) ∧
    (cfold db keys n).exist b = (if b < n ∧ 0 < db.dirties b then true else db.k.exist b) := by
  intro n
  induction n with
  | zero => intro b; simp [cfold]
  | succ m ih =>
    intro b
    rw [cfold_succ]
    by_cases hd : db.dirties m > 0
    · simp only [hd, if_true]
      by_cases hb : b = m
      · subst hb
        have hc := hg.dc b hd
        cases ho : db.objs b with
        | none => exact absurd ho hc
        | some o =>
          have hs := hg.ns b o ho
          obtain ⟨h1, h2⟩ := commitOne_bal_self db (cfold db keys b) b keys o ho hs
          have hv : view db b = o.bal := by simp [view, DB.get, ho]
          have hlt : b < b + 1 ∧ 0 < db.dirties b := ⟨by omega, hd⟩
          simp [h1, h2, hv, hlt]
      · obtain ⟨h1, h2⟩ := commitOne_bal_other db (cfold db keys m) m b keys hb
        rw [h1, h2]
        obtain ⟨i1, i2⟩ := ih b
        rw [i1, i2]
        have : (b < m + 1 ∧ 0 < db.dirties b) ↔ (b < m ∧ 0 < db.dirties b) := by
          constructor
          · intro ⟨x, y⟩; exact ⟨by omega, y⟩
          · intro ⟨x, y⟩; exact ⟨by omega, y⟩
        simp [this]
    · simp only [hd, if_false]
      obtain ⟨i1, i2⟩ := ih b
      rw [i1, i2]
      have : (b < m + 1 ∧ 0 < db.dirties b) ↔ (b < m ∧ 0 < db.dirties b) := by
        constructor
        · intro ⟨x, y⟩
          refine ⟨?_, y⟩
          by_cases hbm : b = m
          · subst hbm; exact absurd y hd
          · omega
        · intro ⟨x, y⟩; exact ⟨by omega, y⟩
      simp [this]

/-- **after Commit the bank shows what the EVM saw** -/
theorem commit_writes_view (db : DB) (keys : List Nat) (N : Nat) (hg : Good db N) (a : Nat) (ha : a < N) :
    (commit db (List.range N) keys).k.bal a = view db a := by
  rw [commit_k, (cfold_bal db keys N hg N a).1]
  by_cases hd : 0 < db.dirties a
  · simp [ha, hd]
  · have h0 : db.dirties a = 0 := by omega
    simp [hd, hg.coh a h0]

theorem commit_bal_outside (db : DB) (keys : List Nat) (N : Nat) (hg : Good db N) (a : Nat) (ha : N ≤ a) :
    (commit db (List.range N) keys).k.bal a = db.k.bal a ∧ (commit db (List.range N) keys).k.exist a = db.k.exist a := by
  rw [commit_k]
  obtain ⟨h1, h2⟩ := cfold_bal db keys N hg N a
  rw [h1, h2]
  have : ¬ (a < N ∧ 0 < db.dirties a) := by intro ⟨x, _⟩; omega
  simp [this]

/-- the sum of the balances the EVM sees in the universe -/
def T (db : DB) (N : Nat) : Nat := sumTo (view db) N
/-- the sum of the bank balances in the universe -/
def B (db : DB) (N : Nat) : Nat := sumTo db.k.bal N

theorem commit_supply (db : DB) (keys : List Nat) (N : Nat) (hg : Good db N) :
    (commit db (List.range N) keys).k.supply = db.k.supply + (T db N : Int) - (B db N : Int) := by
  have h := commit_accounting db keys N
  have : sumTo (commit db (List.range N) keys).k.bal N = sumTo (view db) N :=
    sumTo_congr _ _ N (fun i hi => commit_writes_view db keys N hg i hi)
  rw [this] at h
  simp only [T, B]
  omega

/-- Commit changes a cached object only in what it remembers as committed storage -/
theorem commit_objs (db : DB) (addrs keys : List Nat) (a : Nat) :
    (commit db addrs keys).objs a = db.objs a ∨
    (commit db addrs keys).objs a = (db.objs a).map (fun o => flushObj o keys) := by
  simp only [commit]
  split
  · right; rfl
  · left; rfl

theorem flushObj_same (o : Obj) (keys : List Nat) :
    (flushObj o keys).bal = o.bal ∧ (flushObj o keys).suicided = o.suicided ∧ (flushObj o keys).nonce = o.nonce ∧
    (flushObj o keys).stor = o.stor := by
  unfold flushObj; split <;> exact ⟨rfl, rfl, rfl, rfl⟩

theorem commit_objs_none (db : DB) (addrs keys : List Nat) (a : Nat) :
    (commit db addrs keys).objs a = none ↔ db.objs a = none := by
  rcases commit_objs db addrs keys a with h | h <;> rw [h]
  cases db.objs a <;> simp

theorem commit_objs_some (db : DB) (addrs keys : List Nat) (a : Nat) (o' : Obj)
    (h' : (commit db addrs keys).objs a = some o') :
    ∃ o, db.objs a = some o ∧ o'.bal = o.bal ∧ o'.suicided = o.suicided := by
  rcases commit_objs db addrs keys a with h | h <;> rw [h] at h'
  · exact ⟨o', h', rfl, rfl⟩
  · cases ho : db.objs a with
    | none => rw [ho] at h'; simp at h'
    | some o =>
      rw [ho] at h'
      simp only [Option.map_some, Option.some.injEq] at h'
      obtain ⟨h1, h2, _, _⟩ := flushObj_same o keys
      exact ⟨o, rfl, by rw [← h', h1], by rw [← h', h2]⟩

theorem view_commit (db : DB) (keys : List Nat) (N : Nat) (hg : Good db N) :
    view (commit db (List.range N) keys) = view db := by
  funext a
  simp only [view, DB.get]
  cases ho : db.objs a with
  | some o =>
    rcases commit_objs db (List.range N) keys a with h | h <;> rw [h, ho]
    simp only [Option.map_some]
    rw [(flushObj_same o keys).1]
  | none =>
    rw [(commit_objs_none db (List.range N) keys a).2 ho]
    simp only
    have hd : db.dirties a = 0 := by
      by_cases h : 0 < db.dirties a
      · exact absurd ho (hg.dc a h)
      · omega
    rw [commit_k]
    obtain ⟨h1, h2⟩ := cfold_bal db keys N hg N a
    have : ¬ (a < N ∧ 0 < db.dirties a) := by intro ⟨_, y⟩; omega
    rw [h1, h2]
    simp only [this, if_false]
    -- nonce / store of an uncached, clean address are not read by `view`
    by_cases he : db.k.exist a = true <;> simp [he]

theorem good_commit (db : DB) (keys : List Nat) (N : Nat) (hg : Good db N) :
    Good (commit db (List.range N) keys) N := by
  have hv := view_commit db keys N hg
  refine ⟨?_, ?_, ?_, ?_, hg.bd⟩
  rotate_left 2
  · intro a hd hn
    exact hg.dc a hd ((commit_objs_none db (List.range N) keys a).1 hn)
  · intro a o' ho'
    obtain ⟨o, ho, _, hs⟩ := commit_objs_some db (List.range N) keys a o' ho'
    rw [hs]; exact hg.ns a o ho
  · intro a he
    rw [commit_k] at he ⊢
    obtain ⟨h1, h2⟩ := cfold_bal db keys N hg N a
    rw [h2] at he
    rw [h1]
    by_cases hc : a < N ∧ 0 < db.dirties a
    · simp [hc] at he
    · simp only [hc, if_false] at he ⊢
      exact hg.wf a he
  · intro a hd
    have hd' : db.dirties a = 0 := hd
    rw [hv]
    rw [commit_k, (cfold_bal db keys N hg N a).1]
    have : ¬ (a < N ∧ 0 < db.dirties a) := by intro ⟨_, y⟩; omega
    simp only [this, if_false]
    exact hg.coh a hd'

/-! ### journaled writes -/

/-- `Good` except that the address `ex` may be clean and out of step with the bank (the moment between a
    precompile's bank movement and its mirroring AddBalance / SubBalance) -/
structure GoodEx (db : DB) (N : Nat) (ex : Nat) : Prop where
  wf : ∀ a, db.k.exist a = false → db.k.bal a = 0
  coh : ∀ a, a ≠ ex → db.dirties a = 0 → view db a = db.k.bal a
  dc : ∀ a, 0 < db.dirties a → db.objs a ≠ none
  ns : ∀ a o, db.objs a = some o → o.suicided = false
  bd : ∀ a, N ≤ a → db.dirties a = 0

theorem Good.toEx {db : DB} {N : Nat} (hg : Good db N) (ex : Nat) : GoodEx db N ex :=
  ⟨hg.wf, fun a _ h => hg.coh a h, hg.dc, hg.ns, hg.bd⟩

theorem load_get (db : DB) (a b : Nat) : (db.load a).get b = db.get b := by
  unfold DB.load
  cases ho : db.objs a with
  | some o => rfl
  | none =>
    simp only
    by_cases he : db.k.exist a = true
    · simp only [he, if_true, DB.get, upd]
      by_cases hb : b = a
      · subst hb; simp [ho, he]
      · simp only [hb, if_false]
    · simp only [he, Bool.false_eq_true, if_false]

theorem load_view (db : DB) (a : Nat) : view (db.load a) = view db := by
  funext b; simp only [view, load_get]

theorem load_k (db : DB) (a : Nat) : (db.load a).k = db.k ∧ (db.load a).dirties = db.dirties := by
  unfold DB.load
  cases db.objs a with
  | some o => exact ⟨rfl, rfl⟩
  | none => simp only; split <;> exact ⟨rfl, rfl⟩

theorem load_objs (db : DB) (a b : Nat) (o : Obj) (h : (db.load a).objs b = some o) :
    db.objs b = some o ∨ (o.suicided = false ∧ db.objs b = none) := by
  unfold DB.load at h
  cases ho : db.objs a with
  | some o1 => simp only [ho] at h; exact Or.inl h
  | none =>
    simp only [ho] at h
    by_cases he : db.k.exist a = true
    · simp only [he, if_true, upd] at h
      by_cases hb : b = a
      · simp only [hb, if_true, Option.some.injEq] at h
        right; rw [← h]; exact ⟨rfl, by rw [hb]; exact ho⟩
      · simp only [hb, if_false] at h; exact Or.inl h
    · simp only [he, Bool.false_eq_true, if_false] at h; exact Or.inl h

theorem load_objs_mono (db : DB) (a b : Nat) (h : db.objs b ≠ none) : (db.load a).objs b ≠ none := by
  unfold DB.load
  cases ho : db.objs a with
  | some o1 => exact h
  | none =>
    simp only
    by_cases he : db.k.exist a = true
    · simp only [he, if_true, upd]
      by_cases hb : b = a
      · simp [hb]
      · simp only [hb, if_false]; exact h
    · simp only [he, Bool.false_eq_true, if_false]; exact h

theorem goodEx_load (db : DB) (N ex a : Nat) (hg : GoodEx db N ex) : GoodEx (db.load a) N ex := by
  obtain ⟨hk, hd⟩ := load_k db a
  refine ⟨?_, ?_, ?_, ?_, ?_⟩
  · intro b hb; rw [hk] at hb ⊢; exact hg.wf b hb
  · intro b hbe hb; rw [hd] at hb; rw [load_view, hk]; exact hg.coh b hbe hb
  · intro b hb; rw [hd] at hb; exact load_objs_mono db a b (hg.dc b hb)
  · intro b o ho
    rcases load_objs db a b o ho with h | ⟨h, _⟩
    · exact hg.ns b o h
    · exact h
  · intro b hb; rw [hd]; exact hg.bd b hb

theorem good_load (db : DB) (N a : Nat) (hg : Good db N) : Good (db.load a) N := by
  obtain ⟨hk, hd⟩ := load_k db a
  refine ⟨?_, ?_, ?_, ?_, ?_⟩
  · intro b hb; rw [hk] at hb ⊢; exact hg.wf b hb
  · intro b hb; rw [hd] at hb; rw [load_view, hk]; exact hg.coh b hb
  · intro b hb; rw [hd] at hb; exact load_objs_mono db a b (hg.dc b hb)
  · intro b o ho
    rcases load_objs db a b o ho with h | ⟨h, _⟩
    · exact hg.ns b o h
    · exact h
  · intro b hb; rw [hd]; exact hg.bd b hb

/-- writing a non-destructed object for `a` through a journal entry that marks `a` dirty -/
theorem push_setObj_k (db : DB) (a : Nat) (e : Entry) (o' : Obj) : ((db.push e).setObj a o').k = db.k := by
  simp [DB.setObj, DB.push_def]

theorem good_setObj (db : DB) (N a : Nat) (e : Entry) (o' : Obj) (hg : GoodEx db N a) (ha : a < N)
    (he : e.dirtied = some a) (hs : o'.suicided = false) :
    Good ((db.push e).setObj a o') N ∧ view ((db.push e).setObj a o') = upd (view db) a o'.bal ∧
    ((db.push e).setObj a o').k = db.k := by
  have hk := push_setObj_k db a e o'
  have hget : ∀ b, ((db.push e).setObj a o').get b = if b = a then some o' else db.get b := by
    intro b
    simp only [DB.get, DB.setObj, DB.push_def, upd]
    by_cases hb : b = a
    · simp [hb]
    · simp only [hb, if_false]
      first | done | rfl | (cases hob : db.objs b <;> rfl)
  have hview : view ((db.push e).setObj a o') = upd (view db) a o'.bal := by
    funext b
    simp only [view, hget, upd]
    by_cases hb : b = a <;> simp [hb]
  have hdirt : ((db.push e).setObj a o').dirties = upd db.dirties a (db.dirties a + 1) := by
    simp [DB.setObj, DB.push_def, he]
  refine ⟨⟨by rw [hk]; exact hg.wf, ?_, ?_, ?_, ?_⟩, hview, hk⟩
  · intro b hb
    rw [hdirt] at hb
    have hba : b ≠ a := by
      intro h; subst h; simp at hb
    rw [upd_other _ _ _ _ hba] at hb
    rw [hview, upd_other _ _ _ _ hba, hk]
    exact hg.coh b hba hb
  · intro b hb
    rw [hdirt] at hb
    simp only [DB.setObj, DB.push_def, upd]
    by_cases hba : b = a
    · simp [hba]
    · rw [upd_other _ _ _ _ hba] at hb
      simp only [hba, if_false]
      exact hg.dc b hb
  · intro b ob hob
    simp only [DB.setObj, DB.push_def, upd] at hob
    by_cases hba : b = a
    · simp only [hba, if_true, Option.some.injEq] at hob
      rw [← hob]; exact hs
    · simp only [hba, if_false] at hob
      exact hg.ns b ob hob
  · intro b hb
    rw [hdirt]
    have hba : b ≠ a := by omega
    rw [upd_other _ _ _ _ hba]
    exact hg.bd b hb

theorem get_ns (db : DB) (N a ex : Nat) (o : Obj) (hg : GoodEx db N ex) (h : db.get a = some o) : o.suicided = false := by
  simp only [DB.get] at h
  cases ho : db.objs a with
  | some o1 =>
    simp only [ho, Option.some.injEq] at h
    rw [← h]; exact hg.ns a o1 ho
  | none =>
    simp only [ho] at h
    by_cases he : db.k.exist a = true
    · simp only [he, if_true, Option.some.injEq] at h
      rw [← h]
    · simp [he] at h

theorem view_of_get (db : DB) (a : Nat) (o : Obj) (h : db.get a = some o) : view db a = o.bal := by
  simp [view, h]

theorem view_of_none (db : DB) (a : Nat) (h : db.get a = none) : view db a = 0 := by
  simp [view, h]

/-- getOrNewStateObject keeps the invariant and the view -/
theorem good_ensure (db : DB) (N a : Nat) (hg : Good db N) (ha : a < N) :
    Good (ensure db a) N ∧ view (ensure db a) = view db ∧ (ensure db a).k = db.k ∧ ∃ o, (ensure db a).get a = some o := by
  have hgl := good_load db N a hg
  have hvl := load_view db a
  obtain ⟨hkl, _⟩ := load_k db a
  simp only [ensure, mstep, MOp.addr, mstepCore]
  cases hget : (db.load a).get a with
  | some o => exact ⟨hgl, hvl, hkl, o, hget⟩
  | none =>
    simp only
    obtain ⟨g, v, k⟩ := good_setObj (db.load a) N a (.create a) { bal := 0, nonce := 0, suicided := false, stor := (db.load a).k.store a, base := (db.load a).k.store a } (hgl.toEx a) ha rfl rfl
    refine ⟨g, ?_, k.trans hkl, ?_⟩
    · rw [v, ← hvl]
      exact upd_eq_self _ _ _ (view_of_none (db.load a) a hget)
    · refine ⟨{ bal := 0, nonce := 0, suicided := false, stor := (db.load a).k.store a, base := (db.load a).k.store a }, ?_⟩
      simp [DB.get, DB.setObj, DB.push_def]

theorem good_setBal (db : DB) (N a v : Nat) (hg : GoodEx db N a) (ha : a < N) (o : Obj) (h : db.get a = some o) :
    Good (mstep db (.setBal a v)) N ∧ view (mstep db (.setBal a v)) = upd (view db) a v ∧
    (mstep db (.setBal a v)).k = db.k := by
  have hgl := goodEx_load db N a a hg
  have hget : (db.load a).get a = some o := by rw [load_get]; exact h
  simp only [mstep, MOp.addr, mstepCore, hget]
  obtain ⟨g, vv, k⟩ := good_setObj (db.load a) N a (.balance a o.bal) { o with bal := v } hgl ha rfl (get_ns db N a a o hg h)
  exact ⟨g, by rw [vv, load_view], k.trans (load_k db a).1⟩

theorem good_addBalance (db : DB) (N a x : Nat) (hg : Good db N) (ha : a < N) :
    Good (addBalance db a x) N ∧ view (addBalance db a x) = upd (view db) a (view db a + x) ∧
    (addBalance db a x).k = db.k := by
  obtain ⟨g1, v1, k1, o, ho⟩ := good_ensure db N a hg ha
  unfold addBalance
  simp only
  by_cases hx : x = 0
  · simp only [hx, if_true, Nat.add_zero]
    exact ⟨g1, by rw [v1, upd_self], k1⟩
  · simp only [hx, if_false, ho]
    obtain ⟨g2, v2, k2⟩ := good_setBal (ensure db a) N a (o.bal + x) (g1.toEx a) ha o ho
    refine ⟨g2, ?_, k2.trans k1⟩
    rw [v2, v1]
    have : o.bal = view db a := by rw [← v1]; exact (view_of_get _ a o ho).symm
    rw [this]

theorem good_subBalance (db : DB) (N a x : Nat) (hg : Good db N) (ha : a < N) :
    Good (subBalance db a x) N ∧ view (subBalance db a x) = upd (view db) a (view db a - x) ∧
    (subBalance db a x).k = db.k := by
  obtain ⟨g1, v1, k1, o, ho⟩ := good_ensure db N a hg ha
  unfold subBalance
  simp only
  by_cases hx : x = 0
  · simp only [hx, if_true, Nat.sub_zero]
    exact ⟨g1, by rw [v1, upd_self], k1⟩
  · simp only [hx, if_false, ho]
    obtain ⟨g2, v2, k2⟩ := good_setBal (ensure db a) N a (o.bal - x) (g1.toEx a) ha o ho
    refine ⟨g2, ?_, k2.trans k1⟩
    rw [v2, v1]
    have : o.bal = view db a := by rw [← v1]; exact (view_of_get _ a o ho).symm
    rw [this]

theorem good_setNonce (db : DB) (N a v : Nat) (hg : Good db N) (ha : a < N) :
    Good (setNonce db a v) N ∧ view (setNonce db a v) = view db ∧ (setNonce db a v).k = db.k := by
  obtain ⟨g1, v1, k1, o, ho⟩ := good_ensure db N a hg ha
  have hget : ((ensure db a).load a).get a = some o := by rw [load_get]; exact ho
  simp only [setNonce, mstep, MOp.addr, mstepCore, hget]
  obtain ⟨g2, v2, k2⟩ := good_setObj ((ensure db a).load a) N a (.nonce a o.nonce) { o with nonce := v }
    ((good_load _ N a g1).toEx a) ha rfl (get_ns _ N a a o (g1.toEx a) ho)
  refine ⟨g2, ?_, (k2.trans (load_k _ a).1).trans k1⟩
  rw [v2, load_view, v1]
  exact upd_eq_self _ _ _ (by rw [← v1]; exact view_of_get _ a o ho)

theorem good_setState (db : DB) (N a key v : Nat) (hg : Good db N) (ha : a < N) :
    Good (setState db a key v) N ∧ view (setState db a key v) = view db ∧ (setState db a key v).k = db.k := by
  obtain ⟨g1, v1, k1, o, ho⟩ := good_ensure db N a hg ha
  have hget : ((ensure db a).load a).get a = some o := by rw [load_get]; exact ho
  simp only [setState, mstep, MOp.addr, mstepCore, hget]
  by_cases hv : o.stor key = v
  · simp only [hv, if_true]
    exact ⟨good_load _ N a g1, by rw [load_view, v1], (load_k _ a).1.trans k1⟩
  · simp only [hv, if_false]
    obtain ⟨g2, v2, k2⟩ := good_setObj ((ensure db a).load a) N a (.storage a key (o.stor key))
      { o with stor := upd o.stor key v } ((good_load _ N a g1).toEx a) ha rfl (get_ns _ N a a o (g1.toEx a) ho)
    refine ⟨g2, ?_, (k2.trans (load_k _ a).1).trans k1⟩
    rw [v2, load_view, v1]
    exact upd_eq_self _ _ _ (by rw [← v1]; exact view_of_get _ a o ho)

/-! ### a second invariant: which objects are cached -/

structure Good2 (db : DB) (N : Nat) : Prop where
  /-- every cached object is inside the universe -/
  cb : ∀ a, N ≤ a → db.objs a = none
  /-- a cached object the journal has not touched was loaded from an existing account -/
  ce : ∀ a o, db.objs a = some o → db.dirties a = 0 → db.k.exist a = true

theorem g2_new (k : Keeper) (N : Nat) : Good2 (DB.new k) N :=
  ⟨fun _ _ => rfl, fun a o h _ => by simp [DB.new] at h⟩

theorem g2_setObj (db : DB) (N a : Nat) (e : Entry) (o' : Obj) (h : Good2 db N) (ha : a < N) (he : e.dirtied = some a) :
    Good2 ((db.push e).setObj a o') N := by
  refine ⟨?_, ?_⟩
  · intro b hb
    have hba : b ≠ a := by omega
    simp only [DB.setObj, DB.push_def, upd, hba, if_false]
    exact h.cb b hb
  · intro b ob hob hd
    have hdirt : ((db.push e).setObj a o').dirties = upd db.dirties a (db.dirties a + 1) := by
      simp [DB.setObj, DB.push_def, he]
    rw [hdirt] at hd
    by_cases hba : b = a
    · subst hba; simp at hd
    · rw [upd_other _ _ _ _ hba] at hd
      simp only [DB.setObj, DB.push_def, upd, hba, if_false] at hob
      rw [push_setObj_k]
      exact h.ce b ob hob hd

theorem g2_load (db : DB) (N a : Nat) (h : Good2 db N) (ha : a < N) : Good2 (db.load a) N := by
  obtain ⟨hk, hd⟩ := load_k db a
  refine ⟨?_, ?_⟩
  · intro b hb
    have hba : b ≠ a := by omega
    unfold DB.load
    cases ho : db.objs a with
    | some o => exact h.cb b hb
    | none =>
      simp only
      split
      · simp only [upd, hba, if_false]; exact h.cb b hb
      · exact h.cb b hb
  · intro b ob hob hdb
    rw [hd] at hdb
    rw [hk]
    unfold DB.load at hob
    cases ho : db.objs a with
    | some o => simp only [ho] at hob; exact h.ce b ob hob hdb
    | none =>
      simp only [ho] at hob
      by_cases he : db.k.exist a = true
      · simp only [he, if_true, upd] at hob
        by_cases hba : b = a
        · rw [hba]; exact he
        · simp only [hba, if_false] at hob; exact h.ce b ob hob hdb
      · simp only [he, Bool.false_eq_true, if_false] at hob; exact h.ce b ob hob hdb

/-- every journalled operation on an address inside the universe keeps `Good2` -/
theorem g2_mstep (db : DB) (N : Nat) (op : MOp) (h : Good2 db N) (ha : ∀ a, op.addr = some a → a < N) :
    Good2 (mstep db op) N := by
  cases op with
  | create a =>
    have hl := g2_load db N a h (ha a rfl)
    simp only [mstep, MOp.addr, mstepCore]
    split
    · exact hl
    · exact g2_setObj _ N a _ _ hl (ha a rfl) rfl
  | setBal a v =>
    have hl := g2_load db N a h (ha a rfl)
    simp only [mstep, MOp.addr, mstepCore]
    split
    · exact g2_setObj _ N a _ _ hl (ha a rfl) rfl
    · exact hl
  | setNonce a v =>
    have hl := g2_load db N a h (ha a rfl)
    simp only [mstep, MOp.addr, mstepCore]
    split
    · exact g2_setObj _ N a _ _ hl (ha a rfl) rfl
    · exact hl
  | setState a k v =>
    have hl := g2_load db N a h (ha a rfl)
    simp only [mstep, MOp.addr, mstepCore]
    split
    · split
      · exact hl
      · exact g2_setObj _ N a _ _ hl (ha a rfl) rfl
    · exact hl
  | createAccount a =>
    have hl := g2_load db N a h (ha a rfl)
    simp only [mstep, MOp.addr, mstepCore]
    cases hget : (db.load a).get a with
    | none => exact g2_setObj _ N a _ _ hl (ha a rfl) rfl
    | some prev =>
      simp only
      have haN := ha a rfl
      refine ⟨?_, ?_⟩
      · intro b hb
        have hba : b ≠ a := by omega
        simp only [DB.setObj, DB.push_def, upd, hba, if_false]
        exact hl.cb b hb
      · intro b ob hob hd
        have hdirt : ((DB.push (db.load a) (.reset a prev)).setObj a
            { bal := prev.bal, nonce := 0, suicided := false, stor := (db.load a).k.store a, base := (db.load a).k.store a }).dirties = (db.load a).dirties := by
          simp [DB.setObj, DB.push_def, Entry.dirtied]
        rw [hdirt] at hd
        show (db.load a).k.exist b = true
        by_cases hba : b = a
        · subst hba
          -- the previous object was cached (load) and clean, hence belongs to an existing account
          simp only [DB.get] at hget
          cases hobj : (db.load b).objs b with
          | some o => exact hl.ce b o hobj hd
          | none =>
            simp only [hobj] at hget
            by_cases he : (db.load b).k.exist b = true
            · exact he
            · simp [he] at hget
        · simp only [DB.setObj, DB.push_def, upd, hba, if_false] at hob
          exact hl.ce b ob hob hd
  | setRefund v => exact ⟨h.cb, h.ce⟩
  | addLog => exact ⟨h.cb, h.ce⟩
  | suicide a =>
    have hl := g2_load db N a h (ha a rfl)
    simp only [mstep, MOp.addr, mstepCore]
    split
    · exact g2_setObj _ N a _ _ hl (ha a rfl) rfl
    · exact hl
  | accAddr a =>
    simp only [mstep, MOp.addr, mstepCore]
    split
    · exact h
    · exact ⟨h.cb, h.ce⟩
  | accSlot a k =>
    simp only [mstep, MOp.addr, mstepCore]
    split
    · exact h
    · exact ⟨h.cb, h.ce⟩

theorem g2_addBalance (db : DB) (N a x : Nat) (h : Good2 db N) (ha : a < N) : Good2 (addBalance db a x) N := by
  have h1 : Good2 (ensure db a) N := g2_mstep db N (.create a) h (by intro b hb; simp [MOp.addr] at hb; omega)
  unfold addBalance
  simp only
  split
  · exact h1
  · split
    · exact g2_mstep _ N _ h1 (by intro b hb; simp [MOp.addr] at hb; omega)
    · exact h1

theorem g2_subBalance (db : DB) (N a x : Nat) (h : Good2 db N) (ha : a < N) : Good2 (subBalance db a x) N := by
  have h1 : Good2 (ensure db a) N := g2_mstep db N (.create a) h (by intro b hb; simp [MOp.addr] at hb; omega)
  unfold subBalance
  simp only
  split
  · exact h1
  · split
    · exact g2_mstep _ N _ h1 (by intro b hb; simp [MOp.addr] at hb; omega)
    · exact h1

theorem g2_setNonce (db : DB) (N a v : Nat) (h : Good2 db N) (ha : a < N) : Good2 (setNonce db a v) N := by
  have h1 : Good2 (ensure db a) N := g2_mstep db N (.create a) h (by intro b hb; simp [MOp.addr] at hb; omega)
  exact g2_mstep _ N _ h1 (by intro b hb; simp [MOp.addr] at hb; omega)

theorem g2_setState (db : DB) (N a key v : Nat) (h : Good2 db N) (ha : a < N) : Good2 (setState db a key v) N := by
  have h1 : Good2 (ensure db a) N := g2_mstep db N (.create a) h (by intro b hb; simp [MOp.addr] at hb; omega)
  exact g2_mstep _ N _ h1 (by intro b hb; simp [MOp.addr] at hb; omega)

theorem g2_commit (db : DB) (keys : List Nat) (N : Nat) (hg : Good db N) (h : Good2 db N) :
    Good2 (commit db (List.range N) keys) N := by
  refine ⟨fun a ha => (commit_objs_none db (List.range N) keys a).2 (h.cb a ha), ?_⟩
  intro a o' ho' hd
  obtain ⟨o, ho, _, _⟩ := commit_objs_some db (List.range N) keys a o' ho'
  rw [commit_k, (cfold_bal db keys N hg N a).2]
  have hd' : db.dirties a = 0 := hd
  have : ¬ (a < N ∧ 0 < db.dirties a) := by intro ⟨_, y⟩; omega
  simp only [this, if_false]
  exact h.ce a o ho hd'

/-- after Commit every cached object belongs to an existing account -/
theorem commit_cached_exist (db : DB) (keys : List Nat) (N : Nat) (hg : Good db N) (h : Good2 db N) (a : Nat) (o : Obj)
    (ho : db.objs a = some o) : (commit db (List.range N) keys).k.exist a = true := by
  rw [commit_k, (cfold_bal db keys N hg N a).2]
  by_cases hd : 0 < db.dirties a
  · have ha : a < N := by
      by_cases hlt : a < N
      · exact hlt
      · have := h.cb a (by omega); rw [this] at ho; cases ho
    simp [ha, hd]
  · have hd0 : db.dirties a = 0 := by omega
    have : ¬ (a < N ∧ 0 < db.dirties a) := by intro ⟨_, y⟩; omega
    simp only [this, if_false]
    exact h.ce a o ho hd0

/-! ### SyncBalances -/

theorem syncOne_k (db : DB) (a : Nat) : (syncOne db a).k = db.k := by
  unfold syncOne
  cases db.objs a with
  | none => rfl
  | some o => simp only; split <;> (try split) <;> (try split) <;> rfl

/-- an object is in step with the bank -/
def Synced (db : DB) (a : Nat) : Prop := ∀ o, db.objs a = some o → o.bal = db.k.bal a

theorem syncOne_objs_other (db : DB) (a b : Nat) (h : b ≠ a) :
    (syncOne db a).objs b = db.objs b ∧ (syncOne db a).dirties b = db.dirties b := by
  unfold syncOne
  cases ho : db.objs a with
  | none => exact ⟨rfl, rfl⟩
  | some o =>
    simp only
    split
    · exact ⟨rfl, rfl⟩
    · split
      · exact ⟨rfl, rfl⟩
      · split
        · exact ⟨rfl, rfl⟩
        · simp [DB.setObj, DB.push_def, Entry.dirtied, upd, h]

theorem syncOne_self (db : DB) (a : Nat) (o : Obj) (ho : db.objs a = some o) (hs : o.suicided = false)
    (he : db.k.exist a = true) :
    (syncOne db a).objs a = some { o with bal := db.k.bal a } ∧
    (db.dirties a ≤ (syncOne db a).dirties a) := by
  unfold syncOne
  simp only [ho, hs, Bool.false_eq_true, if_false, he, Bool.true_eq_false]
  by_cases hb : o.bal = db.k.bal a
  · simp only [hb, if_true]
    refine ⟨?_, Nat.le_refl _⟩
    rw [ho]; congr 1; cases o; simp_all
  · simp only [hb, if_false]
    simp [DB.setObj, DB.push_def, Entry.dirtied]

/-- what the fold needs to carry -/
structure SyncInv (db0 db : DB) : Prop where
  k : db.k = db0.k
  some_iff : ∀ a, (db.objs a).isSome = (db0.objs a).isSome
  ns : ∀ a o, db.objs a = some o → o.suicided = false
  dirt : ∀ a, db0.dirties a ≤ db.dirties a
  dirt_cached : ∀ a, db0.dirties a < db.dirties a → (db0.objs a).isSome = true
  view_other : ∀ a o o0, db.objs a = some o → db0.objs a = some o0 → o.bal = o0.bal ∨ o.bal = db0.k.bal a

theorem syncOne_inv (db0 db : DB) (a : Nat) (h : SyncInv db0 db)
    (hex : ∀ b o, db0.objs b = some o → db0.k.exist b = true) :
    SyncInv db0 (syncOne db a) ∧ Synced (syncOne db a) a := by
  have hk := syncOne_k db a
  cases ho : db.objs a with
  | none =>
    have e : syncOne db a = db := by unfold syncOne; rw [ho]
    rw [e]
    exact ⟨h, by intro o h2; rw [ho] at h2; cases h2⟩
  | some o =>
    have hs := h.ns a o ho
    have hsome0 : (db0.objs a).isSome = true := by rw [← h.some_iff a, ho]; rfl
    obtain ⟨o0, ho0⟩ := Option.isSome_iff_exists.mp hsome0
    have he : db.k.exist a = true := by rw [h.k]; exact hex a o0 ho0
    obtain ⟨hself, hdirt⟩ := syncOne_self db a o ho hs he
    refine ⟨⟨hk.trans h.k, ?_, ?_, ?_, ?_, ?_⟩, ?_⟩
    · intro b
      by_cases hb : b = a
      · subst hb; rw [hself, ← h.some_iff b, ho]; rfl
      · rw [(syncOne_objs_other db a b hb).1]; exact h.some_iff b
    · intro b ob hob
      by_cases hb : b = a
      · subst hb; rw [hself] at hob; injection hob with hob; rw [← hob]; exact hs
      · rw [(syncOne_objs_other db a b hb).1] at hob; exact h.ns b ob hob
    · intro b
      by_cases hb : b = a
      · subst hb; exact Nat.le_trans (h.dirt b) hdirt
      · rw [(syncOne_objs_other db a b hb).2]; exact h.dirt b
    · intro b hlt
      by_cases hb : b = a
      · subst hb; exact hsome0
      · rw [(syncOne_objs_other db a b hb).2] at hlt; exact h.dirt_cached b hlt
    · intro b ob ob0 hob hob0
      by_cases hb : b = a
      · subst hb
        rw [hself] at hob; injection hob with hob
        right; rw [← hob, h.k]
      · rw [(syncOne_objs_other db a b hb).1] at hob
        exact h.view_other b ob ob0 hob hob0
    · intro o2 ho2
      rw [hself] at ho2; injection ho2 with ho2
      rw [← ho2, hk]

theorem syncOne_keeps_synced (db : DB) (a b : Nat) (h : Synced db b) (hne : b ≠ a) : Synced (syncOne db a) b := by
  intro o ho
  rw [(syncOne_objs_other db a b hne).1] at ho
  rw [syncOne_k]
  exact h o ho

theorem sync_fold (db0 : DB) (hex : ∀ b o, db0.objs b = some o → db0.k.exist b = true) (l : List Nat) :
    ∀ db, SyncInv db0 db → (∀ a, a ∈ l ∨ Synced db a → True) →
      SyncInv db0 (l.foldl syncOne db) ∧ (∀ a, (a ∈ l ∨ Synced db a) → Synced (l.foldl syncOne db) a) := by
  induction l with
  | nil =>
    intro db h _
    refine ⟨h, ?_⟩
    intro a ha
    rcases ha with h1 | h2
    · cases h1
    · exact h2
  | cons x xs ih =>
    intro db h _
    obtain ⟨h1, hsx⟩ := syncOne_inv db0 db x h hex
    obtain ⟨h2, hs2⟩ := ih (syncOne db x) h1 (fun _ _ => trivial)
    refine ⟨h2, ?_⟩
    intro a ha
    apply hs2 a
    rcases ha with hm | hsy
    · rcases List.mem_cons.mp hm with hax | hin
      · right; rw [hax]; exact hsx
      · left; exact hin
    · right
      by_cases hax : a = x
      · rw [hax]; exact hsx
      · exact syncOne_keeps_synced db x a hsy hax

theorem syncInv_refl (db : DB) (hns : ∀ a o, db.objs a = some o → o.suicided = false) : SyncInv db db :=
  ⟨rfl, fun _ => rfl, hns, fun _ => Nat.le_refl _, fun a h => absurd h (Nat.lt_irrefl _),
   fun a o o0 h1 h2 => by rw [h1] at h2; injection h2 with h2; left; rw [h2]⟩

/-- **after SyncBalances the EVM sees the bank's balance of every account**, and the invariants hold again -/
theorem sync_spec (db : DB) (N : Nat) (hwf : ∀ a, db.k.exist a = false → db.k.bal a = 0)
    (hdc : ∀ a, 0 < db.dirties a → db.objs a ≠ none) (hns : ∀ a o, db.objs a = some o → o.suicided = false)
    (hbd : ∀ a, N ≤ a → db.dirties a = 0) (hcb : ∀ a, N ≤ a → db.objs a = none)
    (hex : ∀ b o, db.objs b = some o → db.k.exist b = true) :
    (syncBalances db (List.range N)).k = db.k ∧
    (∀ a, view (syncBalances db (List.range N)) a = db.k.bal a) ∧
    Good (syncBalances db (List.range N)) N ∧ Good2 (syncBalances db (List.range N)) N := by
  obtain ⟨hi, hsy⟩ := sync_fold db hex (List.range N) db (syncInv_refl db hns) (fun _ _ => trivial)
  have hk : (syncBalances db (List.range N)).k = db.k := hi.k
  have hview : ∀ a, view (syncBalances db (List.range N)) a = db.k.bal a := by
    intro a
    simp only [view, DB.get]
    cases ho : (syncBalances db (List.range N)).objs a with
    | some o =>
      have hlt : a < N := by
        by_cases hlt : a < N
        · exact hlt
        · have h0 := hcb a (by omega)
          have := hi.some_iff a
          rw [show (List.foldl syncOne db (List.range N)) = syncBalances db (List.range N) from rfl, ho, h0] at this
          cases this
      have := hsy a (Or.inl (List.mem_range.mpr hlt)) o ho
      simp only; rw [this]; exact congrFun (congrArg Keeper.bal hk) a
    | none =>
      simp only
      rw [hk]
      by_cases he : db.k.exist a = true
      · simp [he]
      · have he' : db.k.exist a = false := by simpa using he
        simp [he', hwf a he']
  have hgood : Good (syncBalances db (List.range N)) N := by
    refine ⟨?_, ?_, ?_, hi.ns, ?_⟩
    · intro a ha; rw [hk] at ha ⊢; exact hwf a ha
    · intro a _; rw [hview a, hk]
    · intro a ha hnone
      have hsome := hi.some_iff a
      rw [show (List.foldl syncOne db (List.range N)) = syncBalances db (List.range N) from rfl, hnone] at hsome
      by_cases hd0 : 0 < db.dirties a
      · have := hdc a hd0
        cases hob : db.objs a with
        | none => exact this hob
        | some o => rw [hob] at hsome; cases hsome
      · have hlt : db.dirties a < (syncBalances db (List.range N)).dirties a := by omega
        have := hi.dirt_cached a hlt
        rw [← hsome] at this; cases this
    · intro a ha
      have h0 := hbd a ha
      by_cases hlt : db.dirties a < (syncBalances db (List.range N)).dirties a
      · have := hi.dirt_cached a hlt
        rw [hcb a ha] at this; cases this
      · have := hi.dirt a
        have : (List.foldl syncOne db (List.range N)).dirties a = (syncBalances db (List.range N)).dirties a := rfl
        omega
  refine ⟨hk, hview, hgood, ⟨?_, ?_⟩⟩
  · intro a ha
    have hsome := hi.some_iff a
    rw [hcb a ha] at hsome
    cases ho : (syncBalances db (List.range N)).objs a with
    | none => rfl
    | some o =>
      rw [show (List.foldl syncOne db (List.range N)) = syncBalances db (List.range N) from rfl, ho] at hsome
      cases hsome
  · intro a o ho _
    rw [hk]
    have hsome := hi.some_iff a
    rw [show (List.foldl syncOne db (List.range N)) = syncBalances db (List.range N) from rfl, ho] at hsome
    cases hob : db.objs a with
    | none => rw [hob] at hsome; cases hsome
    | some o0 => exact hex a o0 hob

/-! ### what an Ethereum transaction can do to balances -/

/-- a Cosmos-side credit / debit of `a` against an account outside the universe (staking pools,
    distribution module, IBC escrow): the supply does not change -/
def Keeper.credit (k : Keeper) (a x : Nat) : Keeper :=
  { k with bal := upd k.bal a (k.bal a + x), exist := upd k.exist a true }
def Keeper.debit (k : Keeper) (a x : Nat) : Keeper :=
  { k with bal := upd k.bal a (k.bal a - x) }

/-- one coin movement of a Cosmos message: (account, credit?, amount); a debit beyond the balance is refused -/
def Keeper.move (k : Keeper) (N : Nat) (m : Nat × Bool × Nat) : Keeper :=
  if m.1 < N then
    (if m.2.1 then k.credit m.1 m.2.2 else if m.2.2 ≤ k.bal m.1 then k.debit m.1 m.2.2 else k)
  else k

inductive EOp
  | transfer (f t x : Nat)        -- CALL with value (CanTransfer + Transfer)
  | setNonce (a v : Nat)
  | setState (a key v : Nat)
  | flush                         -- Commit alone (e.g. a precompile query)
  /-- a stateful precompile: Commit on entry, the Cosmos message moves coins of arbitrary accounts (the delegator,
      the account its rewards are paid to, the caller, anybody), then SyncBalances -/
  | precompile (moves : List (Nat × Bool × Nat))

def estep (N : Nat) (keys : List Nat) (db : DB) : EOp → DB
  | .transfer f t x =>
    if f < N ∧ t < N ∧ x ≤ view db f then addBalance (subBalance db f x) t x else db
  | .setNonce a v => if a < N then setNonce db a v else db
  | .setState a key v => if a < N then setState db a key v else db
  | .flush => commit db (List.range N) keys
  | .precompile moves =>
    let db1 := commit db (List.range N) keys
    syncBalances { db1 with k := moves.foldl (fun k m => k.move N m) db1.k } (List.range N)

/-- the conserved quantity: supply + (what the EVM sees) − (what the bank holds) -/
def Inv (db : DB) (N : Nat) (s0 : Int) : Prop :=
  Good db N ∧ Good2 db N ∧ db.k.supply + (T db N : Int) - (B db N : Int) = s0

theorem sumTo_upd_add (f : Nat → Nat) (a x N : Nat) (h : a < N) :
    sumTo (upd f a (f a + x)) N = sumTo f N + x := by
  have := sumTo_upd f a (f a + x) N h; omega

theorem sumTo_upd_sub (f : Nat → Nat) (a x N : Nat) (h : a < N) (hx : x ≤ f a) :
    sumTo (upd f a (f a - x)) N + x = sumTo f N := by
  have := sumTo_upd f a (f a - x) N h; omega

theorem flush_inv (N : Nat) (keys : List Nat) (s0 : Int) (db : DB) (h : Inv db N s0) :
    Inv (commit db (List.range N) keys) N s0 ∧
    (∀ a, a < N → (commit db (List.range N) keys).k.bal a = view (commit db (List.range N) keys) a) := by
  obtain ⟨hg, hg2, hs⟩ := h
  have h1 := commit_supply db keys N hg
  have h2 : B (commit db (List.range N) keys) N = T db N :=
    sumTo_congr _ _ N (fun i hi => commit_writes_view db keys N hg i hi)
  have h3 : T (commit db (List.range N) keys) N = T db N := by simp only [T, view_commit db keys N hg]
  refine ⟨⟨good_commit db keys N hg, g2_commit db keys N hg hg2, ?_⟩, ?_⟩
  · rw [h1, h2, h3]; omega
  · intro a ha
    rw [view_commit db keys N hg]
    exact commit_writes_view db keys N hg a ha

/-- Cosmos-side movements keep the supply, the account-existence facts and "no account, no coins" -/
theorem moves_facts (N : Nat) (moves : List (Nat × Bool × Nat)) : ∀ (k : Keeper),
    (moves.foldl (fun k m => k.move N m) k).supply = k.supply ∧
    (∀ a, k.exist a = true → (moves.foldl (fun k m => k.move N m) k).exist a = true) ∧
    ((∀ a, k.exist a = false → k.bal a = 0) →
      ∀ a, (moves.foldl (fun k m => k.move N m) k).exist a = false → (moves.foldl (fun k m => k.move N m) k).bal a = 0) := by
  induction moves with
  | nil => intro k; exact ⟨rfl, fun _ h => h, fun h => h⟩
  | cons m ms ih =>
    intro k
    simp only [List.foldl_cons]
    obtain ⟨i1, i2, i3⟩ := ih (k.move N m)
    have hs : (k.move N m).supply = k.supply := by
      unfold Keeper.move; split
      · split
        · rfl
        · split <;> rfl
      · rfl
    have he : ∀ a, k.exist a = true → (k.move N m).exist a = true := by
      intro a ha
      unfold Keeper.move; split
      · split
        · simp only [Keeper.credit, upd]; split <;> simp_all
        · split
          · exact ha
          · exact ha
      · exact ha
    have hw : (∀ a, k.exist a = false → k.bal a = 0) → ∀ a, (k.move N m).exist a = false → (k.move N m).bal a = 0 := by
      intro hwf a ha
      unfold Keeper.move at ha ⊢
      split
      · rename_i hm
        simp only [hm, if_true] at ha
        split
        · rename_i hc
          simp only [hc, if_true, Keeper.credit, upd] at ha ⊢
          by_cases hx : a = m.1
          · simp [hx] at ha
          · simp only [hx, if_false] at ha ⊢; exact hwf a ha
        · rename_i hc
          simp only [hc, Bool.false_eq_true, if_false] at ha
          split
          · rename_i hle
            simp only [hle, if_true, Keeper.debit] at ha
            simp only [Keeper.debit, upd]
            by_cases hx : a = m.1
            · simp only [hx, if_true]; rw [hx] at ha; rw [hwf m.1 ha]; omega
            · simp only [hx, if_false]; exact hwf a ha
          · rename_i hle
            simp only [hle, if_false] at ha
            exact hwf a ha
      · rename_i hm
        simp only [hm, if_false] at ha
        exact hwf a ha
    exact ⟨i1.trans hs, fun a ha => i2 a (he a ha), fun hwf => i3 (hw hwf)⟩

theorem estep_inv (N : Nat) (keys : List Nat) (s0 : Int) (db : DB) (op : EOp) (h : Inv db N s0) :
    Inv (estep N keys db op) N s0 := by
  cases op with
  | transfer f t x =>
    obtain ⟨hg, hg2, hs⟩ := h
    simp only [estep]
    split
    · rename_i hc
      obtain ⟨hf, ht, hx⟩ := hc
      obtain ⟨g1, v1, k1⟩ := good_subBalance db N f x hg hf
      obtain ⟨g2, v2, k2⟩ := good_addBalance (subBalance db f x) N t x g1 ht
      refine ⟨g2, g2_addBalance _ N t x (g2_subBalance db N f x hg2 hf) ht, ?_⟩
      simp only [T, B, k2, k1, v2, v1] at hs ⊢
      have e1 := sumTo_upd_add (upd (view db) f (view db f - x)) t x N ht
      have e2 := sumTo_upd_sub (view db) f x N hf hx
      omega
    · exact ⟨hg, hg2, hs⟩
  | setNonce a v =>
    obtain ⟨hg, hg2, hs⟩ := h
    simp only [estep]
    split
    · rename_i ha
      obtain ⟨g1, v1, k1⟩ := good_setNonce db N a v hg ha
      exact ⟨g1, g2_setNonce db N a v hg2 ha, by simp only [T, B, v1, k1] at hs ⊢; exact hs⟩
    · exact ⟨hg, hg2, hs⟩
  | setState a key v =>
    obtain ⟨hg, hg2, hs⟩ := h
    simp only [estep]
    split
    · rename_i ha
      obtain ⟨g1, v1, k1⟩ := good_setState db N a key v hg ha
      exact ⟨g1, g2_setState db N a key v hg2 ha, by simp only [T, B, v1, k1] at hs ⊢; exact hs⟩
    · exact ⟨hg, hg2, hs⟩
  | flush => exact (flush_inv N keys s0 db h).1
  | precompile moves =>
    have hg0 := h.1
    have hg20 := h.2.1
    obtain ⟨⟨g1, g21, s1⟩, hbv⟩ := flush_inv N keys s0 db h
    simp only [estep]
    -- after the flush the supply is s0 (the EVM's view and the bank agree)
    have hTB : B (commit db (List.range N) keys) N = T (commit db (List.range N) keys) N :=
      sumTo_congr _ _ N (fun i hi => hbv i hi)
    obtain ⟨ms, me, mw⟩ := moves_facts N moves (commit db (List.range N) keys).k
    have hobj : ∀ b o, (commit db (List.range N) keys).objs b = some o →
        (moves.foldl (fun k m => k.move N m) (commit db (List.range N) keys).k).exist b = true := by
      intro b o' hb'
      obtain ⟨o, hb, _, _⟩ := commit_objs_some db (List.range N) keys b o' hb'
      exact me b (commit_cached_exist db keys N hg0 hg20 b o hb)
    obtain ⟨hk, hview, gS, g2S⟩ := sync_spec
      { commit db (List.range N) keys with k := moves.foldl (fun k m => k.move N m) (commit db (List.range N) keys).k } N
      (mw g1.wf) g1.dc g1.ns g1.bd g21.cb hobj
    refine ⟨gS, g2S, ?_⟩
    have hT : T (syncBalances { commit db (List.range N) keys with k := moves.foldl (fun k m => k.move N m) (commit db (List.range N) keys).k } (List.range N)) N
        = B (syncBalances { commit db (List.range N) keys with k := moves.foldl (fun k m => k.move N m) (commit db (List.range N) keys).k } (List.range N)) N := by
      apply sumTo_congr
      intro i _
      rw [hview i, hk]
    rw [hT, hk]
    simp only
    rw [ms]
    rw [hTB] at s1
    omega

theorem run_inv (N : Nat) (keys : List Nat) (s0 : Int) (ops : List EOp) : ∀ (db : DB), Inv db N s0 →
    Inv (ops.foldl (estep N keys) db) N s0 := by
  induction ops with
  | nil => intro db h; exact h
  | cons op rest ih => intro db h; exact ih _ (estep_inv N keys s0 db op h)

theorem inv_new (k0 : Keeper) (N : Nat) (hwf : ∀ a, k0.exist a = false → k0.bal a = 0) :
    Inv (DB.new k0) N k0.supply := by
  have hg := good_new k0 N hwf
  refine ⟨hg, g2_new k0 N, ?_⟩
  have : T (DB.new k0) N = B (DB.new k0) N := sumTo_congr _ _ N (fun i _ => hg.coh i rfl)
  rw [this]
  show k0.supply + _ - _ = k0.supply
  omega

/-- **C02**: whatever an Ethereum transaction does — value transfers, storage and nonce writes, precompile
    queries, stateful precompile calls whose Cosmos message moves coins of arbitrary accounts, in any order and
    number — the Commit at its end leaves the total supply where it was and makes every bank balance equal to
    the balance the EVM reported. -/
theorem evm_tx_conserves (N : Nat) (keys : List Nat) (k0 : Keeper)
    (hwf : ∀ a, k0.exist a = false → k0.bal a = 0) (ops : List EOp) :
    let db := ops.foldl (estep N keys) (DB.new k0)
    let k' := (commit db (List.range N) keys).k
    k'.supply = k0.supply ∧ ∀ a, a < N → k'.bal a = view db a := by
  intro db k'
  have hi : Inv db N k0.supply := run_inv N keys k0.supply ops _ (inv_new k0 N hwf)
  obtain ⟨⟨_, _, s1⟩, hbv⟩ := flush_inv N keys k0.supply db hi
  have h2 : B (commit db (List.range N) keys) N = T (commit db (List.range N) keys) N :=
    sumTo_congr _ _ N (fun i hi => hbv i hi)
  refine ⟨?_, ?_⟩
  · show (commit db (List.range N) keys).k.supply = k0.supply
    rw [h2] at s1; omega
  · intro a ha
    exact commit_writes_view db keys N hi.1 a ha

/-! ### the tie to the source: every coin-moving precompile method follows the `precompile` shape -/

/-- regenerated facts: each transaction method of the staking, distribution and ICS-20 precompiles brings the
    cached balances in step with `StateDB.SyncBalances` (no single-account AddBalance / SubBalance mirror is
    left), every stateful precompile's `Run` commits on entry, and `SyncBalances` has the modelled shape -/
theorem precompiles_sync :
    Facts.precompileBalanceSync.all (fun p => p.2 == "sync") = true ∧ Facts.precompileBalanceSync.length = 9 ∧
    Facts.precompileRunCommits.all (fun p => p.2 == "yes") = true ∧ Facts.statedbSyncBalancesShape = true := by
  decide

def kc : Keeper := { exist := fun a => a < 2, bal := fun a => if a = 0 then 2000000 else 0, nonce := fun _ => 0,
                     store := fun _ _ => 0, supply := 0 }

/-- non-vacuity: a concrete transaction meets the hypotheses and moves coins -/
example : let db := [EOp.transfer 0 1 777, .setState 1 0 5, .precompile [(0, false, 100), (1, true, 40), (3, true, 9)], .transfer 1 2 17].foldl (estep 4 [0, 1]) (DB.new kc)
    (commit db (List.range 4) [0, 1]).k.supply = 0 ∧ (commit db (List.range 4) [0, 1]).k.bal 1 = view db 1 :=
  let h := evm_tx_conserves 4 [0, 1] kc (by intro a h; simp [kc] at h ⊢; omega)
    [EOp.transfer 0 1 777, .setState 1 0 5, .precompile [(0, false, 100), (1, true, 40), (3, true, 9)], .transfer 1 2 17]
  ⟨h.1, h.2 1 (by omega)⟩

/-- the defect this property exposed in the code before the repair (fixed: see known_findings.json): the origin
    (0) sends value 777 to contract 1 — its object is dirty from then on — and a precompile's Cosmos message debits
    the origin's bank balance by 1 000 000 *without* the StateDB being brought back in step.  The final Commit writes
    the origin's stale cached balance back over the bank balance: 1 000 000 coins are minted. -/
theorem unsynced_counterexample :
    let db0 := DB.new kc
    let db1 := addBalance (subBalance db0 0 777) 1 777          -- value transfer of the call
    let db2 := commit db1 [0, 1] []                              -- precompile entry
    let db3 : DB := { db2 with k := db2.k.debit 0 1000000 }      -- the Cosmos message debits the origin; no SyncBalances
    let db4 := commit db3 [0, 1] []                              -- end of the transaction
    db4.k.supply = 1000000 ∧ db4.k.bal 0 = 1999223 ∧ db3.k.bal 0 = 999223 := by
  simp [DB.new, kc, addBalance, subBalance, ensure, mstep, mstepCore, DB.load, MOp.addr, DB.get, DB.push_def, DB.setObj, Entry.dirtied, commit, writeSlot, flushObj,
    commitOne, Keeper.setBalance, Keeper.debit, upd]

/-- … and with SyncBalances after the message the same history conserves the supply -/
theorem synced_same_history :
    let db0 := DB.new kc
    let db1 := addBalance (subBalance db0 0 777) 1 777
    let db2 := commit db1 [0, 1] []
    let db3 := syncBalances { db2 with k := db2.k.debit 0 1000000 } [0, 1]
    let db4 := commit db3 [0, 1] []
    db4.k.supply = 0 ∧ db4.k.bal 0 = 999223 := by
  simp [DB.new, kc, addBalance, subBalance, ensure, mstep, mstepCore, DB.load, MOp.addr, DB.get, DB.push_def, DB.setObj, Entry.dirtied, commit, writeSlot, flushObj,
    commitOne, Keeper.setBalance, Keeper.debit, upd, syncBalances, syncOne]

end Haqq.SDB
