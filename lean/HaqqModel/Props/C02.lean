/-
  C02 — EVM balances and bank balances never diverge; no coin is created or destroyed by the StateDB.

  English statement (properties.jsonl):
    EVM-visible balance changes reconcile exactly with the bank module: value transfers, precompile-driven bank
    movements and the StateDB's commit never create or destroy coins except by explicit mint and burn, and
    after every transaction the bank balance of each account equals what the EVM reported.

  Formalisation over the StateDB/keeper model (`Model/StateDB.lean`).  The keeper's `SetBalance` mints or
  burns the difference between the cached and the bank balance, so conservation is a statement about when that
  difference is zero in total:
    * `commit_accounting`: Commit changes the supply by exactly the sum of the balance changes it writes
      (no hypothesis: the mint/burn book-keeping itself is exact).
    * `commit_writes_view`: after Commit the bank balance of every account is what the EVM saw.
    * `evm_tx_conserves`: for every sequence of value transfers, storage / nonce writes, precompile entries
      (Commit) and *mirrored* precompile bank movements (bank change to the calling contract followed by the same
      AddBalance / SubBalance), the final Commit leaves the supply unchanged and every bank balance equal to
      the EVM's view.
    * `unmirrored_counterexample`: a bank movement on an account the StateDB already holds dirty that is *not*
      mirrored (what the staking precompile does when the delegator is the transaction origin and the caller is
      a contract) is overwritten by the final Commit: coins are minted (recorded finding F-C02-a).
-/
import HaqqModel.Model.StateDB
import HaqqModel.Props.C05

namespace Haqq.SDB

/-- the balance the EVM sees (GetBalance) -/
def view (db : DB) (a : Nat) : Nat :=
  match db.get a with
  | some o => o.bal
  | none => 0

/-! ### Commit: exact mint/burn accounting -/

theorem setBalance_acct (k : Keeper) (a v N : Nat) (h : a < N) :
    (k.setBalance a v).supply + (sumTo k.bal N : Int) = k.supply + (sumTo (k.setBalance a v).bal N : Int) := by
  have := sumTo_upd k.bal a v N h
  simp only [Keeper.setBalance]
  omega

theorem keysFold_same (o : Obj) (a : Nat) (keys : List Nat) : ∀ k : Keeper,
    (keys.foldl (fun kk key => { kk with store := upd kk.store a (upd (kk.store a) key (o.stor key)) }) k).bal = k.bal ∧
    (keys.foldl (fun kk key => { kk with store := upd kk.store a (upd (kk.store a) key (o.stor key)) }) k).supply = k.supply ∧
    (keys.foldl (fun kk key => { kk with store := upd kk.store a (upd (kk.store a) key (o.stor key)) }) k).exist = k.exist := by
  induction keys with
  | nil => intro k; exact ⟨rfl, rfl, rfl⟩
  | cons x xs ih => intro k; simp only [List.foldl_cons]; exact ih _

theorem commitOne_acct (db : DB) (k : Keeper) (a N : Nat) (keys : List Nat) (h : a < N) :
    (commitOne db k a keys).supply + (sumTo k.bal N : Int) = k.supply + (sumTo (commitOne db k a keys).bal N : Int) := by
  unfold commitOne
  cases ho : db.objs a with
  | none => simp
  | some o =>
    simp only
    by_cases hs : o.suicided = true
    · simp only [hs, if_true]
      by_cases he : k.exist a = true
      · simp only [he, if_true]
        exact setBalance_acct k a 0 N h
      · simp [he]
    · simp only [hs, Bool.false_eq_true, if_false]
      obtain ⟨hb, hsup, _⟩ := keysFold_same o a keys
        { k.setBalance a o.bal with exist := upd (k.setBalance a o.bal).exist a true,
                                     nonce := upd (k.setBalance a o.bal).nonce a o.nonce }
      rw [hb, hsup]
      exact setBalance_acct k a o.bal N h

theorem commitOne_bal_other (db : DB) (k : Keeper) (a b : Nat) (keys : List Nat) (h : b ≠ a) :
    (commitOne db k a keys).bal b = k.bal b ∧ (commitOne db k a keys).exist b = k.exist b := by
  unfold commitOne
  cases ho : db.objs a with
  | none => simp
  | some o =>
    simp only
    by_cases hs : o.suicided = true
    · simp only [hs, if_true]
      by_cases he : k.exist a = true
      · simp [he, Keeper.setBalance, h]
      · simp [he]
    · simp only [hs, Bool.false_eq_true, if_false]
      obtain ⟨hb, _, hex⟩ := keysFold_same o a keys
        { k.setBalance a o.bal with exist := upd (k.setBalance a o.bal).exist a true,
                                     nonce := upd (k.setBalance a o.bal).nonce a o.nonce }
      rw [hb, hex]
      simp [Keeper.setBalance, h]

theorem commitOne_bal_self (db : DB) (k : Keeper) (a : Nat) (keys : List Nat) (o : Obj)
    (ho : db.objs a = some o) (hs : o.suicided = false) :
    (commitOne db k a keys).bal a = o.bal ∧ (commitOne db k a keys).exist a = true := by
  unfold commitOne
  simp only [ho, hs, Bool.false_eq_true, if_false]
  obtain ⟨hb, _, hex⟩ := keysFold_same o a keys
    { k.setBalance a o.bal with exist := upd (k.setBalance a o.bal).exist a true,
                                 nonce := upd (k.setBalance a o.bal).nonce a o.nonce }
  rw [hb, hex]
  simp [Keeper.setBalance]

/-- the keeper after committing the dirty addresses below `n` -/
def cfold (db : DB) (keys : List Nat) (n : Nat) : Keeper :=
  (List.range n).foldl (fun k a => if db.dirties a > 0 then commitOne db k a keys else k) db.k

theorem cfold_succ (db : DB) (keys : List Nat) (n : Nat) :
    cfold db keys (n + 1) = if db.dirties n > 0 then commitOne db (cfold db keys n) n keys else cfold db keys n := by
  simp [cfold, List.range_succ, List.foldl_append]

theorem commit_k (db : DB) (keys : List Nat) (N : Nat) : (commit db (List.range N) keys).k = cfold db keys N := rfl

theorem cfold_acct (db : DB) (keys : List Nat) (N : Nat) : ∀ n, n ≤ N →
    (cfold db keys n).supply + (sumTo db.k.bal N : Int) = db.k.supply + (sumTo (cfold db keys n).bal N : Int) := by
  intro n
  induction n with
  | zero => intro _; simp [cfold]
  | succ m ih =>
    intro hm
    have h1 := ih (by omega)
    rw [cfold_succ]
    split
    · have h2 := commitOne_acct db (cfold db keys m) m N keys (by omega)
      omega
    · exact h1

/-- **Commit books every balance it writes**: the supply changes by exactly the sum of the balance changes -/
theorem commit_accounting (db : DB) (keys : List Nat) (N : Nat) :
    (commit db (List.range N) keys).k.supply + (sumTo db.k.bal N : Int)
      = db.k.supply + (sumTo (commit db (List.range N) keys).k.bal N : Int) := by
  rw [commit_k]; exact cfold_acct db keys N N (Nat.le_refl N)

/-! ### the coherence invariant between the cache and the bank -/

structure Good (db : DB) (N : Nat) : Prop where
  /-- an address without an account holds no coins -/
  wf : ∀ a, db.k.exist a = false → db.k.bal a = 0
  /-- an address the journal has not touched shows its bank balance -/
  coh : ∀ a, db.dirties a = 0 → view db a = db.k.bal a
  /-- a dirty address is cached -/
  dc : ∀ a, 0 < db.dirties a → db.objs a ≠ none
  /-- no self-destructed object (SELFDESTRUCT burns explicitly and is outside this theorem) -/
  ns : ∀ a o, db.objs a = some o → o.suicided = false
  /-- every touched address is inside the universe `[0, N)` -/
  bd : ∀ a, N ≤ a → db.dirties a = 0

theorem good_new (k : Keeper) (N : Nat) (hwf : ∀ a, k.exist a = false → k.bal a = 0) : Good (DB.new k) N := by
  refine ⟨hwf, ?_, ?_, ?_, ?_⟩
  · intro a _
    simp only [view, DB.get, DB.new]
    by_cases he : k.exist a = true
    · simp [he]
    · have : k.exist a = false := by simpa using he
      simp [this, hwf a this]
  · intro a h; simp [DB.new] at h
  · intro a o h; simp [DB.new] at h
  · intro a _; rfl

theorem cfold_bal (db : DB) (keys : List Nat) (N : Nat) (hg : Good db N) : ∀ n b,
    (cfold db keys n).bal b = (if b < n ∧ 0 < db.dirties b then view db b else db.k.bal b) ∧
    (cfold db keys n).exist b = (if b < n ∧ 0 < db.dirties b then true else db.k.exist b) := by
  intro n
  induction n with
  | zero => intro b; simp [cfold]
  | succ m ih =>
    intro b
    rw [cfold_succ]
    by_cases hd : db.dirties m > 0
    · simp only [hd, if_true]
      by_cases hb : b = m
      · subst hb
        have hc := hg.dc b hd
        cases ho : db.objs b with
        | none => exact absurd ho hc
        | some o =>
          have hs := hg.ns b o ho
          obtain ⟨h1, h2⟩ := commitOne_bal_self db (cfold db keys b) b keys o ho hs
          have hv : view db b = o.bal := by simp [view, DB.get, ho]
          have hlt : b < b + 1 ∧ 0 < db.dirties b := ⟨by omega, hd⟩
          simp [h1, h2, hv, hlt]
      · obtain ⟨h1, h2⟩ := commitOne_bal_other db (cfold db keys m) m b keys hb
        rw [h1, h2]
        obtain ⟨i1, i2⟩ := ih b
        rw [i1, i2]
        have : (b < m + 1 ∧ 0 < db.dirties b) ↔ (b < m ∧ 0 < db.dirties b) := by
          constructor
          · intro ⟨x, y⟩; exact ⟨by omega, y⟩
          · intro ⟨x, y⟩; exact ⟨by omega, y⟩
        simp [this]
    · simp only [hd, if_false]
      obtain ⟨i1, i2⟩ := ih b
      rw [i1, i2]
      have : (b < m + 1 ∧ 0 < db.dirties b) ↔ (b < m ∧ 0 < db.dirties b) := by
        constructor
        · intro ⟨x, y⟩
          refine ⟨?_, y⟩
          by_cases hbm : b = m
          · subst hbm; exact absurd y hd
          · omega
        · intro ⟨x, y⟩; exact ⟨by omega, y⟩
      simp [this]

/-- **after Commit the bank shows what the EVM saw** -/
theorem commit_writes_view (db : DB) (keys : List Nat) (N : Nat) (hg : Good db N) (a : Nat) (ha : a < N) :
    (commit db (List.range N) keys).k.bal a = view db a := by
  rw [commit_k, (cfold_bal db keys N hg N a).1]
  by_cases hd : 0 < db.dirties a
  · simp [ha, hd]
  · have h0 : db.dirties a = 0 := by omega
    simp [hd, hg.coh a h0]

theorem commit_bal_outside (db : DB) (keys : List Nat) (N : Nat) (hg : Good db N) (a : Nat) (ha : N ≤ a) :
    (commit db (List.range N) keys).k.bal a = db.k.bal a ∧ (commit db (List.range N) keys).k.exist a = db.k.exist a := by
  rw [commit_k]
  obtain ⟨h1, h2⟩ := cfold_bal db keys N hg N a
  rw [h1, h2]
  have : ¬ (a < N ∧ 0 < db.dirties a) := by intro ⟨x, _⟩; omega
  simp [this]

/-- the sum of the balances the EVM sees in the universe -/
def T (db : DB) (N : Nat) : Nat := sumTo (view db) N
/-- the sum of the bank balances in the universe -/
def B (db : DB) (N : Nat) : Nat := sumTo db.k.bal N

theorem commit_supply (db : DB) (keys : List Nat) (N : Nat) (hg : Good db N) :
    (commit db (List.range N) keys).k.supply = db.k.supply + (T db N : Int) - (B db N : Int) := by
  have h := commit_accounting db keys N
  have : sumTo (commit db (List.range N) keys).k.bal N = sumTo (view db) N :=
    sumTo_congr _ _ N (fun i hi => commit_writes_view db keys N hg i hi)
  rw [this] at h
  simp only [T, B]
  omega

theorem view_commit (db : DB) (keys : List Nat) (N : Nat) (hg : Good db N) :
    view (commit db (List.range N) keys) = view db := by
  funext a
  simp only [view, DB.get]
  have hobj : (commit db (List.range N) keys).objs = db.objs := rfl
  rw [hobj]
  cases ho : db.objs a with
  | some o => rfl
  | none =>
    simp only
    have hd : db.dirties a = 0 := by
      by_cases h : 0 < db.dirties a
      · exact absurd ho (hg.dc a h)
      · omega
    rw [commit_k]
    obtain ⟨h1, h2⟩ := cfold_bal db keys N hg N a
    have : ¬ (a < N ∧ 0 < db.dirties a) := by intro ⟨_, y⟩; omega
    rw [h1, h2]
    simp only [this, if_false]
    -- nonce / store of an uncached, clean address are not read by `view`
    by_cases he : db.k.exist a = true <;> simp [he]

theorem good_commit (db : DB) (keys : List Nat) (N : Nat) (hg : Good db N) :
    Good (commit db (List.range N) keys) N := by
  have hv := view_commit db keys N hg
  refine ⟨?_, ?_, hg.dc, hg.ns, hg.bd⟩
  · intro a he
    rw [commit_k] at he ⊢
    obtain ⟨h1, h2⟩ := cfold_bal db keys N hg N a
    rw [h2] at he
    rw [h1]
    by_cases hc : a < N ∧ 0 < db.dirties a
    · simp [hc] at he
    · simp only [hc, if_false] at he ⊢
      exact hg.wf a he
  · intro a hd
    have hd' : db.dirties a = 0 := hd
    rw [hv]
    rw [commit_k, (cfold_bal db keys N hg N a).1]
    have : ¬ (a < N ∧ 0 < db.dirties a) := by intro ⟨_, y⟩; omega
    simp only [this, if_false]
    exact hg.coh a hd'

/-! ### journaled writes -/

/-- `Good` except that the address `ex` may be clean and out of step with the bank (the moment between a
    precompile's bank movement and its mirroring AddBalance / SubBalance) -/
structure GoodEx (db : DB) (N : Nat) (ex : Nat) : Prop where
  wf : ∀ a, db.k.exist a = false → db.k.bal a = 0
  coh : ∀ a, a ≠ ex → db.dirties a = 0 → view db a = db.k.bal a
  dc : ∀ a, 0 < db.dirties a → db.objs a ≠ none
  ns : ∀ a o, db.objs a = some o → o.suicided = false
  bd : ∀ a, N ≤ a → db.dirties a = 0

theorem Good.toEx {db : DB} {N : Nat} (hg : Good db N) (ex : Nat) : GoodEx db N ex :=
  ⟨hg.wf, fun a _ h => hg.coh a h, hg.dc, hg.ns, hg.bd⟩

theorem load_get (db : DB) (a b : Nat) : (db.load a).get b = db.get b := by
  unfold DB.load
  cases ho : db.objs a with
  | some o => rfl
  | none =>
    simp only
    by_cases he : db.k.exist a = true
    · simp only [he, if_true, DB.get, upd]
      by_cases hb : b = a
      · subst hb; simp [ho, he]
      · simp only [hb, if_false]
    · simp only [he, Bool.false_eq_true, if_false]

theorem load_view (db : DB) (a : Nat) : view (db.load a) = view db := by
  funext b; simp only [view, load_get]

theorem load_k (db : DB) (a : Nat) : (db.load a).k = db.k ∧ (db.load a).dirties = db.dirties := by
  unfold DB.load
  cases db.objs a with
  | some o => exact ⟨rfl, rfl⟩
  | none => simp only; split <;> exact ⟨rfl, rfl⟩

theorem load_objs (db : DB) (a b : Nat) (o : Obj) (h : (db.load a).objs b = some o) :
    db.objs b = some o ∨ (o.suicided = false ∧ db.objs b = none) := by
  unfold DB.load at h
  cases ho : db.objs a with
  | some o1 => simp only [ho] at h; exact Or.inl h
  | none =>
    simp only [ho] at h
    by_cases he : db.k.exist a = true
    · simp only [he, if_true, upd] at h
      by_cases hb : b = a
      · simp only [hb, if_true, Option.some.injEq] at h
        right; rw [← h]; exact ⟨rfl, by rw [hb]; exact ho⟩
      · simp only [hb, if_false] at h; exact Or.inl h
    · simp only [he, Bool.false_eq_true, if_false] at h; exact Or.inl h

theorem load_objs_mono (db : DB) (a b : Nat) (h : db.objs b ≠ none) : (db.load a).objs b ≠ none := by
  unfold DB.load
  cases ho : db.objs a with
  | some o1 => exact h
  | none =>
    simp only
    by_cases he : db.k.exist a = true
    · simp only [he, if_true, upd]
      by_cases hb : b = a
      · simp [hb]
      · simp only [hb, if_false]; exact h
    · simp only [he, Bool.false_eq_true, if_false]; exact h

theorem goodEx_load (db : DB) (N ex a : Nat) (hg : GoodEx db N ex) : GoodEx (db.load a) N ex := by
  obtain ⟨hk, hd⟩ := load_k db a
  refine ⟨?_, ?_, ?_, ?_, ?_⟩
  · intro b hb; rw [hk] at hb ⊢; exact hg.wf b hb
  · intro b hbe hb; rw [hd] at hb; rw [load_view, hk]; exact hg.coh b hbe hb
  · intro b hb; rw [hd] at hb; exact load_objs_mono db a b (hg.dc b hb)
  · intro b o ho
    rcases load_objs db a b o ho with h | ⟨h, _⟩
    · exact hg.ns b o h
    · exact h
  · intro b hb; rw [hd]; exact hg.bd b hb

theorem good_load (db : DB) (N a : Nat) (hg : Good db N) : Good (db.load a) N := by
  obtain ⟨hk, hd⟩ := load_k db a
  refine ⟨?_, ?_, ?_, ?_, ?_⟩
  · intro b hb; rw [hk] at hb ⊢; exact hg.wf b hb
  · intro b hb; rw [hd] at hb; rw [load_view, hk]; exact hg.coh b hb
  · intro b hb; rw [hd] at hb; exact load_objs_mono db a b (hg.dc b hb)
  · intro b o ho
    rcases load_objs db a b o ho with h | ⟨h, _⟩
    · exact hg.ns b o h
    · exact h
  · intro b hb; rw [hd]; exact hg.bd b hb

/-- writing a non-destructed object for `a` through a journal entry that marks `a` dirty -/
theorem good_setObj (db : DB) (N a : Nat) (e : Entry) (o' : Obj) (hg : GoodEx db N a) (ha : a < N)
    (he : e.dirtied = some a) (hs : o'.suicided = false) :
    Good ((db.push e).setObj a o') N ∧ view ((db.push e).setObj a o') = upd (view db) a o'.bal ∧
    ((db.push e).setObj a o').k = db.k := by
  have hget : ∀ b, ((db.push e).setObj a o').get b = if b = a then some o' else db.get b := by
    intro b
    simp only [DB.get, DB.setObj, DB.push, upd]
    by_cases hb : b = a
    · simp [hb]
    · simp only [hb, if_false]
      first | rfl | (cases hob : db.objs b <;> rfl)
  have hview : view ((db.push e).setObj a o') = upd (view db) a o'.bal := by
    funext b
    simp only [view, hget, upd]
    by_cases hb : b = a <;> simp [hb]
  have hdirt : ((db.push e).setObj a o').dirties = upd db.dirties a (db.dirties a + 1) := by
    simp [DB.setObj, DB.push, he]
  refine ⟨⟨hg.wf, ?_, ?_, ?_, ?_⟩, hview, rfl⟩
  · intro b hb
    rw [hdirt] at hb
    have hba : b ≠ a := by
      intro h; subst h; simp at hb
    rw [upd_other _ _ _ _ hba] at hb
    rw [hview, upd_other _ _ _ _ hba]
    exact hg.coh b hba hb
  · intro b hb
    rw [hdirt] at hb
    simp only [DB.setObj, DB.push, upd]
    by_cases hba : b = a
    · simp [hba]
    · rw [upd_other _ _ _ _ hba] at hb
      simp only [hba, if_false]
      exact hg.dc b hb
  · intro b ob hob
    simp only [DB.setObj, DB.push, upd] at hob
    by_cases hba : b = a
    · simp only [hba, if_true, Option.some.injEq] at hob
      rw [← hob]; exact hs
    · simp only [hba, if_false] at hob
      exact hg.ns b ob hob
  · intro b hb
    rw [hdirt]
    have hba : b ≠ a := by omega
    rw [upd_other _ _ _ _ hba]
    exact hg.bd b hb

theorem get_ns (db : DB) (N a ex : Nat) (o : Obj) (hg : GoodEx db N ex) (h : db.get a = some o) : o.suicided = false := by
  simp only [DB.get] at h
  cases ho : db.objs a with
  | some o1 =>
    simp only [ho, Option.some.injEq] at h
    rw [← h]; exact hg.ns a o1 ho
  | none =>
    simp only [ho] at h
    by_cases he : db.k.exist a = true
    · simp only [he, if_true, Option.some.injEq] at h
      rw [← h]
    · simp [he] at h

theorem view_of_get (db : DB) (a : Nat) (o : Obj) (h : db.get a = some o) : view db a = o.bal := by
  simp [view, h]

theorem view_of_none (db : DB) (a : Nat) (h : db.get a = none) : view db a = 0 := by
  simp [view, h]

/-- getOrNewStateObject keeps the invariant and the view -/
theorem good_ensure (db : DB) (N a : Nat) (hg : Good db N) (ha : a < N) :
    Good (ensure db a) N ∧ view (ensure db a) = view db ∧ (ensure db a).k = db.k ∧ ∃ o, (ensure db a).get a = some o := by
  have hgl := good_load db N a hg
  have hvl := load_view db a
  obtain ⟨hkl, _⟩ := load_k db a
  simp only [ensure, mstep, MOp.addr, mstepCore]
  cases hget : (db.load a).get a with
  | some o => exact ⟨hgl, hvl, hkl, o, hget⟩
  | none =>
    simp only
    obtain ⟨g, v, k⟩ := good_setObj (db.load a) N a (.create a) { bal := 0, nonce := 0, suicided := false, stor := (db.load a).k.store a } (hgl.toEx a) ha rfl rfl
    refine ⟨g, ?_, k.trans hkl, ?_⟩
    · rw [v, ← hvl]
      exact upd_eq_self _ _ _ (view_of_none (db.load a) a hget)
    · refine ⟨{ bal := 0, nonce := 0, suicided := false, stor := (db.load a).k.store a }, ?_⟩
      simp [DB.get, DB.setObj, DB.push]

theorem good_setBal (db : DB) (N a v : Nat) (hg : GoodEx db N a) (ha : a < N) (o : Obj) (h : db.get a = some o) :
    Good (mstep db (.setBal a v)) N ∧ view (mstep db (.setBal a v)) = upd (view db) a v ∧
    (mstep db (.setBal a v)).k = db.k := by
  have hgl := goodEx_load db N a a hg
  have hget : (db.load a).get a = some o := by rw [load_get]; exact h
  simp only [mstep, MOp.addr, mstepCore, hget]
  obtain ⟨g, vv, k⟩ := good_setObj (db.load a) N a (.balance a o.bal) { o with bal := v } hgl ha rfl (get_ns db N a a o hg h)
  exact ⟨g, by rw [vv, load_view], k.trans (load_k db a).1⟩

theorem good_addBalance (db : DB) (N a x : Nat) (hg : Good db N) (ha : a < N) :
    Good (addBalance db a x) N ∧ view (addBalance db a x) = upd (view db) a (view db a + x) ∧
    (addBalance db a x).k = db.k := by
  obtain ⟨g1, v1, k1, o, ho⟩ := good_ensure db N a hg ha
  unfold addBalance
  simp only
  by_cases hx : x = 0
  · simp only [hx, if_true, Nat.add_zero]
    exact ⟨g1, by rw [v1, upd_self], k1⟩
  · simp only [hx, if_false, ho]
    obtain ⟨g2, v2, k2⟩ := good_setBal (ensure db a) N a (o.bal + x) (g1.toEx a) ha o ho
    refine ⟨g2, ?_, k2.trans k1⟩
    rw [v2, v1]
    have : o.bal = view db a := by rw [← v1]; exact (view_of_get _ a o ho).symm
    rw [this]

theorem good_subBalance (db : DB) (N a x : Nat) (hg : Good db N) (ha : a < N) :
    Good (subBalance db a x) N ∧ view (subBalance db a x) = upd (view db) a (view db a - x) ∧
    (subBalance db a x).k = db.k := by
  obtain ⟨g1, v1, k1, o, ho⟩ := good_ensure db N a hg ha
  unfold subBalance
  simp only
  by_cases hx : x = 0
  · simp only [hx, if_true, Nat.sub_zero]
    exact ⟨g1, by rw [v1, upd_self], k1⟩
  · simp only [hx, if_false, ho]
    obtain ⟨g2, v2, k2⟩ := good_setBal (ensure db a) N a (o.bal - x) (g1.toEx a) ha o ho
    refine ⟨g2, ?_, k2.trans k1⟩
    rw [v2, v1]
    have : o.bal = view db a := by rw [← v1]; exact (view_of_get _ a o ho).symm
    rw [this]

theorem good_setNonce (db : DB) (N a v : Nat) (hg : Good db N) (ha : a < N) :
    Good (setNonce db a v) N ∧ view (setNonce db a v) = view db ∧ (setNonce db a v).k = db.k := by
  obtain ⟨g1, v1, k1, o, ho⟩ := good_ensure db N a hg ha
  have hget : ((ensure db a).load a).get a = some o := by rw [load_get]; exact ho
  simp only [setNonce, mstep, MOp.addr, mstepCore, hget]
  obtain ⟨g2, v2, k2⟩ := good_setObj ((ensure db a).load a) N a (.nonce a o.nonce) { o with nonce := v }
    ((good_load _ N a g1).toEx a) ha rfl (get_ns _ N a a o (g1.toEx a) ho)
  refine ⟨g2, ?_, (k2.trans (load_k _ a).1).trans k1⟩
  rw [v2, load_view, v1]
  exact upd_eq_self _ _ _ (by rw [← v1]; exact view_of_get _ a o ho)

theorem good_setState (db : DB) (N a key v : Nat) (hg : Good db N) (ha : a < N) :
    Good (setState db a key v) N ∧ view (setState db a key v) = view db ∧ (setState db a key v).k = db.k := by
  obtain ⟨g1, v1, k1, o, ho⟩ := good_ensure db N a hg ha
  have hget : ((ensure db a).load a).get a = some o := by rw [load_get]; exact ho
  simp only [setState, mstep, MOp.addr, mstepCore, hget]
  by_cases hv : o.stor key = v
  · simp only [hv, if_true]
    exact ⟨good_load _ N a g1, by rw [load_view, v1], (load_k _ a).1.trans k1⟩
  · simp only [hv, if_false]
    obtain ⟨g2, v2, k2⟩ := good_setObj ((ensure db a).load a) N a (.storage a key (o.stor key))
      { o with stor := upd o.stor key v } ((good_load _ N a g1).toEx a) ha rfl (get_ns _ N a a o (g1.toEx a) ho)
    refine ⟨g2, ?_, (k2.trans (load_k _ a).1).trans k1⟩
    rw [v2, load_view, v1]
    exact upd_eq_self _ _ _ (by rw [← v1]; exact view_of_get _ a o ho)

/-! ### what an Ethereum transaction can do to balances -/

/-- a Cosmos-side credit / debit of `a` against an account outside the universe (staking pools,
    distribution module, IBC escrow): the supply does not change -/
def Keeper.credit (k : Keeper) (a x : Nat) : Keeper :=
  { k with bal := upd k.bal a (k.bal a + x), exist := upd k.exist a true }
def Keeper.debit (k : Keeper) (a x : Nat) : Keeper :=
  { k with bal := upd k.bal a (k.bal a - x) }

inductive EOp
  | transfer (f t x : Nat)        -- CALL with value (CanTransfer + Transfer)
  | setNonce (a v : Nat)
  | setState (a key v : Nat)
  | flush                         -- a stateful precompile is entered: Commit
  | credit (a x : Nat)            -- precompile: Commit, the bank pays x to the calling contract a, AddBalance(a, x)
  | debit (a x : Nat)             -- precompile: Commit, the bank takes x from the calling contract a, SubBalance(a, x)

def estep (N : Nat) (keys : List Nat) (db : DB) : EOp → DB
  | .transfer f t x =>
    if f < N ∧ t < N ∧ x ≤ view db f then addBalance (subBalance db f x) t x else db
  | .setNonce a v => if a < N then setNonce db a v else db
  | .setState a key v => if a < N then setState db a key v else db
  | .flush => commit db (List.range N) keys
  | .credit a x =>
    -- the caller of a precompile is an executing contract: its object is cached
    let db1 := commit db (List.range N) keys
    if a < N ∧ (db.objs a).isSome ∧ 0 < x then
      addBalance { db1 with k := db1.k.credit a x } a x
    else db1
  | .debit a x =>
    let db1 := commit db (List.range N) keys
    if a < N ∧ (db.objs a).isSome ∧ 0 < x ∧ x ≤ db1.k.bal a then
      subBalance { db1 with k := db1.k.debit a x } a x
    else db1

/-- the conserved quantity: supply + (what the EVM sees) − (what the bank holds) -/
def Inv (db : DB) (N : Nat) (s0 : Int) : Prop :=
  Good db N ∧ db.k.supply + (T db N : Int) - (B db N : Int) = s0

theorem sumTo_upd_add (f : Nat → Nat) (a x N : Nat) (h : a < N) :
    sumTo (upd f a (f a + x)) N = sumTo f N + x := by
  have := sumTo_upd f a (f a + x) N h; omega

theorem sumTo_upd_sub (f : Nat → Nat) (a x N : Nat) (h : a < N) (hx : x ≤ f a) :
    sumTo (upd f a (f a - x)) N + x = sumTo f N := by
  have := sumTo_upd f a (f a - x) N h; omega

theorem flush_inv (N : Nat) (keys : List Nat) (s0 : Int) (db : DB) (h : Inv db N s0) :
    Inv (commit db (List.range N) keys) N s0 ∧
    (∀ a, a < N → (commit db (List.range N) keys).k.bal a = view (commit db (List.range N) keys) a) := by
  obtain ⟨hg, hs⟩ := h
  have h1 := commit_supply db keys N hg
  have h2 : B (commit db (List.range N) keys) N = T db N :=
    sumTo_congr _ _ N (fun i hi => commit_writes_view db keys N hg i hi)
  have h3 : T (commit db (List.range N) keys) N = T db N := by simp only [T, view_commit db keys N hg]
  refine ⟨⟨good_commit db keys N hg, ?_⟩, ?_⟩
  · rw [h1, h2, h3]; omega
  · intro a ha
    rw [view_commit db keys N hg]
    exact commit_writes_view db keys N hg a ha

/-- a bank-side change of the cached address `a` only: the EVM's view is unchanged, every other address stays
    coherent -/
theorem bank_change_ex (db : DB) (N a : Nat) (k' : Keeper) (hg : Good db N) (o : Obj) (ho : db.objs a = some o)
    (hbal : ∀ b, b ≠ a → k'.bal b = db.k.bal b) (hex : ∀ b, b ≠ a → k'.exist b = db.k.exist b)
    (hwf : k'.exist a = false → k'.bal a = 0) :
    GoodEx { db with k := k' } N a ∧ view { db with k := k' } = view db := by
  have hview : view { db with k := k' } = view db := by
    funext b
    simp only [view, DB.get]
    cases hob : db.objs b with
    | some ob => rfl
    | none =>
      have hba : b ≠ a := by intro h; subst h; rw [ho] at hob; cases hob
      simp only [hbal b hba, hex b hba]
      by_cases he : db.k.exist b = true <;> simp [he]
  refine ⟨⟨?_, ?_, hg.dc, hg.ns, hg.bd⟩, hview⟩
  · intro b hb
    by_cases hba : b = a
    · subst hba; exact hwf hb
    · have hb' : db.k.exist b = false := by rw [← hex b hba]; exact hb
      show k'.bal b = 0
      rw [hbal b hba]; exact hg.wf b hb'
  · intro b hba hd
    rw [hview]
    show view db b = k'.bal b
    rw [hbal b hba]; exact hg.coh b hd

theorem estep_inv (N : Nat) (keys : List Nat) (s0 : Int) (db : DB) (op : EOp) (h : Inv db N s0) :
    Inv (estep N keys db op) N s0 := by
  cases op with
  | transfer f t x =>
    obtain ⟨hg, hs⟩ := h
    simp only [estep]
    split
    · rename_i hc
      obtain ⟨hf, ht, hx⟩ := hc
      obtain ⟨g1, v1, k1⟩ := good_subBalance db N f x hg hf
      obtain ⟨g2, v2, k2⟩ := good_addBalance (subBalance db f x) N t x g1 ht
      refine ⟨g2, ?_⟩
      simp only [T, B, k2, k1, v2, v1] at hs ⊢
      have e1 := sumTo_upd_add (upd (view db) f (view db f - x)) t x N ht
      have e2 := sumTo_upd_sub (view db) f x N hf hx
      omega
    · exact ⟨hg, hs⟩
  | setNonce a v =>
    obtain ⟨hg, hs⟩ := h
    simp only [estep]
    split
    · rename_i ha
      obtain ⟨g1, v1, k1⟩ := good_setNonce db N a v hg ha
      exact ⟨g1, by simp only [T, B, v1, k1] at hs ⊢; exact hs⟩
    · exact ⟨hg, hs⟩
  | setState a key v =>
    obtain ⟨hg, hs⟩ := h
    simp only [estep]
    split
    · rename_i ha
      obtain ⟨g1, v1, k1⟩ := good_setState db N a key v hg ha
      exact ⟨g1, by simp only [T, B, v1, k1] at hs ⊢; exact hs⟩
    · exact ⟨hg, hs⟩
  | flush => exact (flush_inv N keys s0 db h).1
  | credit a x =>
    obtain ⟨⟨g1, s1⟩, hbv⟩ := flush_inv N keys s0 db h
    simp only [estep]
    split
    · rename_i hc
      obtain ⟨ha, hcached, hx⟩ := hc
      have hobj : (commit db (List.range N) keys).objs = db.objs := rfl
      cases ho : db.objs a with
      | none => simp [ho] at hcached
      | some o =>
        have ho1 : (commit db (List.range N) keys).objs a = some o := by rw [hobj]; exact ho
        obtain ⟨gx, vx⟩ := bank_change_ex (commit db (List.range N) keys) N a
          ((commit db (List.range N) keys).k.credit a x) g1 o ho1
          (by intro b hb; simp [Keeper.credit, hb]) (by intro b hb; simp [Keeper.credit, hb])
          (by intro hb; simp [Keeper.credit] at hb)
        have hget : ({ commit db (List.range N) keys with k := (commit db (List.range N) keys).k.credit a x } : DB).get a = some o := by
          simp only [DB.get]; rw [ho1]
        have hens : ensure { commit db (List.range N) keys with k := (commit db (List.range N) keys).k.credit a x } a
            = { commit db (List.range N) keys with k := (commit db (List.range N) keys).k.credit a x } := by
          have hl : ({ commit db (List.range N) keys with k := (commit db (List.range N) keys).k.credit a x } : DB).load a
              = { commit db (List.range N) keys with k := (commit db (List.range N) keys).k.credit a x } := by
            simp only [DB.load]; rw [ho1]
          simp only [ensure, mstep, MOp.addr, hl, mstepCore, hget]
        unfold addBalance
        have hx0 : x ≠ 0 := by omega
        simp only [hens, hx0, if_false, hget]
        obtain ⟨g2, v2, k2⟩ := good_setBal _ N a (o.bal + x) gx ha o hget
        refine ⟨g2, ?_⟩
        have hva : view (commit db (List.range N) keys) a = o.bal := by simp [view, DB.get, ho1]
        simp only [T, B, v2, k2, vx] at s1 ⊢
        rw [← hva]
        have e1 := sumTo_upd_add (view (commit db (List.range N) keys)) a x N ha
        have e2 := sumTo_upd_add (commit db (List.range N) keys).k.bal a x N ha
        simp only [Keeper.credit]
        omega
    · exact ⟨g1, s1⟩
  | debit a x =>
    obtain ⟨⟨g1, s1⟩, hbv⟩ := flush_inv N keys s0 db h
    simp only [estep]
    split
    · rename_i hc
      obtain ⟨ha, hcached, hx, hle⟩ := hc
      have hobj : (commit db (List.range N) keys).objs = db.objs := rfl
      cases ho : db.objs a with
      | none => simp [ho] at hcached
      | some o =>
        have ho1 : (commit db (List.range N) keys).objs a = some o := by rw [hobj]; exact ho
        obtain ⟨gx, vx⟩ := bank_change_ex (commit db (List.range N) keys) N a
          ((commit db (List.range N) keys).k.debit a x) g1 o ho1
          (by intro b hb; simp [Keeper.debit, hb]) (by intro b hb; simp [Keeper.debit])
          (by
            intro hb
            have hb' : (commit db (List.range N) keys).k.exist a = false := hb
            have := g1.wf a hb'
            simp [Keeper.debit, this])
        have hget : ({ commit db (List.range N) keys with k := (commit db (List.range N) keys).k.debit a x } : DB).get a = some o := by
          simp only [DB.get]; rw [ho1]
        have hens : ensure { commit db (List.range N) keys with k := (commit db (List.range N) keys).k.debit a x } a
            = { commit db (List.range N) keys with k := (commit db (List.range N) keys).k.debit a x } := by
          have hl : ({ commit db (List.range N) keys with k := (commit db (List.range N) keys).k.debit a x } : DB).load a
              = { commit db (List.range N) keys with k := (commit db (List.range N) keys).k.debit a x } := by
            simp only [DB.load]; rw [ho1]
          simp only [ensure, mstep, MOp.addr, hl, mstepCore, hget]
        unfold subBalance
        have hx0 : x ≠ 0 := by omega
        simp only [hens, hx0, if_false, hget]
        obtain ⟨g2, v2, k2⟩ := good_setBal _ N a (o.bal - x) gx ha o hget
        refine ⟨g2, ?_⟩
        have hva : view (commit db (List.range N) keys) a = o.bal := by simp [view, DB.get, ho1]
        have hba := hbv a ha
        simp only [T, B, v2, k2, vx] at s1 ⊢
        rw [← hva]
        have e1 := sumTo_upd_sub (view (commit db (List.range N) keys)) a x N ha (by omega)
        have e2 := sumTo_upd_sub (commit db (List.range N) keys).k.bal a x N ha hle
        simp only [Keeper.debit]
        omega
    · exact ⟨g1, s1⟩

theorem run_inv (N : Nat) (keys : List Nat) (s0 : Int) (ops : List EOp) : ∀ (db : DB), Inv db N s0 →
    Inv (ops.foldl (estep N keys) db) N s0 := by
  induction ops with
  | nil => intro db h; exact h
  | cons op rest ih => intro db h; exact ih _ (estep_inv N keys s0 db op h)

theorem inv_new (k0 : Keeper) (N : Nat) (hwf : ∀ a, k0.exist a = false → k0.bal a = 0) :
    Inv (DB.new k0) N k0.supply := by
  have hg := good_new k0 N hwf
  refine ⟨hg, ?_⟩
  have : T (DB.new k0) N = B (DB.new k0) N := sumTo_congr _ _ N (fun i _ => hg.coh i rfl)
  rw [this]
  show k0.supply + _ - _ = k0.supply
  omega

/-- **C02**: whatever an Ethereum transaction does — value transfers, storage and nonce writes, precompile
    entries, mirrored precompile bank movements, in any order and number — the Commit at its end leaves the
    total supply where it was and makes every bank balance equal to the balance the EVM reported. -/
theorem evm_tx_conserves (N : Nat) (keys : List Nat) (k0 : Keeper)
    (hwf : ∀ a, k0.exist a = false → k0.bal a = 0) (ops : List EOp) :
    let db := ops.foldl (estep N keys) (DB.new k0)
    let k' := (commit db (List.range N) keys).k
    k'.supply = k0.supply ∧ ∀ a, a < N → k'.bal a = view db a := by
  intro db k'
  have hi : Inv db N k0.supply := run_inv N keys k0.supply ops _ (inv_new k0 N hwf)
  obtain ⟨⟨_, s1⟩, hbv⟩ := flush_inv N keys k0.supply db hi
  have h2 : B (commit db (List.range N) keys) N = T (commit db (List.range N) keys) N :=
    sumTo_congr _ _ N (fun i hi => hbv i hi)
  refine ⟨?_, ?_⟩
  · show (commit db (List.range N) keys).k.supply = k0.supply
    rw [h2] at s1; omega
  · intro a ha
    exact commit_writes_view db keys N hi.1 a ha

def kc : Keeper := { exist := fun a => a < 2, bal := fun a => if a = 0 then 2000000 else 0, nonce := fun _ => 0,
                     store := fun _ _ => 0, supply := 0 }

/-- non-vacuity: a concrete transaction meets the hypotheses and moves coins -/
example : let db := [EOp.transfer 0 1 777, .setState 1 0 5, .debit 1 100, .credit 1 40, .transfer 1 2 17].foldl (estep 4 [0, 1]) (DB.new kc)
    (commit db (List.range 4) [0, 1]).k.supply = 0 ∧ (commit db (List.range 4) [0, 1]).k.bal 1 = view db 1 :=
  let h := evm_tx_conserves 4 [0, 1] kc (by intro a h; simp [kc] at h ⊢; omega)
    [EOp.transfer 0 1 777, .setState 1 0 5, .debit 1 100, .credit 1 40, .transfer 1 2 17]
  ⟨h.1, h.2 1 (by omega)⟩

/-- F-C02-a on the model: the origin (0) sends value 777 to contract 1 — its object is dirty from then on —
    and the contract has the staking precompile delegate 1 000 000 of the *origin's* coins (authorised by a
    grant).  The precompile commits, the bank moves the coins to the bonded pool, and because the caller is not
    the delegator nothing is mirrored.  The final Commit writes the origin's stale cached balance back over
    the bank balance: 1 000 000 coins are minted. -/
theorem unmirrored_counterexample :
    let db0 := DB.new kc
    let db1 := addBalance (subBalance db0 0 777) 1 777          -- value transfer of the call
    let db2 := commit db1 [0, 1] []                              -- precompile entry
    let db3 : DB := { db2 with k := db2.k.debit 0 1000000 }      -- MsgDelegate: bank debits the origin
    let db4 := commit db3 [0, 1] []                              -- end of the transaction
    db4.k.supply = 1000000 ∧ db4.k.bal 0 = 1999223 ∧ db3.k.bal 0 = 999223 := by
  simp [DB.new, kc, addBalance, subBalance, ensure, mstep, mstepCore, DB.load, MOp.addr, DB.get, DB.push, DB.setObj, Entry.dirtied, commit,
    commitOne, Keeper.setBalance, Keeper.debit, upd]

end Haqq.SDB
