/-
  C13 — Coinomics mints the formula amount and never exceeds the cap.

  English statement (properties.jsonl):
    In each block with coinomics enabled the chain mints bonded x rewardCoefficient% x elapsed / year
    native coins - evaluated in 18-decimal fixed point and rounded to the nearest unit, with elapsed
    measured between consecutive block timestamps and the year length following leap years - and all
    of it goes to the fee collector for distribution.  Minting never lifts the total supply above the
    configured maximum: the block that would cross it mints only the remainder and switches minting
    off, and nothing is minted while minting is disabled or on the first block after activation.

  Formalisation: `State`/`Block` carry exactly what MintAndAllocate reads.  The fixed-point pipeline is
  the specification (`mint_formula`).  "First block after activation" includes re-activation:
  `reactivation_first_block_no_mint` holds for the code as it is now (regenerated fact
  `coinomicsResetsPrevTSWhenDisabled`); `reactivation_counterexample` is finding F-C13-a for the
  pinned commit (timestamp kept while disabled ⇒ the whole gap is minted).
-/
import HaqqModel.Model.Coinomics
import HaqqModel.Generated.Facts

namespace Haqq.Coinomics
open Haqq.Dec

/-- nothing is minted, and nothing but the (regenerated) timestamp reset happens, while disabled -/
theorem mint_disabled_noop (reset : Bool) (st : State) (b : Block) (h : st.enabled = false) :
    (endBlock reset st b).2 = 0 ∧ (endBlock reset st b).1.enabled = false ∧
    (endBlock reset st b).1.maxSupply = st.maxSupply ∧ (endBlock reset st b).1.rewardCoeff = st.rewardCoeff := by
  simp only [endBlock, h, Bool.not_false, if_true]
  cases reset <;> simp [h]

/-- first block after activation (no stored timestamp): nothing minted, timestamp recorded -/
theorem mint_first_block (reset : Bool) (st : State) (b : Block) (he : st.enabled = true) (h : st.prevTS = 0) :
    (endBlock reset st b).2 = 0 ∧ (endBlock reset st b).1.prevTS = b.timeMs ∧
    (endBlock reset st b).1.enabled = true := by
  simp [endBlock, he, mintAndAllocate, h]

theorem mint_nonneg (reset : Bool) (st : State) (b : Block) : 0 ≤ (endBlock reset st b).2 := by
  unfold endBlock
  split
  · simp
  · unfold mintAndAllocate
    split
    · simp
    · split
      · simp
      · rename_i h; exact chopRound_nonneg _ (by omega)

theorem capped_eq (st : State) (b : Block) (hc : crossing st b = true) :
    cappedMint st b = (st.maxSupply - b.supply) * prec := by
  simp only [cappedMint, hc, if_true, ofInt, Int.sub_mul]

/-- **the cap**: if the supply is within the maximum, it still is after the block's mint -/
theorem mint_cap (reset : Bool) (st : State) (b : Block) (h : b.supply ≤ st.maxSupply) :
    b.supply + (endBlock reset st b).2 ≤ st.maxSupply := by
  unfold endBlock
  split
  · simpa using h
  · unfold mintAndAllocate
    split
    · simpa using h
    · split
      · simpa using h
      · rename_i hn
        simp only [roundInt]
        by_cases hc : crossing st b = true
        · rw [capped_eq st b hc, chopRound_ofInt]; omega
        · have hc' : crossing st b = false := by simpa using hc
          have e : cappedMint st b = blockMintDec st b := by simp [cappedMint, hc']
          rw [e] at hn ⊢
          have hx : blockMintDec st b ≤ (st.maxSupply - b.supply) * prec := by
            have : ¬ ofInt b.supply + blockMintDec st b > ofInt st.maxSupply := by
              simpa [crossing] using hc'
            simp only [ofInt, Int.sub_mul] at *; omega
          have := chopRound_le_of_le_ofInt _ _ (by omega) hx
          omega

/-- the block that would cross the maximum mints exactly the remainder and switches minting off -/
theorem mint_cap_exact (reset : Bool) (st : State) (b : Block) (he : st.enabled = true) (hp : st.prevTS ≠ 0)
    (h : b.supply ≤ st.maxSupply) (hc : crossing st b = true) :
    (endBlock reset st b).2 = st.maxSupply - b.supply ∧ (endBlock reset st b).1.enabled = false := by
  have hn : ¬ cappedMint st b < 0 := by
    rw [capped_eq st b hc]
    have : (0:Int) ≤ (st.maxSupply - b.supply) * prec := Int.mul_nonneg (by omega) (by decide)
    omega
  have e1 : (endBlock reset st b) = ({ st with enabled := st.enabled && !crossing st b, prevTS := b.timeMs }, roundInt (cappedMint st b)) := by
    simp only [endBlock, he, Bool.not_true, Bool.false_eq_true, if_false, mintAndAllocate, hp, hn]
  rw [e1]
  simp only [hc, Bool.not_true, Bool.and_false, roundInt, capped_eq st b hc, chopRound_ofInt, and_self]

/-- inside the cap the minted amount is the fixed-point formula rounded half-even, minting stays on,
    and the block's timestamp becomes the reference for the next block -/
theorem mint_formula (reset : Bool) (st : State) (b : Block) (he : st.enabled = true) (hp : st.prevTS ≠ 0)
    (hc : crossing st b = false) (hn : 0 ≤ blockMintDec st b) :
    (endBlock reset st b).2 =
        roundInt (mul (mul (ofInt b.bonded) (quo st.rewardCoeff (ofInt 100)))
                      (quo (ofInt (b.timeMs - st.prevTS)) (ofInt (yearMs b.year)))) ∧
    (endBlock reset st b).1.enabled = true ∧ (endBlock reset st b).1.prevTS = b.timeMs := by
  have e : cappedMint st b = blockMintDec st b := by simp [cappedMint, hc]
  have hn' : ¬ cappedMint st b < 0 := by rw [e]; omega
  have e1 : (endBlock reset st b) = ({ st with enabled := st.enabled && !crossing st b, prevTS := b.timeMs }, roundInt (cappedMint st b)) := by
    simp only [endBlock, he, Bool.not_true, Bool.false_eq_true, if_false, mintAndAllocate, hp, hn']
  rw [e1, e]
  simp only [hc, he, Bool.not_false, Bool.and_true]
  exact ⟨rfl, trivial, trivial⟩

/-- leap years have 366 days of milliseconds, all others 365 -/
theorem leap_rule (y : Int) :
    yearMs y = if (y % 4 = 0 ∧ y % 100 ≠ 0) ∨ y % 400 = 0 then 366 * 86400000 else 365 * 86400000 := by
  unfold yearMs isLeap
  by_cases h1 : y % 4 = 0 <;> by_cases h2 : y % 100 = 0 <;> by_cases h3 : y % 400 = 0 <;> simp [h1, h2, h3]

/-- everything minted ends at the fee collector; the module account keeps nothing; the supply grows by
    exactly the minted amount -/
theorem mint_all_to_collector (l : Ledger) (minted : Int) :
    (applyMint l minted).collector = l.collector + minted ∧ (applyMint l minted).moduleBal = l.moduleBal ∧
    (applyMint l minted).supply = l.supply + minted := by
  simp only [applyMint]; refine ⟨trivial, ?_, trivial⟩; omega

theorem rewardCoeff_kept (reset : Bool) (st : State) (b : Block) :
    (endBlock reset st b).1.rewardCoeff = st.rewardCoeff ∧ (endBlock reset st b).1.maxSupply = st.maxSupply := by
  unfold endBlock
  split
  · cases reset <;> simp
  · unfold mintAndAllocate
    split
    · simp
    · split <;> simp

/-- the stored reference after an enabled block that recorded or minted is that block's timestamp -/
theorem prevTS_after_block (reset : Bool) (st : State) (b : Block) (he : st.enabled = true)
    (hn : st.prevTS = 0 ∨ 0 ≤ cappedMint st b) : (endBlock reset st b).1.prevTS = b.timeMs := by
  simp only [endBlock, he, Bool.not_true, Bool.false_eq_true, if_false, mintAndAllocate]
  rcases hn with h | h
  · simp [h]
  · have hlt : ¬ cappedMint st b < 0 := by omega
    split
    · rfl
    · rfl

/-- **consecutive timestamps**: the block after an enabled block that recorded or minted measures the
    elapsed time from that block's timestamp -/
theorem trace_consecutive (reset : Bool) (st : State) (b1 b2 : Block) (he : st.enabled = true)
    (hn : st.prevTS = 0 ∨ 0 ≤ cappedMint st b1) :
    blockMintDec (endBlock reset st b1).1 b2 =
      mul (mul (ofInt b2.bonded) (quo st.rewardCoeff (ofInt 100)))
          (quo (ofInt (b2.timeMs - b1.timeMs)) (ofInt (yearMs b2.year))) := by
  simp only [blockMintDec, prevTS_after_block reset st b1 he hn, (rewardCoeff_kept reset st b1).1]

/-- **re-activation**: with the timestamp cleared while disabled (what the code does now), a block
    processed while disabled followed by a switch-on makes the next block mint nothing -/
theorem reactivation_first_block_no_mint (st : State) (bOff bOn : Block) (h : st.enabled = false) :
    let stOff := (endBlock Facts.coinomicsResetsPrevTSWhenDisabled st bOff).1
    (endBlock Facts.coinomicsResetsPrevTSWhenDisabled { stOff with enabled := true } bOn).2 = 0 := by
  have hf : Facts.coinomicsResetsPrevTSWhenDisabled = true := rfl
  simp [hf, endBlock, h, mintAndAllocate]

/-- F-C13-a on the model (pinned commit: timestamp kept while disabled): enable, two blocks 5 s apart,
    disable for 10^6 s, re-enable — the first block after re-activation mints for the whole gap. -/
theorem reactivation_counterexample :
    let st : State := { enabled := true, rewardCoeff := 78 * 10 ^ 17, prevTS := 0, maxSupply := 10 ^ 29 }
    let blk (t : Int) : Block := { timeMs := t, year := 2024, bonded := 4 * 10 ^ 18, supply := 10 ^ 28 }
    let h : List (Block × Option Bool) :=
      [(blk 1700000000000, none), (blk 1700000005000, none), (blk 1700000010000, some false),
       (blk 1701000010000, some true), (blk 1701000015000, none)]
    (run false { st with } h).2 = [0, 49332119004, 0, 9866473132969035, 49332119004] ∧
    (run true { st with } h).2 = [0, 49332119004, 0, 0, 49332119004] := by
  constructor <;> decide +kernel

/-- non-vacuity of `mint_cap_exact` / `mint_formula`: concrete crossing and non-crossing blocks -/
example :
    let st : State := { enabled := true, rewardCoeff := 78 * 10 ^ 17, prevTS := 1700000000000, maxSupply := 10 ^ 28 + 5 }
    let b : Block := { timeMs := 1700000005000, year := 2024, bonded := 4 * 10 ^ 18, supply := 10 ^ 28 }
    crossing st b = true ∧ (endBlock true st b).2 = 5 ∧
    (endBlock true { st with maxSupply := 10 ^ 29 } b).2 = 49332119004 := by
  refine ⟨?_, ?_, ?_⟩ <;> decide +kernel

/-- **consecutive block timestamps**: every block processed by MintAndAllocate becomes the reference of the next one —
    on the first block after activation, on an ordinary block, on the block that reaches the cap, and also when the
    formula amount is negative (a negative reward coefficient, which validation accepts, or a clock running backwards:
    nothing is minted, but the reference moves on; before the repair it stayed, and the first block after the
    coefficient became positive again minted for the whole gap) -/
theorem every_minting_block_is_the_reference (st : State) (b : Block) : (mintAndAllocate st b).1.prevTS = b.timeMs := by
  unfold mintAndAllocate
  split
  · rfl
  · split <;> rfl

end Haqq.Coinomics
