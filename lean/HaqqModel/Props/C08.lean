/-
  C08 — Locked and unvested coins cannot leave a vesting account.

  English statement (properties.jsonl):
    At any block time, a clawback-vesting account can transfer out, pay as fee, convert, deposit or bridge
    at most its spendable balance: after any successful transaction other than a staking delegation its
    balance of each vesting denomination is still at least the locked amount
    max(original - unlockedVested - trackedDelegated, unvested).  Unvested coins can additionally not be
    delegated, whether the delegation is requested by a Cosmos message, through a grant, or through the
    staking precompile.

  Formalisation: stated for spend attempts by the account, per denomination in use (d < M).  Every debit
  path of the SDK bank keeper runs `subUnlockedCoins` (balance − LockedCoins ≥ amount); delegations run
  the Haqq staking wrapper's guard (balance − unvested ≥ amount).  That every path of the list reaches one
  of the two guards is established by the correspondence run (each path is attempted around the
  spendable boundary on the real application), not by the model.
-/
import HaqqModel.Props.C09
import HaqqModel.Props.C08Model

namespace Haqq.Vest
open Haqq.Sched

/-- for an account that satisfies `Validate()`, LockedCoins is exactly the formula of the property -/
theorem locked_eq_max (M : Nat) (a : Account) (hv : AccValid a) (t : Int) (d : Nat) (hd : d < M) :
    a.lockedCoins M t d =
      max (a.original d - a.unlockedVested t d - (a.delegatedFree d + a.delegatedVesting d)) (a.unvested t d) := by
  have hvest := read_le_total a.start a.endT a.vesting a.original t d hv.vesting
  have hguard : Amt.allLE M (Amt.add (a.unlockedVested t)
      (Amt.min (Amt.add a.delegatedFree a.delegatedVesting) (a.lockedUpVested t))) a.original = true := by
    rw [Amt.allLE_iff]
    intro d' _
    have := read_le_total a.start a.endT a.vesting a.original t d' hv.vesting
    simp only [Account.unlockedVested, Account.lockedUpVested, Account.vested, Amt.add_apply, Amt.min_apply, Amt.sub_apply] at *
    omega
  unfold Account.lockedCoins
  simp only [hguard, if_true]
  simp only [Account.unlockedVested, Account.lockedUpVested, Account.unvested, Account.vested, Amt.add_apply,
    Amt.min_apply, Amt.sub_apply] at *
  omega

/-- the locked amount never exceeds the original grant and never grows with time -/
theorem locked_antitone (M : Nat) (a : Account) (hv : AccValid a) (t1 t2 : Int) (h : t1 ≤ t2) (d : Nat) (hd : d < M) :
    a.lockedCoins M t2 d ≤ a.lockedCoins M t1 d ∧ a.lockedCoins M t1 d ≤ a.original d := by
  rw [locked_eq_max M a hv t1 d hd, locked_eq_max M a hv t2 d hd]
  have v := read_mono a.start a.endT a.vesting a.original t1 t2 d hv.vesting h
  have u := read_mono a.start a.endT a.lockup a.original t1 t2 d hv.lockup h
  simp only [Account.unlockedVested, Account.unvested, Account.vested, Account.unlocked, Amt.min_apply, Amt.sub_apply] at *
  omega

/-- **a successful spend leaves at least the locked amount**, whatever path reached the bank debit -/
theorem debit_guard (bal locked amt bal' : Nat) (h : bankDebit bal locked amt = some bal') :
    locked ≤ bal' ∧ bal' + amt = bal := by
  unfold bankDebit at h
  split at h
  · simp only [Option.some.injEq] at h; omega
  · simp at h

/-- **unvested coins cannot be delegated**: a delegation that passes the wrapper's guard leaves at least the
    unvested amount on the account (or was a zero delegation) -/
theorem delegate_guard (bal unvested amt : Nat) (h : delegateGuard bal unvested amt = true) (hpos : 0 < amt) :
    unvested ≤ bal - amt ∧ amt ≤ bal := by
  simp only [delegateGuard, decide_eq_true_eq] at h
  omega

/-- one-denomination state of a vesting account for the spend history -/
structure VState where
  acct : Account
  bal : Nat
  now : Int

inductive VOp
  | spend (amt : Nat)              -- any debit path (send, multi-send, fee, deposit, conversion, EVM value …)
  | receive (amt : Nat)
  | delegate (amt : Nat)           -- message, grant or precompile: all go through the wrapper's guard
  | undelegate (amt : Nat)         -- completed unbonding: coins return, tracking is reduced
  | advance (dt : Nat)

def lockedAt (M d : Nat) (s : VState) : Nat := s.acct.lockedCoins M s.now d

def vstep (M d : Nat) (s : VState) : VOp → VState
  | .spend amt =>
    match bankDebit s.bal (lockedAt M d s) amt with
    | some b => { s with bal := b }
    | none => s
  | .receive amt => { s with bal := s.bal + amt }
  | .delegate amt =>
    if 0 < amt ∧ delegateGuard s.bal (s.acct.unvested s.now d) amt = true then
      -- bank DelegateCoins: balance −amt; TrackDelegation: DelegatedFree +amt
      { s with bal := s.bal - amt,
               acct := { s.acct with delegatedFree := fun x => if x = d then s.acct.delegatedFree x + amt else s.acct.delegatedFree x } }
    else s
  | .undelegate amt =>
    let df := s.acct.delegatedFree d
    let take := min amt df
    { s with bal := s.bal + amt,
             acct := { s.acct with delegatedFree := fun x => if x = d then df - take else s.acct.delegatedFree x } }
  | .advance dt => { s with now := s.now + dt }

theorem valid_of_deleg_change (a : Account) (f : Amt) (hv : AccValid a) : AccValid { a with delegatedFree := f } :=
  ⟨hv.lockup, hv.vesting⟩

/-- **history invariant**: starting from balance ≥ locked, every sequence of spend attempts, receipts,
    delegations, undelegations and time steps keeps balance ≥ locked — so the account never has less than
    max(original − unlockedVested − trackedDelegated, unvested) after any of them -/
theorem vstep_inv (M d : Nat) (hd : d < M) (s : VState) (op : VOp) (hv : AccValid s.acct)
    (hdv : s.acct.delegatedVesting d = 0)
    (hi : lockedAt M d s ≤ s.bal) :
    lockedAt M d (vstep M d s op) ≤ (vstep M d s op).bal ∧ AccValid (vstep M d s op).acct ∧
    (vstep M d s op).acct.delegatedVesting d = 0 := by
  cases op with
  | spend amt =>
    simp only [vstep]
    split
    · rename_i b hb
      exact ⟨(debit_guard _ _ _ _ hb).1, hv, hdv⟩
    · exact ⟨hi, hv, hdv⟩
  | receive amt => exact ⟨by simp only [vstep, lockedAt] at *; omega, hv, hdv⟩
  | delegate amt =>
    simp only [vstep]
    split
    · rename_i hg
      obtain ⟨hpos, hg⟩ := hg
      have hg' := delegate_guard _ _ _ hg hpos
      refine ⟨?_, valid_of_deleg_change _ _ hv, hdv⟩
      have hv' : AccValid { s.acct with delegatedFree := fun x => if x = d then s.acct.delegatedFree x + amt else s.acct.delegatedFree x } :=
        valid_of_deleg_change _ _ hv
      simp only [lockedAt] at *
      rw [locked_eq_max M _ hv' s.now d hd]
      rw [locked_eq_max M _ hv s.now d hd] at hi
      simp only [Account.unlockedVested, Account.unvested, Account.vested, Account.unlocked, if_true] at *
      omega
    · exact ⟨hi, hv, hdv⟩
  | undelegate amt =>
    simp only [vstep]
    refine ⟨?_, valid_of_deleg_change _ _ hv, hdv⟩
    have hv' : AccValid { s.acct with delegatedFree := fun x => if x = d then s.acct.delegatedFree d - min amt (s.acct.delegatedFree d) else s.acct.delegatedFree x } :=
      valid_of_deleg_change _ _ hv
    simp only [lockedAt] at *
    rw [locked_eq_max M _ hv' s.now d hd]
    rw [locked_eq_max M _ hv s.now d hd] at hi
    simp only [Account.unlockedVested, Account.unvested, Account.vested, Account.unlocked, if_true] at *
    omega
  | advance dt =>
    simp only [vstep]
    refine ⟨?_, hv, hdv⟩
    have := (locked_antitone M s.acct hv s.now (s.now + dt) (by omega) d hd).1
    simp only [lockedAt] at *
    omega

def vrun (M d : Nat) (s : VState) (ops : List VOp) : VState := ops.foldl (vstep M d) s

theorem vrun_inv (M d : Nat) (hd : d < M) (ops : List VOp) : ∀ (s : VState), AccValid s.acct →
    s.acct.delegatedVesting d = 0 → lockedAt M d s ≤ s.bal →
    lockedAt M d (vrun M d s ops) ≤ (vrun M d s ops).bal := by
  induction ops with
  | nil => intro s _ _ h; exact h
  | cons op rest ih =>
    intro s hv hdv hi
    obtain ⟨h1, h2, h3⟩ := vstep_inv M d hd s op hv hdv hi
    exact ih _ h2 h3 h1

/-- non-vacuity: 100 locked until +500, vested at once; 30 delegated; spendable boundary at t = 1200 -/
example :
    let amt (x : Nat) : Amt := fun d => if d = 0 then x else 0
    let a : Account := { (newAccount 7 1000 (amt 100) [⟨500, amt 100⟩] [⟨0, amt 100⟩]) with delegatedFree := amt 30 }
    a.lockedCoins 1 1200 0 = 70 ∧ a.lockedCoins 1 1600 0 = 0 ∧
    bankDebit 120 (a.lockedCoins 1 1200 0) 50 = some 70 ∧ bankDebit 120 (a.lockedCoins 1 1200 0) 51 = none := by
  simp [newAccount, alignSchedules, alignFirst, totalLength, Account.lockedCoins, Account.unlockedVested,
    Account.lockedUpVested, Account.vested, Account.unlocked, readSchedule, readLoop, Amt.allLE, anyTo, Amt.add,
    Amt.min, Amt.sub, Amt.zero, bankDebit]

/-- **becoming a plain account loses nothing**: when the conversion back is accepted at time t, the locked amount of the
    vesting account is zero at t and at every later time, whatever is delegated — forgetting the schedules removes no
    restriction -/
theorem unconvert_loses_nothing (M : Nat) (a : Account) (hv : AccValid a) (t t' : Int) (h : t ≤ t') (d : Nat) (hd : d < M)
    (hg : unconvertGuard M a t = true) : a.lockedCoins M t' d = 0 := by
  simp only [unconvertGuard, Bool.and_eq_true, Amt.isZero_iff] at hg
  have h1 := hg.1 d hd
  have h2 := hg.2 d hd
  have hmono := (locked_antitone M a hv t t' h d hd).1
  rw [locked_eq_max M a hv t d hd] at hmono
  have hvest := read_le_total a.start a.endT a.vesting a.original t d hv.vesting
  have hlock := read_le_total a.start a.endT a.lockup a.original t d hv.lockup
  simp only [Account.unvested, Account.lockedUp, Account.unlockedVested, Account.vested, Account.unlocked,
    Amt.sub_apply, Amt.min_apply] at *
  omega
/-- the bank's LockedCoins is not the right test: with everything vested, the lockup still running and all of it
    delegated, LockedCoins reads zero (delegated coins are not counted), yet the grant is locked up — the guard
    refuses; an account made plain at that point could undelegate and spend 100 locked coins -/
theorem bank_locked_is_not_the_test :
    let amt (x : Nat) : Amt := fun d => if d = 0 then x else 0
    let a : Account := { (newAccount 7 1000 (amt 100) [⟨7000000, amt 100⟩] [⟨0, amt 100⟩]) with delegatedFree := amt 100 }
    a.lockedCoins 1 1005 0 = 0 ∧ unconvertGuard 1 a 1005 = false ∧
    ({ a with delegatedFree := amt 0 } : Account).lockedCoins 1 1005 0 = 100 := by
  simp [newAccount, alignSchedules, alignFirst, totalLength, Account.lockedCoins, Account.unlockedVested,
    Account.lockedUpVested, Account.vested, Account.unlocked, Account.unvested, Account.lockedUp, unconvertGuard,
    readSchedule, readLoop, Amt.allLE, Amt.isZero, anyTo, Amt.add, Amt.min, Amt.sub, Amt.zero]
end Haqq.Vest
