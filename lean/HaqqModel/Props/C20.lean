/-
  C20 — Restarting a node at any block boundary changes nothing.

  English statement (properties.jsonl):
    A node that is stopped after committing any block and restarted from its database continues exactly like a
    node that never stopped … Behaviour never depends on in-memory state that is not rebuilt from the database
    on start.

  Level: partial.  A node is `(db, mem)`: `db` the committed multistore, `mem` the process-local fields of the
  keepers.  The model proves that *if* every write to `mem` after construction is one that construction followed
  by the next BeginBlock repeats (`Rebuilt`), then a restarted node is indistinguishable from the running one for
  every continuation (`restart_equiv`); and that the hypothesis is exactly what is needed
  (`unrebuilt_write_counterexample`).  The hypothesis is discharged over the facts regenerated from the source:
  the only receiver-field writes in Keeper / Haqq methods are the listed ones (construction-time `With*` /
  `SetHooks`, the chain id re-derived in BeginBlock, and `AddEVMExtensions`, which has no caller outside its own
  registration helper).  What the model cannot exhibit — OS / filesystem behaviour of a real crash — is not
  claimed by the property (block boundaries only); the restart run on copied databases searches the rest.
-/
import HaqqModel.Prelude.Basic
import HaqqModel.Generated.Facts
import HaqqModel.Props.KeeperMemory

namespace Haqq.C20

/-- abstract node: committed database, process-local memory -/
structure Node (DB Mem : Type) where
  db : DB
  mem : Mem

variable {DB Mem Blk Out : Type}

/-- an application: how a block transforms the node, what construction and BeginBlock derive -/
structure App (DB Mem Blk Out : Type) where
  construct : DB → Mem                          -- NewHaqq over an existing database
  step : Node DB Mem → Blk → Node DB Mem × Out  -- BeginBlock … Commit

def App.run (A : App DB Mem Blk Out) (n : Node DB Mem) : List Blk → Node DB Mem × List Out
  | [] => (n, [])
  | b :: bs =>
    let r := A.step n b
    let rest := A.run r.1 bs
    (rest.1, r.2 :: rest.2)

def App.restart (A : App DB Mem Blk Out) (n : Node DB Mem) : Node DB Mem := { db := n.db, mem := A.construct n.db }

/-- two memories are interchangeable when every block has the same effect and leaves interchangeable memories:
    given as a relation `R` that the step preserves -/
structure Rebuilt (A : App DB Mem Blk Out) (R : DB → Mem → Mem → Prop) : Prop where
  /-- what construction derives from the database is interchangeable with what the running node holds -/
  construct_ok : ∀ n : Node DB Mem, R n.db n.mem n.mem → R n.db n.mem (A.construct n.db)
  /-- interchangeable memories give the same database, the same output and interchangeable memories again -/
  step_ok : ∀ db m1 m2 b, R db m1 m2 →
    (A.step ⟨db, m1⟩ b).1.db = (A.step ⟨db, m2⟩ b).1.db ∧ (A.step ⟨db, m1⟩ b).2 = (A.step ⟨db, m2⟩ b).2 ∧
    R (A.step ⟨db, m1⟩ b).1.db (A.step ⟨db, m1⟩ b).1.mem (A.step ⟨db, m2⟩ b).1.mem

theorem run_equiv (A : App DB Mem Blk Out) (R : DB → Mem → Mem → Prop) (h : Rebuilt A R) (bs : List Blk) :
    ∀ db m1 m2, R db m1 m2 →
      (A.run ⟨db, m1⟩ bs).2 = (A.run ⟨db, m2⟩ bs).2 ∧ (A.run ⟨db, m1⟩ bs).1.db = (A.run ⟨db, m2⟩ bs).1.db := by
  induction bs with
  | nil => intro db m1 m2 _; exact ⟨rfl, rfl⟩
  | cons b bs ih =>
    intro db m1 m2 hr
    obtain ⟨hdb, hout, hr'⟩ := h.step_ok db m1 m2 b hr
    simp only [App.run]
    have e1 : A.step ⟨db, m1⟩ b = (⟨(A.step ⟨db, m1⟩ b).1.db, (A.step ⟨db, m1⟩ b).1.mem⟩, (A.step ⟨db, m1⟩ b).2) := rfl
    have e2 : A.step ⟨db, m2⟩ b = (⟨(A.step ⟨db, m1⟩ b).1.db, (A.step ⟨db, m2⟩ b).1.mem⟩, (A.step ⟨db, m2⟩ b).2) := by
      rw [hdb]
    obtain ⟨i1, i2⟩ := ih _ _ _ hr'
    rw [e2] at *
    simp only at i1 i2 ⊢
    refine ⟨?_, ?_⟩
    · rw [hout]
      have : (A.run ⟨(A.step ⟨db, m1⟩ b).1.db, (A.step ⟨db, m1⟩ b).1.mem⟩ bs).2
           = (A.run ⟨(A.step ⟨db, m1⟩ b).1.db, (A.step ⟨db, m2⟩ b).1.mem⟩ bs).2 := i1
      exact congrArg _ this
    · exact i2

/-- **a node restarted at a block boundary produces the same outputs and databases for every continuation** -/
theorem restart_equiv (A : App DB Mem Blk Out) (R : DB → Mem → Mem → Prop) (h : Rebuilt A R)
    (n : Node DB Mem) (hn : R n.db n.mem n.mem) (bs : List Blk) :
    (A.run n bs).2 = (A.run (A.restart n) bs).2 ∧ (A.run n bs).1.db = (A.run (A.restart n) bs).1.db :=
  run_equiv A R h bs n.db n.mem (A.construct n.db) (h.construct_ok n hn)

/-- when some block writes memory that construction does not rebuild, the restarted node diverges: memory = a
    cached copy of a parameter, filled by the first block and never refreshed; the database parameter changes at
    block 1; the restarted node (empty cache) reads the new value, the running node its stale copy -/
def cacheApp : App Nat (Option Nat) Nat Nat where
  construct := fun _ => none
  step := fun n b =>
    let db' := if b = 1 then n.db + 1 else n.db              -- block 1 changes the parameter
    let used := match n.mem with | some v => v | none => db'  -- memoised value, else read the database
    ({ db := db', mem := some used }, used)

theorem unrebuilt_write_counterexample :
    let n0 : Node Nat (Option Nat) := { db := 7, mem := none }
    let n1 := (cacheApp.run n0 [0, 1]).1           -- ran two blocks; the parameter changed in the second
    (cacheApp.run n1 [2]).2 = [7] ∧ (cacheApp.run (cacheApp.restart n1) [2]).2 = [8] := by
  decide

/-! ### the hypothesis, over the regenerated facts: `Props/KeeperMemory.lean` (shared with C01) -/

end Haqq.C20
