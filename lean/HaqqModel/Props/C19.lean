/-
  C19 — Exported genesis re-imports to the same state.

  English statement (properties.jsonl):
    Exporting the application state at any height and initialising a fresh chain from that export yields the same
    module state: exporting again gives an identical document, and the Haqq modules … answer every query
    identically.  No piece of consensus-relevant module state is dropped or invented by the export/import cycle.

  Formalisation.  A module's state is a family of fields; `export` copies the fields the module's ExportGenesis
  fills, `init` writes the fields its InitGenesis reads and leaves the others at the fresh chain's value.  Which
  fields are filled and read is *regenerated from the source on every run* (`Facts.genesisFieldFacts`).
    * `roundtrip`: when every field is exported and imported, `init (export s) = s` and a second export is
      identical to the first — for every state;
    * `dropped_field_counterexample`: a field that is exported but not imported (the coinomics PrevBlockTs defect,
      repaired by 2509d2f) makes the second export differ;
    * `all_fields_roundtrip`: over the regenerated facts, every field of every Haqq module is both;
    * `epochs_keeps_start_height`: the one field whose import *transformed* the value (the epochs start height,
      repaired by 81aeba2) is now copied for running epochs — the model of that import (`epochInit`) is proved to
      be the identity exactly under the regenerated fact.
  Field-by-field semantics inside a field (a list of accounts, token pairs …) are covered by the differential
  run: export → InitChain on a fresh application → export, compared path by path, plus keeper reads on both.
-/
import HaqqModel.Prelude.Basic
import HaqqModel.Generated.Facts

namespace Haqq.C19

/-- a module: fields are numbered, values are naturals (any encodable value) -/
structure Module where
  exported : Nat → Bool
  imported : Nat → Bool
  fresh : Nat → Nat            -- what a freshly initialised chain holds when the import does not write the field

def Module.export (m : Module) (s : Nat → Nat) : Nat → Nat := fun f => if m.exported f then s f else 0
def Module.init (m : Module) (g : Nat → Nat) : Nat → Nat := fun f => if m.imported f then g f else m.fresh f

/-- **round trip**: with every field exported and imported the import of an export is the state itself, and
    exporting again gives the identical document -/
theorem roundtrip (m : Module) (h : ∀ f, m.exported f = true ∧ m.imported f = true) (s : Nat → Nat) :
    m.init (m.export s) = s ∧ m.export (m.init (m.export s)) = m.export s := by
  have h1 : m.init (m.export s) = s := by
    funext f
    simp [Module.init, Module.export, (h f).1, (h f).2]
  exact ⟨h1, by rw [h1]⟩

/-- a field that is exported but not read back is lost: the second export differs (coinomics PrevBlockTs before
    the repair: exported 1704067238000, a fresh chain holds 0) -/
theorem dropped_field_counterexample :
    let m : Module := { exported := fun _ => true, imported := fun f => f != 1, fresh := fun _ => 0 }
    let s : Nat → Nat := fun f => if f = 1 then 1704067238000 else 7
    m.export (m.init (m.export s)) 1 = 0 ∧ m.export s 1 = 1704067238000 := by
  simp [Module.export, Module.init]

/-! ### over the regenerated facts -/

theorem all_fields_roundtrip :
    Facts.genesisFieldFacts.all (fun p => p.2 == "exported+imported") = true ∧ Facts.genesisFieldFacts.length = 16 := by
  decide

theorem coinomics_prevts_imported : Facts.coinomicsInitImportsPrevTS = true := by decide

/-- the epochs import of one epoch's start height: `keeps` = the regenerated fact -/
def epochInit (keeps : Bool) (countingStarted : Bool) (exportedHeight importHeight : Nat) : Nat :=
  if keeps then (if countingStarted then exportedHeight else importHeight) else importHeight

theorem epochs_keeps_start_height (exportedHeight importHeight : Nat) :
    epochInit Facts.epochsInitKeepsStartHeight true exportedHeight importHeight = exportedHeight := by
  have : Facts.epochsInitKeepsStartHeight = true := by decide
  simp [epochInit, this]

/-- before the repair a running epoch's start height was replaced by the import height -/
theorem epochs_height_counterexample : epochInit false true 2 8 = 8 := by decide

/-! ### inside `evm.Accounts`: which accounts the export walks

An account of the auth module is plain, an Ethereum account or a vesting account; the last two carry a code hash (both
implement `EthAccountI`).  A contract can sit under a vesting account: an address is converted into a vesting account
and a CREATE lands on it afterwards, or a liquid token is redeemed to a contract.  The EVM export must walk every
account that can carry code; the import writes code and storage for exactly the accounts listed. -/

inductive Kind | plain | eth | vesting
  deriving Repr, DecidableEq

structure Acct where
  kind : Kind
  code : Nat        -- 0 = no code
  storage : Nat     -- an opaque digest of the contract's storage
  deriving Repr, DecidableEq

/-- `ifaceAssert` = the export asserts the interface (every account kind with a code hash); otherwise the concrete
    Ethereum account type -/
def walked (ifaceAssert : Bool) (a : Acct) : Bool :=
  match a.kind with
  | .plain => false
  | .eth => true
  | .vesting => ifaceAssert

/-- the EVM state the importing chain ends up with for one account: code and storage when the export listed it, nothing
    otherwise (the auth section still recreates the account itself, code hash included) -/
def evmRoundTrip (ifaceAssert : Bool) (a : Acct) : Nat × Nat := if walked ifaceAssert a then (a.code, a.storage) else (0, 0)

/-- plain accounts carry no code (the EVM keeper turns an account into an Ethereum account when it gives it code) -/
def WellFormed (a : Acct) : Prop := a.kind = .plain → a.code = 0 ∧ a.storage = 0

/-- **no contract is dropped**: with the interface assertion the export / import cycle restores code and storage of every
    account, whatever kind of account the contract sits under -/
theorem evm_accounts_roundtrip (a : Acct) (h : WellFormed a) : evmRoundTrip true a = (a.code, a.storage) := by
  cases a with
  | mk kind code storage =>
    cases kind <;> simp_all [evmRoundTrip, walked, WellFormed]

/-- asserting the concrete type drops a contract that sits under a vesting account -/
theorem concrete_assertion_counterexample :
    evmRoundTrip false { kind := .vesting, code := 77, storage := 19 } = (0, 0) ∧
    evmRoundTrip true { kind := .vesting, code := 77, storage := 19 } = (77, 19) := by decide

/-- the export asserts the interface (regenerated fact) -/
theorem evm_export_walks_every_coded_account : Facts.evmExportAccountAssertion = "haqqtypes.EthAccountI" := by decide

end Haqq.C19
