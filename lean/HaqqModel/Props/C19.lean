/-
  C19 — Exported genesis re-imports to the same state.

  English statement (properties.jsonl):
    Exporting the application state at any height and initialising a fresh chain from that export yields the same
    module state: exporting again gives an identical document, and the Haqq modules … answer every query
    identically.  No piece of consensus-relevant module state is dropped or invented by the export/import cycle.

  Formalisation.  A module's state is a family of fields; `export` copies the fields the module's ExportGenesis
  fills, `init` writes the fields its InitGenesis reads and leaves the others at the fresh chain's value.  Which
  fields are filled and read is *regenerated from the source on every run* (`Facts.genesisFieldFacts`).
    * `roundtrip`: when every field is exported and imported, `init (export s) = s` and a second export is
      identical to the first — for every state;
    * `dropped_field_counterexample`: a field that is exported but not imported (the coinomics PrevBlockTs defect,
      repaired by 2509d2f) makes the second export differ;
    * `all_fields_roundtrip`: over the regenerated facts, every field of every Haqq module is both;
    * `epochs_keeps_start_height`: the one field whose import *transformed* the value (the epochs start height,
      repaired by 81aeba2) is now copied for running epochs — the model of that import (`epochInit`) is proved to
      be the identity exactly under the regenerated fact.
  Field-by-field semantics inside a field (a list of accounts, token pairs …) are covered by the differential
  run: export → InitChain on a fresh application → export, compared path by path, plus keeper reads on both.
-/
import HaqqModel.Prelude.Basic
import HaqqModel.Generated.Facts

namespace Haqq.C19

/-- a module: fields are numbered, values are naturals (any encodable value) -/
structure Module where
  exported : Nat → Bool
  imported : Nat → Bool
  fresh : Nat → Nat            -- what a freshly initialised chain holds when the import does not write the field

def Module.export (m : Module) (s : Nat → Nat) : Nat → Nat := fun f => if m.exported f then s f else 0
def Module.init (m : Module) (g : Nat → Nat) : Nat → Nat := fun f => if m.imported f then g f else m.fresh f

/-- **round trip**: with every field exported and imported the import of an export is the state itself, and
    exporting again gives the identical document -/
theorem roundtrip (m : Module) (h : ∀ f, m.exported f = true ∧ m.imported f = true) (s : Nat → Nat) :
    m.init (m.export s) = s ∧ m.export (m.init (m.export s)) = m.export s := by
  have h1 : m.init (m.export s) = s := by
    funext f
    simp [Module.init, Module.export, (h f).1, (h f).2]
  exact ⟨h1, by rw [h1]⟩

/-- a field that is exported but not read back is lost: the second export differs (coinomics PrevBlockTs before
    the repair: exported 1704067238000, a fresh chain holds 0) -/
theorem dropped_field_counterexample :
    let m : Module := { exported := fun _ => true, imported := fun f => f != 1, fresh := fun _ => 0 }
    let s : Nat → Nat := fun f => if f = 1 then 1704067238000 else 7
    m.export (m.init (m.export s)) 1 = 0 ∧ m.export s 1 = 1704067238000 := by
  simp [Module.export, Module.init]

/-! ### over the regenerated facts -/

theorem all_fields_roundtrip :
    Facts.genesisFieldFacts.all (fun p => p.2 == "exported+imported") = true ∧ Facts.genesisFieldFacts.length = 16 := by
  decide

theorem coinomics_prevts_imported : Facts.coinomicsInitImportsPrevTS = true := by decide

/-- the epochs import of one epoch's start height: `keeps` = the regenerated fact -/
def epochInit (keeps : Bool) (countingStarted : Bool) (exportedHeight importHeight : Nat) : Nat :=
  if keeps then (if countingStarted then exportedHeight else importHeight) else importHeight

theorem epochs_keeps_start_height (exportedHeight importHeight : Nat) :
    epochInit Facts.epochsInitKeepsStartHeight true exportedHeight importHeight = exportedHeight := by
  have : Facts.epochsInitKeepsStartHeight = true := by decide
  simp [epochInit, this]

/-- before the repair a running epoch's start height was replaced by the import height -/
theorem epochs_height_counterexample : epochInit false true 2 8 = 8 := by decide

end Haqq.C19
