/-
  C16 — A precompile call has exactly the effect of the native message.

  English statement (properties.jsonl):
    Calling a staking, distribution or ICS-20 precompile method as the account owner changes Cosmos state …
    exactly as submitting the corresponding native message from the same account in the same state would, and
    succeeds or fails in the same cases.  The read-only methods report what the native queries report.

  What is proved, and how it is tied to the code:
    * `owner_call_is_native`: in the authority model of the staking precompile (`Model/Authz.lean`, tied to the
      real code by C04's differential run) a call whose caller, signer and named delegator coincide consults no
      grant, changes no grant, moves the owner's stake, and succeeds exactly when the native message does —
      for every grant state and every argument.
    * `runs_native_server` / `argument_mapping`: over facts regenerated from the source, every transaction method
      decodes its arguments into the message literal pinned here (delegator / validator / amount / denomination
      in the places the native message has them, followed by ValidateBasic) and hands *that* message, unchanged,
      to the module's own message server.
    * `balances_follow_the_bank`: the balance side of the equivalence is C02's `evm_tx_conserves` (after the
      message the EVM's cached balances are synchronised with the bank, so the final Commit leaves what the
      native message produced) — before the repair e6ca689 it was not: pending rewards paid out during a
      delegation were burned, rewards withdrawn to another withdraw address were minted twice.
  The differential run forks the state, runs the native message on one fork and the precompile call by the owner
  on the other, and compares success and the auth / bank / staking / distribution / slashing / authz stores key
  by key; read-only methods are compared with the keepers' answers.  ICS-20 needs an IBC channel and is not run.
-/
import HaqqModel.Model.Authz
import HaqqModel.Props.C02
import HaqqModel.Generated.Facts

namespace Haqq.C16
open Haqq.Authz

/-- the owner path: caller = signer = named delegator -/
theorem owner_call_is_native (a val amt : Nat) (native : Bool) (g : Option Grant) :
    stakingCall { origin := a, caller := a, delegator := a, val := val, amt := amt, native := native } g
      = if native then .ok a g else .reject := by
  cases native <;> simp [stakingCall]

def expectedServers : List (String × String) :=
  [("Delegate", "decoder→stakingkeeper.NewMsgServerImpl→msgSrv.Delegate(msg)"),
   ("Undelegate", "decoder→stakingkeeper.NewMsgServerImpl→msgSrv.Undelegate(msg)"),
   ("Redelegate", "decoder→stakingkeeper.NewMsgServerImpl→msgSrv.BeginRedelegate(msg)"),
   ("CancelUnbondingDelegation", "decoder→stakingkeeper.NewMsgServerImpl→msgSrv.CancelUnbondingDelegation(msg)"),
   ("SetWithdrawAddress", "decoder→distributionkeeper.NewMsgServerImpl→msgSrv.SetWithdrawAddress(msg)"),
   ("WithdrawDelegatorRewards", "decoder→distributionkeeper.NewMsgServerImpl→msgSrv.WithdrawDelegatorReward(msg)"),
   ("WithdrawValidatorCommission", "decoder→distributionkeeper.NewMsgServerImpl→msgSrv.WithdrawValidatorCommission(msg)")]

/-- every transaction method passes the decoded message unchanged to the module's own message server -/
theorem runs_native_server : Facts.precompileRunsNativeServer = expectedServers := by decide

def coin : String := "Amount: sdk.Coin{ Denom: denom, Amount: math.NewIntFromBigInt(amount), }, "
def dlg (v : String) : String := "DelegatorAddress: sdk.AccAddress(" ++ v ++ ".Bytes()).String(), "

def expectedLiterals : List (String × String) :=
  [("NewMsgDelegate", "stakingtypes.MsgDelegate{ " ++ dlg "delegatorAddr" ++ "ValidatorAddress: validatorAddress, " ++ coin ++ "}"),
   ("NewMsgUndelegate", "stakingtypes.MsgUndelegate{ " ++ dlg "delegatorAddr" ++ "ValidatorAddress: validatorAddress, " ++ coin ++ "}"),
   ("NewMsgRedelegate", "stakingtypes.MsgBeginRedelegate{ " ++ dlg "delegatorAddr" ++
      "ValidatorSrcAddress: validatorSrcAddress, ValidatorDstAddress: validatorDstAddress, " ++ coin ++ "}"),
   ("NewMsgCancelUnbondingDelegation", "stakingtypes.MsgCancelUnbondingDelegation{ " ++ dlg "delegatorAddr" ++
      "ValidatorAddress: validatorAddress, " ++ coin ++ "CreationHeight: creationHeight.Int64(), }"),
   ("NewMsgSetWithdrawAddress", "distributiontypes.MsgSetWithdrawAddress{ " ++ dlg "delegatorAddress" ++ "WithdrawAddress: withdrawerAddress, }"),
   ("NewMsgWithdrawDelegatorReward", "distributiontypes.MsgWithdrawDelegatorReward{ " ++ dlg "delegatorAddress" ++ "ValidatorAddress: validatorAddress, }"),
   ("NewMsgWithdrawValidatorCommission", "distributiontypes.MsgWithdrawValidatorCommission{ ValidatorAddress: validatorAddress, }")]

set_option maxRecDepth 100000 in
/-- the argument mapping: each decoder builds exactly this message (and validates it) -/
theorem argument_mapping : Facts.precompileMsgLiterals = expectedLiterals := by decide

/-- the balance side: the methods synchronise the cached balances after the message (C02) -/
theorem balances_follow_the_bank :
    Facts.precompileBalanceSync.all (fun p => p.2 == "sync") = true := Haqq.SDB.precompiles_sync.1

/-- the validator / validators queries copy operator, jailed flag, status, tokens and shares straight out of the module's
    validator, whatever its status (the two query literals; the third is the all-zero default) -/
theorem validator_queries_copy_the_module : Facts.stakingValidatorInfoFields =
    [("DelegatorShares", "big.NewInt(0)"), ("DelegatorShares", "v.DelegatorShares.BigInt()"), ("DelegatorShares", "v.DelegatorShares.BigInt()"),
     ("Jailed", "false"), ("Jailed", "v.Jailed"), ("Jailed", "v.Jailed"),
     ("OperatorAddress", "\"\""), ("OperatorAddress", "v.OperatorAddress"), ("OperatorAddress", "v.OperatorAddress"),
     ("Status", "uint8(0)"), ("Status", "uint8(stakingtypes.BondStatus_value[v.Status.String()])"),
     ("Status", "uint8(stakingtypes.BondStatus_value[v.Status.String()])"),
     ("Tokens", "big.NewInt(0)"), ("Tokens", "v.Tokens.BigInt()"), ("Tokens", "v.Tokens.BigInt()")] := by decide

/-- the precompile's reading of a 256-bit creation height: before 98e7ca9 its low 64 bits (`checked = false`), now the
    height itself when it fits an int64 and a refusal otherwise -/
def heightArg (checked : Bool) (w : Nat) : Option Nat :=
  if checked then (if w < 2 ^ 63 then some w else none) else some (w % 2 ^ 64)

/-- a height the precompile passes on is the height the caller wrote -/
theorem height_names_only_itself (w h : Nat) (hh : heightArg true w = some h) : h = w := by
  unfold heightArg at hh
  simp only [if_true] at hh
  split at hh
  · exact (Option.some.inj hh).symm
  · cases hh

/-- before: 2^64 + 5 was read as 5 — the entry created at height 5 was cancelled by a call no native message expresses -/
theorem height_wrap_counterexample : heightArg false (2 ^ 64 + 5) = some 5 ∧ heightArg true (2 ^ 64 + 5) = none := by decide

/-- the code's side of `heightArg true`: every narrowing conversion of a big integer in the precompile packages sits behind a
    range test that returns (regenerated from precompiles/*/*.go) -/
theorem narrowing_conversions_are_guarded :
    Facts.precompileNarrowingConversions = [("precompiles/staking/types.go:NewMsgCancelUnbondingDelegation:creationHeight.Int64()", "guarded")] := by
  decide

end Haqq.C16
