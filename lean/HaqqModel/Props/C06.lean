/-
  C06 — Ethereum messages and blocked types cannot bypass their route.

  English statement (properties.jsonl):
    An Ethereum transaction message is executed only through the Ethereum route of the ante handler
    (where its fee, nonce and signature rules apply); wrapped in a plain Cosmos transaction, or nested at
    any depth inside authorization-exec messages, it is rejected before execution.  Message types that
    are barred from delegation-by-grant can be neither granted nor executed through nested grants, and
    transactions carrying an unknown extension option are rejected.

  Formalisation: message trees are a mutual inductive type (MsgExec nests lists of messages to any depth
  and width); `badList` marks every tree that holds a blocked message below an exec or a grant of a
  blocked type at any depth.  Chain composition, route table, disabled types, the nesting cap and the
  per-decorator "only MsgEthereumTx" facts are regenerated from app/ante on every run and decided here.
  "Extension option" = critical `extension_options`.
-/
import HaqqModel.Model.Ante
import HaqqModel.Generated.Facts

namespace Haqq.Ante

/-! ## nested authorisations -/

mutual
  /-- a tree with a blocked message below an exec, or a grant of a blocked type, anywhere, is rejected by
      the limiter's scan — whatever the current nesting level and cap -/
  theorem bad_loop_rejected (N : Nat) : ∀ (ms : MsgList) (inner : Bool) (lvl : Nat),
      badList ms inner = true → checkLoop N ms inner lvl = false
    | .nil, inner, lvl, h => by simp [badList] at h
    | .cons m rest, inner, lvl, h => by
      simp only [badList, Bool.or_eq_true] at h
      cases m with
      | eth =>
        simp only [checkLoop, disabled]
        rcases h with h | h
        · simp only [badMsg] at h; simp [h]
        · simp [bad_loop_rejected N rest inner lvl h]
      | createVesting =>
        simp only [checkLoop, disabled]
        rcases h with h | h
        · simp only [badMsg] at h; simp [h]
        · simp [bad_loop_rejected N rest inner lvl h]
      | other k =>
        simp only [checkLoop]
        rcases h with h | h
        · simp [badMsg] at h
        · exact bad_loop_rejected N rest inner lvl h
      | grant u =>
        simp only [checkLoop]
        rcases h with h | h
        · simp only [badMsg] at h; simp [h]
        · simp [bad_loop_rejected N rest inner lvl h]
      | exec ims =>
        simp only [checkLoop]
        rcases h with h | h
        · simp only [badMsg] at h; simp [bad_enter_rejected N ims (lvl + 1) h]
        · simp [bad_loop_rejected N rest inner (lvl + 1) h]
  theorem bad_enter_rejected (N : Nat) : ∀ (ms : MsgList) (lvl : Nat),
      badList ms true = true → checkEnter N ms lvl = false
    | ms, lvl, h => by
      simp only [checkEnter]
      split
      · rfl
      · exact bad_loop_rejected N ms true lvl h
end

/-- **blocked types cannot be executed or granted through nesting**: any transaction whose message tree
    contains MsgEthereumTx or MsgCreateVestingAccount below a MsgExec at any depth, or a MsgGrant for one
    of them at any depth (top level included), is rejected by the AuthzLimiterDecorator -/
theorem blocked_in_exec_rejected (N : Nat) (msgs : MsgList) (h : badList msgs false = true) :
    authzLimiter N msgs = false := by
  unfold authzLimiter
  split
  · rfl
  · exact bad_loop_rejected N msgs false 1 h

/-- the nesting cap rejects by itself: a message wrapped in `n` MsgExec with n + lvl ≥ cap is rejected
    whatever the innermost message is -/
theorem deep_nesting_rejected (N : Nat) (m : Msg) : ∀ (n lvl : Nat) (inner : Bool), 0 < n → N ≤ lvl + n →
    checkLoop N (.cons (nestExec n m) .nil) inner lvl = false := by
  intro n
  induction n with
  | zero => intro lvl inner h; omega
  | succ k ih =>
    intro lvl inner _ hle
    simp only [nestExec, checkLoop, checkEnter]
    by_cases hc : lvl + 1 ≥ N
    · simp [hc]
    · simp only [hc, if_false]
      cases k with
      | zero => omega
      | succ j =>
        have := ih (lvl + 1) true (by omega) (by omega)
        simp [this]

/-! ## the composed gate -/

/-- a MsgEthereumTx at the top level of a transaction that is not on the Ethereum route is rejected -/
theorem eth_on_cosmos_routes_rejected (N : Nat) (opts : List Ext) (msgs : MsgList)
    (hr : route opts = .cosmos ∨ route opts = .eip712) (h : hasTopLevelEth msgs = true) :
    gate N opts msgs = .rejectEthMsg := by
  unfold gate
  rcases hr with hr | hr <;> simp [hr, h]

/-- a tree with a blocked nested message / grant is not a list of plain eth messages -/
theorem bad_not_allEth : ∀ (ms : MsgList), badList ms false = true → allEth ms = false
  | .nil, h => by simp [badList] at h
  | .cons m rest, h => by
    cases m with
    | eth =>
      simp only [badList, badMsg, Bool.false_or] at h
      simp only [allEth]; exact bad_not_allEth rest h
    | createVesting => simp [allEth]
    | other k => simp [allEth]
    | grant u => simp [allEth]
    | exec ims => simp [allEth]

/-- a blocked message nested in exec/grant wrappers never passes the gate on the Cosmos or EIP-712
    route, and on the Ethereum route nothing but MsgEthereumTx passes -/
theorem blocked_never_passes (N : Nat) (opts : List Ext) (msgs : MsgList) (h : badList msgs false = true) :
    gate N opts msgs ≠ .passGate := by
  have hl := blocked_in_exec_rejected N msgs h
  have hne : allEth msgs = false := bad_not_allEth msgs h
  unfold gate
  cases hr : route opts with
  | rejected => simp
  | evm => simp only [hne]; split <;> simp
  | eip712 => simp only [hl]; split <;> simp
  | cosmos => simp only [hl]; split <;> simp

/-- on the Ethereum route only MsgEthereumTx messages pass -/
theorem eth_route_only_eth (N : Nat) (opts : List Ext) (msgs : MsgList) (hr : route opts = .evm)
    (h : allEth msgs = false) : gate N opts msgs ≠ .passGate := by
  unfold gate
  simp only [hr, h]
  split <;> simp

theorem mem_all_false {opts : List Ext} {k : Nat} (h : Ext.unknown k ∈ opts) :
    opts.all (· == .dynamicFee) = false := by
  induction opts with
  | nil => cases h
  | cons o rest ih =>
    simp only [List.all_cons, Bool.and_eq_false_iff]
    cases h with
    | head => left; simp
    | tail _ h' => right; exact ih h'

/-- **unknown extension options are rejected**, wherever they stand in the option list -/
theorem unknown_ext_rejected (N : Nat) (opts : List Ext) (msgs : MsgList) (k : Nat)
    (h : Ext.unknown k ∈ opts) : gate N opts msgs ≠ .passGate := by
  unfold gate
  cases opts with
  | nil => cases h
  | cons o rest =>
    cases o with
    | unknown j => simp [route]
    | ethTx =>
      have : rest ≠ [] := by
        intro he; subst he
        cases h with
        | tail _ h' => cases h'
      have hl : (Ext.ethTx :: rest).length ≠ 1 := by
        cases rest with
        | nil => exact absurd rfl this
        | cons _ _ => simp
      simp only [route]
      rw [if_pos hl]
      simp
    | web3Tx =>
      have : rest ≠ [] := by
        intro he; subst he
        cases h with
        | tail _ h' => cases h'
      have hl : (Ext.web3Tx :: rest).length ≠ 1 := by
        cases rest with
        | nil => exact absurd rfl this
        | cons _ _ => simp
      simp only [route]
      split
      · simp
      · split
        · simp
        · simp [hl]
    | dynamicFee =>
      simp only [route, mem_all_false h]
      split
      · simp
      · split <;> simp

/-- the same through DeliverTx (decoder first, then the ante handler) -/
theorem unknown_ext_rejected_deliver (N : Nat) (opts : List Ext) (msgs : MsgList) (k : Nat)
    (h : Ext.unknown k ∈ opts) : deliver N opts msgs ≠ .passGate := by
  unfold deliver
  split
  · simp
  · exact unknown_ext_rejected N opts msgs k h

/-! ## what the source says now (regenerated facts, decided by the kernel) -/

/-- the route table of NewAnteHandler, the default route and the rejection of an unknown first option -/
theorem route_table :
    Facts.anteRoutes =
      [("/ethermint.evm.v1.ExtensionOptionsEthereumTx", "newEVMAnteHandler"),
       ("/ethermint.types.v1.ExtensionOptionsWeb3Tx", "newLegacyCosmosAnteHandlerEip712"),
       ("/ethermint.types.v1.ExtensionOptionDynamicFeeTx", "newCosmosAnteHandler")] ∧
    Facts.anteDefaultRoute = "newCosmosAnteHandler" ∧ Facts.anteUnknownFirstOptionRejected = true ∧
    Facts.appUsesNewAnteHandler = true := by decide

def indexOf? (l : List String) (s : String) : Option Nat :=
  match l with
  | [] => none
  | x :: xs => if x == s then some 0 else (indexOf? xs s).map (· + 1)

def before (l : List String) (a b : String) : Bool :=
  match indexOf? l a, indexOf? l b with
  | some i, some j => i < j
  | _, _ => false

/-- on both non-Ethereum routes RejectMessages is the first decorator, the authz limiter is the second,
    and both precede signature verification, sequence increment and hence execution; the Cosmos route
    checks extension options with the dynamic-fee checker -/
theorem chain_order :
    Facts.anteCosmosChain.head? = some "cosmosante.RejectMessagesDecorator" ∧
    Facts.anteEip712Chain.head? = some "cosmosante.RejectMessagesDecorator" ∧
    Facts.anteCosmosChain[1]? = some "cosmosante.NewAuthzLimiterDecorator" ∧
    Facts.anteEip712Chain[1]? = some "cosmosante.NewAuthzLimiterDecorator" ∧
    before Facts.anteCosmosChain "cosmosante.NewAuthzLimiterDecorator" "ante.NewSigVerificationDecorator" = true ∧
    before Facts.anteCosmosChain "cosmosante.NewAuthzLimiterDecorator" "ante.NewIncrementSequenceDecorator" = true ∧
    before Facts.anteEip712Chain "cosmosante.NewAuthzLimiterDecorator" "cosmosante.NewLegacyEip712SigVerificationDecorator" = true ∧
    before Facts.anteCosmosChain "ante.NewExtensionOptionsDecorator" "ante.NewSigVerificationDecorator" = true ∧
    Facts.anteExtensionOptionChecker = "ethermint.HasDynamicFeeExtensionOption" := by decide

/-- the limiter is constructed with exactly the two blocked types on both routes, and the cap is 7 -/
theorem limiter_config :
    Facts.anteCosmosAuthzDisabled =
      ["sdk.MsgTypeURL(&evmtypes.MsgEthereumTx{})", "sdk.MsgTypeURL(&sdkvesting.MsgCreateVestingAccount{})"] ∧
    Facts.anteEip712AuthzDisabled = Facts.anteCosmosAuthzDisabled ∧ Facts.authzMaxNestedMsgs = 7 := by decide

def lookup (l : List (String × String)) (k : String) : Option String :=
  match l with
  | [] => none
  | (a, b) :: rest => if a == k then some b else lookup rest k

/-- on the Ethereum route: exactly one extension option is demanded, and the decorators that run
    unconditionally on DeliverTx reject any message that is not MsgEthereumTx -/
theorem eth_route_facts :
    Facts.ethValidateBasicRequiresOneExt = true ∧ Facts.eip712VerifierRequiresOneExt = true ∧
    lookup Facts.anteEvmRejectsNonEth "evmante.NewEthValidateBasicDecorator" = some "except:ctx.IsReCheckTx()" ∧
    lookup Facts.anteEvmRejectsNonEth "evmante.NewEthSigVerificationDecorator" = some "always" ∧
    lookup Facts.anteEvmRejectsNonEth "evmante.NewCanTransferDecorator" = some "always" ∧
    lookup Facts.anteEvmRejectsNonEth "evmante.NewEthIncrementSenderSequenceDecorator" = some "always" ∧
    before Facts.anteEvmChain "evmante.NewEthValidateBasicDecorator" "evmante.NewEthGasConsumeDecorator" = true ∧
    before Facts.anteEvmChain "evmante.NewEthSigVerificationDecorator" "evmante.NewEthIncrementSenderSequenceDecorator" = true := by
  decide

def deepTree (m : Msg) : MsgList :=
  .cons (.other 1) (.cons (.exec (.cons (.other 2) (.cons (.exec (.cons (.exec (.cons m .nil)) .nil)) .nil))) .nil)

/-- non-vacuity: a 3-deep tree with a blocked message in the innermost exec is `bad` and rejected with the
    code's cap; the same tree without it passes; 6 nested execs hit the cap -/
example :
    badList (deepTree .eth) false = true ∧ authzLimiter Facts.authzMaxNestedMsgs (deepTree .eth) = false ∧
    authzLimiter Facts.authzMaxNestedMsgs (deepTree (.other 3)) = true ∧
    authzLimiter Facts.authzMaxNestedMsgs (.cons (nestExec 5 (.other 0)) .nil) = true ∧
    authzLimiter Facts.authzMaxNestedMsgs (.cons (nestExec 6 (.other 0)) .nil) = false ∧
    gate 7 [.dynamicFee, .ethTx] (.cons (.other 0) .nil) = .rejectExt ∧
    gate 7 [] (.cons (.other 0) .nil) = .passGate := by
  refine ⟨?_, ?_, ?_, ?_, ?_, ?_, ?_⟩ <;>
    simp [authzLimiter, checkLoop, checkEnter, deepTree, nestExec, disabled, gate, route, hasTopLevelEth, allEth,
      badList, badMsg, Facts.authzMaxNestedMsgs]

end Haqq.Ante
