/-
  The reading of puppet scripts (Model/Script.lean) — the reference against which every real puppet transaction of the C02
  and C05 checks is judged, computed in Go by harness/props/puppet.go and, line by line, by the Lean driver
  (Driver/Script.lean); the two are compared on every `ptx` line of every run.  Proved here: the reading conserves coins
  for every script, and a reverted frame contributes nothing — so when a real transaction agrees with the reading it has
  neither minted nor burned (C02) and its reverted frames have left no trace in the quantities read (C05).
-/
import HaqqModel.Model.Script

namespace Haqq.Script

theorem payE_total (r : Ref) : r.payE.total = r.total := by
  unfold Ref.payE; split <;> simp [Ref.total] ; omega
theorem payP_total (r : Ref) : r.payP.total = r.total := by
  unfold Ref.payP; split <;> simp [Ref.total] ; omega

mutual
  theorem evalTok_total (r : Ref) : (t : Tok) → (evalTok r t).total = r.total
    | .sstore k v => by simp [evalTok, Ref.total]
    | .log => by simp [evalTok, Ref.total]
    | .pay amt => by simp [evalTok, Ref.total]; omega
    | .delegE amt => by simp only [evalTok]; rw [payE_total]; simp [Ref.total]; omega
    | .delegP amt => by simp only [evalTok]; rw [payP_total]; simp [Ref.total]; omega
    | .undelegE amt => by simp only [evalTok]; rw [payE_total]; simp [Ref.total]; omega
    | .claimP => by simp only [evalTok]; exact payP_total r
    | .touchModule => by simp [evalTok]
    | .frame reverts body => by
      simp only [evalTok]
      split
      · rfl
      · exact evalToks_total r body
  theorem evalToks_total (r : Ref) : (ts : List Tok) → (evalToks r ts).total = r.total
    | [] => by simp [evalToks]
    | t :: ts => by
      simp only [evalToks]
      rw [evalToks_total (evalTok r t) ts, evalTok_total r t]
end

/-- **the reading of every script conserves coins**: whatever the script — any nesting of frames, reverting or not, any
    mix of payments, delegations, undelegations and reward claims — the changes it prescribes to the origin, the contract,
    the payee, their delegations, the unbonding pool and the distribution account sum to zero -/
theorem reading_conserves (value : Nat) (pE pP : Option Nat) (slots : Nat → Nat) (ts : List Tok) :
    (evalToks (Ref.start value pE pP slots) ts).total = 0 := by
  rw [evalToks_total]
  simp [Ref.start, Ref.total]; omega

/-- a reverted frame leaves nothing in the reading -/
theorem reverted_frame_is_noop (r : Ref) (body : List Tok) : evalTok r (.frame true body) = r := by
  simp [evalTok]

/-- non-vacuity: value 250, rewards 70 pending for the contract: a store, a delegation of the origin's coins, a claim
    and a payment; a reverted frame in between changes nothing -/
example :
    let r := evalToks (Ref.start 250 none (some 70) (fun _ => 0))
      [.sstore 0 2, .delegE 3000, .frame true [.pay 5, .delegP 9], .claimP, .pay 9]
    r.dE = -3250 ∧ r.dP = 250 + 70 - 9 ∧ r.dX = 9 ∧ r.bondE = 3000 ∧ r.bondP = 0 ∧ r.distr = -70 ∧ r.total = 0 := by
  decide

end Haqq.Script
