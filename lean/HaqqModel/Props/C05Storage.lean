/-
  C05 / C02 — the storage half of `StateDB.Commit`.

  `Commit` does not write every slot of a dirty object: it skips a slot whose value equals the value the object last
  saw committed (`transientStorage[key]` if an earlier Commit of this transaction wrote the slot, `originStorage[key]`
  otherwise).  The model keeps that reference value as `Obj.base`.  The theorems here say when the skipping is
  harmless, and `Props/C05.lean : flush_then_revert_counterexample` shows the history in which it is not.

    * `commit_writes_storage`: if every cached object's reference values are what the keeper holds (`BaseCoh`) and no
      cached object is self-destructed, then after Commit the keeper's storage of every dirty address is exactly the
      EVM-visible storage of its object, and the storage of every other address is untouched.
    * `basecoh_commit`: Commit re-establishes `BaseCoh` (so a second Commit in the same transaction — the flush every
      precompile performs on entry — writes exactly the slots changed since the first one).
    * `basecoh_mstep`: every journaled EVM-side mutation preserves `BaseCoh`.
  What breaks `BaseCoh` is a Commit that deletes the account under a self-destructed object (the keeper's storage is
  cleared, the object's reference values are not) followed by a revert that resurrects the object: the code then
  skips slots whose keeper copy is gone (DESIGN.md §6, finding C05:flush-then-revert).
-/
import HaqqModel.Props.C02

namespace Haqq.SDB

/-- every cached object's reference values are the keeper's storage of its address -/
def BaseCoh (db : DB) : Prop := ∀ a o, db.objs a = some o → ∀ key, o.base key = db.k.store a key

theorem writeSlot_store_other (o : Obj) (a b : Nat) (k : Keeper) (key : Nat) (h : b ≠ a) :
    (writeSlot o a k key).store b = k.store b := by
  unfold writeSlot
  split
  · rfl
  · simp [upd, h]

theorem writeSlots_store_other (o : Obj) (a b : Nat) (h : b ≠ a) (keys : List Nat) : ∀ k : Keeper,
    (keys.foldl (writeSlot o a) k).store b = k.store b := by
  induction keys with
  | nil => intro k; rfl
  | cons x xs ih => intro k; simp only [List.foldl_cons]; rw [ih, writeSlot_store_other o a b k x h]

/-- the slots a Commit of one object leaves in the keeper: a listed slot that differs from the reference value is
    written, everything else stays -/
theorem writeSlots_store_self (o : Obj) (a : Nat) (keys : List Nat) : ∀ (k : Keeper) (key : Nat),
    (keys.foldl (writeSlot o a) k).store a key =
      if key ∈ keys ∧ o.stor key ≠ o.base key then o.stor key else k.store a key := by
  induction keys with
  | nil => intro k key; simp
  | cons x xs ih =>
    intro k key
    simp only [List.foldl_cons]
    rw [ih]
    by_cases hx : key = x
    · subst hx
      by_cases hne : o.stor key = o.base key
      · simp [hne, writeSlot]
      · by_cases hm : key ∈ xs
        · simp [hm, hne]
        · simp [hm, hne, writeSlot, upd]
    · have h1 : (writeSlot o a k x).store a key = k.store a key := by
        unfold writeSlot
        split
        · rfl
        · simp [upd, hx]
      have h2 : (key ∈ x :: xs) ↔ key ∈ xs := by simp [hx]
      rw [h1]
      simp only [h2]

theorem commitOne_store_other (db : DB) (k : Keeper) (a b : Nat) (keys : List Nat) (h : b ≠ a) :
    (commitOne db k a keys).store b = k.store b := by
  unfold commitOne
  cases ho : db.objs a with
  | none => rfl
  | some o =>
    simp only
    by_cases hs : o.suicided = true
    · simp only [hs, if_true]
      by_cases he : k.exist a = true
      · simp [he, Keeper.setBalance, upd, h]
      · simp [he]
    · simp only [hs, Bool.false_eq_true, if_false]
      rw [writeSlots_store_other o a b h]
      simp [Keeper.setBalance]

/-- Commit of one live object whose reference values are the keeper's: the keeper then holds the object's storage
    on every listed slot -/
theorem commitOne_store_self (db : DB) (k : Keeper) (a : Nat) (keys : List Nat) (o : Obj)
    (ho : db.objs a = some o) (hs : o.suicided = false) (hb : ∀ key, o.base key = k.store a key) (key : Nat) :
    (commitOne db k a keys).store a key = if key ∈ keys then o.stor key else k.store a key := by
  unfold commitOne
  simp only [ho, hs, Bool.false_eq_true, if_false]
  rw [writeSlots_store_self]
  simp only [Keeper.setBalance]
  by_cases hm : key ∈ keys
  · by_cases hne : o.stor key = o.base key
    · simp [hm, hne, hb key]
    · simp [hm, hne]
  · simp [hm]

/-- the keeper's storage after committing the dirty addresses below `n` -/
theorem cfold_store (db : DB) (keys : List Nat) (N : Nat) (hg : Good db N) (hc : BaseCoh db) : ∀ n b key,
    (cfold db keys n).store b key =
      (if b < n ∧ 0 < db.dirties b ∧ key ∈ keys then DB.getState db b key else db.k.store b key) := by
  intro n
  induction n with
  | zero => intro b key; simp [cfold]
  | succ m ih =>
    intro b key
    rw [cfold_succ]
    by_cases hd : db.dirties m > 0
    · simp only [hd, if_true]
      by_cases hb : b = m
      · subst hb
        have hcached := hg.dc b hd
        cases ho : db.objs b with
        | none => exact absurd ho hcached
        | some o =>
          have hs := hg.ns b o ho
          have hbase : ∀ key, o.base key = (cfold db keys b).store b key := by
            intro key'
            rw [ih b key', hc b o ho key']
            simp
          rw [commitOne_store_self db (cfold db keys b) b keys o ho hs hbase key]
          have hgs : DB.getState db b key = o.stor key := by simp [DB.getState, DB.get, ho]
          by_cases hm : key ∈ keys
          · simp [hm, hd, hgs]
          · simp only [hm, if_false, and_false]
            rw [ih b key]
            simp
      · rw [commitOne_store_other db (cfold db keys m) m b keys hb, ih b key]
        have : (b < m + 1 ∧ 0 < db.dirties b ∧ key ∈ keys) ↔ (b < m ∧ 0 < db.dirties b ∧ key ∈ keys) := by
          constructor
          · intro ⟨x, y⟩; exact ⟨by omega, y⟩
          · intro ⟨x, y⟩; exact ⟨by omega, y⟩
        simp only [this]
    · simp only [hd, if_false]
      rw [ih b key]
      have : (b < m + 1 ∧ 0 < db.dirties b ∧ key ∈ keys) ↔ (b < m ∧ 0 < db.dirties b ∧ key ∈ keys) := by
        constructor
        · intro ⟨x, y, z⟩
          have : b ≠ m := by intro h; subst h; exact hd y
          exact ⟨by omega, y, z⟩
        · intro ⟨x, y⟩; exact ⟨by omega, y⟩
      simp only [this]

/-- **Commit writes the EVM's view of storage**: after Commit the keeper holds, for every dirty address in the
    universe and every listed slot, exactly what `GetState` returned before; everything else is untouched -/
theorem commit_writes_storage (db : DB) (keys : List Nat) (N : Nat) (hg : Good db N) (hc : BaseCoh db) (b key : Nat) :
    (commit db (List.range N) keys).k.store b key =
      (if b < N ∧ 0 < db.dirties b ∧ key ∈ keys then DB.getState db b key else db.k.store b key) := by
  rw [commit_k]; exact cfold_store db keys N hg hc N b key

/-- Commit re-establishes the coherence of the reference values -/
theorem basecoh_commit (db : DB) (keys : List Nat) (N : Nat) (hg : Good db N) (hc : BaseCoh db) :
    BaseCoh (commit db (List.range N) keys) := by
  intro a o' ho' key
  rw [commit_writes_storage db keys N hg hc a key]
  simp only [commit] at ho'
  by_cases hcond : a ∈ List.range N ∧ db.dirties a > 0
  · simp only [hcond, and_self, if_true] at ho'
    cases ho : db.objs a with
    | none => rw [ho] at ho'; simp at ho'
    | some o =>
      rw [ho] at ho'
      simp only [Option.map_some, Option.some.injEq] at ho'
      have hs := hg.ns a o ho
      have hlt : a < N := by simpa using hcond.1
      have hgs : DB.getState db a key = o.stor key := by simp [DB.getState, DB.get, ho]
      rw [← ho']
      simp only [flushObj, hs, Bool.false_eq_true, if_false]
      by_cases hm : key ∈ keys
      · simp [hm, hlt, hcond.2, hgs]
      · simp only [hm, if_false, and_false]
        exact hc a o ho key
  · simp only [hcond, if_false] at ho'
    have hne : ¬ (a < N ∧ 0 < db.dirties a ∧ key ∈ keys) := by
      intro ⟨x, y, _⟩
      exact hcond ⟨by simpa using x, y⟩
    simp only [hne, if_false]
    exact hc a o' ho' key

theorem basecoh_push_setObj (db : DB) (a : Nat) (e : Entry) (o' : Obj) (hc : BaseCoh db)
    (hb : ∀ key, o'.base key = db.k.store a key) : BaseCoh ((db.push e).setObj a o') := by
  intro b ob hob key
  rw [push_setObj_k]
  simp only [DB.setObj, DB.push_def, upd] at hob
  by_cases hba : b = a
  · simp only [hba, if_true, Option.some.injEq] at hob
    rw [← hob, hba]; exact hb key
  · simp only [hba, if_false] at hob
    exact hc b ob hob key

theorem basecoh_load (db : DB) (a : Nat) (hc : BaseCoh db) : BaseCoh (db.load a) := by
  unfold DB.load
  cases ho : db.objs a with
  | some o => simpa [ho] using hc
  | none =>
    simp only
    by_cases he : db.k.exist a = true
    · simp only [he, if_true]
      intro b ob hob key
      simp only [upd] at hob
      by_cases hba : b = a
      · simp only [hba, if_true, Option.some.injEq] at hob
        rw [← hob, hba]
      · simp only [hba, if_false] at hob
        exact hc b ob hob key
    · simpa [he] using hc

/-- a cached or freshly loaded object's reference values -/
theorem get_base (db : DB) (a : Nat) (o : Obj) (hc : BaseCoh db) (h : db.get a = some o) (key : Nat) :
    o.base key = db.k.store a key := by
  unfold DB.get at h
  cases ho : db.objs a with
  | some o' =>
    rw [ho] at h
    simp only [Option.some.injEq] at h
    rw [← h]; exact hc a o' ho key
  | none =>
    rw [ho] at h
    simp only at h
    by_cases he : db.k.exist a = true
    · simp only [he, if_true, Option.some.injEq] at h
      rw [← h]
    · simp [he] at h

/-- every journaled EVM-side mutation keeps the reference values coherent -/
theorem basecoh_mstepCore (db : DB) (op : MOp) (hc : BaseCoh db) : BaseCoh (mstepCore db op) := by
  cases op with
  | create a =>
    simp only [mstepCore]
    cases hg : db.get a with
    | some _ => simpa using hc
    | none => exact basecoh_push_setObj db a _ _ hc (fun _ => rfl)
  | setBal a v =>
    simp only [mstepCore]
    cases hg : db.get a with
    | none => simpa using hc
    | some o => exact basecoh_push_setObj db a _ _ hc (fun key => get_base db a o hc hg key)
  | setNonce a v =>
    simp only [mstepCore]
    cases hg : db.get a with
    | none => simpa using hc
    | some o => exact basecoh_push_setObj db a _ _ hc (fun key => get_base db a o hc hg key)
  | setState a k v =>
    simp only [mstepCore]
    cases hg : db.get a with
    | none => simpa using hc
    | some o =>
      simp only
      split
      · exact hc
      · exact basecoh_push_setObj db a _ _ hc (fun key => get_base db a o hc hg key)
  | setRefund v =>
    intro b ob hob key
    simp only [mstepCore, DB.push_def] at hob ⊢
    exact hc b ob hob key
  | addLog =>
    intro b ob hob key
    simp only [mstepCore, DB.push_def] at hob ⊢
    exact hc b ob hob key
  | suicide a =>
    simp only [mstepCore]
    cases hg : db.get a with
    | none => simpa using hc
    | some o => exact basecoh_push_setObj db a _ _ hc (fun key => get_base db a o hc hg key)
  | accAddr a =>
    simp only [mstepCore]
    split
    · exact hc
    · intro b ob hob key
      simp only [DB.push_def] at hob ⊢
      exact hc b ob hob key
  | accSlot a k =>
    simp only [mstepCore]
    split
    · exact hc
    · intro b ob hob key
      simp only [DB.push_def] at hob ⊢
      exact hc b ob hob key
  | createAccount a =>
    simp only [mstepCore]
    cases hg : db.get a with
    | none => exact basecoh_push_setObj db a _ _ hc (fun _ => rfl)
    | some prev => exact basecoh_push_setObj db a _ _ hc (fun _ => rfl)

theorem load_k' (db : DB) (a : Nat) : (db.load a).k = db.k := by
  unfold DB.load
  cases db.objs a with
  | some _ => rfl
  | none => simp only; split <;> rfl

theorem basecoh_mstep (db : DB) (op : MOp) (hc : BaseCoh db) : BaseCoh (mstep db op) := by
  unfold mstep
  cases op.addr with
  | some a => exact basecoh_mstepCore _ op (basecoh_load db a hc)
  | none => exact basecoh_mstepCore db op hc

/-- a fresh StateDB is coherent -/
theorem basecoh_new (k : Keeper) : BaseCoh (DB.new k) := by
  intro a o h; simp [DB.new] at h

/-- non-vacuity: a contract writes two slots, Commit stores exactly those (slot 2 was written back to its
    committed value and is skipped without loss) -/
example :
    let k : Keeper := { exist := fun a => a == 0, bal := fun _ => 0, nonce := fun _ => 0,
                        store := fun a s => if a = 0 ∧ s = 2 then 9 else 0, supply := 0 }
    let db := setState (setState (setState (DB.new k) 0 1 7) 0 2 5) 0 2 9
    (commit db (List.range 2) [0, 1, 2]).k.store 0 1 = 7 ∧ (commit db (List.range 2) [0, 1, 2]).k.store 0 2 = 9 := by
  simp [DB.new, setState, ensure, mstep, mstepCore, DB.load, MOp.addr, DB.get, DB.push_def, DB.setObj, Entry.dirtied,
    commit, commitOne, writeSlot, Keeper.setBalance, upd, List.range, List.range.loop]

end Haqq.SDB
