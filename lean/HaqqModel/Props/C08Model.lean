/- executable guard definitions used by Props/C08 and by the driver (core Lean only) -/
import HaqqModel.Model.Vesting

namespace Haqq.Vest
open Haqq.Sched

/-- the SDK bank guard on every account debit (`subUnlockedCoins`): spendable = balance − locked must
    cover the amount -/
def bankDebit (bal locked amt : Nat) : Option Nat :=
  if locked ≤ bal ∧ amt ≤ bal - locked then some (bal - amt) else none

/-- the Haqq staking wrapper's guard on every delegation: balance − unvested must cover the amount -/
def delegateGuard (bal unvested amt : Nat) : Bool := decide (amt ≤ bal - unvested)

/-- MsgConvertVestingAccount (back to a plain account, which forgets the schedules): accepted only when nothing is
    unvested (`GetVestingCoins` is zero) and nothing is locked up (`HasLockedCoins` is false), in every denomination in
    use — wherever the coins are at the moment -/
def unconvertGuard (M : Nat) (a : Account) (t : Int) : Bool :=
  Amt.isZero M (a.unvested t) && Amt.isZero M (a.lockedUp t)

end Haqq.Vest
