/- executable guard definitions used by Props/C08 and by the driver (core Lean only) -/
import HaqqModel.Model.Vesting

namespace Haqq.Vest

/-- the SDK bank guard on every account debit (`subUnlockedCoins`): spendable = balance − locked must
    cover the amount -/
def bankDebit (bal locked amt : Nat) : Option Nat :=
  if locked ≤ bal ∧ amt ≤ bal - locked then some (bal - amt) else none

/-- the Haqq staking wrapper's guard on every delegation: balance − unvested must cover the amount -/
def delegateGuard (bal unvested amt : Nat) : Bool := decide (amt ≤ bal - unvested)

end Haqq.Vest
