/-
  C07 — Every transaction pays the fee floor; EVM gas is charged exactly.

  English statement (properties.jsonl):
    No transaction is accepted in a block with a fee below gas-limit times the network minimum gas price
    in the EVM denomination, nor an Ethereum transaction whose fee cap is below the current base fee.  For
    an executed Ethereum transaction the sender's net payment is exactly gasUsed x effectiveGasPrice,
    where gasUsed is the larger of the EVM gas consumed after refunds and minGasMultiplier x gasLimit and
    never exceeds gasLimit; the fee collector receives exactly that amount and the rest of the up-front
    deduction returns to the sender.

  Formalisation: the interpreter's gas consumption and refund counter are inputs (`consumed ≤ gasLimit`, as
  the code checks); minGasMultiplier ≤ 1 as Params.Validate enforces.
-/
import HaqqModel.Model.Fees
import HaqqModel.Generated.Facts

namespace Haqq.Fees

/-- Cosmos route: an accepted fee is at least minGasPrice × gasLimit -/
theorem cosmos_floor (minGPraw gas fee : Nat) (h : cosmosFloorAccept minGPraw gas fee = true) :
    minGPraw * gas ≤ fee * dec18 ∨ minGPraw * gas = 0 := by
  unfold cosmosFloorAccept at h
  split at h
  · rename_i h0; right; simp [h0]
  · split at h
    · simp at h
    · left
      simp only [decide_eq_true_eq] at h
      unfold cosmosRequired at h
      have hp : 0 < dec18 := by decide
      have h1 : (minGPraw * gas + dec18 - 1) / dec18 * dec18 ≤ fee * dec18 := Nat.mul_le_mul_right dec18 h
      have h2 := Nat.div_add_mod (minGPraw * gas + dec18 - 1) dec18
      have h3 := Nat.mod_lt (minGPraw * gas + dec18 - 1) hp
      rw [Nat.mul_comm] at h2
      omega

/-- Ethereum route: an accepted fee (legacy: gasPrice × gas; typed: effective fee) is at least
    minGasPrice × gasLimit -/
theorem eth_floor (minGPraw typ gas gasPrice tip cap baseFee : Nat)
    (h : ethFloorAccept minGPraw typ gas gasPrice tip cap baseFee = true) (h0 : minGPraw ≠ 0) :
    minGPraw * gas ≤ (if typ = 0 then gasPrice * gas else effectivePrice (typ = 2) gasPrice tip cap baseFee * gas) * dec18 := by
  unfold ethFloorAccept at h
  simp only [h0, if_false, decide_eq_true_eq] at h
  exact h

/-- a transaction carrying several Ethereum messages is accepted only if *every* message on its own offers at least
    minGasPrice × its gas limit: an over-paying message cannot carry an under-paying one -/
theorem eth_floor_every_message (minGPraw baseFee : Nat) (msgs : List (Nat × Nat × Nat × Nat × Nat))
    (h : ethFloorAcceptTx minGPraw baseFee msgs = true) (h0 : minGPraw ≠ 0) :
    ∀ m ∈ msgs, minGPraw * m.2.1 ≤
      (if m.1 = 0 then m.2.2.1 * m.2.1 else effectivePrice (m.1 = 2) m.2.2.1 m.2.2.2.1 m.2.2.2.2 baseFee * m.2.1) * dec18 := by
  intro m hm
  unfold ethFloorAcceptTx at h
  rw [List.all_eq_true] at h
  exact eth_floor minGPraw m.1 m.2.1 m.2.2.1 m.2.2.2.1 m.2.2.2.2 baseFee (h m hm) h0

/-- … and the sums alone would not do: two messages whose totals meet the aggregate floor, one of them below its own -/
example : ethFloorAcceptTx (10 * dec18) 0 [(0, 100000, 19, 0, 0), (0, 100000, 1, 0, 0)] = false ∧
    (10 * dec18) * (100000 + 100000) ≤ (19 * 100000 + 1 * 100000) * dec18 := by decide

/-- an Ethereum tx whose fee cap is below the base fee is refused; otherwise the up-front fee is
    effectivePrice × gasLimit and the effective price lies between base fee and cap (dynamic) -/
theorem eth_cap_ge_base (typ gas gasPrice tip cap baseFee fee : Nat)
    (h : verifyFee typ gas gasPrice tip cap baseFee = some fee) :
    baseFee ≤ (if typ = 2 then cap else gasPrice) ∧
    fee = effectivePrice (typ = 2) gasPrice tip cap baseFee * gas ∧
    (typ = 2 → baseFee ≤ effectivePrice true gasPrice tip cap baseFee ∧ effectivePrice true gasPrice tip cap baseFee ≤ cap) := by
  unfold verifyFee at h
  by_cases hc : (if typ = 2 then cap else gasPrice) < baseFee
  · simp [hc] at h
  · simp only [hc, if_false, Option.some.injEq] at h
    refine ⟨by omega, h.symm, ?_⟩
    intro h2
    simp only [h2, if_true] at hc
    simp only [effectivePrice, if_true]
    omega

theorem gasToRefund_le (a c q : Nat) : gasToRefund a c q ≤ a ∧ gasToRefund a c q ≤ c / q := by
  unfold gasToRefund; omega

/-- gasUsed is the larger of the consumption after refunds and the multiplier floor, and never exceeds
    the gas limit -/
theorem gasUsed_bounds (gasLimit consumed counter q multRaw : Nat)
    (hc : consumed ≤ gasLimit) (hm : multRaw ≤ dec18) :
    gasLimit * multRaw / dec18 ≤ gasUsed gasLimit consumed counter q multRaw ∧
    consumed - gasToRefund counter consumed q ≤ gasUsed gasLimit consumed counter q multRaw ∧
    gasUsed gasLimit consumed counter q multRaw ≤ gasLimit ∧
    (gasUsed gasLimit consumed counter q multRaw = gasLimit * multRaw / dec18 ∨
     gasUsed gasLimit consumed counter q multRaw = consumed - gasToRefund counter consumed q) := by
  have hfloor : gasLimit * multRaw / dec18 ≤ gasLimit := by
    calc gasLimit * multRaw / dec18 ≤ gasLimit * dec18 / dec18 := Nat.div_le_div_right (Nat.mul_le_mul_left _ hm)
      _ = gasLimit := Nat.mul_div_cancel _ (by decide)
  unfold gasUsed
  omega

/-- **exact charging**: the sender's net payment is gasUsed × price, the fee collector keeps exactly
    that, and the rest of the up-front deduction returns to the sender -/
theorem net_payment (gasLimit used price : Nat) (h : used ≤ gasLimit) :
    (settle gasLimit used price).deducted - (settle gasLimit used price).refunded = used * price ∧
    (settle gasLimit used price).refunded ≤ (settle gasLimit used price).deducted ∧
    (settle gasLimit used price).refunded + used * price = gasLimit * price := by
  simp only [settle]
  have : (gasLimit - used) * price + used * price = gasLimit * price := by
    rw [← Nat.add_mul]; congr 1; omega
  have h2 : (gasLimit - used) * price ≤ gasLimit * price := Nat.mul_le_mul_right _ (by omega)
  omega

/-- the charge for a whole executed tx, end to end -/
theorem charged_exactly (gasLimit consumed counter q multRaw price : Nat)
    (hc : consumed ≤ gasLimit) (hm : multRaw ≤ dec18) :
    let used := gasUsed gasLimit consumed counter q multRaw
    (settle gasLimit used price).deducted - (settle gasLimit used price).refunded = used * price ∧ used ≤ gasLimit :=
  let hb := gasUsed_bounds gasLimit consumed counter q multRaw hc hm
  ⟨(net_payment gasLimit _ price hb.2.2.1).1, hb.2.2.1⟩

/-- a refund never exceeds consumed / quotient -/
theorem refund_le_quotient (counter consumed q : Nat) : gasToRefund counter consumed q ≤ consumed / q :=
  (gasToRefund_le counter consumed q).2

/-- non-vacuity: the SSTORE-clearing call of the seeded example (limit 100000, consumed 26006, refund
    counter 4800, quotient 5, multiplier 0.5) is charged for 50000 gas -/
example : gasUsed 100000 26006 4800 5 (dec18 / 2) = 50000 ∧ gasUsed 30000 26006 4800 5 (dec18 / 2) = 21206 ∧
    cosmosFloorAccept (25 * 10 ^ 17) 1000 2500 = true ∧ cosmosFloorAccept (25 * 10 ^ 17) 1000 2499 = false ∧
    verifyFee 2 21000 0 1 999 1000 = none ∧ verifyFee 2 21000 0 5 2000 1000 = some (1005 * 21000) := by
  decide

/-! ### what a Cosmos transaction is charged -/

/-- a Cosmos transaction that is admitted (base fee in force) is charged at least minGasPrice × gas, with or without the
    dynamic-fee extension option -/
theorem cosmos_charged_floor (minGPraw gas fee baseFee : Nat) (tip : Option Nat) (hm : 0 < minGPraw) (hg : 0 < gas)
    (h : cosmosFloorAcceptTx true true minGPraw gas fee baseFee tip = true) :
    minGPraw * gas ≤ cosmosCharged gas fee baseFee tip * dec18 := by
  simp only [cosmosFloorAcceptTx, Bool.and_eq_true, Bool.or_eq_true, Bool.not_true, Bool.and_false,
    decide_eq_true_eq] at h
  have h2 := h.2
  have hreq : cosmosRequired minGPraw gas ≤ cosmosCharged gas fee baseFee tip := by
    rcases h2 with h2 | h2
    · rcases h2 with h2 | h2
      · rcases h2 with h2 | h2
        · simp at h2
        · omega
      · omega
    · exact h2
  have hd : (0:Nat) < dec18 := by decide
  have : minGPraw * gas ≤ cosmosRequired minGPraw gas * dec18 := by
    unfold cosmosRequired
    have := Nat.div_add_mod (minGPraw * gas + dec18 - 1) dec18
    have hlt := Nat.mod_lt (minGPraw * gas + dec18 - 1) hd
    rw [Nat.mul_comm] at this
    omega
  exact Nat.le_trans this (Nat.mul_le_mul_right _ hreq)

/-- before cda7d87: minimum gas price 1 (raw 10^18), gas 200 000, declared fee exactly the floor, tip 0, base fee 0 —
    accepted and charged nothing; with the repair it is refused -/
theorem cosmos_charged_below_floor_counterexample :
    cosmosFloorAcceptTx false false dec18 200000 200000 0 (some 0) = true ∧ cosmosCharged 200000 200000 0 (some 0) = 0 ∧
    cosmosFloorAcceptTx true false dec18 200000 200000 0 (some 0) = false := by decide

/-- cda7d87 alone: no extension option, minimum gas price 1.5, gas 3, declared fee 5 = ⌈4.5⌉, base fee 1 — accepted, and
    charged ⌊5/3⌋ × 3 = 3, below the floor; now it is refused -/
theorem cosmos_charged_rounded_down_counterexample :
    cosmosFloorAcceptTx true false (15 * 10 ^ 17) 3 5 1 none = true ∧ cosmosCharged 3 5 1 none = 3 ∧
    cosmosRequired (15 * 10 ^ 17) 3 = 5 ∧ cosmosFloorAcceptTx true true (15 * 10 ^ 17) 3 5 1 none = false := by decide

/-- the code's side of `cosmosFloorAcceptTx true true`: the decorator compares what will be charged with the floor for every
    Cosmos transaction, not only for those carrying the option (regenerated from app/ante/cosmos/min_price.go) -/
theorem cosmos_floor_looks_at_every_charged_amount :
    Haqq.Facts.cosmosFloorChargedScope = "charged-amount-of-every-transaction" := by decide

end Haqq.Fees
