/-
  C14 — Slashing and deposit burns go to the community pool, not to zero.

  English statement (properties.jsonl):
    Coins that the staking and governance modules would destroy (slashed stake, burned proposal
    deposits) are never removed from circulation: the total supply is unchanged by such an event and
    the community pool grows by exactly the amount, with the distribution module account holding the
    matching coins.  Burns by every other module keep their normal meaning.

  Formalisation: one denomination (the override is pointwise per coin); module accounts are numbered,
  `distr` is the distribution module account.  The set of redirected modules, the body of the redirected
  case, the fall-through, the module-account permissions and the keepers that are wired to the overriding
  keeper are regenerated from x/bank/keeper/keeper.go and app/app.go on every run.
-/
import HaqqModel.Model.Ledger
import HaqqModel.Generated.Facts

namespace Haqq.Ledger

/-- a burn by a redirected module: supply unchanged, community pool +amt, distribution account +amt,
    the module −amt, nobody else touched -/
theorem burn_redirect (redirected burner : Nat → Bool) (s s' : State) (m amt : Nat)
    (hr : redirected m = true) (hm : m ≠ distr) (h : burnCoins redirected burner s m amt = .ok s') :
    s'.supply = s.supply ∧ s'.communityPool = s.communityPool + amt ∧
    s'.bal distr = s.bal distr + amt ∧ s'.bal m + amt = s.bal m ∧
    ∀ x, x ≠ m → x ≠ distr → s'.bal x = s.bal x := by
  unfold burnCoins at h
  simp only [hr, if_true] at h
  split at h
  · simp at h
  · rename_i hle
    simp only [Except.ok.injEq] at h
    subst h
    refine ⟨rfl, rfl, ?_, ?_, ?_⟩
    · simp [upd, Ne.symm hm]
    · simp [upd, hm]; omega
    · intro x h1 h2; simp [upd, h1, h2]

/-- a burn by any other module keeps its meaning: the supply drops by the amount, the community pool and
    the distribution account are untouched -/
theorem burn_other (redirected burner : Nat → Bool) (s s' : State) (m amt : Nat)
    (hr : redirected m = false) (hm : m ≠ distr) (h : burnCoins redirected burner s m amt = .ok s') :
    s'.supply + amt = s.supply + (if s.supply < amt then amt - s.supply else 0) ∧
    s'.communityPool = s.communityPool ∧ s'.bal distr = s.bal distr ∧ s'.bal m + amt = s.bal m ∧
    burner m = true := by
  unfold burnCoins at h
  simp only [hr, Bool.false_eq_true, if_false] at h
  split at h
  · simp at h
  · rename_i hb
    split at h
    · simp at h
    · simp only [Except.ok.injEq] at h
      subst h
      refine ⟨by simp only; split <;> omega, rfl, by simp [upd, Ne.symm hm], by simp [upd]; omega, by simpa using hb⟩

/-- distribution's own accounting invariant (module account ≥ community pool + outstanding rewards) is
    preserved by a redirected burn: both sides grow by the same amount -/
theorem distr_invariant_preserved (redirected burner : Nat → Bool) (s s' : State) (m amt outstanding : Nat)
    (hr : redirected m = true) (hm : m ≠ distr) (h : burnCoins redirected burner s m amt = .ok s')
    (hinv : s.communityPool + outstanding ≤ s.bal distr) :
    s'.communityPool + outstanding ≤ s'.bal distr := by
  obtain ⟨_, h2, h3, _, _⟩ := burn_redirect redirected burner s s' m amt hr hm h
  omega

/-- Σ balances = supply is preserved by both kinds of burn (over module accounts `< N`) -/
theorem burn_sum_supply (redirected burner : Nat → Bool) (s s' : State) (m amt N : Nat)
    (hm : m ≠ distr) (hmN : m < N) (hdN : distr < N)
    (h : burnCoins redirected burner s m amt = .ok s') (rest : Nat)
    (hsum : sumTo s.bal N + rest = s.supply) : sumTo s'.bal N + rest = s'.supply := by
  unfold burnCoins at h
  split at h
  · split at h
    · simp at h
    · rename_i hle
      simp only [Except.ok.injEq] at h
      subst h
      simp only
      have s1 := sumTo_upd s.bal m (s.bal m - amt) N hmN
      have s2 := sumTo_upd (upd s.bal m (s.bal m - amt)) distr (upd s.bal m (s.bal m - amt) distr + amt) N hdN
      have e : upd s.bal m (s.bal m - amt) distr = s.bal distr := by simp [upd, Ne.symm hm]
      simp only [e] at s2 ⊢
      have := le_sumTo s.bal N m hmN
      omega
  · split at h
    · simp at h
    · split at h
      · simp at h
      · rename_i hle
        simp only [Except.ok.injEq] at h
        subst h
        simp only
        have s1 := sumTo_upd s.bal m (s.bal m - amt) N hmN
        have := le_sumTo s.bal N m hmN
        omega

/-! ## what the source says now (regenerated facts) -/

/-- exactly gov, the bonded pool and the not-bonded pool are redirected; the redirected case moves the
    coins to the distribution account and books them into the community pool; everything else falls
    through to the SDK burn -/
theorem redirect_set :
    Facts.bankBurnRedirectedModules = ["govtypes.ModuleName", "stakingtypes.BondedPoolName", "stakingtypes.NotBondedPoolName"] ∧
    Facts.bankBurnRedirectMovesAndBooks = true ∧ Facts.bankBurnOthersFallThrough = true := by decide

/-- the staking and governance keepers — and nobody else — hold the overriding bank keeper -/
theorem override_wiring : Facts.bankOverrideUsers = ["govkeeper.NewKeeper", "stakingkeeper.NewKeeper"] := by decide

def lookupPerm (l : List (String × String)) (k : String) : Option String :=
  match l with
  | [] => none
  | (a, b) :: rest => if a == k then some b else lookupPerm rest k

/-- the three redirected module accounts exist with the Burner permission (so the SDK's staking and gov
    code is allowed to call BurnCoins on them), and the distribution account is a plain module account -/
theorem redirected_accounts_perms :
    lookupPerm Facts.maccPerms "stakingtypes.BondedPoolName" = some "Burner,Staking" ∧
    lookupPerm Facts.maccPerms "stakingtypes.NotBondedPoolName" = some "Burner,Staking" ∧
    lookupPerm Facts.maccPerms "govtypes.ModuleName" = some "Burner" ∧
    lookupPerm Facts.maccPerms "distrtypes.ModuleName" = some "nil" := by decide

/-- non-vacuity: a redirected burn and an ordinary one on a concrete ledger -/
example :
    let s : State := { bal := fun x => if x = 1 then 100 else if x = 3 then 40 else 0, supply := 1000, communityPool := 7 }
    let red : Nat → Bool := fun m => m == 1 || m == 2
    let bur : Nat → Bool := fun m => m == 1 || m == 2 || m == 3
    (match burnCoins red bur s 1 30 with | .ok s' => s'.supply = 1000 ∧ s'.communityPool = 37 ∧ s'.bal distr = 30 ∧ s'.bal 1 = 70 | _ => False) ∧
    (match burnCoins red bur s 3 30 with | .ok s' => s'.supply = 970 ∧ s'.communityPool = 7 ∧ s'.bal 3 = 10 | _ => False) ∧
    (match burnCoins red bur s 4 1 with | .error .noPermission => True | _ => False) := by
  simp [burnCoins, upd, distr]

/-! ### a redirected burn of several denominations at once

`BurnCoins(gov | bonded | not-bonded, coins)` with more than one coin: all coins move to the distribution account in one
send, and the stored fee pool is read once, every coin added to its community pool, and written once.  Denominations are
numbered; `pool d` is the community pool's amount of denomination d. -/

/-- the fee pool after adding the coins one by one to the pool read at the start (what the code does) -/
def fundPool (pool : Nat → Nat) : List (Nat × Nat) → Nat → Nat
  | [] => pool
  | (d, a) :: rest => fundPool (upd pool d (pool d + a)) rest

/-- what a coin list holds of one denomination -/
def amountOf (coins : List (Nat × Nat)) (d : Nat) : Nat := (coins.filter (·.1 == d)).foldl (fun s c => s + c.2) 0

theorem foldl_add_shift (l : List (Nat × Nat)) (x y : Nat) :
    l.foldl (fun s c => s + c.2) (x + y) = l.foldl (fun s c => s + c.2) x + y := by
  induction l generalizing x with
  | nil => rfl
  | cons c rest ih => simp only [List.foldl_cons]; rw [show x + y + c.2 = x + c.2 + y by omega]; exact ih _

/-- **the community pool grows by exactly the burned amount, per denomination**, for every coin list — sorted or not,
    with repeated denominations or not -/
theorem fundPool_exact (coins : List (Nat × Nat)) : ∀ (pool : Nat → Nat) (d : Nat),
    fundPool pool coins d = pool d + amountOf coins d := by
  induction coins with
  | nil => intro pool d; simp [fundPool, amountOf]
  | cons c rest ih =>
    intro pool d
    obtain ⟨cd, ca⟩ := c
    simp only [fundPool]
    rw [ih]
    unfold amountOf
    by_cases h : cd = d
    · subst h
      simp only [upd_same, List.filter_cons, beq_self_eq_true, if_true, List.foldl_cons, Nat.zero_add]
      have := foldl_add_shift (rest.filter (·.1 == cd)) 0 ca
      simp only [Nat.zero_add] at this
      rw [this]; omega
    · have hne : (cd == d) = false := by simp [h]
      rw [upd_other _ _ _ _ (fun e => h e.symm)]
      simp [hne]

/-- the shape that loses updates: every coin's result is computed from the pool read at the start and stored over the
    previous one — only the last coin reaches the pool -/
def fundPoolLostUpdate (pool : Nat → Nat) : List (Nat × Nat) → Nat → Nat
  | [] => pool
  | [(d, a)] => upd pool d (pool d + a)
  | _ :: rest => fundPoolLostUpdate pool rest

theorem lost_update_counterexample :
    fundPoolLostUpdate (fun _ => 0) [(0, 1000000), (1, 777)] 0 = 0 ∧ fundPool (fun _ => 0) [(0, 1000000), (1, 777)] 0 = 1000000 ∧
    fundPool (fun _ => 0) [(0, 1000000), (1, 777)] 1 = 777 := by
  simp [fundPoolLostUpdate, fundPool, upd]

/-! The community pool holds decimal amounts; below `pool d` is read in units of 10⁻¹⁸ and a redirected burn of `a` whole
units adds `a · 10¹⁸` — the fraction the pool held (reward remainders) stays. -/

def dec18p : Nat := 10 ^ 18

/-- whole coins as pool units -/
def scale (coins : List (Nat × Nat)) : List (Nat × Nat) := coins.map fun c => (c.1, c.2 * dec18p)

theorem foldl_scale (l : List (Nat × Nat)) (d x : Nat) :
    ((scale l).filter (·.1 == d)).foldl (fun s c => s + c.2) (x * dec18p) =
      (l.filter (·.1 == d)).foldl (fun s c => s + c.2) x * dec18p := by
  induction l generalizing x with
  | nil => rfl
  | cons c rest ih =>
    by_cases h : (c.1 == d) = true
    · simp only [scale, List.map_cons, List.filter_cons, h, if_true, List.foldl_cons]
      rw [show x * dec18p + c.2 * dec18p = (x + c.2) * dec18p by rw [Nat.add_mul]]
      exact ih _
    · simp only [scale, List.map_cons, List.filter_cons, h]
      exact ih _

theorem amountOf_scale (coins : List (Nat × Nat)) (d : Nat) : amountOf (scale coins) d = amountOf coins d * dec18p := by
  have := foldl_scale coins d 0
  simpa [amountOf] using this

/-- **a redirected burn adds whole units and keeps the pool's fraction**: after crediting the coins, the pool's whole part
    grew by exactly the burned amount and its fractional part is what it was -/
theorem fundPool_keeps_fraction (coins : List (Nat × Nat)) (pool : Nat → Nat) (d : Nat) :
    fundPool pool (scale coins) d / dec18p = pool d / dec18p + amountOf coins d ∧
    fundPool pool (scale coins) d % dec18p = pool d % dec18p := by
  rw [fundPool_exact, amountOf_scale]
  have hp : 0 < dec18p := by decide
  constructor
  · rw [Nat.add_mul_div_right _ _ hp]
  · rw [Nat.add_mul_mod_self_right]

/-- the shape that drops the fraction: the pool is truncated to whole units before the coins are added -/
def fundPoolTruncating (pool : Nat → Nat) (coins : List (Nat × Nat)) (d : Nat) : Nat :=
  (pool d / dec18p + amountOf coins d) * dec18p

/-- a pool of 10.5 units and a burn of 1000: the truncating shape ends at 1010, half a unit short of 1010.5 -/
theorem truncating_counterexample :
    fundPoolTruncating (fun _ => 105 * 10 ^ 17) [(0, 1000)] 0 = 1010 * 10 ^ 18 ∧
    fundPool (fun _ => 105 * 10 ^ 17) (scale [(0, 1000)]) 0 = 10105 * 10 ^ 17 := by
  constructor
  · simp [fundPoolTruncating, amountOf, dec18p]
  · simp [fundPool, scale, upd, dec18p]

end Haqq.Ledger
