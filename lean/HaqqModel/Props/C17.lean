/-
  C17 — Base fee follows EIP-1559 and stays within its bounds.

  English statement (properties.jsonl):
    The base fee of a block is the EIP-1559 function of the previous base fee and the previous
    block's gas figure g against the target T (block gas limit / elasticity): unchanged when g = T,
    raised by max(1, base x (g-T) / T / denominator) when g > T, lowered by base x (T-g) / T /
    denominator when g < T but never below the configured minimum gas price, and therefore monotone
    in g.  The gas figure fed to it is max(gasWanted x minGasMultiplier, gasUsed), so it cannot be
    pushed down by declaring gas that is not paid for.

  Formalisation: `Params.valid` (what `Params.Validate()` enforces *now*: denominator ≠ 0 and —
  regenerated fact `feemarketValidateRejectsZeroElasticity` — elasticity ≠ 0), base fee enabled and past
  the enable height, T > 0.  "Monotone in g" is false of the code when ⌊minGasPrice⌋ exceeds the
  parent base fee (pinned by x/feemarket/keeper/eip1559_test.go): `bf_mono_partial` carries the
  hypothesis ⌊minGasPrice⌋ ≤ parent, `bf_mono_counterexample` is the recorded finding F-C17-a.
-/
import HaqqModel.Model.FeeMarket
import HaqqModel.Generated.Facts

namespace Haqq.FeeMarket

/-- the regime in which the EIP-1559 branch is evaluated -/
structure Active (p : Params) (height maxGas : Int) : Prop where
  enabled : p.noBaseFee = false
  past : p.enableHeight < height
  valid : p.valid = true
  tpos : 0 < target p maxGas

theorem target_lt (p : Params) (maxGas : Int) (he : 0 < p.elasticity) (hm : maxGas < 2 ^ 63) :
    target p maxGas < 2 ^ 64 := by
  unfold target gasLimit
  split
  · have : maxGas.toNat < 2 ^ 63 := by omega
    exact Nat.lt_of_le_of_lt (Nat.div_le_self _ _) (by omega)
  · exact Nat.lt_of_le_of_lt (Nat.div_le_self _ _) (by omega)

theorem active_unfold (p : Params) (height maxGas : Int) (g : Nat) (h : Active p height maxGas)
    (hm : maxGas < 2 ^ 63) :
    calcBaseFee p height maxGas g =
      if g = target p maxGas then .fee p.baseFee
      else if g > target p maxGas then
        .fee (p.baseFee + max (p.baseFee * (g - target p maxGas) / target p maxGas / p.denominator) 1)
      else .fee (max (p.baseFee - p.baseFee * (target p maxGas - g) / target p maxGas / p.denominator)
                  (p.minGasPrice / dec18)) := by
  have hv := h.valid
  simp only [Params.valid, Bool.and_eq_true, bne_iff_ne, ne_eq, decide_eq_true_eq] at hv
  obtain ⟨⟨⟨hd, he⟩, _⟩, _⟩ := hv
  have h1 : ¬ height < p.enableHeight := by have := h.past; omega
  have h2 : ¬ height = p.enableHeight := by have := h.past; omega
  have h3 : ¬ target p maxGas ≥ 2 ^ 64 := by
    have := target_lt p maxGas (Nat.pos_of_ne_zero he) hm; omega
  have h4 : ¬ target p maxGas = 0 := by have := h.tpos; omega
  unfold calcBaseFee
  simp only [h.enabled, Bool.false_or, decide_eq_true_eq, h1, h2, he, hd, h3, h4, if_false]

/-- unchanged at the target -/
theorem bf_eq_target (p : Params) (height maxGas : Int) (h : Active p height maxGas) (hm : maxGas < 2 ^ 63) :
    calcBaseFee p height maxGas (target p maxGas) = .fee p.baseFee := by
  rw [active_unfold p height maxGas _ h hm]; simp

/-- raised by max(1, base·(g−T)/T/d) above the target -/
theorem bf_up (p : Params) (height maxGas : Int) (g : Nat) (h : Active p height maxGas) (hm : maxGas < 2 ^ 63)
    (hg : target p maxGas < g) :
    calcBaseFee p height maxGas g =
      .fee (p.baseFee + max (p.baseFee * (g - target p maxGas) / target p maxGas / p.denominator) 1) := by
  rw [active_unfold p height maxGas _ h hm]
  have : ¬ g = target p maxGas := by omega
  simp [this, hg]

/-- lowered by base·(T−g)/T/d below the target, but not below ⌊minGasPrice⌋ -/
theorem bf_down (p : Params) (height maxGas : Int) (g : Nat) (h : Active p height maxGas) (hm : maxGas < 2 ^ 63)
    (hg : g < target p maxGas) :
    calcBaseFee p height maxGas g =
      .fee (max (p.baseFee - p.baseFee * (target p maxGas - g) / target p maxGas / p.denominator)
              (p.minGasPrice / dec18)) := by
  rw [active_unfold p height maxGas _ h hm]
  have h1 : ¬ g = target p maxGas := by omega
  have h2 : ¬ g > target p maxGas := by omega
  simp [h1, h2]

def Result.val : Result → Nat
  | .fee v => v
  | _ => 0

theorem bf_is_fee (p : Params) (height maxGas : Int) (g : Nat) (h : Active p height maxGas) (hm : maxGas < 2 ^ 63) :
    calcBaseFee p height maxGas g = .fee (calcBaseFee p height maxGas g).val := by
  rw [active_unfold p height maxGas _ h hm]
  split
  · rfl
  · split <;> rfl

/-- a decrease never goes below the configured minimum gas price -/
theorem bf_ge_min_on_decrease (p : Params) (height maxGas : Int) (g : Nat) (h : Active p height maxGas)
    (hm : maxGas < 2 ^ 63) (hg : g < target p maxGas) :
    p.minGasPrice / dec18 ≤ (calcBaseFee p height maxGas g).val := by
  rw [bf_down p height maxGas g h hm hg]; simp only [Result.val]; omega

/-- the strict reading of "never below the configured minimum gas price" fails by less than one unit when the minimum has a
    fractional part: the floor applied on a decrease is ⌊minGasPrice⌋ — parent base fee 11, minimum 10.9, an empty
    parent block: the base fee becomes 10 (recorded finding: transactions priced 10 pass the base-fee check and are then
    refused by the minimum-gas-price decorator, so nothing is under-charged) -/
theorem bf_min_fraction_truncated_counterexample :
    calcBaseFee { noBaseFee := false, enableHeight := 0, baseFee := 11, elasticity := 2, denominator := 8,
                  minGasPrice := 10900000000000000000, minGasMultiplier := 500000000000000000 } 5 100 0 = .fee 10 ∧
    10 * dec18 < 10900000000000000000 := by decide

/-- with an integral minimum the strict reading holds -/
theorem bf_ge_min_strict_of_integral (p : Params) (height maxGas : Int) (g : Nat) (h : Active p height maxGas)
    (hm : maxGas < 2 ^ 63) (hlt : g < target p maxGas) (m : Nat) (hint : p.minGasPrice = m * dec18) :
    p.minGasPrice ≤ (calcBaseFee p height maxGas g).val * dec18 := by
  have h1 := bf_ge_min_on_decrease p height maxGas g h hm hlt
  have hd : (0:Nat) < dec18 := by decide
  rw [hint] at h1 ⊢
  rw [Nat.mul_div_cancel _ hd] at h1
  exact Nat.mul_le_mul_right _ h1

/-- strictly raised above the target -/
theorem bf_gt_parent_of_gt (p : Params) (height maxGas : Int) (g : Nat) (h : Active p height maxGas)
    (hm : maxGas < 2 ^ 63) (hg : target p maxGas < g) :
    p.baseFee < (calcBaseFee p height maxGas g).val := by
  rw [bf_up p height maxGas g h hm hg]; simp only [Result.val]; omega

/-- not raised below the target, provided the minimum does not exceed the parent base fee -/
theorem bf_le_parent_of_lt (p : Params) (height maxGas : Int) (g : Nat) (h : Active p height maxGas)
    (hm : maxGas < 2 ^ 63) (hg : g < target p maxGas) (hmin : p.minGasPrice / dec18 ≤ p.baseFee) :
    (calcBaseFee p height maxGas g).val ≤ p.baseFee := by
  rw [bf_down p height maxGas g h hm hg]; simp only [Result.val]
  generalize p.baseFee * (target p maxGas - g) / target p maxGas / p.denominator = X
  omega

theorem div_div_mono (b x y T d : Nat) (h : x ≤ y) : b * x / T / d ≤ b * y / T / d :=
  Nat.div_le_div_right (Nat.div_le_div_right (Nat.mul_le_mul_left b h))

/-- **monotone in g**, in the regime ⌊minGasPrice⌋ ≤ parent base fee -/
theorem bf_mono_partial (p : Params) (height maxGas : Int) (g1 g2 : Nat) (h : Active p height maxGas)
    (hm : maxGas < 2 ^ 63) (hmin : p.minGasPrice / dec18 ≤ p.baseFee) (hg : g1 ≤ g2) :
    (calcBaseFee p height maxGas g1).val ≤ (calcBaseFee p height maxGas g2).val := by
  rcases Nat.lt_trichotomy g1 (target p maxGas) with h1 | h1 | h1
  · -- g1 below the target
    rcases Nat.lt_trichotomy g2 (target p maxGas) with h2 | h2 | h2
    · rw [bf_down p height maxGas g1 h hm h1, bf_down p height maxGas g2 h hm h2]
      simp only [Result.val]
      have := div_div_mono p.baseFee (target p maxGas - g2) (target p maxGas - g1) (target p maxGas) p.denominator (by omega)
      generalize p.baseFee * (target p maxGas - g2) / target p maxGas / p.denominator = X at *
      generalize p.baseFee * (target p maxGas - g1) / target p maxGas / p.denominator = Y at *
      omega
    · have := bf_le_parent_of_lt p height maxGas g1 h hm h1 hmin
      have e2 : (calcBaseFee p height maxGas g2).val = p.baseFee := by
        rw [h2, bf_eq_target p height maxGas h hm]; rfl
      omega
    · have a := bf_le_parent_of_lt p height maxGas g1 h hm h1 hmin
      have b := bf_gt_parent_of_gt p height maxGas g2 h hm h2
      omega
  · -- g1 at the target
    rcases Nat.lt_or_ge (target p maxGas) g2 with h2 | h2
    · have b := bf_gt_parent_of_gt p height maxGas g2 h hm h2
      have e1 : (calcBaseFee p height maxGas g1).val = p.baseFee := by
        rw [h1, bf_eq_target p height maxGas h hm]; rfl
      omega
    · have : g2 = target p maxGas := by omega
      rw [h1, this]; exact Nat.le_refl _
  · -- g1 above the target, hence g2 as well
    have h2 : target p maxGas < g2 := by omega
    rw [bf_up p height maxGas g1 h hm h1, bf_up p height maxGas g2 h hm h2]
    simp only [Result.val]
    have := div_div_mono p.baseFee (g1 - target p maxGas) (g2 - target p maxGas) (target p maxGas) p.denominator (by omega)
    generalize p.baseFee * (g1 - target p maxGas) / target p maxGas / p.denominator = X at *
    generalize p.baseFee * (g2 - target p maxGas) / target p maxGas / p.denominator = Y at *
    omega

def cexParams : Params :=
  { noBaseFee := false, enableHeight := 0, baseFee := 1000000000, elasticity := 2, denominator := 8,
    minGasPrice := 1500000000 * dec18, minGasMultiplier := dec18 / 2 }

/-- F-C17-a on the model (the suite's own numbers): with ⌊minGasPrice⌋ = 1.5e9 above the parent base
    fee 1e9 the result is not monotone in g: g = 25 < T = 50 yields 1.5e9, g = T yields 1e9. -/
theorem bf_mono_counterexample :
    calcBaseFee cexParams 1 100 25 = .fee 1500000000 ∧ calcBaseFee cexParams 1 100 50 = .fee 1000000000 ∧
    Active cexParams 1 100 := by
  refine ⟨by decide, by decide, ⟨rfl, by decide, by decide, by decide⟩⟩

/-- the parameter validation that guards the division: elasticity 0 is rejected by the code as it is
    now (regenerated fact), and for accepted parameters no input makes CalculateBaseFee panic as long
    as the target is positive -/
theorem elasticity_zero_rejected : Facts.feemarketValidateRejectsZeroElasticity = true := rfl

theorem no_panic (p : Params) (height maxGas : Int) (g : Nat) (hv : p.valid = true)
    (ht : 0 < target p maxGas) : calcBaseFee p height maxGas g ≠ .panic := by
  simp only [Params.valid, Bool.and_eq_true, bne_iff_ne, ne_eq, decide_eq_true_eq] at hv
  obtain ⟨⟨⟨hd, he⟩, _⟩, _⟩ := hv
  have h4 : ¬ target p maxGas = 0 := by omega
  unfold calcBaseFee
  simp only [he, hd, h4, if_false]
  repeat' split
  all_goals simp

/-- elasticity 0 (accepted by the pinned commit's validation) makes the model of BeginBlock panic -/
theorem elasticity_zero_panics (p : Params) (height maxGas : Int) (g : Nat)
    (h1 : p.noBaseFee = false) (h2 : p.enableHeight < height) (h0 : p.elasticity = 0) :
    calcBaseFee p height maxGas g = .panic := by
  have a : ¬ height < p.enableHeight := by omega
  have b : ¬ height = p.enableHeight := by omega
  simp [calcBaseFee, h1, a, b, h0]

/-! ## the gas figure -/

/-- the figure is max(⌊gasWanted·minGasMultiplier⌋, gasUsed): at least what was used, at least the
    declared gas scaled by the multiplier, and monotone in both -/
theorem gas_figure (wanted used mult : Nat) (hw : wanted < 2 ^ 63) (hu : used < 2 ^ 63) :
    endBlockGas wanted used mult = some (max (wanted * mult / dec18) used) := by
  have a : ¬ wanted ≥ 2 ^ 63 := by omega
  have b : ¬ used ≥ 2 ^ 63 := by omega
  simp [endBlockGas, a, b]

theorem gas_figure_ge_used (wanted used mult g : Nat) (h : endBlockGas wanted used mult = some g) : used ≤ g := by
  unfold endBlockGas at h; split at h
  · simp at h
  · simp only [Option.some.injEq] at h; omega

theorem gas_figure_ge_wanted (wanted used mult g : Nat) (h : endBlockGas wanted used mult = some g) :
    wanted * mult / dec18 ≤ g := by
  unfold endBlockGas at h; split at h
  · simp at h
  · simp only [Option.some.injEq] at h; omega

theorem gas_figure_mono (w1 w2 u1 u2 mult g1 g2 : Nat) (hw : w1 ≤ w2) (hu : u1 ≤ u2)
    (h1 : endBlockGas w1 u1 mult = some g1) (h2 : endBlockGas w2 u2 mult = some g2) : g1 ≤ g2 := by
  unfold endBlockGas at h1 h2
  split at h1; · simp at h1
  split at h2; · simp at h2
  simp only [Option.some.injEq] at h1 h2
  have := Nat.div_le_div_right (c := dec18) (Nat.mul_le_mul_right mult hw)
  omega

/-- declaring gas without paying cannot lower the figure: for fixed gasUsed, a larger gasWanted never
    yields a smaller figure, and with multiplier 1 the figure is at least gasWanted -/
theorem gas_figure_full_multiplier (wanted used g : Nat) (h : endBlockGas wanted used dec18 = some g) :
    wanted ≤ g := by
  have := gas_figure_ge_wanted wanted used dec18 g h
  rwa [Nat.mul_div_cancel _ (by decide : 0 < dec18)] at this

/-- non-vacuity: default-like parameters are `Active`, and the three branches give the suite's numbers -/
example :
    let p : Params := { cexParams with minGasPrice := 0 }
    Active p 1 100 ∧ calcBaseFee p 1 100 50 = .fee 1000000000 ∧
    calcBaseFee p 1 100 100 = .fee 1125000000 ∧ calcBaseFee p 1 100 25 = .fee 937500000 := by
  refine ⟨⟨rfl, by decide, by decide, by decide⟩, by decide, by decide, by decide⟩

end Haqq.FeeMarket
