/-
  C11 — Liquid vesting conserves backing and never unlocks early.

  English statement (properties.jsonl):
    Liquidating locked coins splits a lockup schedule exactly: for every period the amount left on the
    account plus the amount moved to the liquid token equals the original period amount, no part is
    negative, and the moved total equals the requested amount.  Every liquid token in circulation is
    backed one-for-one by native coins held by the module, its recorded schedule always sums to its
    supply, and redeeming returns exactly the redeemed amount under a schedule that releases nothing
    earlier than the original one did.

  Formalisation: amounts are natural numbers (no part can be negative by construction; the model's
  truncated subtraction is shown never to truncate: left + moved = original).  "Nothing earlier" is
  proved in the strongest form — equality of release functions at every instant:
  account-after + liquid = account-before (`liquidate_exact_split`), and
  remaining-denom + redeemed = denom-before (`redeem_exact_split`); the redeemed part reaches the
  recipient through `ApplyVestingSchedule`, which merges it at the denomination's own start time for the
  code as it is now (`Props/C09.applySchedule_passes_grant_start`, a regenerated fact).
-/
import HaqqModel.Lemmas.Liquid
import HaqqModel.Props.C09

namespace Haqq.Liquid
open Haqq.Sched Haqq.Vest

/-! ## SubtractAmountFromPeriods -/

/-- per period: left + moved = original (every denomination), lengths unchanged, only the target
    denomination moves, the moved total equals the requested amount -/
theorem subtract_conserves (ps : List Period) (denom s : Nat) (dec diff : List Period)
    (h : subtractAmountFromPeriods ps denom s = some (dec, diff)) :
    (∀ d, SplitAt d ps dec diff) ∧
    sumList (diff.map fun p => p.amount denom) = s ∧
    (∀ p ∈ diff, ∀ d, d ≠ denom → p.amount d = 0) :=
  let ⟨a, b, c, _⟩ := subtract_spec ps denom s dec diff h
  ⟨a, b, c⟩

theorem subtract_err_iff (ps : List Period) (denom s : Nat) :
    subtractAmountFromPeriods ps denom s = none ↔
      (sumList (ps.map fun p => p.amount denom) < s ∨ sumList (ps.map fun p => p.amount denom) = 0) :=
  subtract_none_iff ps denom s

/-- the residue loop always places the whole residue (so the moved total is exact) -/
theorem subtract_residue_absorbed (as : List Nat) (s : Nat) (hs : s ≤ sumList as) (h0 : 0 < sumList as) :
    (pushResidue (mkPairs as (shares as s (sumList as))).reverse (s - sumList (shares as s (sumList as)))).2 = 0 := by
  obtain ⟨_, _, p3⟩ := pairs_facts as s (sumList as) hs h0
  have hsh := sum_shares_le as s h0
  apply (pushResidue_spec _ _).2.2
  rw [fsts_reverse, sumList_reverse]; omega

/-! ## helpers -/

theorem totalAmount_eq_sumList (ps : List Period) (d : Nat) :
    totalAmount ps d = sumList (ps.map fun p => p.amount d) := by
  induction ps with
  | nil => rfl
  | cons p rest ih => simp only [totalAmount, Amt.add_apply, List.map_cons, sumList, ih]

theorem totalAmount_append (xs ys : List Period) (d : Nat) :
    totalAmount (xs ++ ys) d = totalAmount xs d + totalAmount ys d := by
  induction xs with
  | nil => simp [totalAmount]
  | cons x rest ih => simp only [List.cons_append, totalAmount, Amt.add_apply, ih]; omega

theorem totalLength_append (xs ys : List Period) : totalLength (xs ++ ys) = totalLength xs + totalLength ys := by
  induction xs with
  | nil => simp [totalLength]
  | cons x rest ih => simp only [List.cons_append, totalLength, ih]; omega

theorem WF_append {xs ys : List Period} (hx : WF xs) (hy : WF ys) : WF (xs ++ ys) := by
  intro p hp
  rcases List.mem_append.1 hp with h | h
  · exact hx p h
  · exact hy p h

theorem WF_drop (ps : List Period) (n : Nat) (h : WF ps) : WF (ps.drop n) :=
  fun p hp => h p (List.mem_of_mem_drop hp)

theorem split_map_length (d : Nat) : ∀ (ps qs rs : List Period), SplitAt d ps qs rs →
    qs.map (·.length) = ps.map (·.length) := by
  intro ps
  induction ps with
  | nil => intro qs rs h; cases qs <;> cases rs <;> simp_all [SplitAt]
  | cons p rest ih =>
    intro qs rs h
    cases qs with
    | nil => cases rs <;> simp [SplitAt] at h
    | cons q qs' =>
      cases rs with
      | nil => simp [SplitAt] at h
      | cons r rs' =>
        obtain ⟨hq, _, _, hrest⟩ := h
        simp only [List.map_cons, hq, ih qs' rs' hrest]

/-- pastLoop / shiftLoop only look at period lengths -/
theorem pastLoop_congr : ∀ (ps qs : List Period) (e t : Int), ps.map (·.length) = qs.map (·.length) →
    pastLoop e ps t = pastLoop e qs t := by
  intro ps
  induction ps with
  | nil => intro qs e t h; cases qs <;> simp_all [pastLoop]
  | cons p rest ih =>
    intro qs e t h
    cases qs with
    | nil => simp at h
    | cons q qs' =>
      simp only [List.map_cons, List.cons.injEq] at h
      unfold pastLoop
      rw [h.1, ih qs' _ t h.2]

theorem shiftLoop_congr : ∀ (ps qs : List Period) (e t : Int), ps.map (·.length) = qs.map (·.length) →
    shiftLoop e t ps = shiftLoop e t qs := by
  intro ps
  induction ps with
  | nil => intro qs e t h; cases qs <;> simp_all [shiftLoop]
  | cons p rest ih =>
    intro qs e t h
    cases qs with
    | nil => simp at h
    | cons q qs' =>
      simp only [List.map_cons, List.cons.injEq] at h
      unfold shiftLoop
      rw [h.1, ih qs' _ t h.2]

theorem replaceTail_eq (ps dec : List Period) (n : Nat) (hn : n ≤ ps.length) (hl : dec.length = ps.length - n) :
    replaceTail ps dec = ps.take n ++ dec := by
  unfold replaceTail
  split
  · rename_i h
    have : n = 0 := by omega
    subst this; simp
  · rename_i h
    have : ps.length - dec.length = n := by omega
    rw [this]

/-! ## Liquidate: the lockup schedule is split exactly, at the same absolute times -/

/-- what a successful Liquidate computes, spelled out -/
theorem liquidate_unfold (M : Nat) (a : Account) (denom s : Nat) (now : Int) (a' : Account) (ld : LDenom)
    (h : liquidate M a denom s now = .ok (a', ld)) :
    Amt.isZero M (a.unvested now) = true ∧ a.lockedUp now denom ≠ 0 ∧ s ≤ a.lockedUp now denom ∧
    ∃ dec diff decV dv,
      subtractAmountFromPeriods (extractUpcoming a.start a.endT a.lockup now) denom s = some (dec, diff) ∧
      subtractAmountFromPeriods a.vesting denom s = some (decV, dv) ∧
      a' = { a with lockup := replaceTail a.lockup dec, vesting := replaceTail a.vesting decV,
                    original := fun x => if x = denom then a.original x - s else a.original x } ∧
      ld = { start := now,
             endT := now + totalLength (alignFirst diff (-(currentPeriodShift a.start now (replaceTail a.lockup dec)))),
             periods := alignFirst diff (-(currentPeriodShift a.start now (replaceTail a.lockup dec))) } := by
  unfold liquidate at h
  split at h; · simp at h
  rename_i c1
  split at h; · simp at h
  rename_i c2
  split at h; · simp at h
  rename_i c3
  simp only at h
  split at h
  · simp at h
  · rename_i dec diff hsub
    split at h
    · simp at h
    · rename_i decV dv hsubV
      simp only [Except.ok.injEq, Prod.mk.injEq] at h
      refine ⟨by simpa using c1, c2, by omega, dec, diff, decV, dv, hsub, hsubV, h.1.symm, h.2.symm⟩

/-- **exact split at the same instants**: after Liquidate, at every instant and in every denomination,
    what the account's lockup schedule has released plus what the liquid denomination's schedule has
    released equals what the account's schedule had released before — nothing earlier, nothing later.
    (Release functions are read as step functions from the respective start times.) -/
theorem liquidate_exact_split (M : Nat) (a : Account) (hv : AccValid a) (denom s : Nat) (hd : denom < M)
    (now : Int) (a' : Account) (ld : LDenom) (h : liquidate M a denom s now = .ok (a', ld)) (t : Int) (d : Nat) :
    readLoop a.start a.lockup t d = readLoop a'.start a'.lockup t d + readLoop ld.start ld.periods t d ∧
    a'.start = a.start ∧ a'.endT = a.endT ∧ a'.original denom + s = a.original denom ∧
    totalAmount ld.periods denom = s ∧ WF ld.periods ∧ WF a'.lockup ∧
    totalAmount a'.lockup d + totalAmount ld.periods d = totalAmount a.lockup d := by
  obtain ⟨c1, c2, c3, dec, diff, decV, dv, hsub, _, ha', hld⟩ := liquidate_unfold M a denom s now a' ld h
  have hz := (Amt.isZero_iff M _).1 c1
  -- the schedule has started and the lockup has not ended
  have hstart : a.start < now := by
    apply Int.lt_of_not_ge
    intro hge
    have hv0 : a.vested now denom = 0 := by
      unfold Account.vested; rw [read_zero _ _ _ _ _ hge]; rfl
    have := hz denom hd
    simp only [Account.unvested, Amt.sub_apply, hv0] at this
    have hl : a.lockedUp now denom ≤ a.original denom := by simp [Account.lockedUp]
    omega
  have hend : now < a.endT := by
    apply Int.lt_of_not_ge
    intro hge
    have : a.unlocked now = a.original := by unfold Account.unlocked; exact read_total _ _ _ _ _ hstart hge
    simp [Account.lockedUp, this] at c2
  have hcount : readPastPeriodCount a.start a.endT a.lockup now = pastLoop a.start a.lockup now := by
    have h1 : ¬ now ≤ a.start := by omega
    have h2 : ¬ now ≥ a.endT := by omega
    simp [readPastPeriodCount, h1, h2]
  have hwf := hv.lockup.wf
  -- notation
  have hup : extractUpcoming a.start a.endT a.lockup now = a.lockup.drop (pastLoop a.start a.lockup now) := by
    simp [extractUpcoming, hcount]
  rw [hup] at hsub
  obtain ⟨hsplit, hdsum, hdother, hdecsum⟩ := subtract_spec _ denom s dec diff hsub
  have hn : pastLoop a.start a.lockup now ≤ a.lockup.length := pastLoop_le_length _ _ _
  obtain ⟨hl1, hl2, hl3, hl4, hl5⟩ := split_lengths d _ dec diff (hsplit d)
  have hwfUp : WF (a.lockup.drop (pastLoop a.start a.lockup now)) := WF_drop _ _ hwf
  obtain ⟨hwfDec, hwfDiff⟩ := hl5 hwfUp
  have hwfPast : WF (a.lockup.take (pastLoop a.start a.lockup now)) := WF_take _ _ hwf
  have hlock' : replaceTail a.lockup dec = a.lockup.take (pastLoop a.start a.lockup now) ++ dec :=
    replaceTail_eq a.lockup dec _ hn (by rw [hl3]; simp)
  -- upcoming is non-empty (it holds a positive amount of the target denomination)
  have hne : a.lockup.drop (pastLoop a.start a.lockup now) ≠ [] := by
    intro he
    have hnone := (subtract_none_iff (a.lockup.drop (pastLoop a.start a.lockup now)) denom s).2
      (Or.inr (by rw [he]; rfl))
    rw [hnone] at hsub; simp at hsub
  have hnlt : pastLoop a.start a.lockup now ≠ a.lockup.length := by
    intro he; apply hne; rw [he]; simp
  -- the shift
  have hmaplen : (replaceTail a.lockup dec).map (·.length) = a.lockup.map (·.length) := by
    rw [hlock', List.map_append, split_map_length d _ dec diff (hsplit d), ← List.map_append, List.take_append_drop]
  have hshift : currentPeriodShift a.start now (replaceTail a.lockup dec) =
      now - (a.start + totalLength (a.lockup.take (pastLoop a.start a.lockup now))) := by
    have h1 : ¬ a.start ≥ now := by omega
    simp only [currentPeriodShift, h1, if_false]
    rw [shiftLoop_congr _ _ _ _ hmaplen, shiftLoop_eq]
    simp [hnlt]
  subst ha'; subst hld
  simp only
  rw [hshift]
  have hnow : now = (a.start + totalLength (a.lockup.take (pastLoop a.start a.lockup now))) +
      (now - (a.start + totalLength (a.lockup.take (pastLoop a.start a.lockup now)))) := by omega
  have hread : ∀ t d, readLoop now (alignFirst diff (-(now - (a.start + totalLength (a.lockup.take (pastLoop a.start a.lockup now)))))) t d =
      readLoop (a.start + totalLength (a.lockup.take (pastLoop a.start a.lockup now))) diff t d := by
    intro t d
    have := readLoop_shift (a.start + totalLength (a.lockup.take (pastLoop a.start a.lockup now)))
      (now - (a.start + totalLength (a.lockup.take (pastLoop a.start a.lockup now)))) diff t d
    rw [← hnow] at this
    exact this
  have hbounds := pastLoop_bounds a.lockup a.start now hwf (by omega)
  -- the first upcoming period has not ended: the shift is smaller than its length
  have hfirst : ∀ p rest, diff = p :: rest →
      0 ≤ p.length - (now - (a.start + totalLength (a.lockup.take (pastLoop a.start a.lockup now)))) := by
    intro p rest hp
    cases hu : a.lockup.drop (pastLoop a.start a.lockup now) with
    | nil => exact absurd hu hne
    | cons u us =>
      have := hbounds.2 u us hu
      have hs := hsplit d
      rw [hu, hp] at hs
      cases hdc : dec with
      | nil => rw [hdc] at hs; simp [SplitAt] at hs
      | cons q qs => rw [hdc] at hs; have := hs.2.1; omega
  have hwfDiff' : WF (alignFirst diff (-(now - (a.start + totalLength (a.lockup.take (pastLoop a.start a.lockup now)))))) := by
    cases hdf : diff with
    | nil => simpa [alignFirst] using WF_nil
    | cons p rest =>
      have := hfirst p rest hdf
      rw [hdf] at hwfDiff
      simp only [alignFirst]
      exact WF_cons (by simp only; omega) (WF_tail hwfDiff)
  have htotdiff' : ∀ d, totalAmount (alignFirst diff (-(now - (a.start + totalLength (a.lockup.take (pastLoop a.start a.lockup now)))))) d = totalAmount diff d := by
    intro d; cases diff <;> simp [alignFirst, totalAmount]
  refine ⟨?_, by first | rfl | trivial, by first | rfl | trivial, ?_, ?_, hwfDiff', ?_, ?_⟩
  · -- the reading equation
    rw [hread, hlock']
    conv => lhs; rw [← List.take_append_drop (pastLoop a.start a.lockup now) a.lockup]
    by_cases hc : a.start + totalLength (a.lockup.take (pastLoop a.start a.lockup now)) ≤ t
    · rw [readLoop_append_ge _ _ _ _ _ hwfPast hc, readLoop_append_ge _ _ _ _ _ hwfPast hc,
          readLoop_split d _ dec diff _ t (hsplit d)]
      omega
    · have hlt : t < a.start + totalLength (a.lockup.take (pastLoop a.start a.lockup now)) := by omega
      rw [readLoop_append_lt _ _ _ _ _ hwfPast hwfUp hlt, readLoop_append_lt _ _ _ _ _ hwfPast hwfDec hlt,
          readLoop_zero_of_lt _ diff t d hwfDiff hlt]
      omega
  · -- original' + s = original
    simp only [if_true]
    have : s ≤ a.original denom := by
      have : a.lockedUp now denom ≤ a.original denom := by simp [Account.lockedUp]
      omega
    omega
  · rw [htotdiff', totalAmount_eq_sumList, hdsum]
  · rw [hlock']; exact WF_append hwfPast hwfDec
  · rw [hlock', htotdiff', totalAmount_append]
    conv => rhs; rw [← List.take_append_drop (pastLoop a.start a.lockup now) a.lockup, totalAmount_append]
    rw [split_total d _ dec diff (hsplit d)]
    omega

/-- Liquidate is refused while the schedule has not started (then `CurrentPeriodShift` would be 0
    and the liquid schedule would run early): success implies start < now < end. -/
theorem liquidate_guard_started (M : Nat) (a : Account) (denom s : Nat) (hd : denom < M) (now : Int)
    (a' : Account) (ld : LDenom) (h : liquidate M a denom s now = .ok (a', ld)) : a.start < now := by
  obtain ⟨c1, c2, _⟩ := liquidate_unfold M a denom s now a' ld h
  have hz := (Amt.isZero_iff M _).1 c1
  apply Int.lt_of_not_ge
  intro hge
  have hv0 : a.vested now denom = 0 := by
    unfold Account.vested; rw [read_zero _ _ _ _ _ hge]; rfl
  have := hz denom hd
  simp only [Account.unvested, Amt.sub_apply, hv0] at this
  have hl : a.lockedUp now denom ≤ a.original denom := by simp [Account.lockedUp]
  omega

/-! ## Redeem: the denomination's schedule is split exactly -/

theorem redeem_exact_split (ld : LDenom) (denom s : Nat) (now : Int)
    (left : Option LDenom) (grant : Option (Int × List Period × List Period))
    (h : redeem ld denom s now = some (left, grant)) :
    ∃ dec diff,
      subtractAmountFromPeriods ld.periods denom s = some (dec, diff) ∧
      (∀ t d, readLoop ld.start ld.periods t d = readLoop ld.start dec t d + readLoop ld.start diff t d) ∧
      sumList (diff.map fun p => p.amount denom) = s ∧
      sumList (dec.map fun p => p.amount denom) + s = sumList (ld.periods.map fun p => p.amount denom) ∧
      (left = none ↔ sumList (dec.map fun p => p.amount denom) = 0) ∧
      (∀ l, left = some l → l = { ld with periods := dec }) ∧
      (∀ g, grant = some g → g = (ld.start, diff, [(⟨0, single denom s⟩ : Period)])) := by
  unfold redeem at h
  split at h
  · simp at h
  · rename_i dec diff hsub
    simp only [Option.some.injEq, Prod.mk.injEq] at h
    obtain ⟨hsplit, hdsum, _, hdecsum⟩ := subtract_spec _ denom s dec diff hsub
    obtain ⟨h1, h2⟩ := h
    subst h1; subst h2
    refine ⟨dec, diff, hsub, fun t d => readLoop_split d _ dec diff _ t (hsplit d), hdsum, hdecsum, ?_, ?_, ?_⟩
    · split <;> simp_all
    · intro l hl; split at hl
      · simp at hl
      · simp only [Option.some.injEq] at hl; exact hl.symm
    · intro g hg; split at hg
      · simp at hg
      · simp only [Option.some.injEq] at hg; exact hg.symm

/-- **never early**: what a redeemer receives is released no earlier than the liquid denomination's own
    schedule released it — at every instant the redeemed part's release is bounded by (indeed a summand
    of) the denomination's release -/
theorem redeem_no_early_unlock (ld : LDenom) (denom s : Nat) (now : Int)
    (left : Option LDenom) (grant : Option (Int × List Period × List Period))
    (h : redeem ld denom s now = some (left, grant)) (t : Int) (d : Nat) :
    ∀ g, grant = some g → g.1 = ld.start ∧ readLoop g.1 g.2.1 t d ≤ readLoop ld.start ld.periods t d := by
  obtain ⟨dec, diff, _, hread, _, _, _, _, hg⟩ := redeem_exact_split ld denom s now left grant h
  intro g hgs
  rw [hg g hgs]
  exact ⟨rfl, by have := hread t d; simp only; omega⟩

/-- a redeem without a schedule (plain transfer) happens only when every period of the redeemed part
    has already ended -/
theorem redeem_plain_only_when_unlocked (ld : LDenom) (hwf : WF ld.periods) (hend : ld.endT = ld.start + totalLength ld.periods)
    (denom s : Nat) (now : Int) (left : Option LDenom)
    (h : redeem ld denom s now = some (left, none)) :
    ∃ dec diff, subtractAmountFromPeriods ld.periods denom s = some (dec, diff) ∧
      ∀ d, readLoop ld.start diff now d = totalAmount diff d := by
  unfold redeem at h
  split at h
  · simp at h
  · rename_i dec diff hsub
    simp only [Option.some.injEq, Prod.mk.injEq] at h
    refine ⟨dec, diff, hsub, ?_⟩
    intro d
    obtain ⟨hsplit, _, _, _⟩ := subtract_spec _ denom s dec diff hsub
    obtain ⟨_, hlen2, _, hl4, hl5⟩ := split_lengths d _ dec diff (hsplit d)
    have hwfd := (hl5 hwf).2
    have hemp : (extractUpcoming ld.start ld.endT diff now).isEmpty = true := by
      have := h.2; split at this <;> simp_all
    simp only [extractUpcoming, List.isEmpty_iff, List.drop_eq_nil_iff] at hemp
    unfold readPastPeriodCount at hemp
    split at hemp
    · -- now ≤ start: then there are no periods at all
      have : diff = [] := by simpa using hemp
      subst this; simp [readLoop, totalAmount]
    · split at hemp
      · rename_i hge
        exact readLoop_all diff ld.start now d hwfd (by rw [hlen2]; omega)
      · have hcnt : pastLoop ld.start diff now = diff.length := by
          have := pastLoop_le_length diff ld.start now; omega
        have := totalAmount_take_pastLoop diff ld.start now d
        rw [hcnt, List.take_length] at this
        exact this.symm

/-! ## Backing: every liquid token is backed one-for-one, its schedule sums to its supply -/

/-- module-level bookkeeping: the liquid denominations with their recorded schedules and their bank
    supplies, and the native coins escrowed in the module account -/
structure LVState where
  denoms : List (LDenom × Nat)
  escrow : Nat

def supplySum : List (LDenom × Nat) → Nat
  | [] => 0
  | (_, s) :: rest => s + supplySum rest

/-- the native denomination (aISLM) -/
def native : Nat := 0

structure LVInv (st : LVState) : Prop where
  sched : ∀ p ∈ st.denoms, sumList (p.1.periods.map fun q => q.amount native) = p.2
  backed : st.escrow = supplySum st.denoms

inductive LVOp
  | liquidate (a : Account) (s : Nat) (now : Int)      -- by any account; the account model is C09's
  | redeem (i : Nat) (s : Nat) (now : Int)             -- of denomination number i, by any holder
  | transfer                                           -- bank transfers of liquid tokens between holders

def setAt (l : List (LDenom × Nat)) (i : Nat) (v : Option (LDenom × Nat)) : List (LDenom × Nat) :=
  match l, i with
  | [], _ => []
  | _ :: rest, 0 => (match v with | some x => x :: rest | none => rest)
  | x :: rest, i + 1 => x :: setAt rest i v

def lvStep (M : Nat) (st : LVState) : LVOp → LVState
  | .liquidate a s now =>
    match liquidate M a native s now with
    | .ok (_, ld) => { denoms := st.denoms ++ [(ld, s)], escrow := st.escrow + s }   -- escrow s, mint s liquid
    | .error _ => st
  | .redeem i s now =>
    match st.denoms[i]? with
    | none => st
    | some (ld, sup) =>
      if sup < s then st          -- nobody can hold more than the supply
      else match redeem ld native s now with
        | none => st
        | some (left, _) =>
          -- burn s liquid, release s native; the schedule record is updated or deleted
          { denoms := setAt st.denoms i (left.map fun l => (l, sup - s)), escrow := st.escrow - s }
  | .transfer => st

theorem supplySum_append (a b : List (LDenom × Nat)) : supplySum (a ++ b) = supplySum a + supplySum b := by
  induction a with
  | nil => simp [supplySum]
  | cons x xs ih => obtain ⟨l, s⟩ := x; simp only [List.cons_append, supplySum, ih]; omega

theorem setAt_spec : ∀ (l : List (LDenom × Nat)) (i : Nat) (ld : LDenom) (sup : Nat) (v : Option (LDenom × Nat)),
    l[i]? = some (ld, sup) →
    supplySum (setAt l i v) + sup = supplySum l + (match v with | some x => x.2 | none => 0) ∧
    ∀ p ∈ setAt l i v, p ∈ l ∨ v = some p := by
  intro l
  induction l with
  | nil => intro i ld sup v h; simp at h
  | cons x rest ih =>
    intro i ld sup v h
    cases i with
    | zero =>
      simp only [List.getElem?_cons_zero, Option.some.injEq] at h
      subst h
      cases v with
      | none => simp only [setAt, supplySum]; exact ⟨by omega, fun p hp => Or.inl (List.mem_cons_of_mem _ hp)⟩
      | some y =>
        obtain ⟨yl, ys⟩ := y
        simp only [setAt, supplySum]
        refine ⟨by omega, ?_⟩
        intro p hp
        rcases List.mem_cons.1 hp with h | h
        · exact Or.inr (by rw [h])
        · exact Or.inl (List.mem_cons_of_mem _ h)
    | succ j =>
      simp only [List.getElem?_cons_succ] at h
      obtain ⟨i1, i2⟩ := ih j ld sup v h
      obtain ⟨xl, xs⟩ := x
      simp only [setAt, supplySum]
      refine ⟨by omega, ?_⟩
      intro p hp
      rcases List.mem_cons.1 hp with h | h
      · exact Or.inl (by rw [h]; exact List.mem_cons_self)
      · rcases i2 p h with h' | h'
        · exact Or.inl (List.mem_cons_of_mem _ h')
        · exact Or.inr h'

theorem getElem_le_supplySum : ∀ (l : List (LDenom × Nat)) (i : Nat) (ld : LDenom) (sup : Nat),
    l[i]? = some (ld, sup) → sup ≤ supplySum l := by
  intro l
  induction l with
  | nil => intro i ld sup h; simp at h
  | cons x rest ih =>
    intro i ld sup h
    obtain ⟨xl, xs⟩ := x
    cases i with
    | zero =>
      simp only [List.getElem?_cons_zero, Option.some.injEq, Prod.mk.injEq] at h
      simp only [supplySum]; omega
    | succ j =>
      simp only [List.getElem?_cons_succ] at h
      have := ih j ld sup h
      simp only [supplySum]; omega

/-- one operation preserves the backing invariant -/
theorem lvStep_inv (M : Nat) (hM : 0 < M) (st : LVState) (op : LVOp)
    (hacc : ∀ a s now, op = .liquidate a s now → AccValid a) (hi : LVInv st) : LVInv (lvStep M st op) := by
  cases op with
  | transfer => exact hi
  | liquidate a s now =>
    simp only [lvStep]
    split
    · rename_i a' ld hl
      have := liquidate_exact_split M a (hacc a s now rfl) native s hM now a' ld hl 0 native
      have hsum : sumList (ld.periods.map fun q => q.amount native) = s := by
        rw [← totalAmount_eq_sumList]; exact this.2.2.2.2.1
      constructor
      · intro p hp
        rcases List.mem_append.1 hp with h | h
        · exact hi.sched p h
        · simp only [List.mem_singleton] at h; subst h; exact hsum
      · simp only [supplySum_append, supplySum, hi.backed]; omega
    · exact hi
  | redeem i s now =>
    simp only [lvStep]
    split
    · exact hi
    · rename_i ld sup hget
      split
      · exact hi
      · rename_i hle
        split
        · exact hi
        · rename_i left grant hr
          obtain ⟨dec, diff, _, _, _, hdecsum, hnone, hsome, _⟩ := redeem_exact_split ld native s now left grant hr
          have hmem : (ld, sup) ∈ st.denoms := List.mem_of_getElem? hget
          have hsched : sumList (ld.periods.map fun q => q.amount native) = sup := hi.sched (ld, sup) hmem
          obtain ⟨q1, q2⟩ := setAt_spec st.denoms i ld sup (left.map fun l => (l, sup - s)) hget
          constructor
          · intro p hp
            rcases q2 p hp with h | h
            · exact hi.sched p h
            · cases hleft : left with
              | none => rw [hleft] at h; simp at h
              | some l =>
                rw [hleft] at h
                simp only [Option.map_some, Option.some.injEq] at h
                subst h
                rw [hsome l hleft]
                show sumList (dec.map fun q => q.amount native) = sup - s
                omega
          · have hb := hi.backed
            have hss : s ≤ sup := by omega
            have hsup : sup ≤ supplySum st.denoms := getElem_le_supplySum st.denoms i ld sup hget
            cases hleft : left with
            | none =>
              rw [hleft] at q1
              simp only [Option.map_none] at q1 ⊢
              have : sumList (dec.map fun p => p.amount native) = 0 := hnone.1 hleft
              show st.escrow - s = supplySum (setAt st.denoms i none)
              omega
            | some l =>
              rw [hleft] at q1
              simp only [Option.map_some] at q1 ⊢
              show st.escrow - s = supplySum (setAt st.denoms i (some (l, sup - s)))
              omega

def lvRun (M : Nat) (st : LVState) (ops : List LVOp) : LVState := ops.foldl (lvStep M) st

/-- **backing for every history**: after any sequence of liquidations (from valid accounts), transfers
    and partial or full redeems across holders, every liquid denomination's recorded schedule sums to
    its supply and the module escrow equals the total liquid supply. -/
theorem lv_inv (M : Nat) (hM : 0 < M) (ops : List LVOp)
    (hacc : ∀ op ∈ ops, ∀ a s now, op = .liquidate a s now → AccValid a) :
    LVInv (lvRun M { denoms := [], escrow := 0 } ops) := by
  suffices ∀ st, LVInv st → LVInv (lvRun M st ops) from
    this _ ⟨by intro p hp; simp at hp, by simp [supplySum]⟩
  induction ops with
  | nil => intro st h; exact h
  | cons op rest ih =>
    intro st h
    exact ih (fun o ho => hacc o (List.mem_cons_of_mem _ ho)) _
      (lvStep_inv M hM st op (hacc op List.mem_cons_self) h)

/-- non-vacuity: a concrete account (100 locked until +500 and +1000, fully vested) liquidates 30 at
    t = 1600: the first liquid period is shortened to keep its absolute time, and the three results add up -/
example :
    let amt (x : Nat) : Amt := fun d => if d = 0 then x else 0
    let a : Account := newAccount 7 1000 (amt 100) [⟨500, amt 40⟩, ⟨500, amt 60⟩] [⟨0, amt 100⟩]
    match liquidate 1 a 0 30 1600 with
    | .ok (a', ld) =>
        ld.start = 1600 ∧ ld.periods.map (·.length) = [400] ∧ totalAmount ld.periods 0 = 30 ∧
        totalAmount a'.lockup 0 = 70 ∧ a'.original 0 = 70
    | .error _ => False := by
  simp [liquidate, newAccount, alignSchedules, alignFirst, totalLength, totalAmount, Account.unvested,
    Account.vested, Account.lockedUp, Account.unlocked, readSchedule, readLoop, Amt.isZero, anyTo,
    extractUpcoming, readPastPeriodCount, pastLoop, subtractAmountFromPeriods, subtractAmounts, sumList,
    shares, mkPairs, pushResidue, mkDec, mkDiff, replaceTail, currentPeriodShift, shiftLoop, setDenom, single]

end Haqq.Liquid
