/-
  C05 — A reverted EVM call frame leaves no trace, precompiles included.

  English statement (properties.jsonl):
    If any call frame of an Ethereum transaction reverts or runs out of gas, every state change made inside
    that frame is undone - contract storage, balances and logs, and equally the Cosmos-side effects of
    precompile calls made in it (delegations, reward withdrawals, IBC transfers, grants).  A transaction
    that ultimately fails changes nothing except the fee payment and the nonce.

  Formalisation.  The StateDB is modelled with its journal (`Model/StateDB.lean`); every EVM-side mutation is
  a sequence of micro-operations that append at most one journal entry each.
    * `revert_restores` / `snapshot_revert_restores`: for every sequence of EVM-side mutations, reverting to
      the snapshot restores the *whole* StateDB (cached objects, storage, refund counter, logs, access list,
      journal, dirty counts) — provided no Commit happened in between.
    * `nested_snapshot_revert`: the same when the frame also took any number of further snapshots (inner frames)
      at any points: reverting to the frame's own snapshot finds the right journal length among the revisions and
      restores the StateDB, including the list of older revisions.
    * `flush_then_revert_counterexample`: with a Commit inside the reverted span — which is what every
      stateful precompile performs on entry — the frame's EVM-side writes survive the revert (recorded
      finding F-C05-a/c, together with the Cosmos-side effects, which no journal covers).
    * `failed_tx_discards_everything`: a transaction that fails as a whole runs on a cached copy of the
      keeper state that is dropped.
-/
import HaqqModel.Model.StateDB
import HaqqModel.Generated.Facts

namespace Haqq.SDB

/-- every existing account is already cached (so `get` is a pure cache lookup) -/
def Sat (db : DB) : Prop := ∀ a, db.objs a = none → db.k.exist a = false

theorem get_sat (db : DB) (h : Sat db) (a : Nat) : db.get a = db.objs a := by
  unfold DB.get
  cases ho : db.objs a with
  | some o => rfl
  | none => simp [h a ho]

/-- caching every existing account does not change what `get` returns (so `Sat` is no restriction on
    observable behaviour) -/
def saturate (db : DB) : DB := { db with objs := fun a => db.get a }

theorem saturate_sat (db : DB) : Sat (saturate db) := by
  intro a h
  show db.k.exist a = false
  simp only [saturate, DB.get] at h
  cases ho : db.objs a with
  | some o => simp [ho] at h
  | none =>
    simp only [ho] at h
    by_cases he : db.k.exist a = true
    · simp [he] at h
    · simpa using he

theorem saturate_get (db : DB) (a : Nat) : (saturate db).get a = db.get a := by
  simp only [saturate, DB.get]
  cases ho : db.objs a with
  | some o => simp
  | none =>
    by_cases he : db.k.exist a = true
    · simp [he]
    · simp [he]

@[simp] theorem upd_upd_same {β : Type} (f : Nat → β) (a : Nat) (x y : β) : upd (upd f a x) a y = upd f a y := by
  funext z; simp only [upd]; split <;> rfl

@[simp] theorem upd_self {β : Type} (f : Nat → β) (a : Nat) : upd f a (f a) = f := by
  funext z; simp only [upd]; split
  · rename_i h; rw [h]
  · rfl

theorem upd_eq_self {β : Type} (f : Nat → β) (a : Nat) (y : β) (h : f a = y) : upd f a y = f := by
  rw [← h, upd_self]

theorem mstep_journal (db : DB) (op : MOp) :
    (mstepCore db op).journal = db.journal ∨ ∃ e, (mstepCore db op).journal = e :: db.journal := by
  cases op <;> simp only [mstepCore] <;> (try split) <;> (try split) <;> simp [DB.push_def, DB.setObj]

theorem mstep_keeper (db : DB) (op : MOp) : (mstepCore db op).k = db.k ∧ (mstepCore db op).revisions = db.revisions ∧
    (mstepCore db op).nextRev = db.nextRev := by
  cases op <;> simp only [mstepCore] <;> (try split) <;> (try split) <;> simp [DB.push_def, DB.setObj]

theorem mstep_objs_none (db : DB) (op : MOp) (a : Nat) (h : (mstepCore db op).objs a = none) : db.objs a = none := by
  cases op <;> simp only [mstepCore] at h <;> (try split at h) <;> (try split at h) <;>
    first
    | exact h
    | (simp only [DB.push_def, DB.setObj, upd] at h
       first
       | exact h
       | (split at h
          · simp at h
          · exact h))

theorem mstep_sat (db : DB) (op : MOp) (h : Sat db) : Sat (mstepCore db op) := by
  intro a ha
  rw [(mstep_keeper db op).1]
  exact h a (mstep_objs_none db op a ha)

theorem revertEntries_stop (d : DB) (es : List Entry) : revertEntries d es es.length = { d with journal := es } := by
  cases es <;> simp [revertEntries]

theorem revert_noop (db : DB) : revertJournal db db.journal.length = db := by
  unfold revertJournal
  rw [revertEntries_stop]

/-- reverting a journal whose newest entry is `e` by one step -/
theorem revert_top (d : DB) (e : Entry) (es : List Entry) (h : d.journal = e :: es) :
    revertJournal d es.length = { undoTop d e with journal := es } := by
  unfold revertJournal
  rw [h]
  have : ¬ es.length + 1 ≤ es.length := by omega
  simp only [revertEntries, this, if_false]
  exact revertEntries_stop _ _

theorem undo_journal (d : DB) (e : Entry) (j : List Entry) :
    undoTop { d with journal := j } e = { undoTop d e with journal := j } := by
  cases e <;> simp only [undoTop_def, undo, DB.get, DB.setObj, Entry.dirtied] <;> (try split) <;> rfl

theorem revertEntries_journal_irrel (es : List Entry) : ∀ (d : DB) (j : List Entry) (n : Nat),
    revertEntries { d with journal := j } es n = revertEntries d es n := by
  induction es with
  | nil => intro d j n; simp [revertEntries]
  | cons e rest ih =>
    intro d j n
    simp only [revertEntries]
    split
    · rfl
    · rw [undo_journal, ih]

/-- **one micro-operation is exactly undone** by reverting the journal to its previous length -/
theorem revert_one (db : DB) (op : MOp) (h : Sat db) :
    revertJournal (mstepCore db op) db.journal.length = db := by
  have hg := get_sat db h
  cases op with
  | create a =>
    simp only [mstepCore, hg]
    cases ho : db.objs a with
    | some o => exact revert_noop db
    | none =>
      rw [revert_top _ (.create a) db.journal rfl]
      simp [undoTop_def, undo, DB.push_def, DB.setObj, Entry.dirtied, upd_eq_self _ _ _ ho]
  | setBal a v =>
    simp only [mstepCore, hg]
    cases ho : db.objs a with
    | none => exact revert_noop db
    | some o =>
      rw [revert_top _ (.balance a o.bal) db.journal rfl]
      simp [undoTop_def, undo, DB.push_def, DB.setObj, Entry.dirtied, DB.get, upd_eq_self _ _ _ ho]
  | setNonce a v =>
    simp only [mstepCore, hg]
    cases ho : db.objs a with
    | none => exact revert_noop db
    | some o =>
      rw [revert_top _ (.nonce a o.nonce) db.journal rfl]
      simp [undoTop_def, undo, DB.push_def, DB.setObj, Entry.dirtied, DB.get, upd_eq_self _ _ _ ho]
  | setState a k v =>
    simp only [mstepCore, hg]
    cases ho : db.objs a with
    | none => exact revert_noop db
    | some o =>
      simp only
      by_cases hv : o.stor k = v
      · simp only [hv, if_true]; exact revert_noop db
      · simp only [hv, if_false]
        rw [revert_top _ (.storage a k (o.stor k)) db.journal rfl]
        simp [undoTop_def, undo, DB.push_def, DB.setObj, Entry.dirtied, DB.get, upd_eq_self _ _ _ ho]
  | setRefund v =>
    simp only [mstepCore]
    rw [revert_top _ (.refund db.refund) db.journal rfl]
    simp [undoTop_def, undo, DB.push_def, Entry.dirtied]
  | addLog =>
    simp only [mstepCore]
    rw [revert_top _ .log db.journal rfl]
    simp [undoTop_def, undo, DB.push_def, Entry.dirtied]
  | suicide a =>
    simp only [mstepCore, hg]
    cases ho : db.objs a with
    | none => exact revert_noop db
    | some o =>
      rw [revert_top _ (.suicide a o.suicided o.bal) db.journal rfl]
      simp [undoTop_def, undo, DB.push_def, DB.setObj, Entry.dirtied, DB.get, upd_eq_self _ _ _ ho]
  | accAddr a =>
    simp only [mstepCore]
    by_cases hc : db.accA a = true
    · simp only [hc, if_true]; exact revert_noop db
    · simp only [hc, Bool.false_eq_true, if_false]
      rw [revert_top _ (.accAddr a) db.journal rfl]
      have hc' : db.accA a = false := by simpa using hc
      simp [undoTop_def, undo, DB.push_def, Entry.dirtied, upd_eq_self _ _ _ hc']
  | createAccount a =>
    simp only [mstepCore, hg]
    cases ho : db.objs a with
    | none =>
      rw [revert_top _ (.create a) db.journal rfl]
      simp [undoTop_def, undo, DB.push_def, DB.setObj, Entry.dirtied, upd_eq_self _ _ _ ho]
    | some o =>
      rw [revert_top _ (.reset a o) db.journal rfl]
      simp [undoTop_def, undo, DB.push_def, DB.setObj, Entry.dirtied, upd_eq_self _ _ _ ho]
  | accSlot a k =>
    simp only [mstepCore]
    by_cases hc : db.accS a k = true
    · simp only [hc, if_true]; exact revert_noop db
    · simp only [hc, Bool.false_eq_true, if_false]
      rw [revert_top _ (.accSlot a k) db.journal rfl]
      have hc' : db.accS a k = false := by simpa using hc
      simp [undoTop_def, undo, DB.push_def, Entry.dirtied, upd_eq_self _ _ _ hc']

theorem revertEntries_journal (es : List Entry) : ∀ (db : DB) (n : Nat),
    (revertEntries db es n).journal.length ≤ es.length := by
  induction es with
  | nil => intro db n; simp [revertEntries]
  | cons e rest ih =>
    intro db n
    simp only [revertEntries]
    split
    · simp
    · have := ih (undoTop db e) n
      simp only [List.length_cons]; omega

/-- reverting in two stages is reverting in one -/
theorem revertEntries_trans : ∀ (es : List Entry) (db : DB) (m n : Nat), n ≤ m →
    revertEntries (revertEntries db es m) (revertEntries db es m).journal n = revertEntries db es n := by
  intro es
  induction es with
  | nil => intro db m n _; simp [revertEntries]
  | cons e rest ih =>
    intro db m n hnm
    by_cases h1 : rest.length + 1 ≤ m
    · have e1 : revertEntries db (e :: rest) m = { db with journal := e :: rest } := by simp [revertEntries, h1]
      rw [e1]
      by_cases h2 : rest.length + 1 ≤ n
      · simp [revertEntries, h2]
      · have := revertEntries_journal_irrel (e :: rest) db (e :: rest) n
        simpa using this
    · have h2 : ¬ rest.length + 1 ≤ n := by omega
      simp only [revertEntries, h1, h2, if_false]
      exact ih _ m n hnm

theorem revertJournal_trans (db : DB) (m n : Nat) (h : n ≤ m) :
    revertJournal (revertJournal db m) n = revertJournal db n := by
  unfold revertJournal
  exact revertEntries_trans db.journal db m n h

theorem mstep_len (db : DB) (op : MOp) : db.journal.length ≤ (mstepCore db op).journal.length := by
  rcases mstep_journal db op with h | ⟨e, h⟩ <;> rw [h] <;> simp

/-- **revert restores everything**: after any sequence of EVM-side mutations (no Commit in between),
    reverting the journal to its earlier length gives back the identical StateDB -/
theorem revert_restores_core (ops : List MOp) : ∀ (db : DB), Sat db →
    revertJournal (ops.foldl mstepCore db) db.journal.length = db := by
  induction ops with
  | nil => intro db _; exact revert_noop db
  | cons op rest ih =>
    intro db hs
    simp only [List.foldl_cons]
    have hs1 := mstep_sat db op hs
    have h1 := ih (mstepCore db op) hs1
    have hl := mstep_len db op
    rw [← revertJournal_trans _ _ _ hl, h1]
    exact revert_one db op hs

/-- revision ids recorded so far are below the next id -/
def RevWF (db : DB) : Prop := ∀ r ∈ db.revisions, r.1 < db.nextRev

theorem foldl_keeper (ops : List MOp) : ∀ (db : DB), (ops.foldl mstepCore db).revisions = db.revisions ∧
    (ops.foldl mstepCore db).nextRev = db.nextRev ∧ (ops.foldl mstepCore db).k = db.k := by
  induction ops with
  | nil => intro db; exact ⟨rfl, rfl, rfl⟩
  | cons op rest ih =>
    intro db
    obtain ⟨a, b, c⟩ := ih (mstepCore db op)
    obtain ⟨d, e, f⟩ := mstep_keeper db op
    simp only [List.foldl_cons]
    exact ⟨a.trans e, b.trans f, c.trans d⟩

theorem revertEntries_keeps (es : List Entry) : ∀ (db : DB) (n : Nat),
    (revertEntries db es n).revisions = db.revisions ∧ (revertEntries db es n).nextRev = db.nextRev := by
  induction es with
  | nil => intro db n; simp [revertEntries]
  | cons e rest ih =>
    intro db n
    simp only [revertEntries]
    split
    · simp
    · obtain ⟨a, b⟩ := ih (undoTop db e) n
      rw [a, b]
      cases e <;> simp only [undoTop_def, undo] <;> (try split) <;> simp [DB.setObj]

/-- **Snapshot / RevertToSnapshot**: a frame that takes a snapshot, performs any EVM-side mutations and
    reverts to the snapshot leaves the StateDB as it was (only the revision counter has advanced) -/
theorem snapshot_revert_restores_core (db : DB) (hs : Sat db) (hw : RevWF db) (ops : List MOp) :
    revertTo (ops.foldl mstepCore (snapshot db).1) (snapshot db).2 = some { db with nextRev := db.nextRev + 1 } := by
  have hsat : Sat (snapshot db).1 := hs
  obtain ⟨hr, hn, _⟩ := foldl_keeper ops (snapshot db).1
  have hrest := revert_restores_core ops (snapshot db).1 hsat
  unfold revertTo
  rw [hr]
  have hf : ∀ (p : Nat × Nat → Bool), (∀ r ∈ db.revisions, p r = true) → List.filter p db.revisions = db.revisions :=
    fun p h => List.filter_eq_self.2 h
  simp only [snapshot, List.find?_cons, beq_self_eq_true] at hrest ⊢
  rw [hrest]
  simp only [List.filter_cons, Nat.lt_irrefl, decide_false, Bool.false_eq_true, if_false]
  rw [hf _ (by intro r hr'; exact decide_eq_true (hw r hr'))]

theorem load_sat (db : DB) (h : Sat db) (a : Nat) : db.load a = db := by
  unfold DB.load
  cases ho : db.objs a with
  | some o => rfl
  | none => simp [h a ho]

theorem mstep_eq_core (db : DB) (h : Sat db) (op : MOp) : mstep db op = mstepCore db op := by
  unfold mstep
  cases op.addr with
  | none => rfl
  | some a => simp only [load_sat db h a]

theorem mstep_keeper' (db : DB) (op : MOp) : (mstep db op).k = db.k ∧ (mstep db op).revisions = db.revisions ∧
    (mstep db op).nextRev = db.nextRev := by
  unfold mstep
  cases op.addr with
  | none => exact mstep_keeper db op
  | some a =>
    have hl : (db.load a).k = db.k ∧ (db.load a).revisions = db.revisions ∧ (db.load a).nextRev = db.nextRev := by
      unfold DB.load; cases db.objs a <;> simp only <;> (try split) <;> first | exact ⟨rfl, rfl, rfl⟩ | simp
    obtain ⟨a1, a2, a3⟩ := mstep_keeper (db.load a) op
    exact ⟨a1.trans hl.1, a2.trans hl.2.1, a3.trans hl.2.2⟩

theorem foldl_mstep_eq_core (ops : List MOp) : ∀ (db : DB), Sat db →
    ops.foldl mstep db = ops.foldl mstepCore db := by
  induction ops with
  | nil => intro db _; rfl
  | cons op rest ih =>
    intro db h
    simp only [List.foldl_cons, mstep_eq_core db h op]
    exact ih _ (mstep_sat db op h)

/-- **revert restores everything**: after any sequence of EVM-side mutations (no Commit in between),
    reverting the journal to its earlier length gives back the identical StateDB -/
theorem revert_restores (ops : List MOp) (db : DB) (h : Sat db) :
    revertJournal (ops.foldl mstep db) db.journal.length = db := by
  rw [foldl_mstep_eq_core ops db h]; exact revert_restores_core ops db h

/-- **Snapshot / RevertToSnapshot**: a frame that takes a snapshot, performs any EVM-side mutations and
    reverts to the snapshot leaves the StateDB as it was (only the revision counter has advanced) -/
theorem snapshot_revert_restores (db : DB) (hs : Sat db) (hw : RevWF db) (ops : List MOp) :
    revertTo (ops.foldl mstep (snapshot db).1) (snapshot db).2 = some { db with nextRev := db.nextRev + 1 } := by
  rw [foldl_mstep_eq_core ops (snapshot db).1 hs]; exact snapshot_revert_restores_core db hs hw ops

/-! ### nested snapshots: a frame may take further snapshots (inner frames) before it reverts -/

/-- what happens inside a frame: journalled mutations and snapshots of inner frames -/
inductive SOp
  | m (op : MOp)
  | snap

def sstep (db : DB) : SOp → DB
  | .m op => mstep db op
  | .snap => (snapshot db).1

theorem undoTop_rev (d : DB) (e : Entry) (R : List (Nat × Nat)) (n : Nat) :
    undoTop { d with revisions := R, nextRev := n } e = { undoTop d e with revisions := R, nextRev := n } := by
  cases e <;> simp only [undoTop_def, undo, DB.get, DB.setObj, Entry.dirtied] <;> (try split) <;> rfl

theorem revertEntries_rev (es : List Entry) : ∀ (d : DB) (R : List (Nat × Nat)) (n k : Nat),
    revertEntries { d with revisions := R, nextRev := n } es k = { revertEntries d es k with revisions := R, nextRev := n } := by
  induction es with
  | nil => intro d R n k; simp [revertEntries]
  | cons e rest ih =>
    intro d R n k
    simp only [revertEntries]
    split
    · rfl
    · rw [undoTop_rev, ih]

theorem revertJournal_rev (d : DB) (R : List (Nat × Nat)) (n k : Nat) :
    revertJournal { d with revisions := R, nextRev := n } k = { revertJournal d k with revisions := R, nextRev := n } := by
  unfold revertJournal
  exact revertEntries_rev d.journal d R n k

theorem sstep_sat (db : DB) (op : SOp) (h : Sat db) : Sat (sstep db op) := by
  cases op with
  | m o => simp only [sstep, mstep_eq_core db h o]; exact mstep_sat db o h
  | snap => exact h

theorem sstep_len (db : DB) (op : SOp) : db.journal.length ≤ (sstep db op).journal.length := by
  cases op with
  | m o =>
    simp only [sstep, mstep]
    cases o.addr with
    | none => exact mstep_len db o
    | some a =>
      have : (db.load a).journal = db.journal := by
        unfold DB.load; cases db.objs a <;> simp only <;> (try split) <;> rfl
      simp only
      rw [← this]; exact mstep_len (db.load a) o
  | snap => simp [sstep, snapshot]

/-- **reverting the journal to the length it had at the start of a frame restores everything but the revision
    bookkeeping, whatever mutations and inner snapshots the frame contained** -/
theorem revert_restores_nested (ops : List SOp) : ∀ (db : DB), Sat db →
    revertJournal (ops.foldl sstep db) db.journal.length =
      { db with revisions := (ops.foldl sstep db).revisions, nextRev := (ops.foldl sstep db).nextRev } := by
  induction ops with
  | nil => intro db _; simp only [List.foldl_nil]; exact revert_noop db
  | cons op rest ih =>
    intro db hs
    simp only [List.foldl_cons]
    have hs1 := sstep_sat db op hs
    have h1 := ih (sstep db op) hs1
    have hl := sstep_len db op
    rw [← revertJournal_trans _ _ _ hl, h1, revertJournal_rev]
    cases op with
    | m o =>
      simp only [sstep, mstep_eq_core db hs o]
      rw [revert_one db o hs]
    | snap =>
      simp only [sstep, snapshot]
      have := revert_noop db
      unfold revertJournal at this ⊢
      simp only
      rw [revertEntries_rev db.journal db _ _ db.journal.length, this]

theorem foldl_sstep_revisions (ops : List SOp) : ∀ (db : DB) (id len : Nat),
    (id, len) ∈ db.revisions → (∀ r ∈ db.revisions, r.1 < db.nextRev) →
    (id, len) ∈ (ops.foldl sstep db).revisions ∧ (∀ r ∈ (ops.foldl sstep db).revisions, r.1 < (ops.foldl sstep db).nextRev) ∧
    (∀ r ∈ (ops.foldl sstep db).revisions, r ∈ db.revisions ∨ db.nextRev ≤ r.1) := by
  induction ops with
  | nil => intro db id len h hw; exact ⟨h, hw, fun r hr => Or.inl hr⟩
  | cons op rest ih =>
    intro db id len h hw
    simp only [List.foldl_cons]
    cases op with
    | m o =>
      obtain ⟨_, hr, hn⟩ := mstep_keeper' db o
      have := ih (sstep db (.m o)) id len (by simp only [sstep]; rw [hr]; exact h) (by simp only [sstep]; rw [hr, hn]; exact hw)
      obtain ⟨a, b, c⟩ := this
      refine ⟨a, b, ?_⟩
      intro r hr'
      rcases c r hr' with h1 | h2
      · left; simp only [sstep] at h1; rw [hr] at h1; exact h1
      · right; simp only [sstep] at h2; rw [hn] at h2; exact h2
    | snap =>
      have hw' : ∀ r ∈ (sstep db .snap).revisions, r.1 < (sstep db .snap).nextRev := by
        intro r hr
        simp only [sstep, snapshot, List.mem_cons] at hr ⊢
        rcases hr with e | e
        · rw [e]; simp
        · have := hw r e; omega
      have := ih (sstep db .snap) id len (by simp only [sstep, snapshot, List.mem_cons]; right; exact h) hw'
      obtain ⟨a, b, c⟩ := this
      refine ⟨a, b, ?_⟩
      intro r hr'
      rcases c r hr' with h1 | h2
      · simp only [sstep, snapshot, List.mem_cons] at h1
        rcases h1 with e | e
        · right; rw [e]; simp
        · left; exact e
      · right; simp only [sstep, snapshot] at h2; omega

theorem foldl_sstep_revs (ops : List SOp) : ∀ (db : DB),
    ∃ pre, (ops.foldl sstep db).revisions = pre ++ db.revisions ∧ (∀ r ∈ pre, db.nextRev ≤ r.1) ∧
      db.nextRev ≤ (ops.foldl sstep db).nextRev := by
  induction ops with
  | nil => intro db; exact ⟨[], rfl, by simp, Nat.le_refl _⟩
  | cons op rest ih =>
    intro db
    simp only [List.foldl_cons]
    cases op with
    | m o =>
      obtain ⟨_, hr, hn⟩ := mstep_keeper' db o
      obtain ⟨pre, h1, h2, h3⟩ := ih (sstep db (.m o))
      refine ⟨pre, ?_, ?_, ?_⟩
      · rw [h1]; simp only [sstep]; rw [hr]
      · intro r hr'; have := h2 r hr'; simp only [sstep] at this; rw [hn] at this; exact this
      · simp only [sstep] at h3; rw [hn] at h3; exact h3
    | snap =>
      obtain ⟨pre, h1, h2, h3⟩ := ih (sstep db .snap)
      refine ⟨pre ++ [(db.nextRev, db.journal.length)], ?_, ?_, ?_⟩
      · rw [h1]; simp [sstep, snapshot]
      · intro r hr'
        rcases List.mem_append.mp hr' with h | h
        · have := h2 r h; simp only [sstep, snapshot] at this; omega
        · simp only [List.mem_singleton] at h; rw [h]; exact Nat.le_refl _
      · have e : (sstep db SOp.snap).nextRev = db.nextRev + 1 := rfl
        omega

/-- **RevertToSnapshot with inner frames**: a frame takes a snapshot, then performs any journalled mutations and
    takes any number of further snapshots (inner frames, whether they were reverted or not is immaterial for the
    journal lengths recorded), and finally reverts to *its own* snapshot: the StateDB is what it was when the
    frame started — objects, storage, refund, logs, access list, journal, dirty counts and the older revisions;
    only the revision counter has moved on -/
theorem nested_snapshot_revert (db : DB) (hs : Sat db) (hw : RevWF db) (ops : List SOp) :
    revertTo (ops.foldl sstep (snapshot db).1) (snapshot db).2 =
      some { db with nextRev := (ops.foldl sstep (snapshot db).1).nextRev } := by
  obtain ⟨pre, hrev, hpre, _⟩ := foldl_sstep_revs ops (snapshot db).1
  have hnest := revert_restores_nested ops (snapshot db).1 hs
  unfold revertTo
  rw [hrev]
  have hfind : List.find? (fun r => r.1 == (snapshot db).2) (pre ++ (snapshot db).1.revisions) =
      some (db.nextRev, db.journal.length) := by
    rw [List.find?_append]
    have hnone : List.find? (fun r => r.1 == (snapshot db).2) pre = none := by
      apply List.find?_eq_none.mpr
      intro r hr
      have := hpre r hr
      have e1 : (snapshot db).1.nextRev = db.nextRev + 1 := rfl
      have e2 : (snapshot db).2 = db.nextRev := rfl
      simp only [e2, beq_iff_eq]
      omega
    rw [hnone]
    simp [snapshot]
  rw [hfind]
  simp only
  have hl : (snapshot db).1.journal.length = db.journal.length := rfl
  rw [hl] at hnest
  rw [hnest]
  have hfilter : List.filter (fun r => decide (r.1 < (snapshot db).2)) (pre ++ (snapshot db).1.revisions) = db.revisions := by
    rw [List.filter_append]
    have h1 : List.filter (fun r => decide (r.1 < (snapshot db).2)) pre = [] := by
      apply List.filter_eq_nil_iff.mpr
      intro r hr
      have := hpre r hr
      have e1 : (snapshot db).1.nextRev = db.nextRev + 1 := rfl
      have e2 : (snapshot db).2 = db.nextRev := rfl
      simp only [e2, decide_eq_true_eq]
      omega
    rw [h1]
    simp only [snapshot, List.nil_append, List.filter_cons, Nat.lt_irrefl, decide_false, Bool.false_eq_true, if_false]
    apply List.filter_eq_self.2
    intro r hr
    exact decide_eq_true (hw r hr)
  simp only [hfilter]
  rfl

/-- a transaction that fails as a whole: ApplyTransaction runs the message on a cached copy of the store
    (`tmpCtx`) and writes it back only when the execution did not fail — modelled as: the keeper state after a
    failed execution is the keeper state before it, whatever the StateDB committed into the copy -/
def applyTx (k : Keeper) (run : Keeper → Keeper × Bool) : Keeper :=
  let r := run k
  if r.2 then k else r.1

theorem failed_tx_discards_everything (k : Keeper) (run : Keeper → Keeper × Bool) (h : (run k).2 = true) :
    applyTx k run = k := by
  simp [applyTx, h]

/-- `applyTx` is what ApplyTransaction does (regenerated facts): the message runs on a branch of the state whenever the
    keeper has hooks, app.go installs hooks, and the one `commit()` of that branch is reached only when the message did
    not fail and the hooks returned no error — whatever the destination of the transaction is (contract, precompile,
    plain account) -/
theorem failed_tx_runs_on_a_dropped_branch :
    Facts.evmApplyTxBranchCondition = "k.hooks != nil" ∧ Facts.evmApplyTxCommitsOnlyOnSuccess = true ∧
    Facts.appInstallsEvmHooks = true := by decide

/-- the same one level down: the Cosmos message a stateful precompile runs does so on a branch of the state written back
    only when the message succeeded (regenerated fact, all nine methods) — so a message that fails half way (the
    distribution hooks of a delegation have run, the bank refuses the transfer) leaves nothing, whatever the calling
    contract does with the failed call; `applyTx` is the shape of that too (`failed_tx_discards_everything`) -/
theorem precompile_messages_run_on_a_branch :
    Facts.precompileMessageOnBranch.all (fun p => p.2 == "message-on-branch") = true ∧
    Facts.precompileMessageOnBranch.length = 9 := by decide

def k0 : Keeper := { exist := fun a => a == 0, bal := fun a => if a = 0 then 100 else 0, nonce := fun _ => 0,
                     store := fun _ _ => 0, supply := 0 }

/-- F-C05 on the model: with a Commit inside the reverted span (the flush every stateful precompile performs
    on entry) the frame's own EVM-side writes survive the revert: contract 0 writes slot 1 := 7 and moves 30 to
    the new account 3, a precompile is entered (Commit), the frame reverts; the journal restores the cache of
    account 0, but account 3 was created by the flush and the final Commit no longer covers account 0, so the
    keeper keeps the slot and both balances of the reverted frame. -/
theorem flush_then_revert_counterexample :
    let db0 := DB.new k0
    let s := snapshot db0
    let db1 := addBalance (subBalance (setState s.1 0 1 7) 0 30) 3 30
    let db2 := commit db1 [0, 1, 2, 3] [0, 1]                      -- precompile entry
    match revertTo db2 s.2 with
    | some db3 =>
      let db4 := commit db3 [0, 1, 2, 3] [0, 1]                    -- end of the transaction
      db4.k.store 0 1 = 7 ∧ db4.k.bal 0 = 70 ∧ db4.k.bal 3 = 30 ∧ db3.getState 0 1 = 0
    | none => False := by
  simp [DB.new, k0, snapshot, setState, subBalance, addBalance, ensure, mstep, mstepCore, DB.load, MOp.addr, DB.get, DB.push_def, DB.setObj,
    Entry.dirtied, commit, commitOne, writeSlot, flushObj, Keeper.setBalance, revertTo, revertJournal, revertEntries, undoTop_def, undo, upd,
    DB.getState]

/-- non-vacuity of `revert_restores`: a saturated DB and a mixed op sequence -/
example : Sat (saturate (DB.new k0)) ∧
    revertJournal ([MOp.setBal 0 70, .create 3, .setBal 3 30, .setState 0 1 7, .addLog, .accSlot 0 1, .suicide 0].foldl mstep
      (saturate (DB.new k0))) 0 = saturate (DB.new k0) :=
  ⟨saturate_sat _, revert_restores _ _ (saturate_sat _)⟩

end Haqq.SDB
