/-
  C09 — Vesting schedule arithmetic is exact; clawback takes only unvested.

  English statement (properties.jsonl):
    A schedule read at time t yields the sum of all periods ended by t: it is non-decreasing in t,
    zero up to the start and equal to the total from the end on, so vested+unvested and
    locked+unlocked always equal the original grant and never go negative.  Merging a grant yields
    exactly the union of both schedules' release events, so at every instant after both have started
    it releases the sum of the two; capping yields exactly their minimum.  A clawback can be triggered
    only by the recorded funder, transfers exactly the unvested amount to the destination, keeps
    every vested coin (still subject to its lockup) and leaves a valid account.

  Formalisation notes
    * amounts are pointwise per denomination; statements about `IsAllLTE`/`IsZero`-dependent code
      (ConjunctPeriods, Validate, clawback) are for the denominations in use, `d < M`, M arbitrary;
    * "zero up to the start" wins at t = start (a zero-length first period is released strictly
      after the start), so equality with the step function is for `start < t`;
    * "leaves a valid account": `clawback_valid` (the account's own `Validate()` accepts the result,
      for the start/end comparison the code has now); `clawback_valid_counterexample` is finding
      F-C09-b for the strict comparison of the pinned commit (nothing vested yet ⇒ end = start).
-/
import HaqqModel.Lemmas.Conjunct
import HaqqModel.Model.Vesting
import HaqqModel.Generated.Facts

namespace Haqq.Vest
open Haqq.Sched

/-! ## Reading a schedule -/

theorem read_eq_loop (start endT : Int) (ps : List Period) (total : Amt) (t : Int) (d : Nat)
    (hwf : WF ps) (hend : start + totalLength ps ≤ endT) (hsum : total d = totalAmount ps d)
    (hs : start < t) : readSchedule start endT ps total t d = readLoop start ps t d := by
  unfold readSchedule
  have : ¬ t ≤ start := by omega
  simp only [this, if_false]
  split
  · rw [hsum]; exact (readLoop_all ps start t d hwf (by omega)).symm
  · rfl

/-- zero up to (and including) the start -/
theorem schedule_zero_until_start (start endT : Int) (ps : List Period) (total : Amt) (t : Int)
    (h : t ≤ start) (d : Nat) : readSchedule start endT ps total t d = 0 := by
  rw [read_zero start endT ps total t h]; rfl

/-- the total from the end on -/
theorem schedule_total_from_end (start endT : Int) (ps : List Period) (total : Amt) (t : Int)
    (hs : start < t) (h : endT ≤ t) : readSchedule start endT ps total t = total :=
  read_total start endT ps total t hs h

/-- sum of all periods ended by t -/
theorem schedule_is_step_function (start endT : Int) (ps : List Period) (total : Amt) (t : Int) (d : Nat)
    (hv : Valid start endT ps total) (hs : start < t) :
    readSchedule start endT ps total t d = stepLoop start ps t d :=
  read_eq_step start endT ps total t d hv hs

theorem schedule_monotone (start endT : Int) (ps : List Period) (total : Amt) (t1 t2 : Int) (d : Nat)
    (hv : Valid start endT ps total) (h : t1 ≤ t2) :
    readSchedule start endT ps total t1 d ≤ readSchedule start endT ps total t2 d :=
  read_mono start endT ps total t1 t2 d hv h

/-- an account whose two schedules are valid (what `Validate()` establishes) -/
structure AccValid (a : Account) : Prop where
  lockup : Valid a.start a.endT a.lockup a.original
  vesting : Valid a.start a.endT a.vesting a.original

/-- vested + unvested = original and locked + unlocked = original, never negative -/
theorem vested_add_unvested (a : Account) (hv : AccValid a) (t : Int) (d : Nat) :
    a.vested t d + a.unvested t d = a.original d ∧ a.unlocked t d + a.lockedUp t d = a.original d :=
  ⟨read_add_rest a.start a.endT a.vesting a.original t d hv.vesting,
   read_add_rest a.start a.endT a.lockup a.original t d hv.lockup⟩

/-- the passed prefix of the vesting periods carries exactly the vested amount -/
theorem passed_periods_sum (a : Account) (hv : AccValid a) (t : Int) (d : Nat) :
    totalAmount (a.vesting.take (readPastPeriodCount a.start a.endT a.vesting t)) d = a.vested t d :=
  pastCount_sum a.start a.endT a.vesting a.original t d hv.vesting

/-! ## Merging (DisjunctPeriods / addGrant) -/

theorem Next_min_start (sA s : Int) (ps : List Period) (hw : WF ps) (hs : s ≤ sA) : Next sA s ps := by
  cases ps with
  | nil => trivial
  | cons p rest => have := WF_head hw; simp only [Next]; omega

/-- DisjunctPeriods is exactly the union of the release events: read as a step function from the
    common start it is the sum of the two, at *every* instant; nothing is created or lost; the end is
    the later end. -/
theorem disjunct_union (sA sB : Int) (pA pB : List Period) (hA : WF pA) (hB : WF pB) (t : Int) (d : Nat) :
    let m := disjunctPeriods sA sB pA pB
    readLoop m.start m.periods t d = readLoop sA pA t d + readLoop sB pB t d ∧
    totalAmount m.periods d = totalAmount pA d + totalAmount pB d ∧
    WF m.periods ∧ m.start = min sA sB := by
  simp only [disjunctPeriods]
  have hs : (if sA ≤ sB then sA else sB) = min sA sB := by simp only [Int.min_def]
  rw [hs]
  have nA := Next_min_start sA (min sA sB) pA hA (by omega)
  have nB := Next_min_start sB (min sA sB) pB hB (by omega)
  exact ⟨disj_read sA sB _ pA pB t d hA hB nA nB, disj_total sA sB _ pA pB d,
         disj_WF sA sB _ pA pB hA hB nA nB, rfl⟩

structure GrantValid (gL gV : List Period) (coins : Amt) : Prop where
  wfL : WF gL
  wfV : WF gV
  sumL : ∀ d, coins d = totalAmount gL d
  sumV : ∀ d, coins d = totalAmount gV d

theorem addGrant_valid (a : Account) (gs : Int) (gL gV : List Period) (coins : Amt)
    (hv : AccValid a) (hg : GrantValid gL gV coins) : AccValid (a.addGrant gs gL gV coins) := by
  have hl := disjunct_union a.start gs a.lockup gL hv.lockup.wf hg.wfL
  have hvv := disjunct_union a.start gs a.vesting gV hv.vesting.wf hg.wfV
  constructor
  · refine ⟨(hl 0 0).2.2.1, ?_, ?_⟩
    · simp only [Account.addGrant, disjunctPeriods]; split <;> omega
    · intro d
      simp only [Account.addGrant, Amt.add_apply]
      rw [(hl 0 d).2.1, hv.lockup.sum d, hg.sumL d]
  · refine ⟨(hvv 0 0).2.2.1, ?_, ?_⟩
    · simp only [Account.addGrant, disjunctPeriods]; split <;> omega
    · intro d
      simp only [Account.addGrant, Amt.add_apply]
      rw [(hvv 0 d).2.1, hv.vesting.sum d, hg.sumV d]

/-- **merge = union**: strictly after both have started, the merged account releases (unlocks and
    vests) exactly the sum of what the account and the grant release on their own. -/
theorem addGrant_union (a : Account) (gs : Int) (gL gV : List Period) (coins : Amt)
    (hv : AccValid a) (hg : GrantValid gL gV coins) (t : Int) (hA : a.start < t) (hB : gs < t) (d : Nat) :
    (a.addGrant gs gL gV coins).unlocked t d =
        a.unlocked t d + readSchedule gs (gs + totalLength gL) gL coins t d ∧
    (a.addGrant gs gL gV coins).vested t d =
        a.vested t d + readSchedule gs (gs + totalLength gV) gV coins t d := by
  have hv' := addGrant_valid a gs gL gV coins hv hg
  have hl := disjunct_union a.start gs a.lockup gL hv.lockup.wf hg.wfL t d
  have hvv := disjunct_union a.start gs a.vesting gV hv.vesting.wf hg.wfV t d
  have hstart : (a.addGrant gs gL gV coins).start = min a.start gs := (hl).2.2.2
  have hst : (a.addGrant gs gL gV coins).start < t := by rw [hstart]; omega
  constructor
  · unfold Account.unlocked
    rw [read_eq_loop _ _ _ _ t d hv'.lockup.wf hv'.lockup.endOk (hv'.lockup.sum d) hst,
        read_eq_loop _ _ _ _ t d hv.lockup.wf hv.lockup.endOk (hv.lockup.sum d) hA,
        read_eq_loop _ _ _ _ t d hg.wfL (Int.le_refl _) (hg.sumL d) hB]
    exact hl.1
  · unfold Account.vested
    rw [read_eq_loop _ _ _ _ t d hv'.vesting.wf hv'.vesting.endOk (hv'.vesting.sum d) hst,
        read_eq_loop _ _ _ _ t d hv.vesting.wf hv.vesting.endOk (hv.vesting.sum d) hA,
        read_eq_loop _ _ _ _ t d hg.wfV (Int.le_refl _) (hg.sumV d) hB]
    have h2 : (a.addGrant gs gL gV coins).start = (disjunctPeriods a.start gs a.vesting gV).start := by
      rw [hstart]; exact hvv.2.2.2.symm
    rw [h2]
    exact hvv.1

/-- Both merge entry points hand the grant's own start time to addGrant — for the code as it is now
    (`Facts.vestingApplyUsesMin` is regenerated from x/vesting/keeper/schedule.go). Hence
    `addGrant_union` applies to `ApplyVestingSchedule(merge)` (liquid-vesting redeem,
    MsgConvertIntoVestingAccount) as well as to MsgCreateClawbackVestingAccount. -/
theorem applySchedule_passes_grant_start (accStart grantStart : Int) :
    applyGrantStart Facts.vestingApplyUsesMin accStart grantStart = grantStart := by
  have h : Facts.vestingApplyUsesMin = false := rfl
  simp [applyGrantStart, h]

/-- F-C09-a on the model: with `min(grantStart, accStart)` a later-starting grant is read from the
    account's earlier start and releases early (account: 100 @ start 1000 + 500; grant: 50 @ start
    2000 + 500; at t = 1600 the merged account has unlocked all 150 instead of 100). -/
theorem applySchedule_min_counterexample :
    let a : Account := newAccount 7 1000 (fun d => if d = 0 then 100 else 0)
      [⟨500, fun d => if d = 0 then 100 else 0⟩] [⟨500, fun d => if d = 0 then 100 else 0⟩]
    let g : List Period := [⟨500, fun d => if d = 0 then 50 else 0⟩]
    let coins : Amt := fun d => if d = 0 then 50 else 0
    (a.addGrant (applyGrantStart true a.start 2000) g g coins).unlocked 1600 0 = 150 ∧
    (a.addGrant (applyGrantStart false a.start 2000) g g coins).unlocked 1600 0 = 100 := by
  constructor <;> simp [newAccount, alignSchedules, alignFirst, totalLength, applyGrantStart,
    Account.addGrant, disjunctPeriods, disj, Account.unlocked, readSchedule, readLoop]

/-! ## Capping (ConjunctPeriods) -/

/-- ConjunctPeriods is exactly the pointwise minimum of the two step functions, at every instant,
    for every denomination in use; the emitted periods sum to the minimum of the totals. -/
theorem conjunct_min (M : Nat) (sA sB : Int) (pA pB : List Period) (hA : WF pA) (hB : WF pB)
    (t : Int) (d : Nat) (hd : d < M) :
    let m := conjunctPeriods M sA sB pA pB
    readLoop m.start m.periods t d = min (readLoop sA pA t d) (readLoop sB pB t d) ∧
    totalAmount m.periods d = min (totalAmount pA d) (totalAmount pB d) ∧
    WF m.periods := by
  simp only [conjunctPeriods]
  have hs : (if sA ≤ sB then sA else sB) = min sA sB := by simp only [Int.min_def]
  rw [hs]
  have nA := Next_min_start sA (min sA sB) pA hA (by omega)
  have nB := Next_min_start sB (min sA sB) pB hB (by omega)
  have hinv : ∀ d, d < M → Amt.zero d = min (Amt.zero d) (Amt.zero d) := by intro d _; simp
  have h1 := conj_read M sA sB _ Amt.zero Amt.zero Amt.zero pA pB t d hd hA hB nA nB hinv
  have h2 := conj_total M sA sB (min sA sB) Amt.zero Amt.zero Amt.zero pA pB d hd hinv
  have h3 := conj_WF M sA sB _ Amt.zero Amt.zero Amt.zero pA pB hA hB nA nB hinv
  simp only [Amt.zero_apply, Nat.zero_add, Nat.min_self, Nat.add_zero] at h1 h2
  exact ⟨h1, h2, h3⟩

/-- the `IsAllLTE` guard inside ConjunctPeriods never fires for non-negative amounts, so it hides
    nothing: stated as — whenever the running result equals the minimum of the running totals (the loop
    invariant), the guard is true after either total grows. -/
theorem conjunct_guard_always (M : Nat) (totA totB totA' totB' res : Amt)
    (hinv : ∀ d, d < M → res d = min (totA d) (totB d))
    (hA : ∀ d, totA d ≤ totA' d) (hB : ∀ d, totB d ≤ totB' d) :
    Amt.allLE M res (Amt.min totA' totB') = true := by
  rw [Amt.allLE_iff]
  intro d hd
  have := hinv d hd; have := hA d; have := hB d
  simp only [Amt.min_apply]; omega

/-! ## Clawback -/

/-- the amount clawed back is exactly the unvested amount, and what stays is exactly the vested one -/
theorem clawback_amount (M : Nat) (a : Account) (t : Int) :
    (a.computeClawback M t).2 = a.unvested t ∧ (a.computeClawback M t).1.original = a.vested t ∧
    (a.computeClawback M t).1.funder = a.funder ∧ (a.computeClawback M t).1.start = a.start :=
  ⟨rfl, rfl, rfl, rfl⟩

theorem cap_read (start : Int) (v : Amt) (t : Int) (d : Nat) (h : start < t) :
    readLoop start [⟨0, v⟩] t d = v d := by
  have : ¬ t < start := by omega
  simp [readLoop, this]

/-- after a clawback both schedules of the account sum to the kept (vested) amount and end within
    the new end time; the vesting schedule is the passed prefix of the old one -/
theorem clawback_schedules (M : Nat) (a : Account) (hv : AccValid a) (t : Int) :
    let a' := (a.computeClawback M t).1
    a'.vesting = a.vesting.take (readPastPeriodCount a.start a.endT a.vesting t) ∧
    (∀ d, totalAmount a'.vesting d = a.vested t d) ∧
    (∀ d, d < M → totalAmount a'.lockup d = a.vested t d) ∧
    WF a'.lockup ∧ WF a'.vesting ∧
    a'.start + totalLength a'.lockup ≤ a'.endT ∧ a'.start + totalLength a'.vesting ≤ a'.endT := by
  have hcap : WF [(⟨0, a.vested t⟩ : Period)] := WF_cons (Int.le_refl 0) WF_nil
  refine ⟨rfl, fun d => passed_periods_sum a hv t d, ?_, ?_, ?_, ?_, ?_⟩
  · intro d hd
    have h := (conjunct_min M a.start a.start a.lockup [⟨0, a.vested t⟩] hv.lockup.wf hcap 0 d hd).2.1
    simp only [Account.computeClawback]
    rw [h]
    have h1 : totalAmount [(⟨0, a.vested t⟩ : Period)] d = a.vested t d := by simp [totalAmount]
    have h2 := read_le_total a.start a.endT a.vesting a.original t d hv.vesting
    have h3 := hv.lockup.sum d
    rw [h1]; unfold Account.vested at *; omega
  · show WF (conjunctPeriods M a.start a.start a.lockup [⟨0, a.vested t⟩]).periods
    simp only [conjunctPeriods, Int.le_refl, if_true]
    exact conj_WF M a.start a.start a.start Amt.zero Amt.zero Amt.zero a.lockup [⟨0, a.vested t⟩] hv.lockup.wf hcap
      (Next_min_start _ _ _ hv.lockup.wf (Int.le_refl _)) (Next_min_start _ _ _ hcap (Int.le_refl _))
      (by intro d _; simp)
  · exact WF_take _ _ hv.vesting.wf
  · simp only [Account.computeClawback, conjunctPeriods]; split <;> omega
  · simp only [Account.computeClawback, conjunctPeriods]; split <;> omega

/-- **vested coins stay, still subject to their lockup**: after a clawback at time t the account
    unlocks, at every instant t', exactly min(what the old lockup had unlocked by t', what had
    vested by t). -/
theorem clawback_lockup_cap (M : Nat) (a : Account) (hv : AccValid a) (t t' : Int) (d : Nat) (hd : d < M) :
    (a.computeClawback M t).1.unlocked t' d = min (a.unlocked t' d) (a.vested t d) := by
  obtain ⟨_, _, hsumL, hwfL, _, hendL, _⟩ := clawback_schedules M a hv t
  by_cases hs : t' ≤ a.start
  · have h1 : (a.computeClawback M t).1.unlocked t' d = 0 := by
      unfold Account.unlocked; exact schedule_zero_until_start _ _ _ _ _ hs d
    have h2 : a.unlocked t' d = 0 := by
      unfold Account.unlocked; exact schedule_zero_until_start _ _ _ _ _ hs d
    rw [h1, h2]; simp
  · have hs' : a.start < t' := by omega
    have hcap : WF [(⟨0, a.vested t⟩ : Period)] := WF_cons (Int.le_refl 0) WF_nil
    have hc := (conjunct_min M a.start a.start a.lockup [⟨0, a.vested t⟩] hv.lockup.wf hcap t' d hd).1
    have hstart : (conjunctPeriods M a.start a.start a.lockup [⟨0, a.vested t⟩]).start = a.start := by
      simp [conjunctPeriods]
    rw [hstart, cap_read a.start (a.vested t) t' d hs'] at hc
    have e1 : (a.computeClawback M t).1.unlocked t' d =
        readLoop a.start (conjunctPeriods M a.start a.start a.lockup [⟨0, a.vested t⟩]).periods t' d := by
      unfold Account.unlocked
      exact read_eq_loop _ _ _ _ t' d hwfL hendL (hsumL d hd).symm hs'
    have e2 : a.unlocked t' d = readLoop a.start a.lockup t' d := by
      unfold Account.unlocked
      exact read_eq_loop _ _ _ _ t' d hv.lockup.wf hv.lockup.endOk (hv.lockup.sum d) hs'
    rw [e1, e2]; exact hc

/-- every clause of `Validate()` except the first (start vs end) always holds after a clawback; the
    first one holds iff the new end time passes the (strict or non-strict) comparison -/
theorem clawback_valid_iff (strict : Bool) (M : Nat) (a : Account) (hv : AccValid a) (t : Int) :
    (a.computeClawback M t).1.validate strict M = .ok () ↔
      (if strict then a.start < (a.computeClawback M t).1.endT else a.start ≤ (a.computeClawback M t).1.endT) := by
  obtain ⟨_, hsumV, hsumL, _, _, hendL, hendV⟩ := clawback_schedules M a hv t
  have hs : (a.computeClawback M t).1.start = a.start := rfl
  have ho : (a.computeClawback M t).1.original = a.vested t := rfl
  have eqL : amtEq M (totalAmount (a.computeClawback M t).1.lockup) (a.computeClawback M t).1.original = true := by
    simp only [amtEq, Bool.and_eq_true, Amt.allLE_iff, ho]
    exact ⟨fun d hd => Nat.le_of_eq (hsumL d hd), fun d hd => Nat.le_of_eq (hsumL d hd).symm⟩
  have eqV : amtEq M (totalAmount (a.computeClawback M t).1.vesting) (a.computeClawback M t).1.original = true := by
    simp only [amtEq, Bool.and_eq_true, Amt.allLE_iff, ho]
    exact ⟨fun d _ => Nat.le_of_eq (hsumV d), fun d _ => Nat.le_of_eq (hsumV d).symm⟩
  rw [hs] at hendL hendV
  unfold Account.validate
  rw [hs]
  have h1 : ¬ a.start + totalLength (a.computeClawback M t).1.lockup > (a.computeClawback M t).1.endT := by omega
  have h2 : ¬ a.start + totalLength (a.computeClawback M t).1.vesting > (a.computeClawback M t).1.endT := by omega
  simp only [eqL, eqV, h1, h2, Bool.not_true, Bool.false_eq_true, if_false]
  cases strict
  · simp only [Bool.false_eq_true, if_false, decide_eq_true_eq]
    constructor
    · intro h; split at h
      · simp at h
      · omega
    · intro h
      have : ¬ a.start > (a.computeClawback M t).1.endT := by omega
      simp [this]
  · simp only [if_true, decide_eq_true_eq]
    constructor
    · intro h; split at h
      · simp at h
      · omega
    · intro h
      have : ¬ a.start ≥ (a.computeClawback M t).1.endT := by omega
      simp [this]

/-- **a clawback leaves a valid account** — for the comparison the code has now
    (`Facts.vestingValidateStrict`, regenerated from clawback_vesting_account.go): the account's own
    `Validate()` accepts the result of a clawback at any time. -/
theorem clawback_valid (M : Nat) (a : Account) (hv : AccValid a) (t : Int) :
    (a.computeClawback M t).1.validate Facts.vestingValidateStrict M = .ok () := by
  have hf : Facts.vestingValidateStrict = false := rfl
  rw [hf, clawback_valid_iff false M a hv t]
  obtain ⟨_, _, _, hwfL, _, hendL, _⟩ := clawback_schedules M a hv t
  have hs : (a.computeClawback M t).1.start = a.start := rfl
  have := totalLength_nonneg _ hwfL
  simp only [Bool.false_eq_true, if_false]
  rw [hs] at hendL; omega

/-- F-C09-b on the model (strict comparison, the pinned commit): a valid account clawed back before
    its first vesting event keeps nothing, gets `EndTime = StartTime`, and `Validate()` rejects it. -/
theorem clawback_valid_counterexample :
    let a : Account := newAccount 7 1000 (fun d => if d = 0 then 100 else 0)
      [⟨500, fun d => if d = 0 then 100 else 0⟩] [⟨500, fun d => if d = 0 then 100 else 0⟩]
    a.validate true 1 = .ok () ∧
    (a.computeClawback 1 1200).2 0 = 100 ∧
    (a.computeClawback 1 1200).1.endT = 1000 ∧
    (a.computeClawback 1 1200).1.validate true 1 = .error .startNotBeforeEnd := by
  refine ⟨?_, ?_, ?_, ?_⟩ <;>
    simp [newAccount, alignSchedules, alignFirst, totalLength, totalAmount, Account.validate, amtEq,
      Amt.allLE, anyTo, Account.computeClawback, Account.unvested, Account.vested, readSchedule,
      readLoop, readPastPeriodCount, pastLoop, conjunctPeriods, conj, conjEmit, consOpt, Amt.isZero,
      Amt.min, Amt.sub, Amt.add, Amt.zero]

/-- a clawback succeeds only for the recorded funder, and a funder update only for the current one -/
theorem clawback_only_funder (M : Nat) (acc : Option Account) (msgFunder : Nat) (blocked : Bool) (now : Int)
    (r : Account × Amt) (h : clawbackMsg M acc msgFunder blocked now = .ok r) :
    ∃ a, acc = some a ∧ a.funder = msgFunder := by
  unfold clawbackMsg at h
  split at h; · simp at h
  split at h
  · simp at h
  · rename_i a
    split at h; · simp at h
    split at h
    · simp at h
    · rename_i hf; exact ⟨a, rfl, by simpa using hf⟩

theorem updateFunder_only_funder (acc : Option Account) (msgFunder newFunder : Nat) (blocked : Bool)
    (a' : Account) (h : updateFunderMsg acc msgFunder newFunder blocked = .ok a') :
    ∃ a, acc = some a ∧ a.funder = msgFunder ∧ a' = { a with funder := newFunder } := by
  unfold updateFunderMsg at h
  split at h; · simp at h
  split at h
  · simp at h
  · rename_i a
    split at h
    · simp at h
    · rename_i hf
      simp only [Except.ok.injEq] at h
      exact ⟨a, rfl, by simpa using hf, h.symm⟩

/-- a successful clawback message sends exactly the unvested amount (denominations in use) and keeps
    the vested amount as the account's new grant -/
theorem clawbackMsg_exact (M : Nat) (a : Account) (hv : AccValid a) (blocked : Bool) (now : Int)
    (r : Account × Amt) (h : clawbackMsg M (some a) a.funder blocked now = .ok r) (d : Nat) (hd : d < M) :
    r.2 d = a.unvested now d ∧ r.1.vested now d = a.vested now d := by
  unfold clawbackMsg at h
  split at h; · simp at h
  simp only at h
  split at h; · simp at h
  simp only [ne_eq, not_true_eq_false, if_false] at h
  split at h
  · rename_i hz
    simp only [Except.ok.injEq] at h
    subst h
    have := (Amt.isZero_iff M _).1 hz d hd
    exact ⟨Eq.symm this, rfl⟩
  · simp only [Except.ok.injEq] at h
    subst h
    refine ⟨rfl, ?_⟩
    -- after the clawback the vesting schedule is the passed prefix: everything in it has vested
    obtain ⟨hvest, hsumV, _, _, hwfV, _, hendV⟩ := clawback_schedules M a hv now
    by_cases hs : now ≤ a.start
    · have h1 : (a.computeClawback M now).1.vested now d = 0 := by
        unfold Account.vested; exact schedule_zero_until_start _ _ _ _ _ hs d
      have h2 : a.vested now d = 0 := by
        unfold Account.vested; exact schedule_zero_until_start _ _ _ _ _ hs d
      rw [h1, h2]
    · have hs' : a.start < now := by omega
      have e1 : (a.computeClawback M now).1.vested now d =
          readLoop a.start (a.computeClawback M now).1.vesting now d := by
        unfold Account.vested
        exact read_eq_loop _ _ _ _ now d hwfV hendV (hsumV d).symm hs'
      rw [e1]
      -- reading the prefix at `now` gives the whole prefix, which sums to vested(now)
      have hle := readLoop_le_total (a.computeClawback M now).1.vesting a.start now d
      have hge : a.vested now d ≤ readLoop a.start (a.computeClawback M now).1.vesting now d := by
        rw [hvest]
        unfold Account.vested readSchedule readPastPeriodCount
        have : ¬ now ≤ a.start := by omega
        simp only [this, if_false]
        split
        · rw [List.take_length, hv.vesting.sum d]
          exact Nat.le_of_eq (readLoop_all _ _ _ _ hv.vesting.wf (by have := hv.vesting.endOk; omega)).symm
        · exact Nat.le_of_eq (readLoop_take_pastLoop a.vesting a.start now d).symm
      rw [hsumV d] at hle
      omega

/-- non-vacuity: a concrete two-denomination account satisfies `AccValid`, a concrete grant satisfies
    `GrantValid`, and the merged account releases the sum strictly after both starts. -/
example :
    let amt (x y : Nat) : Amt := fun d => if d = 0 then x else if d = 1 then y else 0
    let a : Account := newAccount 7 1000 (amt 100 8) [⟨0, amt 40 8⟩, ⟨500, amt 60 0⟩] [⟨300, amt 100 8⟩]
    let g : List Period := [⟨500, amt 50 0⟩]
    a.validate false 2 = .ok () ∧ (a.addGrant 2000 g g (amt 50 0)).unlocked 2500 0 = 150 ∧
    (a.addGrant 2000 g g (amt 50 0)).unlocked 2499 0 = 100 ∧
    (a.computeClawback 2 1200).1.unlocked 1600 0 = 0 ∧ (a.computeClawback 2 1400).1.unlocked 1600 0 = 100 := by
  refine ⟨?_, ?_, ?_, ?_, ?_⟩ <;>
    simp [newAccount, alignSchedules, alignFirst, totalLength, totalAmount, Account.validate, amtEq,
      Amt.allLE, anyTo, Account.computeClawback, Account.unvested, Account.vested, Account.unlocked,
      readSchedule, readLoop, readPastPeriodCount, pastLoop, conjunctPeriods, conj, conjEmit, consOpt,
      Amt.isZero, Amt.min, Amt.sub, Amt.add, Amt.zero, Account.addGrant, disjunctPeriods, disj]

end Haqq.Vest
