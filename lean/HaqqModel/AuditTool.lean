/-
  `#audit_module M` prints, for every theorem declared in module `M`, the axioms it depends on:
      AUDIT <theorem> : [axioms]
  and for every definition/theorem whose value mentions `sorryAx` a line `AUDIT-SORRY <name>`.
  The check script compares the axiom lists with {propext, Classical.choice, Quot.sound}.
-/
import Lean
open Lean Elab Command

elab "#audit_module " id:ident : command => do
  let env ← getEnv
  let modName := id.getId
  let some modIdx := env.getModuleIdx? modName
    | throwError "module {modName} not imported"
  let mut names : Array Name := #[]
  for (n, ci) in env.constants.map₁.toList do
    if env.getModuleIdxFor? n == some modIdx then
      match ci with
      | .thmInfo _ => if !n.isInternalDetail then names := names.push n
      | _ => pure ()
  let sorted := names.qsort (fun a b => a.toString < b.toString)
  for n in sorted do
    let axs ← collectAxioms n
    let axs := axs.qsort (fun a b => a.toString < b.toString)
    logInfo m!"AUDIT {n} : {axs.toList}"
  logInfo m!"AUDIT-COUNT {modName} {sorted.size}"
