/-
  Prelude: tiny shared vocabulary for all models (core Lean only).
-/
namespace Haqq

-- addresses and denominations are plain `Nat` (an `abbrev` would hide the type from `omega`)


/-- pointwise function update (core-only replacement of `Function.update`). -/
def upd {β : Type} (f : Nat → β) (k : Nat) (v : β) : Nat → β :=
  fun x => if x = k then v else f x

@[simp] theorem upd_same {β : Type} (f : Nat → β) (k : Nat) (v : β) : upd f k v k = v := by
  simp [upd]

@[simp] theorem upd_other {β : Type} (f : Nat → β) (k x : Nat) (v : β) (h : x ≠ k) :
    upd f k v x = f x := by
  simp [upd, h]

/-- Σ_{i<n} f i -/
def sumTo (f : Nat → Nat) : Nat → Nat
  | 0 => 0
  | n + 1 => sumTo f n + f n

theorem sumTo_congr (f g : Nat → Nat) (n : Nat) (h : ∀ i, i < n → f i = g i) :
    sumTo f n = sumTo g n := by
  induction n with
  | zero => rfl
  | succ k ih =>
    simp only [sumTo]
    rw [ih (fun i hi => h i (by omega)), h k (by omega)]

theorem sumTo_upd_ge (f : Nat → Nat) (k v n : Nat) (h : n ≤ k) :
    sumTo (upd f k v) n = sumTo f n := by
  apply sumTo_congr
  intro i hi
  exact upd_other f k i v (by omega)

/-- replacing one summand: new sum + old value = old sum + new value -/
theorem sumTo_upd (f : Nat → Nat) (k v n : Nat) (h : k < n) :
    sumTo (upd f k v) n + f k = sumTo f n + v := by
  induction n with
  | zero => omega
  | succ m ih =>
    simp only [sumTo]
    by_cases hk : k = m
    · subst hk
      rw [sumTo_upd_ge f k v k (Nat.le_refl k), upd_same]
      omega
    · have hlt : k < m := by omega
      have := ih hlt
      rw [upd_other f k m v (by omega)]
      omega

theorem sumTo_zero (f : Nat → Nat) (n : Nat) (h : ∀ i, i < n → f i = 0) : sumTo f n = 0 := by
  induction n with
  | zero => rfl
  | succ k ih => simp only [sumTo]; rw [ih (fun i hi => h i (by omega)), h k (by omega)]

theorem sumTo_add (f g : Nat → Nat) (n : Nat) :
    sumTo (fun i => f i + g i) n = sumTo f n + sumTo g n := by
  induction n with
  | zero => rfl
  | succ k ih => simp only [sumTo]; rw [ih]; omega

theorem le_sumTo (f : Nat → Nat) (n k : Nat) (h : k < n) : f k ≤ sumTo f n := by
  induction n with
  | zero => omega
  | succ m ih =>
    simp only [sumTo]
    by_cases hk : k = m
    · subst hk; omega
    · have := ih (by omega); omega

/-- ∃ i<n, p i (decidable, computable) -/
def anyTo (p : Nat → Bool) : Nat → Bool
  | 0 => false
  | n + 1 => anyTo p n || p n

theorem anyTo_iff (p : Nat → Bool) (n : Nat) : anyTo p n = true ↔ ∃ i, i < n ∧ p i = true := by
  induction n with
  | zero => simp [anyTo]
  | succ k ih =>
    simp only [anyTo, Bool.or_eq_true, ih]
    constructor
    · rintro (⟨i, hi, hp⟩ | hp)
      · exact ⟨i, by omega, hp⟩
      · exact ⟨k, by omega, hp⟩
    · rintro ⟨i, hi, hp⟩
      by_cases hik : i = k
      · subst hik; exact Or.inr hp
      · exact Or.inl ⟨i, by omega, hp⟩

end Haqq
