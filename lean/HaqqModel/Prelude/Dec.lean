/-
  cosmossdk.io/math LegacyDec (18 decimals) as raw integers: Mul / Quo / RoundInt / TruncateInt with the
  library's rounding (chopPrecisionAndRound = banker's rounding, sign-symmetric).  Core Lean only.
-/
namespace Haqq.Dec

def precN : Nat := 10 ^ 18
def prec : Int := 10 ^ 18

/-- chopPrecisionAndRound on a non-negative value -/
def chopRoundNat (n : Nat) : Nat :=
  let q := n / precN
  let r := n % precN
  if r = 0 then q
  else if r < 5 * 10 ^ 17 then q
  else if r > 5 * 10 ^ 17 then q + 1
  else if q % 2 = 0 then q else q + 1

/-- chopPrecisionAndRound -/
def chopRound (x : Int) : Int :=
  if x < 0 then -(chopRoundNat (-x).toNat : Int) else (chopRoundNat x.toNat : Int)

/-- LegacyDec.Mul on raw values -/
def mul (a b : Int) : Int := chopRound (a * b)
/-- LegacyDec.Quo on raw values (big.Int.Quo truncates toward zero) -/
def quo (a b : Int) : Int := chopRound (Int.tdiv (a * (10 ^ 36 : Int)) b)
/-- LegacyDec.RoundInt -/
def roundInt (a : Int) : Int := chopRound a
/-- LegacyDec.TruncateInt (big.Int.Quo: toward zero) -/
def truncateInt (a : Int) : Int := Int.tdiv a prec
/-- NewDec(n) -/
def ofInt (n : Int) : Int := n * prec

theorem chopRoundNat_of_mul (n : Nat) : chopRoundNat (n * precN) = n := by
  unfold chopRoundNat
  have h1 : n * precN % precN = 0 := Nat.mul_mod_left n precN
  have h2 : n * precN / precN = n := Nat.mul_div_cancel n (by decide)
  simp [h1, h2]

theorem chopRoundNat_le (x n : Nat) (h : x ≤ n * precN) : chopRoundNat x ≤ n := by
  unfold chopRoundNat
  have hp : 0 < precN := by decide
  have hq : x / precN ≤ n := by
    have := Nat.div_le_div_right (c := precN) h
    rwa [Nat.mul_div_cancel n hp] at this
  have hdm := Nat.div_add_mod x precN
  by_cases hr : x % precN = 0
  · simp [hr]; exact hq
  · have hlt : x / precN < n := by
      apply Nat.lt_of_le_of_ne hq
      intro heq
      have : precN * (x / precN) = n * precN := by rw [heq, Nat.mul_comm]
      have hpos : 0 < x % precN := Nat.pos_of_ne_zero hr
      omega
    simp only [hr, if_false]
    split
    · omega
    · split
      · omega
      · split <;> omega

theorem chopRoundNat_ge_floor (x : Nat) : x / precN ≤ chopRoundNat x := by
  unfold chopRoundNat
  simp only
  split
  · exact Nat.le_refl _
  · split
    · exact Nat.le_refl _
    · split
      · omega
      · split <;> omega

theorem chopRound_nonneg (x : Int) (h : 0 ≤ x) : 0 ≤ chopRound x := by
  unfold chopRound
  have : ¬ x < 0 := by omega
  simp only [this, if_false]
  exact Int.natCast_nonneg _

/-- an integer-valued Dec rounds to itself -/
theorem chopRound_ofInt (n : Int) : chopRound (n * prec) = n := by
  unfold chopRound prec
  by_cases h : n < 0
  · have hneg : n * (10 ^ 18 : Int) < 0 := by
      have : (0 : Int) < 10 ^ 18 := by decide
      exact Int.mul_neg_of_neg_of_pos h this
    simp only [hneg, if_true]
    have e : (-(n * (10 ^ 18 : Int))).toNat = (-n).toNat * precN := by
      have hn : (-n).toNat = (-n : Int) := Int.toNat_of_nonneg (by omega)
      apply Int.ofNat.inj
      simp only [Int.ofNat_eq_natCast]
      rw [Int.toNat_of_nonneg (by omega), Int.natCast_mul, hn]
      simp [precN, Int.neg_mul]
    rw [e, chopRoundNat_of_mul, Int.toNat_of_nonneg (by omega)]
    omega
  · have hnn : ¬ n * (10 ^ 18 : Int) < 0 := by
      have : (0 : Int) ≤ n * 10 ^ 18 := Int.mul_nonneg (by omega) (by decide)
      omega
    simp only [hnn, if_false]
    have e : (n * (10 ^ 18 : Int)).toNat = n.toNat * precN := by
      have hn : (n.toNat : Int) = n := Int.toNat_of_nonneg (by omega)
      apply Int.ofNat.inj
      simp only [Int.ofNat_eq_natCast]
      rw [Int.toNat_of_nonneg (by omega), Int.natCast_mul, hn]
      simp [precN]
    rw [e, chopRoundNat_of_mul, Int.toNat_of_nonneg (by omega)]

/-- rounding never lifts a value above an integer bound it respects -/
theorem chopRound_le_of_le_ofInt (x n : Int) (hx : 0 ≤ x) (h : x ≤ n * prec) : chopRound x ≤ n := by
  unfold chopRound
  have : ¬ x < 0 := by omega
  simp only [this, if_false]
  have hn : 0 ≤ n := by
    have hp : (0 : Int) < prec := by decide
    apply Int.le_of_lt_add_one
    have : (0:Int) ≤ n * prec := by omega
    by_cases hneg : n < 0
    · have := Int.mul_neg_of_neg_of_pos hneg hp; omega
    · omega
  have hle : x.toNat ≤ n.toNat * precN := by
    apply Int.ofNat_le.mp
    rw [Int.toNat_of_nonneg hx, Int.natCast_mul, Int.toNat_of_nonneg hn]
    simpa [precN, prec] using h
  have := chopRoundNat_le x.toNat n.toNat hle
  omega

end Haqq.Dec
