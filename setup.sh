#!/bin/sh
# Builds the framework from files on disk only (offline): Lean project (all modules + driver exe),
# Go fact extractor and correspondence harness.
set -e
cd "$(dirname "$0")"
export GOFLAGS=-mod=mod GOPROXY=off GOSUMDB=off GOTOOLCHAIN=local
mkdir -p build/bin evidence replay
./harness/mkmod.sh
(cd harness && go build -o ../build/bin/extract ./cmd/extract)
./build/bin/extract "${VERIF_REPO_DIR:-/repo}" lean/HaqqModel/Generated/Facts.lean build/facts.json
(cd lean && lake build HaqqModel HaqqModel.AuditTool driver)
(cd harness && go build -tags verif -o ../build/bin/corr ./cmd/corr)
echo "setup done"
