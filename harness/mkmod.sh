#!/bin/sh
# Regenerates go.mod / go.sum of the harness module from the repository's own files, so that the
# harness always builds against the dependency set of the tree under test (offline).
set -e
REPO="${VERIF_REPO_DIR:-/repo}"
HERE="$(cd "$(dirname "$0")" && pwd)"
sed -e 's#^module github.com/haqq-network/haqq$#module verif/harness#' "$REPO/go.mod" > "$HERE/go.mod.tmp"
{
  cat "$HERE/go.mod.tmp"
  echo ""
  echo "require github.com/haqq-network/haqq v0.0.0"
  echo "replace github.com/haqq-network/haqq => $REPO"
} > "$HERE/go.mod.new"
rm -f "$HERE/go.mod.tmp"
if ! cmp -s "$HERE/go.mod.new" "$HERE/go.mod" 2>/dev/null; then mv "$HERE/go.mod.new" "$HERE/go.mod"; else rm -f "$HERE/go.mod.new"; fi
if ! cmp -s "$REPO/go.sum" "$HERE/go.sum" 2>/dev/null; then cp "$REPO/go.sum" "$HERE/go.sum"; fi
