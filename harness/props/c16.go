package props

import (
	"bytes"
	"fmt"
	"math/big"
	"math/rand"
	"os"
	"reflect"
	"sort"
	"strings"
	"time"

	sdkmath "cosmossdk.io/math"
	sdk "github.com/cosmos/cosmos-sdk/types"
	"github.com/cosmos/cosmos-sdk/types/query"
	authtypes "github.com/cosmos/cosmos-sdk/x/auth/types"
	authzkeeper "github.com/cosmos/cosmos-sdk/x/authz/keeper"
	banktypes "github.com/cosmos/cosmos-sdk/x/bank/types"
	distrkeeper "github.com/cosmos/cosmos-sdk/x/distribution/keeper"
	distrtypes "github.com/cosmos/cosmos-sdk/x/distribution/types"
	slashingtypes "github.com/cosmos/cosmos-sdk/x/slashing/types"
	stakingtypes "github.com/cosmos/cosmos-sdk/x/staking/types"
	"github.com/ethereum/go-ethereum/common"
	ethtypes "github.com/ethereum/go-ethereum/core/types"

	bankpc "github.com/haqq-network/haqq/precompiles/bank"
	distrpc "github.com/haqq-network/haqq/precompiles/distribution"
	stakingpc "github.com/haqq-network/haqq/precompiles/staking"
	evmtypes "github.com/haqq-network/haqq/x/evm/types"
	haqqstakingkeeper "github.com/haqq-network/haqq/x/staking/keeper"
)

// C16 — a precompile call by the account owner has exactly the effect of the native message.
// For every op the current state is forked twice (CacheContext): one fork runs the native message through the
// module's own message server, the other runs the precompile call as the owner EOA through the EVM
// (EvmKeeper.ApplyMessage with commit); success must agree and, when both succeed, the key/value content of the
// auth, bank, staking, distribution, slashing and authz stores must be identical.  The native fork then becomes
// the state for the next op, so states grow.  Monitor-only (the Lean side proves that the owner path of the
// authority model is the native message and pins the argument mapping as regenerated facts).
//
//	fork # k=<key> m=<method> val=<idx|bad> dst=<idx> amt=<spec> w=<addr spec>
//	adv # dt=<seconds>            (time passes: unbonding entries mature, rewards are allocated)
var c16Stores = []string{authtypes.StoreKey, banktypes.StoreKey, stakingtypes.StoreKey, distrtypes.StoreKey, slashingtypes.StoreKey, authzkeeper.StoreKey}

type c16Env struct {
	ctx sdk.Context
}

func c16Gen(r *rand.Rand, tier string) []Case {
	n := 10
	if tier == "thorough" {
		n = 300
	}
	var out []Case
	// fixed cases: amounts at the edge of the liquid balance while rewards are pending on the same validator (the native
	// message pays the rewards out before it takes the coins), for every method that moves the delegation
	for k := 1; k <= 2; k++ {
		c := Case{"freset", fmt.Sprintf("fork # k=%d m=delegate val=0 amt=5000000000000000000", k), "adv # dt=50000"}
		for _, m := range []string{"delegate", "undelegate", "redelegate", "delegate"} {
			amt := "bal+1"
			if m != "delegate" {
				amt = "staked/2"
			}
			c = append(c, fmt.Sprintf("fork # k=%d m=%s val=0 dst=1 amt=%s", k, m, amt), "adv # dt=30000", fmt.Sprintf("fork # k=%d m=delegate val=0 amt=bal", k), "adv # dt=30000")
		}
		c = append(c, fmt.Sprintf("fork # k=%d m=withdrawDelegatorRewards val=0", k), fmt.Sprintf("fork # k=%d m=delegate val=0 amt=bal+1", k))
		out = append(out, c)
	}
	// fixed case: queries about a validator that has left the bonded set but still holds its tokens
	out = append(out, Case{"freset", "fork # k=1 m=delegate val=1 amt=3000000000000000000", "fork # k=2 m=delegate val=0 amt=1000000000000000000", "query # k=1 val=1",
		"jail # val=1", "query # k=1 val=1", "query # k=2 val=0", "fork # k=1 m=undelegate val=1 amt=staked/2", "adv # dt=30000", "query # k=1 val=1",
		"fork # k=1 m=redelegate val=1 dst=0 amt=staked/2", "query # k=1 val=1"})
	// fixed case: an unbonding entry exists; cancelling it with its creation height plus 2^64 in the 256-bit argument
	out = append(out, Case{"freset", "fork # k=1 m=delegate val=0 amt=3000000000000000000", "fork # k=1 m=undelegate val=0 amt=staked/2",
		"fork # k=1 m=cancelUnbondingDelegation val=0 amt=1000 h=wrap", "fork # k=1 m=cancelUnbondingDelegation val=0 amt=1000"})
	// fixed case: a validator's commission, withdrawn by its operator — a sizeable one, then one below a base unit
	out = append(out, Case{"freset", "commission # val=0 reward=1000000000", "fork # k=1 m=withdrawValidatorCommission val=0", "commission # val=1 reward=5", "fork # k=1 m=withdrawValidatorCommission val=1",
		"fork # k=1 m=withdrawValidatorCommission val=2", "commission # val=0 reward=1000000000", "fork # k=1 m=withdrawValidatorCommission val=0 spell=upper"})
	// fixed case: rewards earned at two validators, one of them leaves the bonded set, then everything is claimed at once
	out = append(out, Case{"freset", "fork # k=1 m=delegate val=1 amt=3000000000000000000", "fork # k=1 m=delegate val=0 amt=1000000000000000000", "adv # dt=30000", "adv # dt=30000",
		"fork # k=1 m=claimRewards", "adv # dt=30000", "jail # val=1", "fork # k=1 m=claimRewards", "fork # k=2 m=claimRewards"})
	for i := 0; i < n; i++ {
		c := Case{"freset"}
		for k := 1; k <= 3; k++ {
			c = append(c, fmt.Sprintf("fork # k=%d m=delegate val=%d amt=%d000000000000000", k, r.Intn(3), 1+r.Intn(5000)))
		}
		for j := 0; j < 8+r.Intn(16); j++ {
			k := 1 + r.Intn(3)
			amt := pick(r, []string{"1", "1000", "1000000000000000000", "bal", "bal+1", "half", "0", "max", "1000000", "77"})
			val := pick(r, []string{"0", "1", "2", "0", "1", "2", "0", "1", "2", "bad"})
			samt := pick(r, []string{"staked", "staked+1", "staked/2", "staked/2", "1", "1000", "0"})
			x := r.Intn(16)
			if x >= 4 && x < 9 {
				amt = samt
			}
			switch {
			case x >= 13:
				if r.Intn(4) == 0 {
					c = append(c, "toggle") // conversion of the registered coin switched off / on: the pair stays registered
				}
				if r.Intn(6) == 0 {
					c = append(c, fmt.Sprintf("jail # val=%d", 1+r.Intn(2)))
				}
				c = append(c, fmt.Sprintf("query # k=%d val=%s", k, val))
			case x < 4:
				c = append(c, fmt.Sprintf("fork # k=%d m=delegate val=%s amt=%s", k, val, amt))
			case x < 6:
				c = append(c, fmt.Sprintf("fork # k=%d m=undelegate val=%s amt=%s", k, val, amt))
			case x < 8:
				c = append(c, fmt.Sprintf("fork # k=%d m=redelegate val=%s dst=%s amt=%s", k, val, pick(r, []string{"0", "1", "2", "bad"}), amt))
			case x < 9:
				hw := ""
				if r.Intn(4) == 0 {
					hw = " h=wrap"
				}
				c = append(c, fmt.Sprintf("fork # k=%d m=cancelUnbondingDelegation val=%s amt=%s%s", k, val, amt, hw))
			case x < 10:
				c = append(c, fmt.Sprintf("fork # k=%d m=setWithdrawAddress w=%s", k, pick(r, []string{"self", "other", "module:distribution", "module:fee_collector", "fresh", "precompile"})))
			case x < 12:
				if r.Intn(3) == 0 {
					c = append(c, fmt.Sprintf("fork # k=%d m=claimRewards", k))
				} else {
					c = append(c, fmt.Sprintf("fork # k=%d m=withdrawDelegatorRewards val=%s", k, val))
				}
			default:
				c = append(c, fmt.Sprintf("adv # dt=%d", 1+r.Intn(100000)))
			}
		}
		out = append(out, c)
	}
	return out
}

func c16Exec(c Case) (outs []string, fails []Failure, tags []string) {
	nw, kr := fixture()
	app := nw.App
	denom := nw.GetDenom()
	env := &c16Env{}
	sabi, _ := stakingpc.LoadABI()
	dpc, _ := distrpc.NewPrecompile(puppetZeroDistr())
	stk := common.HexToAddress(stakingpc.PrecompileAddress)
	dst := dpc.Address()
	vals := nw.GetValidators()
	valAddr := func(s string) string {
		if s == "bad" {
			return sdk.ValAddress(testAddr(998)).String()
		}
		return vals[vmIdx(s)%len(vals)].OperatorAddress
	}
	for i, line := range c {
		f := strings.Fields(line)
		kv := vmKV(f)
		out := "bad-op"
		func() {
			defer func() {
				if r := recover(); r != nil {
					out = "panic:" + strings.ReplaceAll(fmt.Sprint(r), " ", "_")
					fails = append(fails, Failure{Signature: "C16:panic", What: fmt.Sprint(r), Case: c[:i+1]})
				}
			}()
			switch f[0] {
			case "freset":
				env.ctx, _ = nw.GetContext().CacheContext()
				env.ctx = env.ctx.WithGasMeter(sdk.NewInfiniteGasMeter()).WithBlockGasMeter(sdk.NewInfiniteGasMeter())
				// the first EVM call to a precompile address creates an (empty) account for that address; that is an artefact
				// of the EVM, not an effect of the message: make both exist before anything is compared
				bnk := common.HexToAddress(bankpc.PrecompileAddress)
				// a coin with an ERC20 address, so that the bank precompile has something to report
				{
					coins := sdk.NewCoins(sdk.NewCoin("atest", sdkmath.NewInt(1_000_000)))
					_ = app.BankKeeper.MintCoins(env.ctx, "coinomics", coins)
					_ = app.BankKeeper.SendCoinsFromModuleToAccount(env.ctx, "coinomics", kr.GetKey(1).AccAddr, coins)
					md := banktypes.Metadata{Description: "test", Base: "atest", Display: "test", Name: "atest", Symbol: "TEST",
						DenomUnits: []*banktypes.DenomUnit{{Denom: "atest", Exponent: 0}, {Denom: "test", Exponent: 18}}}
					if _, err := app.Erc20Keeper.RegisterCoin(env.ctx, md); err != nil {
						tags = append(tags, "register-coin-failed:"+strings.ReplaceAll(err.Error(), " ", "_"))
					}
				}
				for _, pc := range []common.Address{stk, dst, bnk} {
					if app.AccountKeeper.GetAccount(env.ctx, pc.Bytes()) == nil {
						app.AccountKeeper.SetAccount(env.ctx, app.AccountKeeper.NewAccountWithAddress(env.ctx, pc.Bytes()))
					}
				}
				out = "ok"
			case "adv":
				// time passes; rewards are allocated to the validators so that withdrawals pay out
				env.ctx = env.ctx.WithBlockTime(env.ctx.BlockTime().Add(secs(vmIdx(kv["dt"])))).WithBlockHeight(env.ctx.BlockHeight() + 1)
				coins := sdk.NewCoins(sdk.NewCoin(denom, sdkmath.NewInt(1_000_000_000)))
				_ = app.BankKeeper.MintCoins(env.ctx, "coinomics", coins)
				_ = app.BankKeeper.SendCoinsFromModuleToModule(env.ctx, "coinomics", distrtypes.ModuleName, coins)
				for _, v := range vals {
					va, _ := sdk.ValAddressFromBech32(v.OperatorAddress)
					if val, ok := app.StakingKeeper.GetValidator(env.ctx, va); ok {
						app.DistrKeeper.AllocateTokensToValidator(env.ctx, val, sdk.NewDecCoinsFromCoins(sdk.NewCoin(denom, sdkmath.NewInt(300_000_000))))
					}
				}
				app.StakingKeeper.BlockValidatorUpdates(env.ctx)
				out = "ok"
			case "commission":
				// the validator charges 10 % commission from now on, and `reward` base units are allocated to it (a tiny reward
				// leaves a commission below one unit)
				out = "skip"
				vaC, e := sdk.ValAddressFromBech32(valAddr(kv["val"]))
				if e != nil {
					return
				}
				if v, ok := app.StakingKeeper.GetValidator(env.ctx, vaC); ok {
					v.Commission.Rate = sdk.NewDecWithPrec(1, 1)
					app.StakingKeeper.SetValidator(env.ctx, v)
					rw := sdk.NewCoins(sdk.NewCoin(denom, sdkmath.NewIntFromBigInt(mustBig(kv["reward"]))))
					_ = app.BankKeeper.MintCoins(env.ctx, "coinomics", rw)
					_ = app.BankKeeper.SendCoinsFromModuleToModule(env.ctx, "coinomics", distrtypes.ModuleName, rw)
					app.DistrKeeper.AllocateTokensToValidator(env.ctx, v, sdk.NewDecCoinsFromCoins(rw...))
					tags = append(tags, "commission-accrued")
				}
			case "jail":
				// a validator leaves the bonded set (jailed, then the end-of-block validator update): it still holds its tokens
				out = "skip"
				va, err := sdk.ValAddressFromBech32(valAddr(kv["val"]))
				if err != nil {
					return
				}
				if v, ok := app.StakingKeeper.GetValidator(env.ctx, va); ok && !v.Jailed {
					if ca, err := v.GetConsAddr(); err == nil {
						app.StakingKeeper.Jail(env.ctx, ca)
						app.StakingKeeper.BlockValidatorUpdates(env.ctx)
						tags = append(tags, "validator-left-bonded-set")
					}
				}
			case "toggle":
				if _, err := app.Erc20Keeper.ToggleConversion(env.ctx, "atest"); err != nil {
					out = "err"
				} else {
					out = "ok"
					tags = append(tags, "toggle")
				}
			case "query":
				out = "same"
				tags = append(tags, "query")
				if d := c16Queries(env.ctx, kr.GetKey(vmIdx(kv["k"])).Addr, valAddr(kv["val"])); len(d) > 0 {
					fails = append(fails, Failure{Signature: "C16:query-differs", What: strings.Join(d, "\n  "), Case: c[:i+1]})
					out = "differs"
				}
			case "fork":
				key := kr.GetKey(vmIdx(kv["k"]))
				acc, eth := key.AccAddr, key.Addr
				m := kv["m"]
				va := valAddr(kv["val"])
				vaddr, _ := sdk.ValAddressFromBech32(va)
				// amounts relative to the state
				bal := app.BankKeeper.GetBalance(env.ctx, acc, denom).Amount.BigInt()
				staked := big.NewInt(0)
				if d, ok := app.StakingKeeper.GetDelegation(env.ctx, acc, vaddr); ok {
					if v, ok := app.StakingKeeper.GetValidator(env.ctx, vaddr); ok {
						staked = v.TokensFromShares(d.Shares).TruncateInt().BigInt()
					}
				}
				var amt *big.Int
				switch s := kv["amt"]; s {
				case "bal":
					amt = bal
				case "bal+1":
					amt = new(big.Int).Add(bal, big.NewInt(1))
				case "half":
					amt = new(big.Int).Rsh(bal, 1)
				case "max":
					amt = new(big.Int).Sub(new(big.Int).Lsh(big.NewInt(1), 256), big.NewInt(1))
				case "staked":
					amt = staked
				case "staked+1":
					amt = new(big.Int).Add(staked, big.NewInt(1))
				case "staked/2":
					amt = new(big.Int).Rsh(staked, 1)
				case "":
					amt = big.NewInt(0)
				default:
					amt = mustBig(s)
				}
				coin := sdk.Coin{Denom: denom, Amount: sdkmath.NewIntFromBigInt(amt)}
				var native sdk.Msg
				var in []byte
				var to common.Address
				var err error
				runNative := func(ctx sdk.Context) error { return nil }
				stakeSrv := haqqstakingkeeper.NewMsgServerImpl(&app.StakingKeeper)
				distrSrv := distrkeeper.NewMsgServerImpl(app.DistrKeeper)
				switch m {
				case "delegate":
					msg := &stakingtypes.MsgDelegate{DelegatorAddress: acc.String(), ValidatorAddress: va, Amount: coin}
					native, to = msg, stk
					in, err = sabi.Pack(m, eth, va, amt)
					runNative = func(ctx sdk.Context) error { _, e := stakeSrv.Delegate(sdk.WrapSDKContext(ctx), msg); return e }
				case "undelegate":
					msg := &stakingtypes.MsgUndelegate{DelegatorAddress: acc.String(), ValidatorAddress: va, Amount: coin}
					native, to = msg, stk
					in, err = sabi.Pack(m, eth, va, amt)
					runNative = func(ctx sdk.Context) error { _, e := stakeSrv.Undelegate(sdk.WrapSDKContext(ctx), msg); return e }
				case "redelegate":
					d := valAddr(kv["dst"])
					msg := &stakingtypes.MsgBeginRedelegate{DelegatorAddress: acc.String(), ValidatorSrcAddress: va, ValidatorDstAddress: d, Amount: coin}
					native, to = msg, stk
					in, err = sabi.Pack(m, eth, va, d, amt)
					runNative = func(ctx sdk.Context) error { _, e := stakeSrv.BeginRedelegate(sdk.WrapSDKContext(ctx), msg); return e }
				case "cancelUnbondingDelegation":
					// the creation height of the delegator's first unbonding entry at that validator (if any)
					h := int64(1)
					if ubd, ok := app.StakingKeeper.GetUnbondingDelegation(env.ctx, acc, vaddr); ok && len(ubd.Entries) > 0 {
						h = ubd.Entries[0].CreationHeight
					}
					msg := &stakingtypes.MsgCancelUnbondingDelegation{DelegatorAddress: acc.String(), ValidatorAddress: va, Amount: coin, CreationHeight: h}
					native, to = msg, stk
					in, err = sabi.Pack(m, eth, va, amt, big.NewInt(h))
					runNative = func(ctx sdk.Context) error {
						_, e := stakeSrv.CancelUnbondingDelegation(sdk.WrapSDKContext(ctx), msg)
						return e
					}
					if kv["h"] == "wrap" {
						// the height argument is a 256-bit word; the message's field is an int64: h + 2^64 names no entry, and no
						// native message carries it — the corresponding native submission fails (it cannot even be built)
						in, err = sabi.Pack(m, eth, va, amt, new(big.Int).Add(big.NewInt(h), new(big.Int).Lsh(big.NewInt(1), 64)))
						runNative = func(sdk.Context) error { return fmt.Errorf("creation height beyond int64: no such message") }
						tags = append(tags, "creation-height-beyond-int64")
					}
				case "setWithdrawAddress":
					var w sdk.AccAddress
					switch s := kv["w"]; {
					case s == "self":
						w = acc
					case s == "other":
						w = kr.GetKey(5).AccAddr
					case s == "fresh":
						w = testAddr(997)
					case s == "precompile":
						w = sdk.AccAddress(stk.Bytes())
					default:
						w = authtypes.NewModuleAddress(strings.TrimPrefix(s, "module:"))
					}
					msg := &distrtypes.MsgSetWithdrawAddress{DelegatorAddress: acc.String(), WithdrawAddress: w.String()}
					native, to = msg, dst
					in, err = dpc.ABI.Pack(m, eth, w.String())
					runNative = func(ctx sdk.Context) error {
						_, e := distrSrv.SetWithdrawAddress(sdk.WrapSDKContext(ctx), msg)
						return e
					}
				case "withdrawValidatorCommission":
					// the caller is the validator's operator itself (the fork applies the message without a signature)
					eth = common.BytesToAddress(vaddr.Bytes())
					// (an operator that sends transactions has an account; the EVM would create one for a sender without)
					if app.AccountKeeper.GetAccount(env.ctx, sdk.AccAddress(vaddr)) == nil {
						app.AccountKeeper.SetAccount(env.ctx, app.AccountKeeper.NewAccountWithAddress(env.ctx, sdk.AccAddress(vaddr)))
					}
					if kv["spell"] == "upper" {
						va = strings.ToUpper(va) // the other spelling of a bech32 string: same address
					}
					msg := &distrtypes.MsgWithdrawValidatorCommission{ValidatorAddress: va}
					native, to = msg, dst
					in, err = dpc.ABI.Pack(m, va)
					runNative = func(ctx sdk.Context) error {
						_, e := distrSrv.WithdrawValidatorCommission(sdk.WrapSDKContext(ctx), msg)
						return e
					}
				case "claimRewards":
					// no native message of its own: its effect must be that of one MsgWithdrawDelegatorReward per validator the
					// account delegates to (bonded or not), in the order the staking keeper lists them
					to = dst
					in, err = dpc.ABI.Pack(m, eth, uint32(10))
					runNative = func(ctx sdk.Context) error {
						for _, v := range app.StakingKeeper.GetDelegatorValidators(ctx, acc, 10) {
							if _, e := distrSrv.WithdrawDelegatorReward(sdk.WrapSDKContext(ctx), &distrtypes.MsgWithdrawDelegatorReward{DelegatorAddress: acc.String(), ValidatorAddress: v.OperatorAddress}); e != nil {
								return e
							}
						}
						return nil
					}
				case "withdrawDelegatorRewards":
					msg := &distrtypes.MsgWithdrawDelegatorReward{DelegatorAddress: acc.String(), ValidatorAddress: va}
					native, to = msg, dst
					in, err = dpc.ABI.Pack(m, eth, va)
					runNative = func(ctx sdk.Context) error {
						_, e := distrSrv.WithdrawDelegatorReward(sdk.WrapSDKContext(ctx), msg)
						return e
					}
				}
				if err != nil {
					// the ABI itself refuses the arguments (e.g. a value that does not fit): nothing to compare
					out = "abi-reject"
					tags = append(tags, "abi-reject")
					return
				}
				// fork 1: the native message
				nctx, _ := env.ctx.CacheContext()
				nctx = nctx.WithGasMeter(sdk.NewInfiniteGasMeter())
				var nerr error
				if vb, ok := native.(interface{ ValidateBasic() error }); ok {
					nerr = vb.ValidateBasic()
				}
				if nerr == nil {
					nerr = runNative(nctx)
				}
				// fork 2: the precompile call by the owner
				pctx, _ := env.ctx.CacheContext()
				nonce := app.EvmKeeper.GetNonce(pctx, eth)
				msg := ethtypes.NewMessage(eth, &to, nonce, big.NewInt(0), 3_000_000, big.NewInt(0), big.NewInt(0), big.NewInt(0), in, ethtypes.AccessList{}, false)
				res, perr := app.EvmKeeper.ApplyMessage(pctx, msg, evmtypes.NewNoOpTracer(), true)
				pfail := perr != nil || res.Failed()
				tags = append(tags, "m:"+m)
				if (nerr != nil) != pfail {
					pe := ""
					if perr != nil {
						pe = perr.Error()
					} else {
						pe = res.VmError
					}
					gu := uint64(0)
					if res != nil {
						gu = res.GasUsed
					}
					fails = append(fails, Failure{Signature: "C16:success-differs:" + m, What: fmt.Sprintf("native error: %v (sdk gas %d); precompile error: %q gasUsed=%d (method %s, amount %s)", nerr, nctx.GasMeter().GasConsumed(), pe, gu, m, amt), Case: c[:i+1]})
					out = "differs"
					return
				}
				if nerr != nil {
					out = "both-fail"
					tags = append(tags, "both-fail")
					return
				}
				tags = append(tags, "both-ok")
				if d := c16StoreDiff(nctx, pctx, eth); len(d) > 0 {
					fails = append(fails, Failure{Signature: "C16:state-differs:" + m, What: fmt.Sprintf("after %s (amount %s) the stores of the two forks differ:\n  %s", m, amt, strings.Join(d, "\n  ")), Case: c[:i+1]})
					out = "differs"
					return
				}
				out = "same"
				env.ctx = nctx
			}
		}()
		outs = append(outs, out)
	}
	return
}

// c16StoreDiff compares the Cosmos-side stores of two forks key by key.
func c16StoreDiff(a, b sdk.Context, owner common.Address) []string {
	nw, _ := fixture()
	var out []string
	for _, name := range c16Stores {
		sk := nw.App.GetKey(name)
		if sk == nil {
			continue
		}
		ma, mb := map[string][]byte{}, map[string][]byte{}
		for _, p := range []struct {
			ctx sdk.Context
			m   map[string][]byte
		}{{a, ma}, {b, mb}} {
			it := p.ctx.KVStore(sk).Iterator(nil, nil)
			for ; it.Valid(); it.Next() {
				p.m[string(it.Key())] = append([]byte{}, it.Value()...)
			}
			it.Close()
		}
		keys := map[string]bool{}
		for k := range ma {
			keys[k] = true
		}
		for k := range mb {
			keys[k] = true
		}
		var ks []string
		for k := range keys {
			ks = append(ks, k)
		}
		sort.Strings(ks)
		for _, k := range ks {
			if !bytes.Equal(ma[k], mb[k]) {
				out = append(out, fmt.Sprintf("store %s key %x: native %x / precompile %x", name, k, trunc(ma[k]), trunc(mb[k])))
				if len(out) > 5 {
					return out
				}
			}
		}
	}
	return out
}

// c16Queries compares read-only precompile methods with the modules' own answers on one state.
// c16ValidatorDiff compares one ValidatorInfo the precompile returned (an ABI struct, read by field name) with the
// module's validator, field by field.
func c16ValidatorDiff(got reflect.Value, v stakingtypes.Validator) string {
	if !got.IsValid() || got.Kind() != reflect.Struct {
		return "not reported"
	}
	big := func(name string) string {
		if f := got.FieldByName(name); f.IsValid() && f.CanInterface() {
			return fmt.Sprint(f.Interface())
		}
		return "?"
	}
	var diffs []string
	for _, c := range [][3]string{
		{"operatorAddress", big("OperatorAddress"), v.OperatorAddress},
		{"tokens", big("Tokens"), v.Tokens.String()},
		{"delegatorShares", big("DelegatorShares"), v.DelegatorShares.BigInt().String()},
		{"jailed", big("Jailed"), fmt.Sprint(v.Jailed)},
		{"status", big("Status"), fmt.Sprint(int32(v.Status))},
		{"unbondingHeight", big("UnbondingHeight"), fmt.Sprint(v.UnbondingHeight)},
		{"unbondingTime", big("UnbondingTime"), fmt.Sprint(v.UnbondingTime.UTC().Unix())},
		{"commission", big("Commission"), v.Commission.Rate.BigInt().String()},
		{"minSelfDelegation", big("MinSelfDelegation"), v.MinSelfDelegation.String()},
	} {
		if c[1] != c[2] {
			diffs = append(diffs, fmt.Sprintf("%s %s, module %s", c[0], c[1], c[2]))
		}
	}
	return strings.Join(diffs, "; ")
}

func c16Queries(ctx sdk.Context, who common.Address, val string) []string {
	nw, _ := fixture()
	app := nw.App
	var d []string
	sabi, _ := stakingpc.LoadABI()
	stk := common.HexToAddress(stakingpc.PrecompileAddress)
	call := func(to common.Address, in []byte) ([]byte, bool) {
		cctx, _ := ctx.CacheContext()
		msg := ethtypes.NewMessage(who, &to, app.EvmKeeper.GetNonce(cctx, who), big.NewInt(0), 3_000_000, big.NewInt(0), big.NewInt(0), big.NewInt(0), in, ethtypes.AccessList{}, true)
		res, err := app.EvmKeeper.ApplyMessage(cctx, msg, evmtypes.NewNoOpTracer(), false)
		if err != nil || res.Failed() {
			return nil, false
		}
		return res.Ret, true
	}
	vaddr, _ := sdk.ValAddressFromBech32(val)
	acc := sdk.AccAddress(who.Bytes())
	// staking.delegation
	if in, err := sabi.Pack("delegation", who, val); err == nil {
		ret, ok := call(stk, in)
		del, found := app.StakingKeeper.GetDelegation(ctx, acc, vaddr)
		switch {
		case !ok && found:
			d = append(d, "staking.delegation fails although the delegation exists")
		case ok:
			outv, err := sabi.Unpack("delegation", ret)
			if err != nil || len(outv) < 2 {
				d = append(d, "staking.delegation: cannot unpack")
				break
			}
			shares := outv[0].(*big.Int)
			want := big.NewInt(0)
			wantBal := big.NewInt(0)
			if found {
				want = del.Shares.BigInt()
				if v, ok := app.StakingKeeper.GetValidator(ctx, vaddr); ok {
					wantBal = v.TokensFromShares(del.Shares).TruncateInt().BigInt()
				}
			}
			if shares.Cmp(want) != 0 {
				d = append(d, fmt.Sprintf("staking.delegation shares %s, module %s", shares, want))
			}
			if s := fmt.Sprint(outv[1]); !strings.Contains(s, wantBal.String()) {
				d = append(d, fmt.Sprintf("staking.delegation balance %s, module %s", s, wantBal))
			}
		}
	}
	// staking.validator
	if in, err := sabi.Pack("validator", common.BytesToAddress(vaddr.Bytes())); err == nil {
		if ret, ok := call(stk, in); ok {
			if outv, err := sabi.Unpack("validator", ret); err == nil && len(outv) == 1 {
				if v, found := app.StakingKeeper.GetValidator(ctx, vaddr); found {
					if e := c16ValidatorDiff(reflect.ValueOf(outv[0]), v); e != "" {
						d = append(d, fmt.Sprintf("staking.validator: validator %s (status %s): %s", v.OperatorAddress, v.Status, e))
					}
				}
			}
		}
	}
	// staking.validators (every status): each validator the module lists appears with its operator, tokens and shares
	for _, status := range []string{"", "BOND_STATUS_BONDED", "BOND_STATUS_UNBONDING", "BOND_STATUS_UNBONDED"} {
		in, err := sabi.Pack("validators", status, query.PageRequest{Limit: 100, CountTotal: true})
		if err != nil {
			d = append(d, "staking.validators: cannot pack: "+err.Error())
			break
		}
		ret, ok := call(stk, in)
		if !ok {
			d = append(d, "staking.validators("+status+") call failed")
			continue
		}
		outv, err := sabi.Unpack("validators", ret)
		if err != nil || len(outv) < 1 {
			d = append(d, "staking.validators: cannot unpack")
			continue
		}
		if os.Getenv("VERIF_DEBUG") != "" {
			fmt.Fprintln(os.Stderr, "C16 validators", status, fmt.Sprint(outv[0]))
		}
		got := map[string]reflect.Value{}
		if rv := reflect.ValueOf(outv[0]); rv.Kind() == reflect.Slice {
			for j := 0; j < rv.Len(); j++ {
				got[rv.Index(j).FieldByName("OperatorAddress").String()] = rv.Index(j)
			}
		}
		n := 0
		for _, v := range app.StakingKeeper.GetAllValidators(ctx) {
			if status != "" && v.Status.String() != status {
				continue
			}
			n++
			if e := c16ValidatorDiff(got[v.OperatorAddress], v); e != "" {
				d = append(d, fmt.Sprintf("staking.validators(%s): validator %s (status %s): %s", status, v.OperatorAddress, v.Status, e))
			}
		}
		if n != len(got) {
			d = append(d, fmt.Sprintf("staking.validators(%s) lists %d validators, the module %d", status, len(got), n))
		}
	}
	// staking.unbondingDelegation
	if in, err := sabi.Pack("unbondingDelegation", who, val); err == nil {
		if ret, ok := call(stk, in); ok {
			if outv, err := sabi.Unpack("unbondingDelegation", ret); err == nil && len(outv) == 1 {
				s := fmt.Sprint(outv[0])
				if ubd, found := app.StakingKeeper.GetUnbondingDelegation(ctx, acc, vaddr); found {
					for _, e := range ubd.Entries {
						if !strings.Contains(s, e.Balance.String()) || !strings.Contains(s, fmt.Sprint(e.CreationHeight)) {
							d = append(d, fmt.Sprintf("staking.unbondingDelegation %s lacks entry %s@%d", s, e.Balance, e.CreationHeight))
						}
					}
				}
			}
		}
	}
	// bank precompile: balances / totalSupply / supplyOf for every denomination that has an ERC20 address
	if bp, err := bankpc.NewPrecompile(app.BankKeeper, app.Erc20Keeper); err == nil {
		bnk := bp.Address()
		if in, err := bp.ABI.Pack("balances", who); err == nil {
			if ret, ok := call(bnk, in); ok {
				s := ""
				if outv, err := bp.ABI.Unpack("balances", ret); err == nil {
					s = fmt.Sprint(outv...)
				}
				for _, coin := range app.BankKeeper.GetAllBalances(ctx, acc) {
					if addr, err := app.Erc20Keeper.GetCoinAddress(ctx, coin.Denom); err == nil {
						if !strings.Contains(strings.ToLower(s), strings.ToLower(addr.Hex())) || !strings.Contains(s, coin.Amount.String()) {
							d = append(d, fmt.Sprintf("bank.balances %s lacks %s (%s)", s, coin, addr.Hex()))
						}
					}
				}
			} else {
				d = append(d, "bank.balances call failed")
			}
		}
		for _, pair := range app.Erc20Keeper.GetTokenPairs(ctx) {
			if in, err := bp.ABI.Pack("supplyOf", pair.GetERC20Contract()); err == nil {
				if ret, ok := call(bnk, in); ok {
					if outv, err := bp.ABI.Unpack("supplyOf", ret); err == nil && len(outv) == 1 {
						want := app.BankKeeper.GetSupply(ctx, pair.Denom).Amount.BigInt()
						if got, ok := outv[0].(*big.Int); !ok || got.Cmp(want) != 0 {
							d = append(d, fmt.Sprintf("bank.supplyOf(%s) = %v, bank module %s", pair.Denom, outv[0], want))
						}
					}
				}
			}
		}
	}
	return d
}

func trunc(b []byte) []byte {
	if len(b) > 40 {
		return b[:40]
	}
	return b
}

func init() {
	Register(&Property{
		ID: "C16", NoModel: true,
		Gen:        c16Gen,
		Exec:       c16Exec,
		NonTrivial: func(tags []string) bool { return hasTag(tags, "both-ok") && hasTag(tags, "both-fail") },
		Rule:       "states grown by the ops themselves; for every op the state is forked twice: the native message (ValidateBasic + the module's message server) on one fork, the precompile call by the owner EOA through the EVM on the other; methods delegate, undelegate, redelegate, cancelUnbondingDelegation, setWithdrawAddress (own, other, fresh, module and precompile addresses), withdrawDelegatorRewards; validators valid and unknown; amounts 0, 1, half / all / all+1 of the balance, the staked amount ±1, 2^256−1; time advances with reward allocation; success must agree and the auth, bank, staking, distribution, slashing and authz stores must be identical key by key; non-trivial = a case with an op succeeding on both forks and one failing on both; distinct = distinct op sequences",
	})
}

func secs(n int) time.Duration { return time.Duration(n) * time.Second }
