package props

import (
	"errors"
	"fmt"
	"math/big"
	"math/rand"
	"sort"
	"strings"

	sdkmath "cosmossdk.io/math"
	"github.com/cosmos/cosmos-sdk/store/prefix"
	sdk "github.com/cosmos/cosmos-sdk/types"
	sdkerrors "github.com/cosmos/cosmos-sdk/types/errors"
	authtypes "github.com/cosmos/cosmos-sdk/x/auth/types"

	coinomicstypes "github.com/haqq-network/haqq/x/coinomics/types"
	ucdaokeeper "github.com/haqq-network/haqq/x/ucdao/keeper"
	ucdaotypes "github.com/haqq-network/haqq/x/ucdao/types"
)

// C12 — UC DAO ledger. Ops (line protocol, shared with lean/HaqqModel/Driver/C12.lean):
//
//	reset M | mint a d v | enable 0/1 | fund a coins | xferall a b | xferamt a b coins |
//	xferratio a b rawDec | dump N
var c12Denoms = []string{"aISLM", "aLIQUID1", "aLIQUID7", "uatom"}

const c12N = 5

func init() {
	Register(&Property{
		ID:   "C12",
		Gen:  c12Gen,
		Exec: c12Exec,
		NonTrivial: func(tags []string) bool {
			return hasTag(tags, "xfer-ok") && hasTag(tags, "fund-ok")
		},
		Rule: "op sequences (fund / transfer all|amount|ratio / enable / bank top-up) over 5 accounts and 4 denominations (aISLM, two liquid, one foreign) incl. sender=recipient, whole-balance, over-balance, invalid coin lists; non-trivial = at least one successful fund and one successful transfer; distinct = distinct op sequences",
	})
}

func hasTag(tags []string, t string) bool {
	for _, x := range tags {
		if x == t {
			return true
		}
	}
	return false
}

func c12Gen(r *rand.Rand, tier string) []Case {
	n, maxOps := 150, 30
	if tier == "thorough" {
		n, maxOps = 3000, 120
	}
	var out []Case
	one := new(big.Int).Exp(big.NewInt(10), big.NewInt(18), nil)
	for i := 0; i < n; i++ {
		nOps := 6 + r.Intn(maxOps)
		c := Case{"reset 4"}
		// the generator keeps its own rough ledger only to steer towards valid operations
		bank := map[[2]int]*big.Int{}
		dao := map[[2]int]*big.Int{}
		enabled := true
		get := func(m map[[2]int]*big.Int, a, d int) *big.Int {
			if m[[2]int{a, d}] == nil {
				m[[2]int{a, d}] = new(big.Int)
			}
			return m[[2]int{a, d}]
		}
		below := func(v *big.Int) *big.Int { // amount in (0, v], boundary heavy
			if v.Sign() <= 0 {
				return big.NewInt(int64(1 + r.Intn(9)))
			}
			switch r.Intn(5) {
			case 0:
				return new(big.Int).Set(v)
			case 1:
				return big.NewInt(1)
			default:
				return new(big.Int).Add(new(big.Int).Rand(r, v), big.NewInt(1))
			}
		}
		mag := func() *big.Int {
			switch r.Intn(4) {
			case 0:
				return big.NewInt(int64(1 + r.Intn(20)))
			case 1:
				return new(big.Int).Add(randBig(r), big.NewInt(1))
			default:
				return big.NewInt(int64(1 + r.Intn(100000)))
			}
		}
		for a := 0; a < c12N; a++ {
			for d := 0; d < 4; d++ {
				if r.Intn(3) > 0 {
					v := mag()
					c = append(c, fmt.Sprintf("mint %d %d %s", a, d, v))
					get(bank, a, d).Add(get(bank, a, d), v)
				}
			}
		}
		for j := 0; j < nOps; j++ {
			a, b := r.Intn(c12N), r.Intn(c12N)
			if r.Intn(5) == 0 {
				b = a
			}
			malformed := r.Intn(12) == 0
			switch k := r.Intn(20); {
			case k < 2:
				d := r.Intn(4)
				v := mag()
				c = append(c, fmt.Sprintf("mint %d %d %s", a, d, v))
				get(bank, a, d).Add(get(bank, a, d), v)
			case k < 8:
				var cs []coin
				ok := enabled
				for d := 0; d < 4; d++ {
					if r.Intn(2) == 0 {
						continue
					}
					if d == 3 && r.Intn(6) > 0 {
						continue
					}
					v := below(get(bank, a, d))
					if r.Intn(10) == 0 {
						v = new(big.Int).Add(get(bank, a, d), big.NewInt(1))
					}
					if v.Cmp(get(bank, a, d)) > 0 || d == 3 {
						ok = false
					}
					cs = append(cs, coin{D: d, V: v})
				}
				if malformed && len(cs) > 0 {
					switch r.Intn(3) {
					case 0:
						cs[r.Intn(len(cs))].V = big.NewInt(0)
					case 1:
						cs = append(cs, cs[0])
					default:
						cs[0], cs[len(cs)-1] = cs[len(cs)-1], cs[0]
					}
					ok = ok && len(cs) == 1 && cs[0].V.Sign() > 0
				}
				c = append(c, fmt.Sprintf("fund %d %s", a, fmtCoins(cs)))
				if ok {
					for _, x := range cs {
						get(bank, a, x.D).Sub(get(bank, a, x.D), x.V)
						get(dao, a, x.D).Add(get(dao, a, x.D), x.V)
					}
				}
			case k < 10:
				c = append(c, fmt.Sprintf("xferall %d %d", a, b))
				if enabled {
					for d := 0; d < 4; d++ {
						v := new(big.Int).Set(get(dao, a, d))
						get(dao, a, d).Sub(get(dao, a, d), v)
						get(dao, b, d).Add(get(dao, b, d), v)
					}
				}
			case k < 16:
				var cs []coin
				ok := enabled
				for d := 0; d < 4; d++ {
					if r.Intn(2) == 0 && !(d == 0 && len(cs) == 0) {
						continue
					}
					have := get(dao, a, d)
					v := below(have)
					if r.Intn(8) == 0 {
						v = new(big.Int).Add(have, big.NewInt(1))
					}
					if v.Cmp(have) > 0 {
						ok = false
						if have.Sign() == 0 && r.Intn(3) > 0 {
							continue
						}
					}
					cs = append(cs, coin{D: d, V: v})
				}
				if malformed && len(cs) > 0 {
					switch r.Intn(3) {
					case 0:
						cs[r.Intn(len(cs))].V = big.NewInt(0)
					case 1:
						cs = append(cs, cs[0])
					default:
						cs[0], cs[len(cs)-1] = cs[len(cs)-1], cs[0]
					}
					ok = false
				}
				c = append(c, fmt.Sprintf("xferamt %d %d %s", a, b, fmtCoins(cs)))
				if ok {
					for _, x := range cs {
						get(dao, a, x.D).Sub(get(dao, a, x.D), x.V)
						get(dao, b, x.D).Add(get(dao, b, x.D), x.V)
					}
				}
			case k < 19:
				var ratio *big.Int
				switch r.Intn(8) {
				case 0:
					ratio = one
				case 1:
					ratio = big.NewInt(1)
				case 2:
					ratio = new(big.Int).Add(one, big.NewInt(1))
				case 3:
					ratio = big.NewInt(0)
				case 4:
					ratio = new(big.Int).Quo(one, big.NewInt(int64(2+r.Intn(9))))
				default:
					ratio = new(big.Int).Rand(r, one)
				}
				c = append(c, fmt.Sprintf("xferratio %d %d %s", a, b, ratio.String()))
				if enabled && ratio.Sign() > 0 && ratio.Cmp(one) <= 0 {
					okAll := true
					mv := map[int]*big.Int{}
					any := false
					for d := 0; d < 4; d++ {
						if get(dao, a, d).Sign() > 0 {
							any = true
							x := new(big.Int).Mul(get(dao, a, d), ratio)
							x.Quo(x, one)
							if x.Sign() == 0 {
								okAll = false
							}
							mv[d] = x
						}
					}
					if okAll && any {
						for d, x := range mv {
							get(dao, a, d).Sub(get(dao, a, d), x)
							get(dao, b, d).Add(get(dao, b, d), x)
						}
					}
				}
			default:
				enabled = r.Intn(3) > 0
				e := 0
				if enabled {
					e = 1
				}
				c = append(c, fmt.Sprintf("enable %d", e))
			}
			if r.Intn(5) == 0 {
				c = append(c, fmt.Sprintf("dump %d", c12N))
			}
		}
		c = append(c, fmt.Sprintf("dump %d", c12N))
		// one transfer in four names the owner or the new owner by the other spelling of its bech32 string (upper case
		// decodes to the same address)
		for j := range c {
			if strings.HasPrefix(c[j], "xfer") && r.Intn(4) == 0 {
				c[j] += " # spell=" + pick(r, []string{"owner", "new"})
			}
		}
		// now and then the chain is restarted from its exported genesis in the middle of the history
		if r.Intn(2) == 0 {
			var c2 Case
			for j := range c {
				if j > 0 && r.Intn(8) == 0 {
					c2 = append(c2, "reimport")
				}
				c2 = append(c2, c[j])
			}
			c = c2
		}
		out = append(out, c)
	}
	// fixed case: more holders than a query page, then an export
	out = append(out, Case{"reset 4", "enable 1", "mint 0 0 1000", "fund 0 0:1000", "crowd 130", "export", "xferamt 0 1 0:100", "export"})
	// fixed cases: balances written by the genesis code path (restart from an export), then drained in full, by amount, by ratio
	out = append(out, Case{"reset 4", "mint 0 0 1000", "mint 0 1 500", "fund 0 0:1000,1:500", "mint 1 0 70", "fund 1 0:70", "reimport", "dump 5", "xferall 0 2", "dump 5", "export",
		"xferamt 1 2 0:70", "dump 5", "export", "reimport # dup=1", "dump 5", "xferratio 2 3 1000000000000000000", "dump 5", "export"})
	out = append(out, Case{"reset 4", "mint 0 0 1000", "mint 0 1 500", "fund 0 0:1000,1:500", "reimport", "xferamt 0 1 1:500", "dump 5", "export", "xferamt 0 1 0:1000", "dump 5", "export"})
	// fixed case: one account transferring to itself, named by two spellings of its address, all three messages
	out = append(out, Case{"reset 4", "mint 0 0 1000", "mint 0 1 500", "fund 0 0:1000,1:500", "xferamt 0 0 0:400 # spell=new", "dump 5",
		"xferratio 0 0 500000000000000000 # spell=owner", "dump 5", "xferall 0 0 # spell=new", "dump 5", "xferamt 0 1 0:100 # spell=owner", "dump 5"})
	return out
}

func c12Err(err error) string {
	switch {
	case err == nil:
		return "ok"
	case errors.Is(err, ucdaotypes.ErrModuleDisabled):
		return "err:disabled"
	case errors.Is(err, ucdaotypes.ErrNotEligible):
		return "err:notEligible"
	case errors.Is(err, ucdaotypes.ErrInsufficientFunds):
		return "err:insufficientFunds"
	case errors.Is(err, ucdaotypes.ErrInvalidDenom):
		return "err:invalidDenom"
	case errors.Is(err, ucdaotypes.ErrInvalidRatio):
		return "err:invalidRatio"
	case errors.Is(err, sdkerrors.ErrInvalidCoins):
		return "err:invalidCoins"
	case errors.Is(err, sdkerrors.ErrInsufficientFunds):
		return "err:insufficientBank"
	}
	return "err:other:" + strings.ReplaceAll(err.Error(), " ", "_")
}

func c12SdkCoins(cs []coin) sdk.Coins {
	out := sdk.Coins{}
	for _, c := range cs {
		d := "bad"
		if c.D >= 0 && c.D < len(c12Denoms) {
			d = c12Denoms[c.D]
		}
		out = append(out, sdk.Coin{Denom: d, Amount: sdkmath.NewIntFromBigInt(c.V)})
	}
	return out
}

type c12Ledger struct {
	bal     map[string]map[string]*big.Int // addr → denom → amount (raw store)
	total   map[string]*big.Int
	holders map[string]bool
	mod     map[string]*big.Int
}

// canon: the ledger as a string, independent of map order and of big.Int identity
func (l c12Ledger) canon() string {
	m := func(x map[string]*big.Int) string {
		var ks []string
		for k, v := range x {
			if v.Sign() != 0 {
				ks = append(ks, k+"="+v.String())
			}
		}
		sort.Strings(ks)
		return strings.Join(ks, ",")
	}
	var as, hs []string
	for a, x := range l.bal {
		if s := m(x); s != "" {
			as = append(as, a+":"+s)
		}
	}
	for a := range l.holders {
		hs = append(hs, a)
	}
	sort.Strings(as)
	sort.Strings(hs)
	return "balances{" + strings.Join(as, " ") + "} total{" + m(l.total) + "} holders{" + strings.Join(hs, ",") + "} module{" + m(l.mod) + "}"
}

func c12Exec(c Case) (outs []string, fails []Failure, tags []string) {
	nw, _ := fixture()
	app := nw.App
	base := nw.GetContext()
	ctx, _ := base.CacheContext()
	dk := app.DaoKeeper.(ucdaokeeper.BaseKeeper)
	ms := ucdaokeeper.NewMsgServerImpl(app.DaoKeeper)
	modAddr := authtypes.NewModuleAddress(ucdaotypes.ModuleName)
	storeKey := app.GetKey(ucdaotypes.StoreKey)

	read := func(ctx sdk.Context) c12Ledger {
		l := c12Ledger{bal: map[string]map[string]*big.Int{}, total: map[string]*big.Int{}, holders: map[string]bool{}, mod: map[string]*big.Int{}}
		dk.IterateAllBalances(ctx, func(a sdk.AccAddress, coin sdk.Coin) bool {
			if l.bal[a.String()] == nil {
				l.bal[a.String()] = map[string]*big.Int{}
			}
			l.bal[a.String()][coin.Denom] = coin.Amount.BigInt()
			return false
		})
		dk.IterateTotalBalance(ctx, func(coin sdk.Coin) bool { l.total[coin.Denom] = coin.Amount.BigInt(); return false })
		hs := prefix.NewStore(ctx.KVStore(storeKey), ucdaotypes.HoldersPrefix)
		it := hs.Iterator(nil, nil)
		for ; it.Valid(); it.Next() {
			a, err := ucdaotypes.AddressFromHoldersStore(it.Key())
			if err != nil {
				panic(err)
			}
			l.holders[a.String()] = true
		}
		it.Close()
		for _, coin := range app.BankKeeper.GetAllBalances(ctx, modAddr) {
			l.mod[coin.Denom] = coin.Amount.BigInt()
		}
		return l
	}
	get := func(m map[string]*big.Int, k string) *big.Int {
		if v, ok := m[k]; ok {
			return v
		}
		return new(big.Int)
	}
	// the property's own predicate on the raw stores
	monitor := func(ctx sdk.Context, upto int) {
		l := read(ctx)
		sums := map[string]*big.Int{}
		nonzero := map[string]bool{}
		for a, m := range l.bal {
			for d, v := range m {
				if sums[d] == nil {
					sums[d] = new(big.Int)
				}
				sums[d].Add(sums[d], v)
				if v.Sign() > 0 {
					nonzero[a] = true
				}
				if v.Sign() <= 0 {
					fails = append(fails, Failure{Signature: "C12:nonpositive-balance-entry", What: fmt.Sprintf("stored balance %s %s = %s", a, d, v), Case: c[:upto+1]})
				}
			}
		}
		dens := map[string]bool{}
		for d := range sums {
			dens[d] = true
		}
		for d := range l.total {
			dens[d] = true
		}
		for d := range l.mod {
			dens[d] = true
		}
		for d := range dens {
			s, t, m := get(sums, d), get(l.total, d), get(l.mod, d)
			if s.Cmp(t) != 0 {
				fails = append(fails, Failure{Signature: "C12:sum-ne-total", What: fmt.Sprintf("denom %s: Σ holder balances %s ≠ recorded total %s", d, s, t), Case: c[:upto+1]})
			}
			if t.Cmp(m) != 0 {
				fails = append(fails, Failure{Signature: "C12:total-ne-module", What: fmt.Sprintf("denom %s: recorded total %s ≠ module account %s", d, t, m), Case: c[:upto+1]})
			}
		}
		for a := range nonzero {
			if !l.holders[a] {
				fails = append(fails, Failure{Signature: "C12:holder-missing", What: "account with a balance missing from the holders index: " + a, Case: c[:upto+1]})
			}
		}
		for a := range l.holders {
			if !nonzero[a] {
				fails = append(fails, Failure{Signature: "C12:holder-stale", What: "holders index lists an account without balance: " + a, Case: c[:upto+1]})
			}
		}
	}
	daoBal := func(ctx sdk.Context, a int, d int) *big.Int {
		return dk.GetBalance(ctx, testAddr(a), c12Denoms[d]).Amount.BigInt()
	}
	snapshot := func(ctx sdk.Context) map[[2]int]*big.Int {
		m := map[[2]int]*big.Int{}
		for a := 0; a < c12N; a++ {
			for d := 0; d < 4; d++ {
				m[[2]int{a, d}] = daoBal(ctx, a, d)
			}
		}
		return m
	}
	// exactness monitor for a successful transfer: owner −x, recipient +x, others untouched
	checkMove := func(pre, post map[[2]int]*big.Int, owner, to int, moved map[int]*big.Int, upto int, kind string) {
		for a := 0; a < c12N; a++ {
			for d := 0; d < 4; d++ {
				want := new(big.Int).Set(pre[[2]int{a, d}])
				x := moved[d]
				if x == nil {
					x = new(big.Int)
				}
				if a == owner {
					want.Sub(want, x)
				}
				if a == to {
					want.Add(want, x)
				}
				if want.Cmp(post[[2]int{a, d}]) != 0 {
					rel := "owner!=newOwner"
					if owner == to {
						rel = "owner==newOwner"
					}
					who := "third-party"
					if a == owner {
						who = "owner"
					} else if a == to {
						who = "recipient"
					}
					fails = append(fails, Failure{Signature: "C12:transfer-inexact:" + rel + ":" + who, What: fmt.Sprintf("%s: account %d denom %d has %s, expected %s", kind, a, d, post[[2]int{a, d}], want), Case: c[:upto+1]})
				}
			}
		}
	}

	for i, line := range c {
		f := strings.Fields(line)
		out := "bad-op"
		switch f[0] {
		case "reset":
			ctx, _ = base.CacheContext()
			_ = dk.SetParams(ctx, ucdaotypes.Params{EnableDao: true})
			out = "ok"
		case "mint":
			var a, d int
			fmt.Sscan(f[1], &a)
			fmt.Sscan(f[2], &d)
			coins := sdk.NewCoins(sdk.NewCoin(c12Denoms[d], sdkmath.NewIntFromBigInt(mustBig(f[3]))))
			if err := app.BankKeeper.MintCoins(ctx, coinomicstypes.ModuleName, coins); err != nil {
				panic(err)
			}
			if err := app.BankKeeper.SendCoinsFromModuleToAccount(ctx, coinomicstypes.ModuleName, testAddr(a), coins); err != nil {
				panic(err)
			}
			out = "ok"
		case "crowd":
			// n further accounts (outside the model's universe) fund the DAO with a few coins each
			out = "skip"
			var n int
			fmt.Sscan(f[1], &n)
			for j := 0; j < n; j++ {
				addr := testAddr(3000 + j)
				coins := sdk.NewCoins(sdk.NewCoin(c12Denoms[0], sdkmath.NewInt(int64(3+j%7))))
				if err := app.BankKeeper.MintCoins(ctx, coinomicstypes.ModuleName, coins); err != nil {
					panic(err)
				}
				if err := app.BankKeeper.SendCoinsFromModuleToAccount(ctx, coinomicstypes.ModuleName, addr, coins); err != nil {
					panic(err)
				}
				if err := dk.Fund(ctx, coins, addr); err != nil {
					panic(err)
				}
			}
			tags = append(tags, "many-holders")
		case "export":
			// the exported ledger adds up like the live one: Σ exported balances = exported total = recorded total, and the
			// exported holders are exactly the accounts with a balance
			out = "skip"
			gs := dk.ExportGenesis(ctx)
			sum := sdk.NewCoins()
			for _, b := range gs.Balances {
				sum = sum.Add(b.Coins...)
			}
			l := read(ctx)
			live := 0
			for _, m := range l.bal {
				for _, v := range m {
					if v.Sign() > 0 {
						live++
						break
					}
				}
			}
			tags = append(tags, "export-checked")
			if !sum.IsEqual(gs.TotalBalance) || !gs.TotalBalance.IsEqual(dk.GetTotalBalance(ctx)) {
				fails = append(fails, Failure{Signature: "C12:export:sum-ne-total", What: fmt.Sprintf("exported genesis: Σ of the %d exported balances is %s, the exported total %s, the recorded total %s", len(gs.Balances), sum, gs.TotalBalance, dk.GetTotalBalance(ctx)), Case: c[:i+1]})
			}
			if len(gs.Balances) != live {
				fails = append(fails, Failure{Signature: "C12:export:holders", What: fmt.Sprintf("exported genesis lists %d holders, %d accounts hold a balance", len(gs.Balances), live), Case: c[:i+1]})
			}
		case "reimport":
			// the ledger as after a restart from an exported genesis: export, empty the module's store, InitGenesis with the
			// exported state; the balances, total and holders are the same, only written by the genesis code path.
			//   reimport # dup=1 : the first exported balance is listed twice and the total left to be computed
			out = "skip"
			kv := vmKV(f)
			gs := dk.ExportGenesis(ctx)
			before := read(ctx)
			store := ctx.KVStore(app.GetKey(ucdaotypes.StoreKey))
			var keys [][]byte
			it := store.Iterator(nil, nil)
			for ; it.Valid(); it.Next() {
				keys = append(keys, append([]byte{}, it.Key()...))
			}
			it.Close()
			for _, k := range keys {
				store.Delete(k)
			}
			tags = append(tags, "restarted-from-exported-genesis")
			if kv["dup"] == "1" && len(gs.Balances) > 0 {
				// refused, or taken with books that add up
				cctx, write := ctx.CacheContext()
				g2 := *gs
				g2.Balances = append(append([]ucdaotypes.Balance{}, gs.Balances...), gs.Balances[0])
				g2.TotalBalance = sdk.Coins{}
				accepted := func() (ok bool) {
					defer func() {
						if r := recover(); r != nil {
							ok = false
						}
					}()
					dk.InitGenesis(cctx, &g2)
					return true
				}()
				if accepted {
					tags = append(tags, "genesis-with-an-address-twice-accepted")
					sum := sdk.NewCoins()
					for _, b := range dk.GetAccountsBalances(cctx) {
						sum = sum.Add(b.Coins...)
					}
					if !sum.IsEqual(dk.GetTotalBalance(cctx)) {
						fails = append(fails, Failure{Signature: "C12:genesis:sum-ne-total:address-listed-twice", What: fmt.Sprintf("a genesis listing %s twice was accepted: Σ balances %s, recorded total %s", gs.Balances[0].Address, sum, dk.GetTotalBalance(cctx)), Case: c[:i+1]})
					}
					_ = write
				} else {
					tags = append(tags, "genesis-with-an-address-twice-refused")
				}
			}
			dk.InitGenesis(ctx, gs)
			after := read(ctx)
			if before.canon() != after.canon() {
				fails = append(fails, Failure{Signature: "C12:reimport:ledger-differs", What: fmt.Sprintf("ledger before export %s, after import %s", before.canon(), after.canon()), Case: c[:i+1]})
			}
		case "enable":
			_ = dk.SetParams(ctx, ucdaotypes.Params{EnableDao: f[1] == "1"})
			out = "ok"
		case "fund":
			var a int
			fmt.Sscan(f[1], &a)
			cs := parseCoins(f[2])
			pre := snapshot(ctx)
			preBank := app.BankKeeper.GetAllBalances(ctx, testAddr(a))
			cctx, write := ctx.CacheContext()
			_, err := ms.Fund(sdk.WrapSDKContext(cctx), &ucdaotypes.MsgFund{Amount: c12SdkCoins(cs), Depositor: testAddr(a).String()})
			out = c12Err(err)
			if err == nil {
				write()
				tags = append(tags, "fund-ok")
				moved := map[int]*big.Int{}
				for _, x := range cs {
					moved[x.D] = x.V
				}
				checkMove(pre, snapshot(ctx), -1, a, moved, i, "fund")
				postBank := app.BankKeeper.GetAllBalances(ctx, testAddr(a))
				if !postBank.Add(c12SdkCoins(cs)...).IsEqual(preBank) {
					fails = append(fails, Failure{Signature: "C12:fund-bank-debit", What: fmt.Sprintf("depositor bank %s → %s for deposit %s", preBank, postBank, c12SdkCoins(cs)), Case: c[:i+1]})
				}
			} else {
				tags = append(tags, "fund-"+out)
			}
		case "xferall", "xferamt", "xferratio":
			var a, b int
			fmt.Sscan(f[1], &a)
			fmt.Sscan(f[2], &b)
			pre := snapshot(ctx)
			cctx, write := ctx.CacheContext()
			var err error
			moved := map[int]*big.Int{}
			// the two spellings of a bech32 address
			ownerS, newS := testAddr(a).String(), testAddr(b).String()
			switch vmKV(f)["spell"] {
			case "owner":
				ownerS = strings.ToUpper(ownerS)
				tags = append(tags, "address-in-upper-case")
			case "new":
				newS = strings.ToUpper(newS)
				tags = append(tags, "address-in-upper-case")
			}
			if i := indexOf(f, "#"); i >= 0 {
				f = f[:i]
			}
			switch f[0] {
			case "xferall":
				_, err = ms.TransferOwnership(sdk.WrapSDKContext(cctx), &ucdaotypes.MsgTransferOwnership{Owner: ownerS, NewOwner: newS})
				for d := 0; d < 4; d++ {
					moved[d] = pre[[2]int{a, d}]
				}
			case "xferamt":
				cs := parseCoins(f[3])
				_, err = ms.TransferOwnershipWithAmount(sdk.WrapSDKContext(cctx), &ucdaotypes.MsgTransferOwnershipWithAmount{Owner: ownerS, NewOwner: newS, Amount: c12SdkCoins(cs)})
				for _, x := range cs {
					moved[x.D] = x.V
				}
			case "xferratio":
				ratio := sdkmath.LegacyNewDecFromBigIntWithPrec(mustBig(f[3]), 18)
				var resp *ucdaotypes.MsgTransferOwnershipWithRatioResponse
				resp, err = ms.TransferOwnershipWithRatio(sdk.WrapSDKContext(cctx), &ucdaotypes.MsgTransferOwnershipWithRatio{Owner: ownerS, NewOwner: newS, Ratio: ratio})
				if err == nil {
					// stated amount = floor(balance × ratio), independently computed
					one := new(big.Int).Exp(big.NewInt(10), big.NewInt(18), nil)
					for d := 0; d < 4; d++ {
						x := new(big.Int).Mul(pre[[2]int{a, d}], mustBig(f[3]))
						moved[d] = x.Quo(x, one)
					}
					got := map[string]*big.Int{}
					for _, cn := range resp.Coins {
						got[cn.Denom] = cn.Amount.BigInt()
					}
					for d := 0; d < 4; d++ {
						if get(got, c12Denoms[d]).Cmp(moved[d]) != 0 {
							fails = append(fails, Failure{Signature: "C12:ratio-amount", What: fmt.Sprintf("ratio transfer reports %s of denom %d, floor(bal·ratio) = %s", get(got, c12Denoms[d]), d, moved[d]), Case: c[:i+1]})
						}
					}
				}
			}
			out = c12Err(err)
			if err == nil {
				write()
				tags = append(tags, "xfer-ok", f[0]+"-ok")
				if a == b {
					tags = append(tags, "xfer-self-ok")
				}
				checkMove(pre, snapshot(ctx), a, b, moved, i, f[0])
			} else {
				tags = append(tags, f[0]+"-"+out)
			}
		case "dump":
			var n int
			fmt.Sscan(f[1], &n)
			var bal, tot, md, hs, bk []string
			l := read(ctx)
			for a := 0; a < n; a++ {
				for d := 0; d < 4; d++ {
					if v := daoBal(ctx, a, d); v.Sign() > 0 {
						bal = append(bal, fmt.Sprintf("%d:%d=%s", a, d, v))
					}
					if v := app.BankKeeper.GetBalance(ctx, testAddr(a), c12Denoms[d]).Amount; v.IsPositive() {
						bk = append(bk, fmt.Sprintf("%d:%d=%s", a, d, v))
					}
				}
				if l.holders[testAddr(a).String()] {
					hs = append(hs, itoa(a))
				}
			}
			for d := 0; d < 4; d++ {
				if v := dk.GetTotalBalanceOf(ctx, c12Denoms[d]).Amount; v.IsPositive() {
					tot = append(tot, fmt.Sprintf("%d=%s", d, v))
				}
				if v := get(l.mod, c12Denoms[d]); v.Sign() > 0 {
					md = append(md, fmt.Sprintf("%d=%s", d, v))
				}
			}
			h := "-"
			if len(hs) > 0 {
				h = strings.Join(hs, ",")
			}
			out = fmt.Sprintf("bal[%s] total[%s] mod[%s] holders[%s] bank[%s]", strings.Join(bal, ","), strings.Join(tot, ","), strings.Join(md, ","), h, strings.Join(bk, ","))
		}
		outs = append(outs, out)
		if f[0] != "dump" && f[0] != "reset" {
			monitor(ctx, i)
		}
	}
	return
}

func indexOf(xs []string, x string) int {
	for i, y := range xs {
		if y == x {
			return i
		}
	}
	return -1
}
