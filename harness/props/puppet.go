package props

import (
	"encoding/binary"
	"fmt"
	"math/big"
	"strings"

	sdk "github.com/cosmos/cosmos-sdk/types"
	authtypes "github.com/cosmos/cosmos-sdk/x/auth/types"
	authzkeeper "github.com/cosmos/cosmos-sdk/x/authz/keeper"
	distrkeeper "github.com/cosmos/cosmos-sdk/x/distribution/keeper"
	"github.com/ethereum/go-ethereum/common"
	"github.com/ethereum/go-ethereum/crypto"
	stakingkeeper "github.com/haqq-network/haqq/x/staking/keeper"

	distrpc "github.com/haqq-network/haqq/precompiles/distribution"
	stakingpc "github.com/haqq-network/haqq/precompiles/staking"
	evmtypes "github.com/haqq-network/haqq/x/evm/types"
)

// Puppet: a hand-assembled contract that interprets its calldata as a script, so that one real Ethereum
// transaction (signed, through BaseApp.DeliverTx) can be made to do what the C02 / C05 / C04 / C15 properties
// quantify over: nested call frames that revert or not, storage writes, logs, value transfers and precompile calls.
//
//	script  := step*
//	step    := 0x00|0x01 target(20) value(32) len(2) data   CALL (mode 1: revert this frame when the call fails)
//	         | 0x02                                        REVERT
//	         | 0x03                                        STOP
//	         | 0x04 key(1) val(1)                          SSTORE
//	         | 0x05                                        LOG0
//
// Script tokens of the op line (comma separated; frames nest):
//
//	S:k:v   sstore      L  log0       P:amt  pay amt to the fresh address X
//	D:amt   staking.delegate(origin, val, amt)   — the origin's coins, by grant     (d:amt: failure ignored)
//	G:amt   staking.delegate(puppet, val, amt)   — the puppet's own coins
//	W       distribution.withdrawDelegatorRewards(puppet, val)      C   distribution.claimRewards(puppet, 10)
//	[ … ]   inner frame (self call, failure ignored by the outer frame);  [ … ]R the inner frame ends with REVERT
type asm struct {
	code   []byte
	labels map[string]int
	fix    map[int]string
}

func newAsm() *asm                 { return &asm{labels: map[string]int{}, fix: map[int]string{}} }
func (a *asm) op(b ...byte) *asm   { a.code = append(a.code, b...); return a }
func (a *asm) push1(v byte) *asm   { return a.op(0x60, v) }
func (a *asm) label(n string) *asm { a.labels[n] = len(a.code); return a.op(0x5b) }
func (a *asm) pushl(n string) *asm { a.op(0x61); a.fix[len(a.code)] = n; return a.op(0, 0) }
func (a *asm) bytes() []byte {
	for pos, n := range a.fix {
		binary.BigEndian.PutUint16(a.code[pos:], uint16(a.labels[n]))
	}
	return a.code
}

func puppetRuntime() []byte {
	const (
		STOP, ADD, LT, EQ, ISZERO, AND, SHR                = 0x00, 0x01, 0x10, 0x14, 0x15, 0x16, 0x1c
		CALLDATALOAD, CALLDATASIZE, CALLDATACOPY           = 0x35, 0x36, 0x37
		POP, MLOAD, MSTORE, SSTORE, JUMP, JUMPI, GAS, DUP1 = 0x50, 0x51, 0x52, 0x55, 0x56, 0x57, 0x5a, 0x80
		LOG0, CALL, REVERT                                 = 0xa0, 0xf1, 0xfd
	)
	dup := func(n int) byte { return byte(0x80 + n - 1) }
	a := newAsm()
	a.label("loop")
	a.push1(0).op(MLOAD)
	a.op(CALLDATASIZE, dup(2), LT, ISZERO).pushl("end").op(JUMPI)
	a.op(DUP1, CALLDATALOAD).push1(0xf8).op(SHR)
	a.op(DUP1).push1(2).op(EQ).pushl("rev").op(JUMPI)
	a.op(DUP1).push1(3).op(EQ).pushl("end").op(JUMPI)
	a.op(DUP1).push1(4).op(EQ).pushl("sst").op(JUMPI)
	a.op(DUP1).push1(5).op(EQ).pushl("log").op(JUMPI)
	a.op(dup(2)).push1(1).op(ADD, CALLDATALOAD).push1(0x60).op(SHR)
	a.op(dup(3)).push1(21).op(ADD, CALLDATALOAD)
	a.op(dup(4)).push1(53).op(ADD, CALLDATALOAD).push1(0xf0).op(SHR)
	a.op(DUP1, dup(6)).push1(55).op(ADD).push1(0x40).op(CALLDATACOPY)
	a.op(DUP1, dup(6), ADD).push1(55).op(ADD).push1(0).op(MSTORE)
	a.push1(0).push1(0).op(dup(3)).push1(0x40).op(dup(6), dup(8), GAS, CALL)
	a.op(ISZERO, dup(5), AND).pushl("rev").op(JUMPI)
	a.op(POP, POP, POP, POP, POP).pushl("loop").op(JUMP)
	// [cur, mode]
	a.label("sst")
	a.op(dup(2)).push1(2).op(ADD, CALLDATALOAD).push1(0xf8).op(SHR)
	a.op(dup(3)).push1(1).op(ADD, CALLDATALOAD).push1(0xf8).op(SHR)
	a.op(SSTORE)
	a.op(dup(2)).push1(3).op(ADD).push1(0).op(MSTORE)
	a.op(POP, POP).pushl("loop").op(JUMP)
	a.label("log")
	a.push1(0).push1(0).op(LOG0)
	a.op(dup(2)).push1(1).op(ADD).push1(0).op(MSTORE)
	a.op(POP, POP).pushl("loop").op(JUMP)
	a.label("rev").push1(0).push1(0).op(REVERT)
	a.label("end").op(STOP)
	return a.bytes()
}

func puppetCall(mode byte, target common.Address, value *big.Int, data []byte) []byte {
	out := []byte{mode}
	out = append(out, target.Bytes()...)
	out = append(out, common.LeftPadBytes(value.Bytes(), 32)...)
	out = append(out, byte(len(data)>>8), byte(len(data)))
	return append(out, data...)
}

const puppetOrigin = 4 // keyring index of the account that signs puppet transactions and grants the puppet

var (
	puppetAddr  common.Address
	puppetX     = common.BytesToAddress(testAddr(610))
	puppetReady bool
)

// puppetSetup deploys the puppet (once per process), funds it, lets the origin approve it for delegate and
// undelegate, gives the puppet a delegation of its own, and allocates rewards so that withdrawals pay out.
func puppetSetup() {
	if puppetReady {
		return
	}
	nw, kr := fixture()
	app := nw.App
	ctx := nw.GetContext()
	p := app.FeeMarketKeeper.GetParams(ctx)
	p.MinGasMultiplier = sdk.ZeroDec()
	_ = app.FeeMarketKeeper.SetParams(ctx, p)
	price := big.NewInt(2_000_000_000)
	from := kr.GetKey(0).Addr
	n0 := app.EvmKeeper.GetNonce(ctx, from)
	r1, _, _ := c07Send(0, evmtypes.EvmTxArgs{Input: c07InitCode(puppetRuntime()), GasLimit: 1_000_000, GasPrice: price})
	if r1.Code != 0 {
		panic("puppet deploy failed: " + r1.Log)
	}
	puppetAddr = crypto.CreateAddress(from, n0)
	r2, _, _ := c07Send(0, evmtypes.EvmTxArgs{To: &puppetAddr, Amount: big.NewInt(1_000_000_000_000_000), GasLimit: 100_000, GasPrice: price})
	if r2.Code != 0 {
		panic("puppet funding failed: " + r2.Log)
	}
	sabi, err := stakingpc.LoadABI()
	if err != nil {
		panic(err)
	}
	stk := common.HexToAddress(stakingpc.PrecompileAddress)
	huge, _ := new(big.Int).SetString("1000000000000000000000000", 10)
	appr, err := sabi.Pack("approve", puppetAddr, huge, []string{stakingpc.DelegateMsg, stakingpc.UndelegateMsg})
	if err != nil {
		panic(err)
	}
	r3, _, _ := c07Send(puppetOrigin, evmtypes.EvmTxArgs{To: &stk, Input: appr, GasLimit: 500_000, GasPrice: price})
	if r3.Code != 0 {
		panic("puppet approve failed: " + r3.Log)
	}
	if err := nw.NextBlock(); err != nil {
		panic(err)
	}
	puppetReady = true
}

type puppetRef struct { // the property's own semantics of a script: a reverted frame leaves nothing behind
	slots        [3]int64
	dE, dP, dX   *big.Int // bank balance changes apart from the fee
	bondE, bondP *big.Int
	logs         int
	// staking rewards waiting for the origin / the contract at the validator: the distribution module pays them out
	// with the first message that touches the delegation (delegate, undelegate, withdraw, claim); nil = none
	pendE, pendP *big.Int
}

// payE / payP: the first staking or distribution message of the origin / the contract collects what was pending
func (r *puppetRef) payE() {
	if r.pendE != nil {
		r.dE.Add(r.dE, r.pendE)
		r.pendE = nil
	}
}

func (r *puppetRef) payP() {
	if r.pendP != nil {
		r.dP.Add(r.dP, r.pendP)
		r.pendP = nil
	}
}

func (r puppetRef) clone() puppetRef {
	c := r
	c.dE, c.dP, c.dX = new(big.Int).Set(r.dE), new(big.Int).Set(r.dP), new(big.Int).Set(r.dX)
	c.bondE, c.bondP = new(big.Int).Set(r.bondE), new(big.Int).Set(r.bondP)
	return c
}

type puppetScript struct {
	bytes []byte
	// features of the script, for classifying what a monitor sees
	grantDelegate          bool // D outside any reverted frame
	precompileInReverted   bool // a precompile call inside a frame that reverts
	writesInRevertedBefore bool // EVM-side writes in a reverted frame
	withdraw               bool
}

// puppetCompile turns the tokens into calldata and computes the reference outcome.
func puppetCompile(tokens []string, ref *puppetRef, val string) puppetScript {
	_, kr := fixture()
	return puppetCompileFor(tokens, ref, val, kr.GetKey(puppetOrigin).Addr, puppetAddr, func() common.Address { return puppetX })
}

// puppetCompileFor: the same for an arbitrary origin E, puppet address P and payee generator.
func puppetCompileFor(tokens []string, ref *puppetRef, val string, E, puppetAddr common.Address, payee func() common.Address) puppetScript {
	sabi, _ := stakingpc.LoadABI()
	dpc, _ := distrpc.NewPrecompile(distrkeeper.Keeper{}, stakingkeeper.Keeper{}, authzkeeper.Keeper{})
	dabi := dpc.ABI
	stk := common.HexToAddress(stakingpc.PrecompileAddress)
	dst := dpc.Address()
	var sc puppetScript
	var rec func(pos int, st *puppetRef, inReverted bool) (int, []byte)
	// does the frame starting at pos end with ]R ?
	frameReverts := func(pos int) bool {
		depth := 0
		for i := pos; i < len(tokens); i++ {
			switch {
			case tokens[i] == "[":
				depth++
			case strings.HasPrefix(tokens[i], "]"):
				if depth == 0 {
					return tokens[i] == "]R"
				}
				depth--
			}
		}
		return false
	}
	rec = func(pos int, st *puppetRef, inReverted bool) (int, []byte) {
		var out []byte
		for pos < len(tokens) {
			t := tokens[pos]
			f := strings.Split(t, ":")
			switch {
			case t == "[":
				rv := frameReverts(pos + 1)
				inner := st.clone()
				next, body := rec(pos+1, &inner, inReverted || rv)
				if rv {
					body = append(body, 2)
				} else {
					*st = inner
				}
				out = append(out, puppetCall(0, puppetAddr, big.NewInt(0), body)...)
				pos = next
				continue
			case strings.HasPrefix(t, "]"):
				return pos + 1, out
			case f[0] == "S":
				k, v := vmIdx(f[1]), vmIdx(f[2])
				out = append(out, 4, byte(k), byte(v))
				st.slots[k] = int64(v)
				if inReverted {
					sc.writesInRevertedBefore = true
				}
			case f[0] == "L":
				out = append(out, 5)
				st.logs++
			case f[0] == "P":
				amt := mustBig(f[1])
				out = append(out, puppetCall(1, payee(), amt, nil)...)
				st.dP.Sub(st.dP, amt)
				st.dX.Add(st.dX, amt)
			case f[0] == "D" || f[0] == "d":
				amt := mustBig(f[1])
				in, _ := sabi.Pack("delegate", E, val, amt)
				mode := byte(1)
				if f[0] == "d" {
					mode = 0
				}
				out = append(out, puppetCall(mode, stk, big.NewInt(0), in)...)
				st.dE.Sub(st.dE, amt)
				st.bondE.Add(st.bondE, amt)
				st.payE()
				if inReverted {
					sc.precompileInReverted = true
				} else {
					sc.grantDelegate = true
				}
			case f[0] == "G":
				amt := mustBig(f[1])
				in, _ := sabi.Pack("delegate", puppetAddr, val, amt)
				out = append(out, puppetCall(1, stk, big.NewInt(0), in)...)
				st.dP.Sub(st.dP, amt)
				st.bondP.Add(st.bondP, amt)
				st.payP()
				if inReverted {
					sc.precompileInReverted = true
				}
			case f[0] == "Z":
				// zero-value CALL to a module account (touches the account)
				out = append(out, puppetCall(0, common.BytesToAddress(authtypes.NewModuleAddress(f[1]).Bytes()), big.NewInt(0), nil)...)
			case f[0] == "z":
				// value CALL to a module account (node-world histories only: the credit is refused when the transaction's
				// state is committed, so the transaction fails as a whole)
				out = append(out, puppetCall(0, common.BytesToAddress(authtypes.NewModuleAddress(f[1]).Bytes()), mustBig(f[2]), nil)...)
			case f[0] == "U":
				amt := mustBig(f[1])
				in, _ := sabi.Pack("undelegate", E, val, amt)
				out = append(out, puppetCall(0, stk, big.NewInt(0), in)...)
				st.bondE.Sub(st.bondE, amt)
				st.payE()
				if inReverted {
					sc.precompileInReverted = true
				}
			case f[0] == "W":
				in, _ := dabi.Pack("withdrawDelegatorRewards", puppetAddr, val)
				out = append(out, puppetCall(1, dst, big.NewInt(0), in)...)
				sc.withdraw = true
				st.payP()
				if inReverted {
					sc.precompileInReverted = true
				}
			case f[0] == "C":
				// distribution.claimRewards(puppet, 10): the contract's own rewards at every validator it delegates to
				in, _ := dabi.Pack("claimRewards", puppetAddr, uint32(10))
				out = append(out, puppetCall(1, dst, big.NewInt(0), in)...)
				sc.withdraw = true
				st.payP()
				if inReverted {
					sc.precompileInReverted = true
				}
			}
			pos++
		}
		return pos, out
	}
	_, sc.bytes = rec(0, ref, false)
	return sc
}

// puppetObs is what one puppet transaction did, measured on the real application.
type puppetObs struct {
	code              uint32
	failed            bool
	vmError           string
	dSupply           *big.Int
	dE, dP, dX        *big.Int // dE is net of the fee
	bondE, bondP      *big.Int
	slots             [3]int64
	logs              int
	rewardsToP        *big.Int
	outstandingBefore *big.Int
}

func puppetRun(value *big.Int, script []byte, gas uint64) puppetObs {
	nw, kr := fixture()
	app := nw.App
	denom := nw.GetDenom()
	E := kr.GetKey(puppetOrigin)
	type snap struct{ sup, e, p, x, be, bp *big.Int }
	take := func() snap {
		ctx := nw.GetContext()
		return snap{
			app.BankKeeper.GetSupply(ctx, denom).Amount.BigInt(),
			app.BankKeeper.GetBalance(ctx, E.AccAddr, denom).Amount.BigInt(),
			app.BankKeeper.GetBalance(ctx, puppetAddr.Bytes(), denom).Amount.BigInt(),
			app.BankKeeper.GetBalance(ctx, puppetX.Bytes(), denom).Amount.BigInt(),
			app.StakingKeeper.GetDelegatorBonded(ctx, E.AccAddr).BigInt(),
			app.StakingKeeper.GetDelegatorBonded(ctx, puppetAddr.Bytes()).BigInt(),
		}
	}
	s0 := take()
	price := big.NewInt(2_000_000_000)
	res, _, _ := c07Send(puppetOrigin, evmtypes.EvmTxArgs{To: &puppetAddr, Input: script, Amount: value, GasLimit: gas, GasPrice: price})
	s1 := take()
	o := puppetObs{code: res.Code}
	fee := new(big.Int).Mul(big.NewInt(res.GasUsed), price)
	sub := func(a, b *big.Int) *big.Int { return new(big.Int).Sub(a, b) }
	o.dSupply = sub(s1.sup, s0.sup)
	o.dE = new(big.Int).Add(sub(s1.e, s0.e), fee)
	o.dP, o.dX = sub(s1.p, s0.p), sub(s1.x, s0.x)
	o.bondE, o.bondP = sub(s1.be, s0.be), sub(s1.bp, s0.bp)
	if res.Code == 0 {
		if txr, e := evmtypes.DecodeTxResponse(res.Data); e == nil {
			o.failed = txr.Failed()
			o.vmError = txr.VmError
			for _, l := range txr.Logs {
				if common.HexToAddress(l.Address) == puppetAddr {
					o.logs++
				}
			}
		}
	} else {
		o.vmError = res.Log
	}
	ctx := nw.GetContext()
	for k := 0; k < 3; k++ {
		o.slots[k] = app.EvmKeeper.GetState(ctx, puppetAddr, common.BigToHash(big.NewInt(int64(k)))).Big().Int64()
	}
	return o
}

func (o puppetObs) String() string {
	return fmt.Sprintf("code=%d failed=%v dsupply=%s dE=%s dP=%s dX=%s bondE=%s bondP=%s slots=%d,%d,%d logs=%d", o.code, o.failed, o.dSupply, o.dE, o.dP, o.dX, o.bondE, o.bondP, o.slots[0], o.slots[1], o.slots[2], o.logs)
}

func puppetZeroDistr() (distrkeeper.Keeper, stakingkeeper.Keeper, authzkeeper.Keeper) {
	return distrkeeper.Keeper{}, stakingkeeper.Keeper{}, authzkeeper.Keeper{}
}
