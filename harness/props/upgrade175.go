package props

import (
	"fmt"
	"math/big"
	"time"

	sdkmath "cosmossdk.io/math"
	sdk "github.com/cosmos/cosmos-sdk/types"
	sdkvesting "github.com/cosmos/cosmos-sdk/x/auth/vesting/types"
	"github.com/ethereum/go-ethereum/common"

	v175 "github.com/haqq-network/haqq/app/upgrades/v1.7.5"
	"github.com/haqq-network/haqq/contracts"
	lvtypes "github.com/haqq-network/haqq/x/liquidvesting/types"
	vestingtypes "github.com/haqq-network/haqq/x/vesting/types"
)

// UpgradeHandlerOutcomes (used by the C01 check): the v1.7.5 upgrade handler collects redeem messages from 2*NumCPU-1 goroutines that append to
// one slice without synchronisation.  Run it on several forks of one state and compare what it did.
func UpgradeHandlerOutcomes(logf func(string, ...interface{}), holders, runs int) (outcomes map[string]int) {
	nw, kr := fixture()
	app := nw.App
	denom := nw.GetDenom()
	ctx, _ := nw.GetContext().CacheContext()
	ctx = ctx.WithGasMeter(sdk.NewInfiniteGasMeter()).WithBlockGasMeter(sdk.NewInfiniteGasMeter())
	funder, vest, holder := kr.GetKey(0), kr.GetKey(5), kr.GetKey(1)
	amt := new(big.Int).Mul(big.NewInt(6000), big.NewInt(1e18))
	c3 := func(x *big.Int) sdk.Coins { return sdk.NewCoins(sdk.NewCoin(denom, sdkmath.NewIntFromBigInt(x))) }
	_ = app.BankKeeper.MintCoins(ctx, "coinomics", c3(new(big.Int).Mul(amt, big.NewInt(2))))
	_ = app.BankKeeper.SendCoinsFromModuleToAccount(ctx, "coinomics", funder.AccAddr, c3(new(big.Int).Mul(amt, big.NewInt(2))))
	third := new(big.Int).Div(amt, big.NewInt(3))
	lock := sdkvesting.Periods{{Length: 100000, Amount: c3(third)}, {Length: 100000, Amount: c3(third)}, {Length: 100000, Amount: c3(third)}}
	vst := sdkvesting.Periods{{Length: 1, Amount: c3(amt)}}
	if _, err := app.VestingKeeper.ConvertIntoVestingAccount(sdk.WrapSDKContext(ctx), vestingtypes.NewMsgConvertIntoVestingAccount(funder.AccAddr, vest.AccAddr, ctx.BlockTime().Add(-10*time.Second), lock, vst, true, false, nil)); err != nil {
		panic(err)
	}
	_ = app.LiquidVestingKeeper.SetParams(ctx, lvtypes.NewParams(sdkmath.NewInt(1), true))
	liq := sdk.NewCoin(denom, sdkmath.NewIntFromBigInt(new(big.Int).Mul(big.NewInt(3000), big.NewInt(1e18))))
	if _, err := app.LiquidVestingKeeper.Liquidate(sdk.WrapSDKContext(ctx), lvtypes.NewMsgLiquidate(vest.AccAddr, holder.AccAddr, liq)); err != nil {
		panic(err)
	}
	pairs := app.Erc20Keeper.GetTokenPairs(ctx)
	pair := pairs[len(pairs)-1]
	abi := contracts.ERC20MinterBurnerDecimalsContract.ABI
	for i := 0; i < holders; i++ {
		a := testAddr(2000 + i)
		if err := app.BankKeeper.SendCoins(ctx, funder.AccAddr, a, sdk.NewCoins(sdk.NewCoin(denom, sdkmath.NewInt(1)))); err != nil {
			panic(err)
		}
		if _, err := app.Erc20Keeper.CallEVM(ctx, abi, holder.Addr, pair.GetERC20Contract(), true, "transfer", common.BytesToAddress(a), big.NewInt(int64(1000+i))); err != nil {
			panic(err)
		}
	}
	logf("state ready: %d holders of %s", holders, pair.Denom)
	seen := map[string]int{}
	for r := 0; r < runs; r++ {
		fork, _ := ctx.CacheContext()
		if err := v175.TurnOffLiquidVesting(fork, app.BankKeeper, app.LiquidVestingKeeper, app.Erc20Keeper, *app.EvmKeeper, app.AccountKeeper); err != nil {
			panic(err)
		}
		// what the handler did: how many of the holders were redeemed (became vesting accounts), what is left of the liquid supply
		n := 0
		for i := 0; i < holders; i++ {
			if _, ok := app.AccountKeeper.GetAccount(fork, testAddr(2000+i)).(*vestingtypes.ClawbackVestingAccount); ok {
				n++
			}
		}
		key := fmt.Sprintf("redeemed=%d liquid-supply-left=%s", n, app.BankKeeper.GetSupply(fork, pair.Denom).Amount)
		seen[key]++
	}
	for k, v := range seen {
		logf("%d run(s): %s", v, k)
	}
	return seen
}
