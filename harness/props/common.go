// Package props holds, per property, (a) a generator of structured cases, (b) an executor that runs
// a case against the real repository code in-process and prints one canonical output line per
// operation line (the same lines are fed to the Lean driver), and (c) implementation-side monitors
// that evaluate the property's own predicate on what the real code produced.
package props

import (
	"bufio"
	"crypto/sha256"
	"encoding/hex"
	"encoding/json"
	"fmt"
	ethcommon "github.com/ethereum/go-ethereum/common"
	"math/big"
	"math/rand"
	"os"
	"path/filepath"
	"sort"
	"strings"
)

// Failure is a monitor failure: the property's predicate was false on the real code's output.
type Failure struct {
	Signature string   `json:"signature"` // specific, used for known-findings lookup
	What      string   `json:"what"`
	Case      []string `json:"case"` // the (minimised) op lines reproducing it
}

// Case is a list of op lines in the line protocol (without the leading property id).
type Case []string

// Property is what each Cxx file registers.
type Property struct {
	ID string
	// Gen returns the generated cases for this tier (corpus cases are prepended by the framework).
	Gen func(r *rand.Rand, tier string) []Case
	// Exec runs one case on the real code; returns one output line per op line, monitor failures,
	// and tags describing which branches / classes the case hit (for the distribution report).
	Exec func(c Case) (outs []string, fails []Failure, tags []string)
	// NonTrivial decides (from the tags) whether the case counts as non-trivial.
	NonTrivial func(tags []string) bool
	Rule       string
	// Setup is run once before any Exec (build the app fixture etc.).
	Setup func() error
	// NoModel marks op lines that the Lean driver does not interpret (monitor-only properties
	// print nothing to the model stream).
	NoModel bool
}

var registry = map[string]*Property{}

func Register(p *Property) { registry[p.ID] = p }

func Get(id string) *Property { return registry[id] }

// Report is written to <out>/monitor.json.
type Report struct {
	Property           string         `json:"property"`
	Seed               int64          `json:"seed"`
	Tier               string         `json:"tier"`
	Evaluations        int            `json:"evaluations"`
	Ops                int            `json:"ops"`
	DistinctNontrivial int            `json:"distinct_nontrivial"`
	Rule               string         `json:"rule"`
	Distribution       map[string]int `json:"distribution"`
	Samples            []Case         `json:"samples"`
	Failures           []Failure      `json:"failures"`
	CorpusCases        int            `json:"corpus_cases"`
	Panics             int            `json:"panics"`
	CaseStarts         []int          `json:"case_starts"` // line number (0-based) in ops.txt where each case starts
}

// Run executes the property: corpus first, then generated cases. It writes ops.txt, impl.txt and
// monitor.json under outDir.
func Run(p *Property, seed int64, tier, outDir, corpusDir, replay string) (*Report, error) {
	if err := os.MkdirAll(outDir, 0o755); err != nil {
		return nil, err
	}
	if p.Setup != nil {
		if err := p.Setup(); err != nil {
			return nil, fmt.Errorf("setup: %w", err)
		}
	}
	var cases []Case
	nCorpus := 0
	if replay != "" {
		c, err := ReadCase(replay)
		if err != nil {
			return nil, err
		}
		cases = []Case{c}
	} else {
		files, _ := filepath.Glob(filepath.Join(corpusDir, p.ID, "*.ops"))
		sort.Strings(files)
		for _, f := range files {
			c, err := ReadCase(f)
			if err != nil {
				return nil, err
			}
			cases = append(cases, c)
		}
		nCorpus = len(cases)
		r := rand.New(rand.NewSource(seed))
		cases = append(cases, p.Gen(r, tier)...)
	}
	opsF, err := os.Create(filepath.Join(outDir, "ops.txt"))
	if err != nil {
		return nil, err
	}
	defer opsF.Close()
	implF, err := os.Create(filepath.Join(outDir, "impl.txt"))
	if err != nil {
		return nil, err
	}
	defer implF.Close()
	ow, iw := bufio.NewWriter(opsF), bufio.NewWriter(implF)
	defer ow.Flush()
	defer iw.Flush()

	rep := &Report{Property: p.ID, Seed: seed, Tier: tier, Rule: p.Rule, Distribution: map[string]int{}, CorpusCases: nCorpus}
	seen := map[string]bool{}
	shrunk := map[string]bool{}
	line := 0
	for ci, c := range cases {
		outs, fails, tags, panicked := safeExec(p, c)
		if panicked != "" {
			rep.Panics++
			fails = append(fails, Failure{Signature: p.ID + ":harness-panic", What: panicked, Case: c})
		}
		rep.Evaluations++
		rep.Ops += len(c)
		rep.CaseStarts = append(rep.CaseStarts, line)
		if !p.NoModel {
			for i, op := range c {
				o := "missing"
				if i < len(outs) {
					o = outs[i]
				}
				fmt.Fprintf(ow, "%s %s\n", p.ID, op)
				fmt.Fprintln(iw, o)
				line++
			}
		}
		for _, t := range tags {
			rep.Distribution[t]++
		}
		if p.NonTrivial == nil || p.NonTrivial(tags) {
			h := sha256.Sum256([]byte(strings.Join(c, "\n")))
			k := hex.EncodeToString(h[:8])
			if !seen[k] {
				seen[k] = true
				rep.DistinctNontrivial++
				if len(rep.Samples) < 3 || (ci == len(cases)-1 && len(rep.Samples) < 4) {
					rep.Samples = append(rep.Samples, c)
				}
			}
		}
		for _, f := range fails {
			if f.Case == nil {
				f.Case = c
			}
			// minimise on the op list, keeping the same signature — once per signature (the first occurrence is the
			// replay; further occurrences are only counted)
			if !shrunk[f.Signature] {
				shrunk[f.Signature] = true
				if os.Getenv("VERIF_NOSHRINK") == "" {
					f.Case = shrink(p, f.Case, f.Signature)
				}
				rep.Failures = append(rep.Failures, f)
			} else if len(rep.Failures) < 400 {
				rep.Failures = append(rep.Failures, f)
			}
		}
	}
	js, _ := json.MarshalIndent(rep, "", " ")
	if err := os.WriteFile(filepath.Join(outDir, "monitor.json"), js, 0o644); err != nil {
		return nil, err
	}
	return rep, nil
}

func safeExec(p *Property, c Case) (outs []string, fails []Failure, tags []string, panicked string) {
	defer func() {
		if r := recover(); r != nil {
			panicked = fmt.Sprint(r)
		}
	}()
	outs, fails, tags = p.Exec(c)
	// process-wide "constants" that are in fact mutable values (*big.Int): code that writes through one of them changes
	// the behaviour of everything executed afterwards in this process, and of no other process
	for _, g := range sharedConstants {
		if g.v.Cmp(big.NewInt(g.want)) != 0 {
			fails = append(fails, Failure{Signature: p.ID + ":process-global-constant-overwritten", What: fmt.Sprintf("%s is %s after this case (a shared *big.Int was used as the receiver of an in-place operation): what the node computes from now on depends on the life of the process", g.name, g.v), Case: c})
			g.v.SetInt64(g.want)
		}
	}
	return
}

var sharedConstants = []struct {
	name string
	v    *big.Int
	want int64
}{
	{"go-ethereum common.Big0", ethcommon.Big0, 0}, {"go-ethereum common.Big1", ethcommon.Big1, 1}, {"go-ethereum common.Big2", ethcommon.Big2, 2},
	{"go-ethereum common.Big3", ethcommon.Big3, 3}, {"go-ethereum common.Big32", ethcommon.Big32, 32}, {"go-ethereum common.Big256", ethcommon.Big256, 256},
	{"go-ethereum common.Big257", ethcommon.Big257, 257},
}

// shrink: delta debugging over op lines, keeping a failure with the same signature.
func shrink(p *Property, c Case, sig string) Case {
	has := func(cand Case) bool {
		_, fails, _, _ := safeExec(p, cand)
		for _, f := range fails {
			if f.Signature == sig {
				return true
			}
		}
		return false
	}
	if len(c) > 400 || !has(c) {
		return c
	}
	cur := append(Case{}, c...)
	for chunk := len(cur) / 2; chunk >= 1; chunk /= 2 {
		for i := 0; i+chunk <= len(cur); {
			cand := append(append(Case{}, cur[:i]...), cur[i+chunk:]...)
			if len(cand) > 0 && has(cand) {
				cur = cand
			} else {
				i += chunk
			}
		}
	}
	return cur
}

func ReadCase(path string) (Case, error) {
	b, err := os.ReadFile(path)
	if err != nil {
		return nil, err
	}
	if strings.HasSuffix(path, ".json") {
		var obj struct {
			Case []string `json:"case"`
		}
		if err := json.Unmarshal(b, &obj); err == nil && len(obj.Case) > 0 {
			return obj.Case, nil
		}
	}
	var c Case
	for _, l := range strings.Split(string(b), "\n") {
		l = strings.TrimSpace(l)
		if l == "" || strings.HasPrefix(l, "#") {
			continue
		}
		c = append(c, l)
	}
	return c, nil
}

// ---- small helpers shared by the property files ----

func pick[T any](r *rand.Rand, xs []T) T { return xs[r.Intn(len(xs))] }

func itoa(i int) string { return fmt.Sprint(i) }

func bigStr(b *big.Int) string {
	if b == nil {
		return "0"
	}
	return b.String()
}

func mustBig(s string) *big.Int {
	b, ok := new(big.Int).SetString(s, 10)
	if !ok {
		panic("bad integer " + s)
	}
	return b
}

// randBig draws from a boundary-heavy pool of magnitudes.
func randBig(r *rand.Rand) *big.Int {
	switch r.Intn(10) {
	case 0:
		return big.NewInt(0)
	case 1:
		return big.NewInt(1)
	case 2:
		return big.NewInt(int64(r.Intn(10)))
	case 3, 4:
		return big.NewInt(int64(r.Intn(1000)))
	case 5:
		return big.NewInt(r.Int63())
	case 6:
		return new(big.Int).Lsh(big.NewInt(1), uint(r.Intn(200)))
	case 7:
		x := new(big.Int).Lsh(big.NewInt(1), uint(1+r.Intn(200)))
		return x.Sub(x, big.NewInt(1))
	default:
		x := new(big.Int).Rand(r, new(big.Int).Lsh(big.NewInt(1), uint(1+r.Intn(120))))
		return x
	}
}

type coin struct {
	D int
	V *big.Int
}

func fmtCoins(cs []coin) string {
	if len(cs) == 0 {
		return "-"
	}
	s := make([]string, len(cs))
	for i, c := range cs {
		s[i] = fmt.Sprintf("%d:%s", c.D, c.V.String())
	}
	return strings.Join(s, ",")
}

func parseCoins(s string) []coin {
	if s == "-" {
		return nil
	}
	var out []coin
	for _, it := range strings.Split(s, ",") {
		kv := strings.SplitN(it, ":", 2)
		d := 0
		fmt.Sscan(kv[0], &d)
		out = append(out, coin{D: d, V: mustBig(kv[1])})
	}
	return out
}
