package props

import (
	"fmt"
	"math/big"
	"math/rand"
	"strings"
	"time"

	sdkmath "cosmossdk.io/math"
	sdk "github.com/cosmos/cosmos-sdk/types"
	authtypes "github.com/cosmos/cosmos-sdk/x/auth/types"

	coinomicstypes "github.com/haqq-network/haqq/x/coinomics/types"
	lvtypes "github.com/haqq-network/haqq/x/liquidvesting/types"
	vestingtypes "github.com/haqq-network/haqq/x/vesting/types"
)

// Message-level correspondence for the vesting and liquid-vesting modules (used by C09 and C11).
// The real message servers run on the in-process application; each op line carries the pre-state the real store
// had (filled in by the executor where the generator left a "?"), so the Lean driver is a stateless oracle for
// the transition; harness-only fields follow a "#" token, which the driver ignores.
//
//   mreset | mtime <unix>
//   mcreate <C|A> <pre> <funderIdx> <start> <lockup> <vesting> <merge> # to=<idx>
//   mclaw <pre> <msgFunderIdx> <now> # to=<idx> dest=<idx>
//   mfunder <pre> <msgFunderIdx> <newFunderIdx> # to=<idx>
//   mliq <pre> <amount> <now> # to=<idx>
//   mredeem <dstart> <dend> <dperiods> <pre> <amount> <now> # from=<idx> to=<idx> denom=<k>

type vmEnv struct {
	ctx    sdk.Context
	now    int64
	denoms []string // liquid denominations created in this case, by creation order
}

func vmKV(f []string) map[string]string {
	m := map[string]string{}
	seen := false
	for _, t := range f {
		if t == "#" {
			seen = true
			continue
		}
		if seen {
			kv := strings.SplitN(t, "=", 2)
			if len(kv) == 2 {
				m[kv[0]] = kv[1]
			}
		}
	}
	return m
}

func vmIdx(s string) int {
	n := 0
	fmt.Sscan(s, &n)
	return n
}

func vmFunderIdx(addr string) int {
	for i := 0; i < 64; i++ {
		if testAddr(i).String() == addr {
			return i
		}
	}
	return 999 // module accounts and anything else
}

func vmDumpAcct(ctx sdk.Context, addr sdk.AccAddress) string {
	nw, _ := fixture()
	acc := nw.App.AccountKeeper.GetAccount(ctx, addr)
	if acc == nil {
		return "none"
	}
	va, ok := acc.(*vestingtypes.ClawbackVestingAccount)
	if !ok {
		return "plain"
	}
	return fmt.Sprintf("%d|%d|%d|%s|%s|%s|%s|%s", vmFunderIdx(va.FunderAddress), va.GetStartTime(), va.EndTime, showSdkCoins(va.OriginalVesting),
		showSdkPeriods(va.LockupPeriods), showSdkPeriods(va.VestingPeriods), showSdkCoins(va.DelegatedFree), showSdkCoins(va.DelegatedVesting))
}

func vmBasicClass(err error) string {
	if strings.Contains(err.Error(), "must have same total coins") {
		return "err:unequal"
	}
	return "err:basic"
}

func vmErrClass(err error) string {
	m := err.Error()
	switch {
	case strings.Contains(m, "lockup and vesting amounts must be equal"):
		return "err:unequal"
	case strings.Contains(m, "can only accept grants from"):
		return "err:funder"
	case strings.Contains(m, "already exists") || strings.Contains(m, "must be a clawback vesting account") || strings.Contains(m, "can't be converted"):
		return "err:exists"
	case strings.Contains(m, "clawback can only be requested by original funder") || strings.Contains(m, "is not the current funder"):
		return "err:notFunder"
	case strings.Contains(m, "has no vesting or lockup periods"):
		return "err:noPeriods"
	case strings.Contains(m, "not subject to clawback vesting") || strings.Contains(m, "does not exist") && strings.Contains(m, "account"):
		return "err:notVesting"
	case strings.Contains(m, "has vesting ongoing periods"):
		return "err:hasUnvested"
	case strings.Contains(m, "doesn't contain coin specified"):
		return "err:noTarget"
	case strings.Contains(m, "doesn't have sufficient amount"):
		return "err:insufficientLocked"
	case strings.Contains(m, "failed to calculate new schedule"):
		return "err:scheduleFailed"
	case strings.Contains(m, "is regular nothing to liquidate"):
		return "err:notVesting"
	case strings.Contains(m, "failed to calculate new liquid denom schedule"):
		return "err:schedule"
	case strings.Contains(m, "from account has insufficient balance"):
		return "err:insufficient"
	}
	return "err:other:" + strings.ReplaceAll(m, " ", "_")
}

// vmExec executes one message-level op; returns handled=false if the op is not a message-level op.
func vmExec(env *vmEnv, c Case, i int, fail func(sig, what string), tag func(string)) (out string, handled bool) {
	nw, _ := fixture()
	app := nw.App
	f := strings.Fields(c[i])
	kv := vmKV(f)
	rewrite := func(pos int, v string) {
		f[pos] = v
		c[i] = strings.Join(f, " ")
	}
	bt := func(t int64) time.Time { return time.Unix(t, 0).UTC() }
	switch f[0] {
	case "mreset":
		base := nw.GetContext()
		env.ctx, _ = base.CacheContext()
		env.now = 1000
		env.ctx = env.ctx.WithBlockTime(bt(env.now))
		env.denoms = nil
		// funders 0..2 hold plenty of every denomination
		for fi := 0; fi < 3; fi++ {
			coins := sdk.NewCoins()
			for _, d := range schedDenoms {
				coins = coins.Add(sdk.NewCoin(d, sdkmath.NewIntWithDecimal(1, 40)))
			}
			if err := app.BankKeeper.MintCoins(env.ctx, coinomicstypes.ModuleName, coins); err != nil {
				panic(err)
			}
			if err := app.BankKeeper.SendCoinsFromModuleToAccount(env.ctx, coinomicstypes.ModuleName, testAddr(fi), coins); err != nil {
				panic(err)
			}
		}
		if err := app.LiquidVestingKeeper.SetParams(env.ctx, lvtypes.NewParams(sdkmath.NewInt(1), true)); err != nil {
			panic(err)
		}
		return "ok", true
	case "mtime":
		fmt.Sscan(f[1], &env.now)
		env.ctx = env.ctx.WithBlockTime(bt(env.now))
		return "ok", true
	case "mcreate":
		to := testAddr(vmIdx(kv["to"]))
		funder := vmIdx(f[3])
		var start int64
		fmt.Sscan(f[4], &start)
		lock, vest := parsePeriods(f[5]), parsePeriods(f[6])
		merge := f[7] == "1"
		rewrite(2, vmDumpAcct(env.ctx, to))
		preAcc := app.AccountKeeper.GetAccount(env.ctx, to)
		var preVA *vestingtypes.ClawbackVestingAccount
		if v, ok := preAcc.(*vestingtypes.ClawbackVestingAccount); ok {
			cp := *v
			preVA = &cp
		}
		preBal := app.BankKeeper.GetAllBalances(env.ctx, to)
		cctx, write := env.ctx.CacheContext()
		var err error
		if f[1] == "C" {
			msg := vestingtypes.NewMsgCreateClawbackVestingAccount(testAddr(funder), to, bt(start), sdkPeriods(lock), sdkPeriods(vest), merge)
			if err = msg.ValidateBasic(); err == nil {
				_, err = app.VestingKeeper.CreateClawbackVestingAccount(sdk.WrapSDKContext(cctx), msg)
			} else {
				return vmBasicClass(err), true
			}
		} else {
			msg := vestingtypes.NewMsgConvertIntoVestingAccount(testAddr(funder), to, bt(start), sdkPeriods(lock), sdkPeriods(vest), merge, false, nil)
			if err = msg.ValidateBasic(); err == nil {
				_, err = app.VestingKeeper.ConvertIntoVestingAccount(sdk.WrapSDKContext(cctx), msg)
			} else {
				return vmBasicClass(err), true
			}
		}
		if err != nil {
			tag("mcreate-" + vmErrClass(err))
			return vmErrClass(err), true
		}
		write()
		tag("mcreate-ok")
		out = "ok " + vmDumpAcct(env.ctx, to)
		// ---- monitors on the real result ----
		va := app.AccountKeeper.GetAccount(env.ctx, to).(*vestingtypes.ClawbackVestingAccount)
		if verr := va.Validate(); verr != nil {
			fail("C09:msg:invalid-account-after-grant", fmt.Sprintf("account after %s fails Validate(): %v", c[i], verr))
		}
		granted := schedCoins(totalOf(lock))
		if len(lock) == 0 {
			granted = schedCoins(totalOf(vest))
		}
		if !app.BankKeeper.GetAllBalances(env.ctx, to).IsEqual(preBal.Add(granted...)) {
			fail("C09:msg:grant-not-transferred", fmt.Sprintf("balance %s → %s for grant %s", preBal, app.BankKeeper.GetAllBalances(env.ctx, to), granted))
		}
		if preVA != nil {
			tag("merge")
			// merge = union: strictly after both starts the merged account releases the sum
			gl, gv := lock, vest
			if len(gl) == 0 {
				gl = []period{{L: 0, A: totalOf(vest)}}
			}
			if len(gv) == 0 {
				gv = []period{{L: 0, A: totalOf(lock)}}
			}
			mx := preVA.GetStartTime()
			if start > mx {
				mx = start
			}
			var ts []int64
			for _, e := range append(eventTimes(start, gl), eventTimes(start, gv)...) {
				ts = append(ts, e-1, e, e+1)
			}
			cum := preVA.GetStartTime()
			for _, p := range preVA.LockupPeriods {
				cum += p.Length
				ts = append(ts, cum-1, cum, cum+1)
			}
			ts = append(ts, mx+1, va.EndTime, va.EndTime+1)
			for _, t := range ts {
				if t <= mx {
					continue
				}
				wantU := coinsVec(preVA.GetUnlockedCoins(bt(t)))
				wantV := coinsVec(preVA.GetVestedCoins(bt(t)))
				gu, gvv := stepRef(start, gl, t), stepRef(start, gv, t)
				gotU, gotV := coinsVec(va.GetUnlockedCoins(bt(t))), coinsVec(va.GetVestedCoins(bt(t)))
				for d := 0; d < 3; d++ {
					wantU[d] = new(big.Int).Add(wantU[d], gu[d])
					wantV[d] = new(big.Int).Add(wantV[d], gvv[d])
				}
				if !vecEq(gotU, wantU) || !vecEq(gotV, wantV) {
					sig := "C09:msg:merge-not-union"
					if start > preVA.GetStartTime() {
						sig += ":grant-starts-later"
					}
					fail(sig, fmt.Sprintf("t=%d: merged account unlocked %s vested %s, account+grant give %s / %s", t, vecStr(gotU), vecStr(gotV), vecStr(wantU), vecStr(wantV)))
					break
				}
			}
		}
		return out, true
	case "mclaw":
		to := testAddr(vmIdx(kv["to"]))
		dest := testAddr(vmIdx(kv["dest"]))
		mf := vmIdx(f[2])
		rewrite(1, vmDumpAcct(env.ctx, to))
		rewrite(3, fmt.Sprint(env.now))
		preAcc := app.AccountKeeper.GetAccount(env.ctx, to)
		var preVA *vestingtypes.ClawbackVestingAccount
		if v, ok := preAcc.(*vestingtypes.ClawbackVestingAccount); ok {
			cp := *v
			preVA = &cp
		}
		preDest := app.BankKeeper.GetAllBalances(env.ctx, dest)
		preTo := app.BankKeeper.GetAllBalances(env.ctx, to)
		cctx, write := env.ctx.CacheContext()
		msg := vestingtypes.NewMsgClawback(testAddr(mf), to, dest)
		_, err := app.VestingKeeper.Clawback(sdk.WrapSDKContext(cctx), msg)
		if err != nil {
			tag("mclaw-" + vmErrClass(err))
			return vmErrClass(err), true
		}
		write()
		clawed := app.BankKeeper.GetAllBalances(env.ctx, dest).Sub(preDest...)
		out = fmt.Sprintf("ok clawed=%s %s", showSdkCoins(clawed), vmDumpAcct(env.ctx, to))
		tag("mclaw-ok")
		if preVA != nil {
			if vmFunderIdx(preVA.FunderAddress) != mf {
				fail("C09:msg:clawback-by-non-funder", fmt.Sprintf("clawback by %d succeeded, recorded funder %s", mf, preVA.FunderAddress))
			}
			unv := preVA.GetVestingCoins(bt(env.now))
			if !clawed.IsEqual(unv) && !(clawed.IsZero() && unv.IsZero()) {
				fail("C09:msg:clawback-amount", fmt.Sprintf("destination received %s, unvested at %d was %s", clawed, env.now, unv))
			}
			if !preTo.Sub(clawed...).IsEqual(app.BankKeeper.GetAllBalances(env.ctx, to)) {
				fail("C09:msg:clawback-account-debit", fmt.Sprintf("account balance %s → %s, clawed %s", preTo, app.BankKeeper.GetAllBalances(env.ctx, to), clawed))
			}
			if !clawed.IsZero() {
				tag("clawed>0")
				va := app.AccountKeeper.GetAccount(env.ctx, to).(*vestingtypes.ClawbackVestingAccount)
				if verr := va.Validate(); verr != nil {
					fail("C09:clawback:invalid-account:"+strings.TrimPrefix(c09ValidateClass(verr), "err:"), fmt.Sprintf("account after clawback at %d fails Validate(): %v", env.now, verr))
				}
			}
		}
		return out, true
	case "mfunder":
		to := testAddr(vmIdx(kv["to"]))
		mf, nf := vmIdx(f[2]), vmIdx(f[3])
		rewrite(1, vmDumpAcct(env.ctx, to))
		pre := app.AccountKeeper.GetAccount(env.ctx, to)
		cctx, write := env.ctx.CacheContext()
		_, err := app.VestingKeeper.UpdateVestingFunder(sdk.WrapSDKContext(cctx), vestingtypes.NewMsgUpdateVestingFunder(testAddr(mf), testAddr(nf), to))
		if err != nil {
			return vmErrClass(err), true
		}
		write()
		if v, ok := pre.(*vestingtypes.ClawbackVestingAccount); ok && vmFunderIdx(v.FunderAddress) != mf {
			fail("C09:msg:funder-update-by-non-funder", fmt.Sprintf("funder update by %d succeeded, recorded funder %s", mf, v.FunderAddress))
		}
		tag("mfunder-ok")
		return "ok " + vmDumpAcct(env.ctx, to), true
	case "mliq":
		to := testAddr(vmIdx(kv["to"]))
		amt := mustBig(f[2])
		rewrite(1, vmDumpAcct(env.ctx, to))
		rewrite(3, fmt.Sprint(env.now))
		preAcc := app.AccountKeeper.GetAccount(env.ctx, to)
		var preVA *vestingtypes.ClawbackVestingAccount
		if v, ok := preAcc.(*vestingtypes.ClawbackVestingAccount); ok {
			cp := *v
			preVA = &cp
		}
		modAddr := authtypes.NewModuleAddress(lvtypes.ModuleName)
		preEscrow := app.BankKeeper.GetBalance(env.ctx, modAddr, "aISLM").Amount
		cctx, write := env.ctx.CacheContext()
		res, err := app.LiquidVestingKeeper.Liquidate(sdk.WrapSDKContext(cctx), lvtypes.NewMsgLiquidate(to, to, sdk.NewCoin("aISLM", sdkmath.NewIntFromBigInt(amt))))
		if err != nil {
			tag("mliq-" + vmErrClass(err))
			return vmErrClass(err), true
		}
		write()
		tag("mliq-ok")
		env.denoms = append(env.denoms, res.Minted.Denom)
		d, _ := app.LiquidVestingKeeper.GetDenom(env.ctx, res.Minted.Denom)
		out = fmt.Sprintf("ok %s denom=%d,%d,%s", vmDumpAcct(env.ctx, to), d.StartTime.Unix(), d.EndTime.Unix(), showSdkPeriods(d.LockupPeriods))
		// ---- monitors: exact split at the same instants; backing ----
		va := app.AccountKeeper.GetAccount(env.ctx, to).(*vestingtypes.ClawbackVestingAccount)
		var ts []int64
		cum := preVA.GetStartTime()
		for _, p := range preVA.LockupPeriods {
			cum += p.Length
			ts = append(ts, cum-1, cum, cum+1)
		}
		ts = append(ts, env.now, env.now+1, preVA.EndTime, preVA.EndTime+1)
		for _, t := range ts {
			old := preVA.GetUnlockedCoins(bt(t)).AmountOf("aISLM").BigInt()
			acc := va.GetUnlockedCoins(bt(t)).AmountOf("aISLM").BigInt()
			liq := vestingtypes.ReadSchedule(d.StartTime.Unix(), d.EndTime.Unix(), d.LockupPeriods, d.LockupPeriods.TotalAmount(), t).AmountOf("aISLM").BigInt()
			sum := new(big.Int).Add(acc, liq)
			if sum.Cmp(old) != 0 {
				sig := "C11:msg:liquidate-split-mismatch"
				if sum.Cmp(old) > 0 {
					sig = "C11:msg:liquidate-unlocks-early"
				}
				fail(sig, fmt.Sprintf("t=%d: account unlocked %s + liquid schedule %s ≠ unlocked before %s", t, acc, liq, old))
				break
			}
		}
		if got := app.BankKeeper.GetBalance(env.ctx, modAddr, "aISLM").Amount.Sub(preEscrow); !got.Equal(sdkmath.NewIntFromBigInt(amt)) {
			fail("C11:msg:escrow-delta", fmt.Sprintf("module escrow grew by %s for a liquidation of %s", got, amt))
		}
		vmBacking(env, fail)
		return out, true
	case "mredeem":
		from, to := testAddr(vmIdx(kv["from"])), testAddr(vmIdx(kv["to"]))
		k := vmIdx(kv["denom"])
		if k >= len(env.denoms) {
			rewrite(5, "1")
			rewrite(1, "0")
			rewrite(2, "0")
			rewrite(3, "-")
			rewrite(4, "none")
			rewrite(6, fmt.Sprint(env.now))
			return "err:schedule", true
		}
		name := env.denoms[k]
		d, found := app.LiquidVestingKeeper.GetDenom(env.ctx, name)
		if !found {
			rewrite(5, "1")
			rewrite(1, "0")
			rewrite(2, "0")
			rewrite(3, "-")
			rewrite(4, vmDumpAcct(env.ctx, to))
			rewrite(6, fmt.Sprint(env.now))
			return "err:schedule", true
		}
		if f[5] == "all" {
			rewrite(5, app.BankKeeper.GetSupply(env.ctx, name).Amount.String())
		}
		amt := mustBig(f[5])
		rewrite(1, fmt.Sprint(d.StartTime.Unix()))
		rewrite(2, fmt.Sprint(d.EndTime.Unix()))
		rewrite(3, showSdkPeriods(d.LockupPeriods))
		rewrite(4, vmDumpAcct(env.ctx, to))
		rewrite(6, fmt.Sprint(env.now))
		var preVA *vestingtypes.ClawbackVestingAccount
		if v, ok := app.AccountKeeper.GetAccount(env.ctx, to).(*vestingtypes.ClawbackVestingAccount); ok {
			cp := *v
			preVA = &cp
		}
		preTo := app.BankKeeper.GetBalance(env.ctx, to, "aISLM").Amount
		cctx, write := env.ctx.CacheContext()
		_, err := app.LiquidVestingKeeper.Redeem(sdk.WrapSDKContext(cctx), lvtypes.NewMsgRedeem(from, to, sdk.NewCoin(name, sdkmath.NewIntFromBigInt(amt))))
		if err != nil {
			tag("mredeem-" + vmErrClass(err))
			return vmErrClass(err), true
		}
		write()
		tag("mredeem-ok")
		left := "deleted"
		if d2, ok := app.LiquidVestingKeeper.GetDenom(env.ctx, name); ok {
			left = fmt.Sprintf("%d,%d,%s", d2.StartTime.Unix(), d2.EndTime.Unix(), showSdkPeriods(d2.LockupPeriods))
		}
		out = fmt.Sprintf("ok left=%s acct=%s", left, vmDumpAcct(env.ctx, to))
		// ---- monitors ----
		if got := app.BankKeeper.GetBalance(env.ctx, to, "aISLM").Amount.Sub(preTo); !got.Equal(sdkmath.NewIntFromBigInt(amt)) {
			fail("C11:msg:redeem-amount", fmt.Sprintf("recipient received %s for a redeem of %s", got, amt))
		}
		// nothing earlier than the liquid denomination's schedule: at every instant the recipient's newly unlocked
		// amount (relative to what it had) is at most the redeemed share of what the denomination had released
		total := d.LockupPeriods.TotalAmount().AmountOf("aISLM").BigInt()
		// (the end of the liquid schedule is its start plus its lengths — computed here, not read back from the record)
		ownEnd := d.StartTime.Unix() + d.LockupPeriods.TotalLength()
		if _, isVest := app.AccountKeeper.GetAccount(env.ctx, to).(*vestingtypes.ClawbackVestingAccount); !isVest && total.Sign() > 0 {
			stillLocked := new(big.Int).Sub(total, vestingtypes.ReadSchedule(d.StartTime.Unix(), ownEnd, d.LockupPeriods, d.LockupPeriods.TotalAmount(), env.now+1).AmountOf("aISLM").BigInt())
			if need := new(big.Int).Quo(new(big.Int).Mul(stillLocked, amt), total); need.Cmp(big.NewInt(int64(len(d.LockupPeriods)))) > 0 {
				fail("C11:msg:redeem-unlocks-early", fmt.Sprintf("the recipient of %s redeemed coins is a plain account afterwards (no schedule at all) although the liquid schedule still keeps %s of %s locked", amt, stillLocked, total))
			}
		}
		if va, ok := app.AccountKeeper.GetAccount(env.ctx, to).(*vestingtypes.ClawbackVestingAccount); ok && total.Sign() > 0 {
			var ts []int64
			cum := d.StartTime.Unix()
			for _, p := range d.LockupPeriods {
				cum += p.Length
				ts = append(ts, cum-1, cum, cum+1)
			}
			ts = append(ts, env.now, env.now+1)
			for _, t := range ts {
				if t <= env.now {
					continue
				}
				lockedNow := va.GetLockedUpCoins(bt(t)).AmountOf("aISLM").BigInt()
				lockedBefore := new(big.Int)
				if preVA != nil {
					lockedBefore = preVA.GetLockedUpCoins(bt(t)).AmountOf("aISLM").BigInt()
				}
				// what the denomination still had locked at t, scaled to the redeemed amount (floor): a lower bound
				// for what must still be locked of the redeemed coins
				dl := new(big.Int).Sub(total, vestingtypes.ReadSchedule(d.StartTime.Unix(), ownEnd, d.LockupPeriods, d.LockupPeriods.TotalAmount(), t).AmountOf("aISLM").BigInt())
				need := new(big.Int).Mul(dl, amt)
				need.Quo(need, total)
				need.Sub(need, big.NewInt(int64(len(d.LockupPeriods)))) // rounding slack of the proportional split
				have := new(big.Int).Sub(lockedNow, lockedBefore)
				if have.Cmp(need) < 0 {
					fail("C11:msg:redeem-unlocks-early", fmt.Sprintf("t=%d: of the redeemed %s only %s are still locked on the recipient, the liquid schedule kept %s of %s locked", t, amt, have, dl, total))
					break
				}
			}
		}
		vmBacking(env, fail)
		return out, true
	}
	return "", false
}

// vmBacking: every liquid denomination's recorded schedule sums to its bank supply and the module escrow equals
// the total liquid supply.
func vmBacking(env *vmEnv, fail func(sig, what string)) {
	nw, _ := fixture()
	app := nw.App
	sum := sdkmath.ZeroInt()
	for _, d := range app.LiquidVestingKeeper.GetAllDenoms(env.ctx) {
		sup := app.BankKeeper.GetSupply(env.ctx, d.BaseDenom).Amount
		sched := d.LockupPeriods.TotalAmount().AmountOf(d.OriginalDenom)
		if !sup.Equal(sched) {
			fail("C11:msg:schedule-ne-supply", fmt.Sprintf("%s: schedule sums to %s, supply %s", d.BaseDenom, sched, sup))
		}
		sum = sum.Add(sup)
	}
	esc := app.BankKeeper.GetBalance(env.ctx, authtypes.NewModuleAddress(lvtypes.ModuleName), "aISLM").Amount
	if !esc.Equal(sum) {
		fail("C11:msg:escrow-ne-supply", fmt.Sprintf("module escrow %s ≠ total liquid supply %s", esc, sum))
	}
}

// ---- generators ----

// vmGenHistory: a create / merge / clawback / funder-update history on one or two vesting accounts.
func vmGenC09(r *rand.Rand, maxN int) Case {
	c := Case{"mreset"}
	now := int64(1000)
	nd := 1 + r.Intn(2)
	msgPeriods := func() []period { // message periods: length ≥ 1
		ps := genPeriods(r, maxN, nd, 1)
		for i := range ps {
			if ps[i].L > 5000 {
				ps[i].L = int64(1 + r.Intn(3000))
			}
			for j := range ps[i].A {
				if ps[i].A[j].V.BitLen() > 100 {
					ps[i].A[j].V = big.NewInt(int64(1 + r.Intn(1_000_000)))
				}
			}
		}
		return ps
	}
	grant := func() (string, string) {
		lock := msgPeriods()
		if len(lock) == 0 {
			lock = []period{{L: int64(1 + r.Intn(500)), A: genAmount(r, nd)}}
			for j := range lock[0].A {
				if lock[0].A[j].V.BitLen() > 100 {
					lock[0].A[j].V = big.NewInt(int64(1 + r.Intn(1_000_000)))
				}
			}
		}
		tot := totalOf(lock)
		switch r.Intn(4) {
		case 0:
			return fmtPeriods(lock), "-" // default vesting
		case 1:
			return "-", fmtPeriods(lock) // default lockup
		}
		k := 1 + r.Intn(maxN)
		vest := make([]period, k)
		rem := map[int]*big.Int{}
		for _, cn := range tot {
			rem[cn.D] = new(big.Int).Set(cn.V)
		}
		for j := 0; j < k; j++ {
			var a []coin
			for d := 0; d < 3; d++ {
				if rem[d] == nil || rem[d].Sign() == 0 {
					continue
				}
				v := new(big.Int).Set(rem[d])
				if j < k-1 {
					v = new(big.Int).Rand(r, new(big.Int).Add(rem[d], big.NewInt(1)))
				}
				if v.Sign() > 0 {
					a = append(a, coin{D: d, V: v})
					rem[d].Sub(rem[d], v)
				}
			}
			if len(a) == 0 {
				vest = vest[:j]
				break
			}
			vest[j] = period{L: int64(1 + r.Intn(800)), A: a}
		}
		if len(vest) == 0 {
			return fmtPeriods(lock), "-"
		}
		if r.Intn(12) == 0 { // unequal totals
			vest[0].A[0].V = new(big.Int).Add(vest[0].A[0].V, big.NewInt(1))
		}
		return fmtPeriods(lock), fmtPeriods(vest)
	}
	to := 10 + r.Intn(2)
	funder := r.Intn(2)
	steps := 3 + r.Intn(8)
	for s := 0; s < steps; s++ {
		switch k := r.Intn(10); {
		case k < 4:
			l, v := grant()
			start := now + int64(r.Intn(600)) - 300
			kind := pick(r, []string{"C", "A"})
			merge := r.Intn(4) > 0
			f := funder
			if r.Intn(8) == 0 {
				f = (funder + 1) % 3
			}
			c = append(c, fmt.Sprintf("mcreate %s ? %d %d %s %s %d # to=%d", kind, f, start, l, v, map[bool]int{true: 1, false: 0}[merge], to))
		case k < 6:
			now += int64(r.Intn(900))
			c = append(c, fmt.Sprintf("mtime %d", now))
		case k < 8:
			f := funder
			if r.Intn(5) == 0 {
				f = (funder + 1) % 3
			}
			c = append(c, fmt.Sprintf("mclaw ? %d ? # to=%d dest=%d", f, to, 20+r.Intn(2)))
		default:
			f := funder
			if r.Intn(4) == 0 {
				f = 2
			}
			nf := r.Intn(3)
			c = append(c, fmt.Sprintf("mfunder ? %d %d # to=%d", f, nf, to))
			if f == funder {
				funder = nf
			}
		}
	}
	return c
}

// vmGenC11: create a fully vested, still locked account; liquidate (several times, mid-period); transfer is
// implicit (redeem from the holder to self / another vesting account / a fresh address); partial and full redeems.
func vmGenC11(r *rand.Rand, maxN int) Case {
	c := Case{"mreset"}
	n := 1 + r.Intn(maxN)
	lock := make([]period, n)
	for i := range lock {
		lock[i] = period{L: int64(1 + r.Intn(400)), A: []coin{{D: 0, V: big.NewInt(int64(1000 + r.Intn(1_000_000)))}}}
		if r.Intn(4) == 0 {
			lock[i].L = int64(1 + r.Intn(3))
		}
	}
	if r.Intn(5) == 0 {
		// a lockup of several centuries (valid: lengths only have to be positive): its total length in nanoseconds does
		// not fit 64 bits
		lock[n-1].L = 10_000_000_000 + int64(r.Intn(5_000_000_000))
	}
	start := int64(1000)
	// vesting default (everything vested at once) or a short vesting schedule that ends early
	vest := "-"
	if r.Intn(3) == 0 {
		vest = fmtPeriods([]period{{L: 1, A: totalOf(lock)}})
	}
	c = append(c, fmt.Sprintf("mcreate C ? 0 %d %s %s 0 # to=10", start, fmtPeriods(lock), vest))
	if r.Intn(3) == 0 { // a second vesting account that may receive redeems (started earlier or later)
		s2 := start + int64(r.Intn(400)) - 200
		c = append(c, fmt.Sprintf("mcreate C ? 1 %d %s - 0 # to=11", s2, fmtPeriods([]period{{L: int64(50 + r.Intn(900)), A: []coin{{D: 0, V: big.NewInt(int64(500 + r.Intn(5000)))}}}})))
	}
	now := start + 2
	c = append(c, fmt.Sprintf("mtime %d", now))
	end := start + totalLen(lock)
	nl := 0
	for s := 0; s < 4+r.Intn(9); s++ {
		k := r.Intn(10)
		if nl == 0 && k >= 6 {
			k = 4
		}
		switch {
		case k < 2:
			span := end - start
			if span > 100_000 {
				span = 100_000
			}
			step := int64(r.Intn(int(span)/2 + 2))
			now += step
			c = append(c, fmt.Sprintf("mtime %d", now))
		case k < 6:
			amt := big.NewInt(int64(1 + r.Intn(200_000)))
			if r.Intn(6) == 0 {
				amt = new(big.Int).Lsh(big.NewInt(1), 40)
			}
			c = append(c, fmt.Sprintf("mliq ? %s ? # to=10", amt))
			nl++
		default:
			if nl == 0 {
				continue
			}
			amt := big.NewInt(int64(1 + r.Intn(100_000))).String()
			switch r.Intn(6) {
			case 0:
				amt = new(big.Int).Lsh(big.NewInt(1), 60).String() // more than held → fails
			case 1, 2:
				amt = "all"
			}
			to := pick(r, []int{10, 10, 11, 30 + r.Intn(3)})
			c = append(c, fmt.Sprintf("mredeem ? ? ? ? %s ? # from=10 to=%d denom=%d", amt, to, r.Intn(nl)))
		}
	}
	return c
}
