package props

import (
	"fmt"
	"math/big"
	"math/rand"
	"strings"

	sdkmath "cosmossdk.io/math"
	sdk "github.com/cosmos/cosmos-sdk/types"

	lvtypes "github.com/haqq-network/haqq/x/liquidvesting/types"
)

// C11 — liquid vesting, pure level. Ops (shared with lean/HaqqModel/Driver/C11.lean):
//
//	sub periods denom s | upcoming s e periods t | pastp s e periods t | rtail periods repl | shift start now periods
func init() {
	Register(&Property{
		ID:   "C11",
		Gen:  c11Gen,
		Exec: c11Exec,
		NonTrivial: func(tags []string) bool {
			return hasTag(tags, "sub-ok-residue") || hasTag(tags, "sub-ok")
		},
		Rule: "SubtractAmountFromPeriods / ExtractUpcoming|PastPeriods / ReplacePeriodsTail / CurrentPeriodShift on generated schedules (0–8 periods quick / 0–30 thorough; amounts incl. 1, primes, huge; multi-denomination periods; subtrahend in {1, total, total−1, total+1, random}); non-trivial = a successful subtraction; distinct = distinct op sequences",
	})
}

func c11Gen(r *rand.Rand, tier string) []Case {
	n, maxN := 500, 8
	if tier == "thorough" {
		n, maxN = 20000, 30
	}
	var out []Case
	primes := []int64{2, 3, 5, 7, 11, 13, 101, 997, 7919, 104729}
	for i := 0; i < n; i++ {
		var c Case
		nd := 1 + r.Intn(3)
		ps := genPeriods(r, maxN, nd, 0)
		if r.Intn(3) == 0 {
			for j := range ps {
				for k := range ps[j].A {
					ps[j].A[k].V = big.NewInt(pick(r, primes))
				}
			}
		}
		denom := r.Intn(nd)
		tot := new(big.Int)
		for _, p := range ps {
			for _, a := range p.A {
				if a.D == denom {
					tot.Add(tot, a.V)
				}
			}
		}
		subs := []*big.Int{big.NewInt(1), new(big.Int).Set(tot), new(big.Int).Sub(tot, big.NewInt(1)), new(big.Int).Add(tot, big.NewInt(1)), big.NewInt(0)}
		if tot.Sign() > 0 {
			subs = append(subs, new(big.Int).Rand(r, tot), new(big.Int).Rand(r, tot))
		}
		for _, s := range subs {
			if s.Sign() < 0 {
				continue
			}
			c = append(c, fmt.Sprintf("sub %s %d %s", fmtPeriods(ps), denom, s))
		}
		s0 := int64(1000 + r.Intn(100))
		e := s0 + totalLen(ps) + int64(r.Intn(3))
		for _, t := range pickTimes(r, eventTimes(s0, ps), s0) {
			c = append(c, fmt.Sprintf("upcoming %d %d %s %d", s0, e, fmtPeriods(ps), t))
			c = append(c, fmt.Sprintf("pastp %d %d %s %d", s0, e, fmtPeriods(ps), t))
			c = append(c, fmt.Sprintf("shift %d %d %s", s0, t, fmtPeriods(ps)))
		}
		rp := genPeriods(r, maxN, nd, 0)
		c = append(c, fmt.Sprintf("rtail %s %s", fmtPeriods(ps), fmtPeriods(rp)))
		if len(ps) > 0 {
			c = append(c, fmt.Sprintf("rtail %s %s", fmtPeriods(ps), fmtPeriods(ps[r.Intn(len(ps)):])))
		}
		out = append(out, c)
	}
	// message level: liquidate (mid-period, repeatedly), partial and full redeems to self / another vesting
	// account / a fresh address, on the real app
	nm := 60
	if tier == "thorough" {
		nm = 1500
	}
	for i := 0; i < nm; i++ {
		out = append(out, vmGenC11(r, 5))
	}
	return out
}

func c11Exec(c Case) (outs []string, fails []Failure, tags []string) {
	env := &vmEnv{}
	for i, line := range c {
		f := strings.Fields(line)
		out := "bad-op"
		if strings.HasPrefix(f[0], "m") {
			func() {
				defer func() {
					if r := recover(); r != nil {
						out = "panic:" + strings.ReplaceAll(fmt.Sprint(r), " ", "_")
					}
				}()
				o, ok := vmExec(env, c, i, func(sig, what string) {
					fails = append(fails, Failure{Signature: sig, What: what, Case: c[:i+1]})
				}, func(t string) {
					tags = append(tags, t)
					if t == "mliq-ok" || t == "mredeem-ok" {
						tags = append(tags, "sub-ok")
					}
				})
				if ok {
					out = o
					if f[0] == "mcreate" {
						out = "skip"
					}
				}
			}()
			outs = append(outs, out)
			continue
		}
		func() {
			defer func() {
				if r := recover(); r != nil {
					out = "panic"
				}
			}()
			switch f[0] {
			case "sub":
				ps := parsePeriods(f[1])
				var d int
				fmt.Sscan(f[2], &d)
				s := mustBig(f[3])
				dec, diff, err := lvtypes.SubtractAmountFromPeriods(sdkPeriods(ps), sdk.NewCoin(schedDenoms[d], sdkmath.NewIntFromBigInt(s)))
				if err != nil {
					out = "err"
					return
				}
				out = fmt.Sprintf("ok dec=%s diff=%s", showSdkPeriods(dec), showSdkPeriods(diff))
				tags = append(tags, "sub-ok")
				// monitors: per-period conservation in every denomination, lengths, total moved
				fl := func(sig, what string) { fails = append(fails, Failure{Signature: sig, What: what, Case: c[i : i+1]}) }
				if len(dec) != len(ps) || len(diff) != len(ps) {
					fl("C11:sub-count", fmt.Sprintf("%d periods in, %d left, %d moved", len(ps), len(dec), len(diff)))
					return
				}
				moved := new(big.Int)
				in := sdkPeriods(ps)
				for j := range ps {
					if dec[j].Length != ps[j].L || diff[j].Length != ps[j].L {
						fl("C11:sub-length", fmt.Sprintf("period %d: lengths %d/%d vs %d", j, dec[j].Length, diff[j].Length, ps[j].L))
					}
					if !dec[j].Amount.Add(diff[j].Amount...).IsEqual(in[j].Amount) && !(dec[j].Amount.Add(diff[j].Amount...).IsZero() && in[j].Amount.IsZero()) {
						fl("C11:sub-not-conserved", fmt.Sprintf("period %d: left %s + moved %s ≠ original %s", j, dec[j].Amount, diff[j].Amount, in[j].Amount))
					}
					for _, cn := range diff[j].Amount {
						if cn.Denom != schedDenoms[d] {
							fl("C11:sub-foreign-denom", fmt.Sprintf("period %d moved %s", j, cn))
						}
					}
					if dec[j].Amount.IsAnyNegative() || diff[j].Amount.IsAnyNegative() {
						fl("C11:sub-negative", fmt.Sprintf("period %d: %s / %s", j, dec[j].Amount, diff[j].Amount))
					}
					moved.Add(moved, diff[j].Amount.AmountOf(schedDenoms[d]).BigInt())
				}
				if moved.Cmp(s) != 0 {
					fl("C11:sub-total", fmt.Sprintf("moved %s, requested %s", moved, s))
				}
			case "upcoming", "pastp":
				var s, e, t int64
				fmt.Sscan(f[1], &s)
				fmt.Sscan(f[2], &e)
				fmt.Sscan(f[4], &t)
				if f[0] == "upcoming" {
					out = showSdkPeriods(lvtypes.ExtractUpcomingPeriods(s, e, sdkPeriods(parsePeriods(f[3])), t))
				} else {
					out = showSdkPeriods(lvtypes.ExtractPastPeriods(s, e, sdkPeriods(parsePeriods(f[3])), t))
				}
			case "rtail":
				out = showSdkPeriods(lvtypes.ReplacePeriodsTail(sdkPeriods(parsePeriods(f[1])), sdkPeriods(parsePeriods(f[2]))))
			case "shift":
				var s, now int64
				fmt.Sscan(f[1], &s)
				fmt.Sscan(f[2], &now)
				out = fmt.Sprint(lvtypes.CurrentPeriodShift(s, now, sdkPeriods(parsePeriods(f[3]))))
			}
		}()
		outs = append(outs, out)
	}
	return
}
