package props

import (
	"fmt"
	sdkvesting "github.com/cosmos/cosmos-sdk/x/auth/vesting/types"
	vestingtypes "github.com/haqq-network/haqq/x/vesting/types"
	"math/big"
	"math/rand"
	"os"
	"strings"

	sdkmath "cosmossdk.io/math"
	abci "github.com/cometbft/cometbft/abci/types"
	"github.com/cosmos/cosmos-sdk/client"
	clienttx "github.com/cosmos/cosmos-sdk/client/tx"
	codectypes "github.com/cosmos/cosmos-sdk/codec/types"
	sdk "github.com/cosmos/cosmos-sdk/types"
	"github.com/cosmos/cosmos-sdk/types/tx/signing"
	authsigning "github.com/cosmos/cosmos-sdk/x/auth/signing"
	authtx "github.com/cosmos/cosmos-sdk/x/auth/tx"
	banktypes "github.com/cosmos/cosmos-sdk/x/bank/types"
	"github.com/cosmos/cosmos-sdk/x/feegrant"
	"github.com/ethereum/go-ethereum/common"
	ethtypes "github.com/ethereum/go-ethereum/core/types"

	utiltx "github.com/haqq-network/haqq/testutil/tx"
	haqqtypes "github.com/haqq-network/haqq/types"
	"github.com/haqq-network/haqq/ethereum/eip712"
	evmtypes "github.com/haqq-network/haqq/x/evm/types"
)

// C03 — only the key holder authorises, once.  Real transactions through BaseApp.DeliverTx (full ante chains).
//
//	eth ? ? # k=<key> offs=<o1,o2,…> [type=legacy|access|dynamic]    one Ethereum-route tx whose messages carry the nonces seq+o_i
//	eth ? ? # k=<key> replay=1                                        the last accepted Ethereum-route tx of that key again
//	cos ? ? <chainOk> <intact> # k= signseq=<d> chain=ok|other mutate=none|memo|amount|fee|gas|to|timeout [replay=1]
//	e712 … same fields, the EIP-712 route (legacy typed data / legacy extension variants)
//	mut # k= type=legacy|access|dynamic field=nonce|price|tip|gas|to|value|data|accesslist|chainid|v|r|s|foreignchain
//
// The executor fills in the account's sequence and the absolute nonces, so that the Lean driver is a stateless oracle.
type c03Env struct {
	lastEth       map[int][]byte
	lastEthNonces map[int]string
	lastEthMsgs   map[int][]*evmtypes.MsgEthereumTx // the messages of the last accepted Ethereum-route transaction, one by one
	lastCos       map[string][]byte
	lastCosSeq    map[string]uint64
	// the checks' own record of the sequence numbers under which each key's transactions have been executed
	// (Ethereum nonces and Cosmos sequences are the same counter): none may ever be used twice
	used map[int]map[uint64]bool
}

var c03State = &c03Env{lastEthMsgs: map[int][]*evmtypes.MsgEthereumTx{}, lastEth: map[int][]byte{}, lastEthNonces: map[int]string{}, lastCos: map[string][]byte{}, lastCosSeq: map[string]uint64{}, used: map[int]map[uint64]bool{}}

// c03Use records that key k executed a transaction under the sequence number n; false if n was used before.
func c03Use(k int, n uint64) bool {
	if c03State.used[k] == nil {
		c03State.used[k] = map[uint64]bool{}
	}
	if c03State.used[k][n] {
		return false
	}
	c03State.used[k][n] = true
	return true
}

var c03Fresh int

// c03RegisteredCoin registers the coin "atokc" with the ERC20 module (once per process) and gives `to` some of it.
func c03RegisteredCoin(to sdk.AccAddress) {
	nw, _ := fixture()
	app := nw.App
	ctx := nw.GetContext()
	coins := sdk.NewCoins(sdk.NewCoin("atokc", sdkmath.NewInt(1_000)))
	if err := app.BankKeeper.MintCoins(ctx, "coinomics", coins); err != nil {
		panic(err)
	}
	if err := app.BankKeeper.SendCoinsFromModuleToAccount(ctx, "coinomics", to, coins); err != nil {
		panic(err)
	}
	if _, found := app.Erc20Keeper.GetTokenPair(ctx, app.Erc20Keeper.GetTokenPairID(ctx, "atokc")); !found {
		md := banktypes.Metadata{Description: "c03", Base: "atokc", Display: "tokc", Name: "atokc", Symbol: "TOKC",
			DenomUnits: []*banktypes.DenomUnit{{Denom: "atokc", Exponent: 0}, {Denom: "tokc", Exponent: 18}}}
		if _, err := app.Erc20Keeper.RegisterCoin(ctx, md); err != nil {
			panic(err)
		}
	}
}

func c03Gen(r *rand.Rand, tier string) []Case {
	n := 16
	if tier == "thorough" {
		n = 500
	}
	var out []Case
	// every post-signing change on every route once, next to an untouched transaction of the same route
	for _, route := range []string{"cos", "e712", "e712l", "e712a"} {
		c := Case{fmt.Sprintf("%s ? ? ? ? # k=1 signseq=0 chain=ok mutate=none", route)}
		for _, mut := range []string{"memo", "amount", "fee", "gas", "to", "timeout", "extopt", "granter"} {
			c = append(c, fmt.Sprintf("%s ? ? ? ? # k=1 signseq=0 chain=ok mutate=%s", route, mut))
		}
		c = append(c, fmt.Sprintf("%s ? ? ? ? # k=1 signseq=0 chain=other mutate=none", route), fmt.Sprintf("%s ? ? ? ? # k=1 signseq=0 chain=ok mutate=none", route))
		out = append(out, c)
	}
	// fixed case: transactions, a replay (refused), the account converted into a vesting account by someone else, the
	// same replays again
	out = append(out, Case{"eth ? ? # k=2 offs=0 type=legacy", "cos ? ? ? ? # k=2 signseq=0 chain=ok mutate=none", "eth ? ? # k=2 offs=0,1 type=dynamic",
		"eth ? ? # k=2 replay=1", "cos ? ? ? ? # k=2 replay=1", "vconv # k=2", "eth ? ? # k=2 replay=1", "cos ? ? ? ? # k=2 replay=1",
		"eth ? ? # k=2 offs=0 type=access", "eth ? ? # k=2 replay=1", "ethfrom # k=1 v=2", "ethfrom # k=3 v=1", "eth ? ? # k=1 offs=0 type=legacy"})
	// fixed case: an account that has sent transactions sends a coin with a registered ERC20 pair to an address without an
	// account; what it signed before is delivered again afterwards
	out = append(out, Case{"eth ? ? # k=2 offs=0 type=legacy", "eth ? ? # k=2 offs=0 type=dynamic", "cos ? ? ? ? # k=2 signseq=0 chain=ok mutate=none coin=reg",
		"eth ? ? # k=2 replay=1", "cos ? ? ? ? # k=2 replay=1", "eth ? ? # k=2 offs=0 type=legacy", "e712 ? ? ? ? # k=2 signseq=0 chain=ok mutate=none coin=reg", "eth ? ? # k=2 replay=1"})
	// fixed case: transactions whose first message deploys a contract, alone and followed by further messages; afterwards
	// the last message is delivered once more on its own
	out = append(out, Case{"eth ? ? # k=3 offs=0 type=legacy create=1", "eth ? ? # k=3 replay=tail", "eth ? ? # k=3 offs=0,1 type=legacy create=1", "eth ? ? # k=3 replay=tail",
		"eth ? ? # k=3 offs=0,1,2 type=dynamic create=1", "eth ? ? # k=3 replay=tail", "eth ? ? # k=3 offs=0 type=legacy", "eth ? ? # k=3 replay=1"})
	for i := 0; i < n; i++ {
		var c Case
		for j := 0; j < 6+r.Intn(10); j++ {
			k := 1 + r.Intn(3)
			switch x := r.Intn(20); {
			case x < 5:
				offs := pick(r, []string{"0", "0", "0,1", "0,1,2", "0,0", "1", "0,2", "1,0", "0,1,1", "0,0,0"})
				cr := ""
				if r.Intn(4) == 0 {
					cr = " create=1"
				}
				c = append(c, fmt.Sprintf("eth ? ? # k=%d offs=%s type=%s%s", k, offs, pick(r, []string{"legacy", "access", "dynamic"}), cr))
				if r.Intn(3) == 0 {
					c = append(c, fmt.Sprintf("eth ? ? # k=%d replay=tail", k))
				}
			case x < 7:
				c = append(c, fmt.Sprintf("eth ? ? # k=%d replay=1", k))
			case x < 11:
				c = append(c, fmt.Sprintf("mut # k=%d type=%s field=%s", k, pick(r, []string{"legacy", "access", "dynamic"}),
					pick(r, []string{"nonce", "price", "tip", "gas", "to", "value", "data", "accesslist", "chainid", "v", "r", "s", "foreignchain"})))
			case x < 16:
				route := pick(r, []string{"cos", "cos", "e712", "e712l", "e712a"})
				mut := pick(r, []string{"none", "none", "none", "memo", "amount", "fee", "gas", "to", "timeout", "extopt", "granter"})
				seq := pick(r, []string{"0", "0", "0", "1", "-1"})
				chain := pick(r, []string{"ok", "ok", "ok", "other"})
				if route != "cos" {
					seq = "0"
				}
				reg := ""
				if mut == "none" && r.Intn(4) == 0 {
					reg = " coin=reg"
				}
				c = append(c, fmt.Sprintf("%s ? ? ? ? # k=%d signseq=%s chain=%s mutate=%s%s", route, k, seq, chain, mut, reg))
			default:
				c = append(c, fmt.Sprintf("%s ? ? ? ? # k=%d replay=1", pick(r, []string{"cos", "e712"}), k))
			}
		}
		out = append(out, c)
	}
	return out
}

func c03Exec(c Case) (outs []string, fails []Failure, tags []string) {
	nw, kr := fixture()
	app := nw.App
	denom := nw.GetDenom()
	txCfg := app.GetTxConfig()
	chainID := nw.GetEIP155ChainID()
	cosmosChainID := nw.GetContext().ChainID()
	price := big.NewInt(2_000_000_000)
	deliver := func(tx sdk.Tx) (abci.ResponseDeliverTx, []byte) {
		bz, err := txCfg.TxEncoder()(tx)
		if err != nil {
			panic(err)
		}
		return app.BaseApp.DeliverTx(abci.RequestDeliverTx{Tx: bz}), bz
	}
	seqOf := func(k int) uint64 {
		s, _ := app.AccountKeeper.GetSequence(nw.GetContext(), kr.GetKey(k).AccAddr)
		return s
	}
	balOf := func(k int) sdkmath.Int {
		return app.BankKeeper.GetBalance(nw.GetContext(), kr.GetKey(k).AccAddr, denom).Amount
	}
	ethArgs := func(typ string, nonce uint64, to common.Address) evmtypes.EvmTxArgs {
		a := evmtypes.EvmTxArgs{ChainID: chainID, Nonce: nonce, To: &to, Amount: big.NewInt(1), GasLimit: 30_000}
		switch typ {
		case "access":
			a.GasPrice = price
			a.Accesses = &ethtypes.AccessList{{Address: to, StorageKeys: []common.Hash{{1}}}}
			a.GasLimit = 40_000
		case "dynamic":
			a.GasFeeCap, a.GasTipCap = price, big.NewInt(1)
			a.Accesses = &ethtypes.AccessList{}
		default:
			a.GasPrice = price
		}
		return a
	}
	signEth := func(k int, a evmtypes.EvmTxArgs, cid *big.Int) *evmtypes.MsgEthereumTx {
		msg := evmtypes.NewTx(&a)
		msg.From = kr.GetKey(k).Addr.String()
		if err := msg.Sign(ethtypes.LatestSignerForChainID(cid), utiltx.NewSigner(kr.GetKey(k).Priv)); err != nil {
			panic(err)
		}
		return msg
	}
	wrapEth := func(msgs ...*evmtypes.MsgEthereumTx) sdk.Tx {
		var ms []sdk.Msg
		for _, m := range msgs {
			ms = append(ms, m)
		}
		tx, err := utiltx.PrepareEthTx(txCfg, app, nil, ms...)
		if err != nil {
			panic(err)
		}
		return tx
	}
	for i, line := range c {
		f := strings.Fields(line)
		kv := vmKV(f)
		out := "bad-op"
		func() {
			defer func() {
				if r := recover(); r != nil {
					out = "panic:" + strings.ReplaceAll(fmt.Sprint(r), " ", "_")
				}
			}()
			fl := func(sig, what string) { fails = append(fails, Failure{Signature: sig, What: what, Case: c[i : i+1]}) }
			k := vmIdx(kv["k"])
			seq := seqOf(k)
			switch f[0] {
			case "eth":
				var res abci.ResponseDeliverTx
				if kv["replay"] == "tail" {
					// the last message of the last accepted transaction, delivered again in a transaction of its own
					ms := c03State.lastEthMsgs[k]
					if len(ms) == 0 {
						c[i] = "mut # skipped-replay"
						out = "not-for-signer"
						return
					}
					last := ms[len(ms)-1]
					f[1], f[2] = fmt.Sprint(seq), fmt.Sprint(last.AsTransaction().Nonce())
					res, _ = deliver(wrapEth(last))
					tags = append(tags, "eth-replay-of-one-message")
				} else if kv["replay"] == "1" {
					bz, ok := c03State.lastEth[k]
					if !ok {
						out = "skip"
						c[i] = "mut # skipped-replay"
						out = "not-for-signer"
						return
					}
					f[1], f[2] = fmt.Sprint(seq), c03State.lastEthNonces[k]
					res = app.BaseApp.DeliverTx(abci.RequestDeliverTx{Tx: bz})
					tags = append(tags, "eth-replay")
				} else {
					var msgs []*evmtypes.MsgEthereumTx
					var ns []string
					for _, o := range strings.Split(kv["offs"], ",") {
						nonce := seq + uint64(vmIdx(o))
						ns = append(ns, fmt.Sprint(nonce))
						a := ethArgs(kv["type"], nonce, common.BytesToAddress(testAddr(640+i%8)))
						if kv["create"] == "1" && len(msgs) == 0 {
							// the first message of the transaction deploys a contract (runtime code: a single STOP)
							a.To, a.Amount, a.Input, a.GasLimit = nil, nil, common.FromHex("0x600160005360016000f3"), 120_000
						}
						msgs = append(msgs, signEth(k, a, chainID))
					}
					f[1], f[2] = fmt.Sprint(seq), strings.Join(ns, ",")
					var bz []byte
					res, bz = deliver(wrapEth(msgs...))
					if res.Code == 0 {
						c03State.lastEth[k], c03State.lastEthNonces[k], c03State.lastEthMsgs[k] = bz, f[2], msgs
					}
					if kv["create"] == "1" {
						tags = append(tags, "eth-batch-starting-with-a-deployment")
					}
					tags = append(tags, "eth-batch-"+fmt.Sprint(len(msgs)))
				}
				c[i] = strings.Join(f, " ")
				now := seqOf(k)
				if res.Code == 0 {
					out = fmt.Sprintf("accept %d", now)
					tags = append(tags, "eth-accept")
					for _, ns := range strings.Split(f[2], ",") {
						if n := mustBig(ns).Uint64(); !c03Use(k, n) {
							fl("C03:sequence-number-executed-twice", fmt.Sprintf("key %d: an Ethereum message with nonce %d was executed although a transaction of this key had already been executed under that number", k, n))
						}
					}
					// every executed nonce lies behind the account's sequence afterwards (otherwise the message is valid again)
					for _, ns := range strings.Split(f[2], ",") {
						if n := mustBig(ns).Uint64(); now <= n {
							fl("C03:sequence-left-at-an-executed-nonce", fmt.Sprintf("key %d: the transaction with the nonces %s was executed and the account's sequence is %d afterwards: the message with nonce %d can be executed again", k, f[2], now, n))
							break
						}
					}
					// the property's own predicate: every executed message carried the account's sequence at its turn
					for j, ns := range strings.Split(f[2], ",") {
						if ns != fmt.Sprint(seq+uint64(j)) {
							fl("C03:stale-or-repeated-nonce-executed", fmt.Sprintf("account sequence %d, the accepted transaction carries the nonces %s: message %d ran with a nonce that was not the account's sequence (a signed message can be executed more than once)", seq, f[2], j))
							break
						}
					}
				} else {
					out = fmt.Sprintf("reject %d", now)
					tags = append(tags, "eth-reject")
				}
			case "cos", "e712", "e712l", "e712a":
				key := kr.GetKey(k)
				to := kr.GetKey(1 + (k % 3)).AccAddr
				route := f[0]
				f[0] = "cos"
				var bz []byte
				var txSeq uint64
				chainOk, intact := "1", "1"
				if kv["replay"] == "1" {
					id := fmt.Sprintf("%s/%d", route, k)
					prev, ok := c03State.lastCos[id]
					if !ok {
						c[i] = "mut # skipped-replay"
						out = "not-for-signer"
						return
					}
					bz, txSeq = prev, c03State.lastCosSeq[id]
					tags = append(tags, route+"-replay")
				} else {
					msg := banktypes.NewMsgSend(key.AccAddr, to, sdk.NewCoins(sdk.NewCoin(denom, sdkmath.NewInt(7))))
					if kv["coin"] == "reg" {
						// a coin with a registered ERC20 pair (Haqq's bank wrapper takes its ERC20-aware path), sent to an address
						// that has no account yet
						c03RegisteredCoin(key.AccAddr)
						c03Fresh++
						msg = banktypes.NewMsgSend(key.AccAddr, testAddr(20_000+c03Fresh), sdk.NewCoins(sdk.NewCoin("atokc", sdkmath.NewInt(5))))
						tags = append(tags, "send-of-registered-coin-to-new-address")
					}
					fees := sdk.NewCoins(sdk.NewCoin(denom, sdkmath.NewInt(400_000_000_000_000)))
					gasLimit := uint64(200_000)
					if kv["coin"] == "reg" {
						// (the ERC20-aware send reads the token pair and the contract: more gas, at the same price)
						gasLimit, fees = 10_000_000, sdk.NewCoins(sdk.NewCoin(denom, sdkmath.NewInt(20_000_000_000_000_000)))
					}
					signChain := cosmosChainID
					if kv["chain"] == "other" {
						signChain = "haqq_54211-3"
						if signChain == cosmosChainID {
							signChain = "haqq_11235-1"
						}
						chainOk = "0"
					}
					var builder client.TxBuilder
					if route == "cos" {
						txSeq = uint64(int64(seq) + int64(vmIdx(kv["signseq"])))
						if kv["signseq"] == "-1" && seq == 0 {
							txSeq = 0
						}
						builder = txCfg.NewTxBuilder()
						_ = builder.SetMsgs(msg)
						builder.SetGasLimit(gasLimit)
						builder.SetFeeAmount(fees)
						accNum := app.AccountKeeper.GetAccount(nw.GetContext(), key.AccAddr).GetAccountNumber()
						sig := signing.SignatureV2{PubKey: key.Priv.PubKey(), Data: &signing.SingleSignatureData{SignMode: signing.SignMode_SIGN_MODE_DIRECT}, Sequence: txSeq}
						_ = builder.SetSignatures(sig)
						sd := authsigning.SignerData{ChainID: signChain, AccountNumber: accNum, Sequence: txSeq}
						sig, err := clienttx.SignWithPrivKey(signing.SignMode_SIGN_MODE_DIRECT, sd, builder, key.Priv, txCfg, txSeq)
						if err != nil {
							panic(err)
						}
						_ = builder.SetSignatures(sig)
					} else if route == "e712a" {
						// amino-JSON sign mode with an EIP-712 signature in the signature field: the verifier rebuilds the typed
						// data from the amino sign document (ethereum/eip712 decodeAminoSignDoc)
						txSeq = seq
						builder = txCfg.NewTxBuilder()
						_ = builder.SetMsgs(msg)
						builder.SetGasLimit(gasLimit)
						builder.SetFeeAmount(fees)
						acc := app.AccountKeeper.GetAccount(nw.GetContext(), key.AccAddr)
						sigV2 := signing.SignatureV2{PubKey: key.Priv.PubKey(), Data: &signing.SingleSignatureData{SignMode: signing.SignMode_SIGN_MODE_LEGACY_AMINO_JSON}, Sequence: txSeq}
						_ = builder.SetSignatures(sigV2)
						sd := authsigning.SignerData{Address: key.AccAddr.String(), ChainID: signChain, AccountNumber: acc.GetAccountNumber(), Sequence: txSeq, PubKey: key.Priv.PubKey()}
						signBytes, err := txCfg.SignModeHandler().GetSignBytes(signing.SignMode_SIGN_MODE_LEGACY_AMINO_JSON, sd, builder.GetTx())
						if err != nil {
							panic(err)
						}
						eipBytes, err := eip712.GetEIP712BytesForMsg(signBytes)
						if err != nil {
							panic(err)
						}
						sigBz, err := key.Priv.Sign(eipBytes)
						if err != nil {
							panic(err)
						}
						sigV2.Data = &signing.SingleSignatureData{SignMode: signing.SignMode_SIGN_MODE_LEGACY_AMINO_JSON, Signature: sigBz}
						_ = builder.SetSignatures(sigV2)
					} else {
						txSeq = seq
						var err error
						builder, err = utiltx.PrepareEIP712CosmosTx(nw.GetContext(), app, utiltx.EIP712TxArgs{
							CosmosTxArgs:       utiltx.CosmosTxArgs{TxCfg: txCfg, Priv: key.Priv, ChainID: signChain, Gas: gasLimit, Fees: fees, Msgs: []sdk.Msg{msg}},
							UseLegacyExtension: route == "e712l", UseLegacyTypedData: route == "e712l"})
						if err != nil {
							panic(err)
						}
					}
					// tamper after signing
					switch kv["mutate"] {
					case "memo":
						builder.SetMemo("tampered")
						intact = "0"
					case "amount":
						_ = builder.SetMsgs(banktypes.NewMsgSend(key.AccAddr, to, sdk.NewCoins(sdk.NewCoin(denom, sdkmath.NewInt(8)))))
						intact = "0"
					case "to":
						_ = builder.SetMsgs(banktypes.NewMsgSend(key.AccAddr, kr.GetKey(5).AccAddr, sdk.NewCoins(sdk.NewCoin(denom, sdkmath.NewInt(7)))))
						intact = "0"
					case "fee":
						builder.SetFeeAmount(fees.Add(sdk.NewCoin(denom, sdkmath.NewInt(1))))
						intact = "0"
					case "gas":
						builder.SetGasLimit(200_001)
						intact = "0"
					case "timeout":
						builder.SetTimeoutHeight(1_000_000)
						intact = "0"
					case "granter":
						// someone who has granted the signer a fee allowance is named as fee granter after signing: the fee
						// would come out of that account instead of the signer's
						g := kr.GetKey(1 + (k % 3))
						if err := app.FeeGrantKeeper.GrantAllowance(nw.GetContext(), g.AccAddr, key.AccAddr, &feegrant.BasicAllowance{}); err != nil && !strings.Contains(err.Error(), "already exists") {
							panic(err)
						}
						builder.SetFeeGranter(g.AccAddr)
						intact = "0"
					case "extopt":
						// a critical extension option the ante handler admits (the dynamic-fee option: it sets the tip the fee
						// checker charges) added after signing
						opt, e := codectypes.NewAnyWithValue(&haqqtypes.ExtensionOptionDynamicFeeTx{MaxPriorityPrice: sdkmath.NewInt(1_000_000)})
						if e != nil {
							panic(e)
						}
						if eb, ok := builder.(authtx.ExtensionOptionsTxBuilder); ok {
							eb.SetExtensionOptions(opt)
							intact = "0"
						}
					}
					var err error
					bz, err = txCfg.TxEncoder()(builder.GetTx())
					if err != nil {
						panic(err)
					}
					tags = append(tags, route+"-mut-"+kv["mutate"], route+"-chain-"+kv["chain"])
				}
				f[1], f[2], f[3], f[4] = fmt.Sprint(seq), fmt.Sprint(txSeq), chainOk, intact
				c[i] = strings.Join(f, " ")
				b0 := balOf(k)
				res := app.BaseApp.DeliverTx(abci.RequestDeliverTx{Tx: bz})
				now := seqOf(k)
				if res.Code == 0 {
					out = fmt.Sprintf("accept %d", now)
					tags = append(tags, route+"-accept")
					if !c03Use(k, txSeq) {
						fl("C03:sequence-number-executed-twice", fmt.Sprintf("key %d: a Cosmos transaction signed for sequence %d was executed although a transaction of this key had already been executed under that number", k, txSeq))
					}
					if kv["replay"] != "1" {
						id := fmt.Sprintf("%s/%d", route, k)
						c03State.lastCos[id], c03State.lastCosSeq[id] = bz, txSeq
					}
					if intact == "0" || chainOk == "0" {
						fl("C03:tampered-or-foreign-cosmos-tx-accepted:"+route, "a Cosmos transaction whose content was changed after signing (or that was signed for another chain id) was executed: "+line)
					}
				} else {
					if os.Getenv("VERIF_DEBUG") != "" {
						fmt.Fprintln(os.Stderr, "C03 cos rejected:", res.Code, res.Log)
					}
					out = fmt.Sprintf("reject %d", now)
					tags = append(tags, route+"-reject")
					if !balOf(k).Equal(b0) || now != seq {
						fl("C03:rejected-tx-changed-account:"+route, "a rejected transaction changed the signer's sequence or balance: "+line)
					}
				}
			case "ethfrom":
				// an Ethereum transaction signed by key k alone whose wire field From names another account (v), with that
				// account's sequence as its nonce, placed in a block directly (DeliverTx only, as a proposer can do)
				out = "skip"
				v := vmIdx(kv["v"])
				to := common.BytesToAddress(testAddr(660))
				msg := signEth(k, ethArgs("legacy", seqOf(v), to), chainID)
				msg.From = kr.GetKey(v).Addr.String()
				b := txCfg.NewTxBuilder()
				if err := b.SetMsgs(msg); err != nil {
					panic(err)
				}
				opt, err := codectypes.NewAnyWithValue(&evmtypes.ExtensionOptionsEthereumTx{})
				if err != nil {
					panic(err)
				}
				b.(authtx.ExtensionOptionsTxBuilder).SetExtensionOptions(opt)
				b.SetGasLimit(msg.GetGas())
				b.SetFeeAmount(sdk.NewCoins(sdk.NewCoin(denom, sdkmath.NewIntFromBigInt(msg.GetFee()))))
				bz, err := txCfg.TxEncoder()(b.GetTx())
				if err != nil {
					panic(err)
				}
				vs0, vb0 := seqOf(v), balOf(v)
				res := app.BaseApp.DeliverTx(abci.RequestDeliverTx{Tx: bz})
				tags = append(tags, fmt.Sprintf("eth-foreign-from-code-%d", res.Code))
				if res.Code == 0 || seqOf(v) != vs0 || !balOf(v).Equal(vb0) {
					fl("C03:unsigned-from-field-acted-on", fmt.Sprintf("an Ethereum transaction signed by key %d only, naming key %d in its From field, was delivered with code %d; the named account's sequence went %d → %d and its balance %s → %s although its holder signed nothing", k, v, res.Code, vs0, seqOf(v), vb0, balOf(v)))
				}
			case "vconv":
				// someone else turns the key's account into a vesting account (a small grant); nothing about what the key
				// has signed before may become valid again
				out = "skip"
				start := nw.GetContext().BlockTime()
				msg := vestingtypes.NewMsgConvertIntoVestingAccount(kr.GetKey(5).AccAddr, kr.GetKey(k).AccAddr, start,
					sdkvesting.Periods{{Length: 1000, Amount: sdk.NewCoins(sdk.NewCoin(denom, sdkmath.NewInt(10)))}}, nil, true, false, nil)
				cctx, write := nw.GetContext().CacheContext()
				if _, err := app.VestingKeeper.ConvertIntoVestingAccount(sdk.WrapSDKContext(cctx), msg); err == nil {
					write()
					tags = append(tags, "converted-into-vesting")
				} else {
					tags = append(tags, "conversion-refused")
				}
			case "mut":
				// a valid signed Ethereum transaction whose one field is changed while the signature is kept
				to := common.BytesToAddress(testAddr(650))
				a := ethArgs(kv["type"], seq, to)
				cid := chainID
				if kv["field"] == "foreignchain" {
					cid = new(big.Int).Add(chainID, big.NewInt(1)) // a valid signature, made for another chain id
					a.ChainID = cid
				}
				msg := signEth(k, a, cid)
				tx := msg.AsTransaction()
				v, r, s := tx.RawSignatureValues()
				bump := func(x *big.Int) *big.Int { return new(big.Int).Add(x, big.NewInt(1)) }
				nonce, gas, value, data, dest := tx.Nonce(), tx.Gas(), tx.Value(), tx.Data(), *tx.To()
				gp, tip, cap, al, chain := tx.GasPrice(), tx.GasTipCap(), tx.GasFeeCap(), tx.AccessList(), tx.ChainId()
				switch kv["field"] {
				case "nonce":
					nonce++
				case "price":
					gp, cap = bump(gp), bump(cap)
				case "tip":
					tip = bump(tip)
					if tx.Type() != ethtypes.DynamicFeeTxType {
						gp = bump(gp)
					}
				case "gas":
					gas++
				case "to":
					dest = common.BytesToAddress(testAddr(651))
				case "value":
					value = bump(value)
				case "data":
					data = append(append([]byte{}, data...), 1)
				case "accesslist":
					al = append(append(ethtypes.AccessList{}, al...), ethtypes.AccessTuple{Address: dest})
					if tx.Type() == ethtypes.LegacyTxType {
						gas++ // a legacy transaction has no access list: change something else that is signed
					}
				case "chainid":
					chain = bump(chain)
					if tx.Type() == ethtypes.LegacyTxType {
						v = new(big.Int).Add(v, big.NewInt(2)) // EIP-155: the chain id lives in v
					}
				case "v":
					v = new(big.Int).Xor(v, big.NewInt(1))
				case "r":
					r = bump(r)
				case "s":
					s = bump(s)
				}
				var inner ethtypes.TxData
				switch tx.Type() {
				case ethtypes.AccessListTxType:
					inner = &ethtypes.AccessListTx{ChainID: chain, Nonce: nonce, GasPrice: gp, Gas: gas, To: &dest, Value: value, Data: data, AccessList: al, V: v, R: r, S: s}
				case ethtypes.DynamicFeeTxType:
					inner = &ethtypes.DynamicFeeTx{ChainID: chain, Nonce: nonce, GasTipCap: tip, GasFeeCap: cap, Gas: gas, To: &dest, Value: value, Data: data, AccessList: al, V: v, R: r, S: s}
				default:
					inner = &ethtypes.LegacyTx{Nonce: nonce, GasPrice: gp, Gas: gas, To: &dest, Value: value, Data: data, V: v, R: r, S: s}
				}
				m2 := &evmtypes.MsgEthereumTx{}
				if err := m2.FromEthereumTx(ethtypes.NewTx(inner)); err != nil {
					out = "not-for-signer" // not even well-formed
					tags = append(tags, "mut-malformed")
					return
				}
				b0 := balOf(k)
				var res abci.ResponseDeliverTx
				func() {
					defer func() {
						if r := recover(); r != nil {
							res = abci.ResponseDeliverTx{Code: 1, Log: fmt.Sprint(r)}
						}
					}()
					res, _ = deliver(wrapEth(m2))
				}()
				tags = append(tags, "mut-"+kv["field"], fmt.Sprintf("mut-code-%v", res.Code != 0))
				// the property's own predicate: nothing happened on behalf of the signer
				if seqOf(k) != seq || !balOf(k).Equal(b0) {
					out = "EXECUTED-FOR-SIGNER"
					fl("C03:mutated-eth-tx-executed-for-signer:"+kv["field"], fmt.Sprintf("a %s transaction whose %s was changed after signing changed the signer's sequence or balance (code %d)", kv["type"], kv["field"], res.Code))
				} else {
					out = "not-for-signer"
				}
			}
		}()
		outs = append(outs, out)
	}
	return
}

func init() {
	Register(&Property{
		ID:   "C03",
		Gen:  c03Gen,
		Exec: c03Exec,
		NonTrivial: func(tags []string) bool {
			return (hasTag(tags, "eth-accept") || hasTag(tags, "cos-accept") || hasTag(tags, "e712-accept")) && (hasTag(tags, "eth-reject") || hasTag(tags, "cos-reject") || hasTag(tags, "e712-reject") || hasTag(tags, "mut-code-true"))
		},
		Rule: "real transactions through BaseApp.DeliverTx on the application (full ante chains of the three routes): Ethereum-route transactions of the three types carrying one to three messages with nonces seq+{0,1,2}, duplicated, skipped and out of order, replays of the last accepted one; every single-field change (nonce, gas price / tip / cap, gas, to, value, data, access list, chain id, v, r, s) of a signed Ethereum transaction with the signature kept, and a valid signature made for another chain id; Cosmos MsgSend transactions signed in direct mode and through both EIP-712 variants, signed with the current, a future and a past sequence, for this and another chain id, tampered after signing (memo, amount, recipient, fee, gas, timeout height, an added dynamic-fee extension option), and replays; every verdict and the sequence afterwards is compared with the Lean model and the signer's sequence and balance are checked to be untouched by anything not accepted; non-trivial = a case with an accepted and a refused transaction; distinct = distinct op sequences",
	})
}
