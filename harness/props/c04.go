package props

import (
	stded25519 "crypto/ed25519"
	"crypto/sha256"
	"fmt"
	abci "github.com/cometbft/cometbft/abci/types"
	"math/big"
	"math/rand"
	"os"
	"strings"
	"time"

	sdkmath "cosmossdk.io/math"
	cosmosed25519 "github.com/cosmos/cosmos-sdk/crypto/keys/ed25519"
	sdk "github.com/cosmos/cosmos-sdk/types"
	stakingtypes "github.com/cosmos/cosmos-sdk/x/staking/types"
	"github.com/ethereum/go-ethereum/common"

	stakingpc "github.com/haqq-network/haqq/precompiles/staking"
	coinomicstypes "github.com/haqq-network/haqq/x/coinomics/types"
	evmtypes "github.com/haqq-network/haqq/x/evm/types"
	haqqstakingkeeper "github.com/haqq-network/haqq/x/staking/keeper"
)

// C04 — authority of the staking precompile: who signs, who calls, whose coins are named, and the grant.
// Real signed Ethereum transactions on the application; the op line carries the grant that was in the authz
// store before the call (filled in by the executor), so the Lean driver is a stateless oracle.
//
//	scall <origin> <caller> <delegator> <val> <amt> <grant> # method=delegate|undelegate amt=<spec>
//	      ids: 0 = signer E, 1 = the puppet contract P, 2 = a third account T;  caller ∈ {0, 1}
//	      amt spec: abs:<n> | lim-1 | lim | lim+1 | half
//	sallow <approve|increase|decrease|revoke> <arg> <validators now> <grant> # method=…
//	newval                                            (a validator created after earlier approvals)
//
// grant: none | U/<allow-list> | L<limit>/<allow-list>    (validator ids in order of first appearance)
const c04Third = 3

var (
	c04Vals  []string // operator addresses, index = validator id
	c04Ready bool
	// ghost ledger per message type, independent of the model: what the signer granted since the last approval
	// (approved + increases − decreases) and what the contract spent since then
	c04Ghost = map[string]*c04Ledger{}
)

type c04Ledger struct {
	limited        bool
	granted, spent *big.Int
}

func c04ValID(op string) int {
	for i, v := range c04Vals {
		if v == op {
			return i
		}
	}
	c04Vals = append(c04Vals, op)
	return len(c04Vals) - 1
}

func c04Setup() {
	if c04Ready {
		return
	}
	puppetSetup()
	nw, _ := fixture()
	for _, v := range nw.GetValidators() {
		c04ValID(v.OperatorAddress)
	}
	// the signer and the puppet hold delegations of their own, so that undelegations have something to take
	sabi, _ := stakingpc.LoadABI()
	stk := common.HexToAddress(stakingpc.PrecompileAddress)
	_, kr := fixture()
	E := kr.GetKey(puppetOrigin).Addr
	in, _ := sabi.Pack("delegate", E, c04Vals[0], big.NewInt(1_000_000_000))
	if r, _, _ := c07Send(puppetOrigin, evmtypes.EvmTxArgs{To: &stk, Input: in, GasLimit: 500_000, GasPrice: big.NewInt(2_000_000_000)}); r.Code != 0 {
		panic("c04 setup delegate: " + r.Log)
	}
	ref := puppetRef{dE: big.NewInt(0), dP: big.NewInt(0), dX: big.NewInt(0), bondE: big.NewInt(0), bondP: big.NewInt(0)}
	sc := puppetCompile([]string{"G:1000000000"}, &ref, c04Vals[0])
	if o := puppetRun(big.NewInt(0), sc.bytes, 2_000_000); o.code != 0 || o.failed {
		panic("c04 setup puppet delegation failed: " + o.vmError)
	}
	if err := nw.NextBlock(); err != nil {
		panic(err)
	}
	c04Ready = true
}

func c04MsgURL(method string) string {
	switch method {
	case "undelegate":
		return stakingpc.UndelegateMsg
	case "cancel":
		return stakingpc.CancelUnbondingDelegationMsg
	}
	return stakingpc.DelegateMsg
}

// c04UnbondingHeight: the creation height of the delegator's first unbonding entry at the validator (1 if there is none)
func c04UnbondingHeight(del sdk.AccAddress, va sdk.ValAddress) int64 {
	nw, _ := fixture()
	if ubd, ok := nw.App.StakingKeeper.GetUnbondingDelegation(nw.GetContext(), del, va); ok && len(ubd.Entries) > 0 {
		return ubd.Entries[0].CreationHeight
	}
	return 1
}

// c04Grant reads the live grant (granter E, grantee P) for the message type and encodes it.
func c04Grant(method string) (string, *stakingtypes.StakeAuthorization) {
	nw, kr := fixture()
	ctx := nw.GetContext()
	a, exp := nw.App.AuthzKeeper.GetAuthorization(ctx, puppetAddr.Bytes(), kr.GetKey(puppetOrigin).AccAddr, c04MsgURL(method))
	if a == nil {
		return "none", nil
	}
	if exp != nil && !exp.After(ctx.BlockTime()) {
		// the grant's last instant: the authz keeper still returns it but cannot store it again; for a spend it is over
		return "none", nil
	}
	sa, ok := a.(*stakingtypes.StakeAuthorization)
	if !ok {
		return "other", nil
	}
	var ids []string
	if al := sa.GetAllowList(); al != nil {
		for _, v := range al.Address {
			ids = append(ids, fmt.Sprint(c04ValID(v)))
		}
	}
	allow := "-"
	if len(ids) > 0 {
		allow = strings.Join(ids, ",")
	}
	if sa.MaxTokens == nil {
		return "U/" + allow, sa
	}
	return "L" + sa.MaxTokens.Amount.String() + "/" + allow, sa
}

// c04Expiry: when the stored grant ends (nil = no grant)
func c04Expiry(method string) *time.Time {
	nw, kr := fixture()
	_, exp := nw.App.AuthzKeeper.GetAuthorization(nw.GetContext(), puppetAddr.Bytes(), kr.GetKey(puppetOrigin).AccAddr, c04MsgURL(method))
	return exp
}

// the end date the signer gave each grant (set by the check's own record of approvals, never read back)
var c04GhostExpiry = map[string]time.Time{}

func c04Gen(r *rand.Rand, tier string) []Case {
	out := c04GenBody(r, tier)
	// fixed case: a deny-list grant and the barred validator named in both spellings of its address
	out = append(out, Case{"sdeny # val=0", "sdeny # val=1"})
	// fixed case: the signer undelegates, grants the contract a limited allowance for cancelling unbonding, and the contract
	// cancels in three steps — the last one beyond what is left
	out = append(out, Case{
		"scall 0 0 0 0 ? ? ? # method=undelegate amt=abs:100000",
		"sallow approve 600 - ? # method=cancel",
		"scall 0 1 0 0 ? ? ? # method=cancel amt=abs:200",
		"scall 0 1 0 0 ? ? ? # method=cancel amt=abs:400",
		"scall 0 1 0 0 ? ? ? # method=cancel amt=abs:100",
		"sallow approve 900 - ? # method=cancel",
		"scall 0 1 0 0 ? ? ? # method=cancel amt=abs:300 swallow=1",
		"scall 0 1 0 0 ? ? ? # method=cancel amt=abs:700",
	})
	// fixed case, last (it moves the clock by more than a year): a limited grant, a partial spend a hundred days later,
	// another one three hundred days after that — past the end the signer gave the grant
	for _, method := range []string{"delegate"} {
		out = append(out, Case{
			fmt.Sprintf("sallow approve 5000 - ? # method=%s", method),
			fmt.Sprintf("scall 0 1 0 0 ? ? ? # method=%s amt=abs:100", method),
			"tick # days=100",
			fmt.Sprintf("scall 0 1 0 0 ? ? ? # method=%s amt=abs:200", method),
			"tick # days=300",
			fmt.Sprintf("scall 0 1 0 0 ? ? ? # method=%s amt=abs:300", method),
			fmt.Sprintf("scall 0 1 0 0 ? ? ? # method=%s amt=abs:50 swallow=1", method),
		})
		// … and a grant used in its very last instant (block time = end of the grant) by a contract that ignores failures
		out = append(out, Case{
			fmt.Sprintf("sallow approve 5000 - ? # method=%s", method),
			"tick # days=365",
			fmt.Sprintf("scall 0 1 0 0 ? ? ? # method=%s amt=abs:100 swallow=1", method),
			fmt.Sprintf("scall 0 1 0 0 ? ? ? # method=%s amt=abs:100", method),
		})
	}
	return out
}

func c04GenBody(r *rand.Rand, tier string) []Case {
	n := 14
	if tier == "thorough" {
		n = 400
	}
	var out []Case
	// fixed case: a grant made through the authz module itself and restricted to one validator; that validator is jailed;
	// the contract spends part of the grant there and then names a validator the grant never covered
	for _, method := range []string{"delegate", "undelegate"} {
		out = append(out, Case{
			fmt.Sprintf("scall 0 0 0 0 ? ? ? # method=delegate amt=abs:5000"),
			fmt.Sprintf("sallow approve 3000 0 ? # method=%s native=1", method),
			"jailval 0",
			fmt.Sprintf("scall 0 1 0 0 ? ? ? # method=%s amt=abs:1000", method),
			fmt.Sprintf("scall 0 1 0 1 ? ? ? # method=%s amt=abs:500", method),
			fmt.Sprintf("scall 0 1 0 0 ? ? ? # method=%s amt=abs:700", method),
			fmt.Sprintf("scall 0 1 0 2 ? ? ? # method=%s amt=abs:100", method),
			fmt.Sprintf("scall 0 1 0 1 ? ? ? # method=%s amt=abs:50 swallow=1", method),
			fmt.Sprintf("scall 0 1 0 0 ? ? ? # method=%s amt=abs:100000 swallow=1", method),
			fmt.Sprintf("scall 0 1 0 0 ? ? ? # method=%s amt=abs:10 swallow=1", method),
			"unjailval 0",
			fmt.Sprintf("sallow revoke 0 - ? # method=%s", method),
		})
	}
	for i := 0; i < n; i++ {
		method := pick(r, []string{"delegate", "delegate", "undelegate"})
		var c Case
		for j := 0; j < 6+r.Intn(10); j++ {
			switch x := r.Intn(20); {
			case x < 3:
				arg := pick(r, []string{"max", "0", fmt.Sprint(1 + r.Intn(5000)), fmt.Sprint(1 + r.Intn(5000))})
				c = append(c, fmt.Sprintf("sallow approve %s ? ? # method=%s", arg, method))
			case x < 5:
				c = append(c, fmt.Sprintf("sallow increase %s - ? # method=%s", pick(r, []string{fmt.Sprint(1 + r.Intn(1000)), fmt.Sprint(1 + r.Intn(1000)), "0"}), method))
			case x < 7:
				// also exactly the remaining limit, one less and one more
				c = append(c, fmt.Sprintf("sallow decrease %s - ? # method=%s", pick(r, []string{fmt.Sprint(1 + r.Intn(1500)), "lim", "lim", "lim-1", "lim+1"}), method))
			case x < 8:
				if r.Intn(2) == 0 {
					c = append(c, fmt.Sprintf("sallow revoke 0 - ? # method=%s", method))
				} else {
					// one call naming both message types (each type's grant moves by the same amount)
					op := pick(r, []string{"approve", "decrease", "decrease", "increase", "revoke"})
					arg := fmt.Sprint(1 + r.Intn(3000))
					if op == "decrease" {
						arg = pick(r, []string{arg, "lim", "lim-1", fmt.Sprint(1 + r.Intn(300))})
					}
					c = append(c, fmt.Sprintf("sallow2 %s %s ? ? ? # order=%s", op, arg, pick(r, []string{"ud", "du"})))
				}
			case x < 9:
				c = append(c, "newval")
			default:
				caller := r.Intn(2)
				deleg := pick(r, []int{0, 0, 1, 1, 2})
				val := r.Intn(5) // ids beyond the existing validators are clamped by the executor
				amt := pick(r, []string{"lim-1", "lim", "lim+1", "half", fmt.Sprintf("abs:%d", 1+r.Intn(3000))})
				sw := ""
				if caller == 1 && r.Intn(3) == 0 {
					sw = " swallow=1"
				}
				c = append(c, fmt.Sprintf("scall 0 %d %d %d ? ? ? # method=%s amt=%s%s", caller, deleg, val, method, amt, sw))
			}
		}
		if r.Intn(3) == 0 {
			// both types granted alike, reduced in one call by more than half, then both spent to the limit
			a := 100 + r.Intn(900)
			d := a/2 + 1 + r.Intn(a/2-1)
			c = append(c, fmt.Sprintf("sallow2 approve %d ? ? ? # order=ud", a), fmt.Sprintf("sallow2 decrease %d ? ? ? # order=%s", d, pick(r, []string{"ud", "du"})),
				"scall 0 1 0 0 ? ? ? # method=delegate amt=lim+1", "scall 0 1 0 0 ? ? ? # method=delegate amt=lim",
				"scall 0 1 0 0 ? ? ? # method=undelegate amt=lim+1", "scall 0 1 0 0 ? ? ? # method=undelegate amt=lim")
		}
		if r.Intn(2) == 0 {
			// the granter takes back exactly what is left, then the contract tries to spend
			c = append(c, fmt.Sprintf("sallow approve %d ? ? # method=%s", 1+r.Intn(900), method),
				fmt.Sprintf("scall 0 1 0 0 ? ? ? # method=%s amt=half", method),
				fmt.Sprintf("sallow decrease lim - ? # method=%s", method),
				fmt.Sprintf("scall 0 1 %d 0 ? ? ? # method=%s amt=abs:%d", r.Intn(2), method, 1+r.Intn(50)),
				fmt.Sprintf("sallow increase 0 - ? # method=%s", method),
				fmt.Sprintf("scall 0 1 0 0 ? ? ? # method=%s amt=abs:1", method))
		}
		if r.Intn(2) == 0 {
			// a grant (unlimited or limited), then a validator that the grant's allow-list cannot contain, then calls naming it
			arg := pick(r, []string{"max", "max", "5000"})
			c = append(c, fmt.Sprintf("sallow approve %s ? ? # method=%s", arg, method), "newval",
				fmt.Sprintf("scall 0 1 %d 99 ? ? ? # method=%s amt=abs:%d", r.Intn(2), method, 1+r.Intn(900)),
				fmt.Sprintf("scall 0 1 %d 0 ? ? ? # method=%s amt=abs:%d", r.Intn(2), method, 1+r.Intn(900)),
				fmt.Sprintf("scall 0 0 0 99 ? ? ? # method=%s amt=abs:%d", method, 1+r.Intn(900)))
		}
		out = append(out, c)
	}
	return out
}

func c04Exec(c Case) (outs []string, fails []Failure, tags []string) {
	c04Setup()
	nw, kr := fixture()
	app := nw.App
	denom := nw.GetDenom()
	E := kr.GetKey(puppetOrigin)
	T := kr.GetKey(c04Third)
	sabi, _ := stakingpc.LoadABI()
	stk := common.HexToAddress(stakingpc.PrecompileAddress)
	price := big.NewInt(2_000_000_000)
	// the fixture is shared by all cases of a run: keep the signer able to pay its fees
	if ctx := nw.GetContext(); app.BankKeeper.GetBalance(ctx, E.AccAddr, denom).Amount.LT(sdkmath.NewInt(1_000_000_000_000_000_000)) {
		coins := sdk.NewCoins(sdk.NewCoin(denom, sdkmath.NewInt(1_000_000_000_000_000_000).MulRaw(100)))
		_ = app.BankKeeper.MintCoins(ctx, coinomicstypes.ModuleName, coins)
		_ = app.BankKeeper.SendCoinsFromModuleToAccount(ctx, coinomicstypes.ModuleName, E.AccAddr, coins)
	}
	addrOf := func(id int) common.Address {
		switch id {
		case 0:
			return E.Addr
		case 1:
			return puppetAddr
		}
		return T.Addr
	}
	bonded := func(a common.Address) *big.Int {
		return app.StakingKeeper.GetDelegatorBonded(nw.GetContext(), a.Bytes()).BigInt()
	}
	unbonding := func(a common.Address) *big.Int {
		return app.StakingKeeper.GetDelegatorUnbonding(nw.GetContext(), a.Bytes()).BigInt()
	}
	for i, line := range c {
		f := strings.Fields(line)
		kv := vmKV(f)
		out := "bad-op"
		func() {
			defer func() {
				if r := recover(); r != nil {
					out = "panic:" + strings.ReplaceAll(fmt.Sprint(r), " ", "_")
				}
			}()
			fl := func(sig, what string) { fails = append(fails, Failure{Signature: sig, What: what, Case: c[:i+1]}) }
			tBal0 := app.BankKeeper.GetBalance(nw.GetContext(), T.AccAddr, denom).Amount
			tBond0, tUnb0 := bonded(T.Addr), unbonding(T.Addr)
			checkThird := func() {
				ctx := nw.GetContext()
				if !app.BankKeeper.GetBalance(ctx, T.AccAddr, denom).Amount.Equal(tBal0) || bonded(T.Addr).Cmp(tBond0) != 0 || unbonding(T.Addr).Cmp(tUnb0) != 0 {
					fl("C04:third-party-affected", "an account that is neither the signer nor the caller had its balance, delegation or unbonding changed by: "+line)
				}
			}
			switch f[0] {
			case "newval":
				// a validator that did not exist when the earlier approvals snapshotted their allow-lists
				n := len(c04Vals)
				if n >= 40 {
					// (the fixture's validator set is shared by all cases of a run: a few hundred validators make every
					// approval's allow-list outgrow the transaction's gas limit, which is not what this check is about)
					out = "skip"
					tags = append(tags, "newval-capped")
					return
				}
				op := testAddr(700 + n)
				ctx := nw.GetContext()
				coins := sdk.NewCoins(sdk.NewCoin(denom, sdkmath.NewInt(2_000_000_000_000_000_000)))
				_ = app.BankKeeper.MintCoins(ctx, coinomicstypes.ModuleName, coins)
				_ = app.BankKeeper.SendCoinsFromModuleToAccount(ctx, coinomicstypes.ModuleName, op, coins)
				seed := sha256.Sum256([]byte(fmt.Sprintf("c04val/%d", n)))
				pk := (&cosmosed25519.PrivKey{Key: cosmosedKey(seed[:])}).PubKey()
				msg, err := stakingtypes.NewMsgCreateValidator(sdk.ValAddress(op), pk, sdk.NewCoin(denom, sdkmath.NewInt(1_000_000_000_000_000_000)),
					stakingtypes.NewDescription(fmt.Sprintf("v%d", n), "", "", "", ""), stakingtypes.NewCommissionRates(sdk.NewDecWithPrec(5, 2), sdk.OneDec(), sdk.OneDec()), sdkmath.OneInt())
				if err != nil {
					panic(err)
				}
				if _, err := haqqstakingkeeper.NewMsgServerImpl(&app.StakingKeeper).CreateValidator(sdk.WrapSDKContext(ctx), msg); err != nil {
					out = "skip"
					tags = append(tags, "newval-err:"+strings.ReplaceAll(err.Error(), " ", "_"))
					return
				}
				c04ValID(sdk.ValAddress(op).String())
				tags = append(tags, "newval")
				out = "skip"
			case "sallow":
				method := kv["method"]
				pre, _ := c04Grant(method)
				// the validators a new approval would snapshot: all that exist and are not jailed
				var now []string
				app.StakingKeeper.IterateValidators(nw.GetContext(), func(_ int64, v stakingtypes.ValidatorI) bool {
					if !v.IsJailed() {
						now = append(now, fmt.Sprint(c04ValID(v.GetOperator().String())))
					}
					return false
				})
				if f[1] == "approve" && kv["native"] != "1" {
					f[3] = strings.Join(now, ",")
				}
				f[4] = pre
				if _, pa := c04Grant(method); strings.HasPrefix(f[2], "lim") {
					lim := big.NewInt(700)
					if pa != nil && pa.MaxTokens != nil {
						lim = pa.MaxTokens.Amount.BigInt()
					}
					switch f[2] {
					case "lim-1":
						lim = new(big.Int).Sub(lim, big.NewInt(1))
					case "lim+1":
						lim = new(big.Int).Add(lim, big.NewInt(1))
					}
					if lim.Sign() < 0 {
						lim = big.NewInt(0)
					}
					f[2] = lim.String()
				}
				c[i] = strings.Join(f, " ")
				amt := new(big.Int)
				if f[2] == "max" {
					amt.Sub(new(big.Int).Lsh(big.NewInt(1), 256), big.NewInt(1))
				} else {
					amt = mustBig(f[2])
				}
				var in []byte
				var err error
				switch f[1] {
				case "approve":
					in, err = sabi.Pack("approve", puppetAddr, amt, []string{c04MsgURL(method)})
				case "increase":
					in, err = sabi.Pack("increaseAllowance", puppetAddr, amt, []string{c04MsgURL(method)})
				case "decrease":
					in, err = sabi.Pack("decreaseAllowance", puppetAddr, amt, []string{c04MsgURL(method)})
				case "revoke":
					in, err = sabi.Pack("revoke", puppetAddr, []string{c04MsgURL(method)})
				}
				if err != nil {
					panic(err)
				}
				var res abci.ResponseDeliverTx
				if f[1] == "approve" && kv["native"] == "1" {
					// the grant is made through the authz module (MsgGrant), restricted to the validators named on the line
					var allow []sdk.ValAddress
					for _, id := range strings.Split(f[3], ",") {
						va, e := sdk.ValAddressFromBech32(c04Vals[vmIdx(id)%len(c04Vals)])
						if e != nil {
							panic(e)
						}
						allow = append(allow, va)
					}
					at := stakingtypes.AuthorizationType_AUTHORIZATION_TYPE_DELEGATE
					if method == "undelegate" {
						at = stakingtypes.AuthorizationType_AUTHORIZATION_TYPE_UNDELEGATE
					}
					coin := sdk.NewCoin(nw.GetDenom(), sdkmath.NewIntFromBigInt(amt))
					sa, e := stakingtypes.NewStakeAuthorization(allow, nil, at, &coin)
					if e != nil {
						panic(e)
					}
					exp := nw.GetContext().BlockTime().Add(365 * 24 * time.Hour)
					if e := app.AuthzKeeper.SaveGrant(nw.GetContext(), puppetAddr.Bytes(), kr.GetKey(puppetOrigin).AccAddr, sa, &exp); e != nil {
						res.Code = 1
					}
					tags = append(tags, "native-grant")
				} else {
					res, _, _ = c07Send(puppetOrigin, evmtypes.EvmTxArgs{To: &stk, Input: in, GasLimit: 3_000_000, GasPrice: price})
				}
				okExec := res.Code == 0
				if okExec && len(res.Data) > 0 {
					if txr, e := evmtypes.DecodeTxResponse(res.Data); e == nil && txr.Failed() {
						okExec = false
						if os.Getenv("VERIF_DEBUG") != "" {
							fmt.Fprintln(os.Stderr, "C04 allowance call failed:", txr.VmError, "gas used", txr.GasUsed)
						}
					}
				} else if os.Getenv("VERIF_DEBUG") != "" {
					fmt.Fprintln(os.Stderr, "C04 allowance tx rejected:", res.Log)
				}
				post, _ := c04Grant(method)
				st := "fail"
				if okExec {
					st = "ok"
					g := c04Ghost[method]
					switch f[1] {
					case "revoke":
						delete(c04GhostExpiry, method)
					}
					switch f[1] {
					case "approve":
						// (an approval is good for a year, through the precompile and for the grants this check makes natively)
						if amt.Sign() == 0 {
							delete(c04GhostExpiry, method)
						} else {
							c04GhostExpiry[method] = nw.GetContext().BlockTime().Add(365 * 24 * time.Hour)
						}
						if f[2] == "max" || amt.Sign() == 0 {
							c04Ghost[method] = &c04Ledger{}
						} else {
							c04Ghost[method] = &c04Ledger{limited: true, granted: new(big.Int).Set(amt), spent: big.NewInt(0)}
						}
					case "increase":
						if g != nil && g.limited {
							g.granted.Add(g.granted, amt)
						}
					case "decrease":
						if g != nil && g.limited {
							g.granted.Sub(g.granted, amt)
						}
					case "revoke":
						c04Ghost[method] = &c04Ledger{}
					}
				}
				out = st + " " + post
				tags = append(tags, "allow-"+f[1]+"-"+st)
				checkThird()
			case "sdeny":
				// a grant made through the authz module with a DENY list (one validator barred, everything else allowed, no
				// limit), then the contract delegates the signer's coins to the barred validator — spelled in lower case and
				// in upper case (the same validator).  Monitor only: the model's grants carry allow lists.
				out = "skip"
				val := vmIdx(kv["val"]) % len(c04Vals)
				va, e := sdk.ValAddressFromBech32(c04Vals[val])
				if e != nil {
					panic(e)
				}
				sa, e := stakingtypes.NewStakeAuthorization(nil, []sdk.ValAddress{va}, stakingtypes.AuthorizationType_AUTHORIZATION_TYPE_DELEGATE, nil)
				if e != nil {
					panic(e)
				}
				exp := nw.GetContext().BlockTime().Add(365 * 24 * time.Hour)
				if e := app.AuthzKeeper.SaveGrant(nw.GetContext(), puppetAddr.Bytes(), kr.GetKey(puppetOrigin).AccAddr, sa, &exp); e != nil {
					panic(e)
				}
				delete(c04Ghost, "delegate")
				c04GhostExpiry["delegate"] = exp
				tags = append(tags, "deny-list-grant")
				for _, spelling := range []string{c04Vals[val], strings.ToUpper(c04Vals[val])} {
					b0 := bonded(kr.GetKey(puppetOrigin).Addr)
					in, err := sabi.Pack("delegate", kr.GetKey(puppetOrigin).Addr, spelling, big.NewInt(77))
					if err != nil {
						panic(err)
					}
					puppetRun(big.NewInt(0), puppetCall(0, stk, big.NewInt(0), in), 12_000_000)
					if b1 := bonded(kr.GetKey(puppetOrigin).Addr); b1.Cmp(b0) != 0 {
						fl("C04:validator-outside-grant:denied-validator", fmt.Sprintf("the signer's grant to the contract bars validator %s; the contract's delegate naming it as %q went through (the signer's stake changed by %s)", c04Vals[val], spelling, new(big.Int).Sub(b1, b0)))
					}
				}
				// (the deny-list grant is removed again: the cases that follow use allow-list grants)
				_ = app.AuthzKeeper.DeleteGrant(nw.GetContext(), puppetAddr.Bytes(), kr.GetKey(puppetOrigin).AccAddr, stakingpc.DelegateMsg)
				delete(c04GhostExpiry, "delegate")
			case "tick":
				// time passes (days)
				out = "skip"
				if err := nw.NextBlockAfter(time.Duration(vmIdx(kv["days"])) * 24 * time.Hour); err != nil {
					panic(err)
				}
				tags = append(tags, "time-advanced")
			case "jailval", "unjailval":
				out = "skip"
				va, e := sdk.ValAddressFromBech32(c04Vals[vmIdx(f[1])%len(c04Vals)])
				if e != nil {
					panic(e)
				}
				v, found := app.StakingKeeper.GetValidator(nw.GetContext(), va)
				if !found {
					return
				}
				cons, e := v.GetConsAddr()
				if e != nil {
					panic(e)
				}
				if f[0] == "jailval" && !v.IsJailed() {
					app.StakingKeeper.Jail(nw.GetContext(), cons)
					tags = append(tags, "validator-jailed")
				} else if f[0] == "unjailval" && v.IsJailed() {
					app.StakingKeeper.Unjail(nw.GetContext(), cons)
				}
			case "sallow2":
				// sallow2 <op> <arg> <allow> <grantU> <grantD> # order=ud|du — one call naming both message types
				preU, paU := c04Grant("undelegate")
				preD, _ := c04Grant("delegate")
				var now []string
				app.StakingKeeper.IterateValidators(nw.GetContext(), func(_ int64, v stakingtypes.ValidatorI) bool {
					if !v.IsJailed() {
						now = append(now, fmt.Sprint(c04ValID(v.GetOperator().String())))
					}
					return false
				})
				f[3] = "-"
				if f[1] == "approve" {
					f[3] = strings.Join(now, ",")
				}
				f[4], f[5] = preU, preD
				if strings.HasPrefix(f[2], "lim") {
					lim := big.NewInt(700)
					if paU != nil && paU.MaxTokens != nil {
						lim = paU.MaxTokens.Amount.BigInt()
					}
					if f[2] == "lim-1" {
						lim = new(big.Int).Sub(lim, big.NewInt(1))
					}
					if lim.Sign() < 0 {
						lim = big.NewInt(0)
					}
					f[2] = lim.String()
				}
				c[i] = strings.Join(f, " ")
				amt := mustBig(f[2])
				urls := []string{stakingpc.UndelegateMsg, stakingpc.DelegateMsg}
				if kv["order"] == "du" {
					urls = []string{stakingpc.DelegateMsg, stakingpc.UndelegateMsg}
				}
				var in []byte
				var err error
				switch f[1] {
				case "approve":
					in, err = sabi.Pack("approve", puppetAddr, amt, urls)
				case "increase":
					in, err = sabi.Pack("increaseAllowance", puppetAddr, amt, urls)
				case "decrease":
					in, err = sabi.Pack("decreaseAllowance", puppetAddr, amt, urls)
				case "revoke":
					in, err = sabi.Pack("revoke", puppetAddr, urls)
				}
				if err != nil {
					panic(err)
				}
				res, _, _ := c07Send(puppetOrigin, evmtypes.EvmTxArgs{To: &stk, Input: in, GasLimit: 3_000_000, GasPrice: price})
				okExec := res.Code == 0
				if okExec {
					if txr, e := evmtypes.DecodeTxResponse(res.Data); e == nil && txr.Failed() {
						okExec = false
					}
				}
				postU, _ := c04Grant("undelegate")
				postD, _ := c04Grant("delegate")
				st := "fail"
				if okExec {
					st = "ok"
					for _, method := range []string{"undelegate", "delegate"} {
						g := c04Ghost[method]
						switch f[1] {
						case "approve":
							if amt.Sign() == 0 {
								c04Ghost[method] = &c04Ledger{}
							} else {
								c04Ghost[method] = &c04Ledger{limited: true, granted: new(big.Int).Set(amt), spent: big.NewInt(0)}
							}
						case "increase":
							if g != nil && g.limited {
								g.granted.Add(g.granted, amt)
							}
						case "decrease":
							if g != nil && g.limited {
								g.granted.Sub(g.granted, amt)
							}
						case "revoke":
							c04Ghost[method] = &c04Ledger{}
						}
					}
				}
				out = st + " " + postU + " " + postD
				tags = append(tags, "allow2-"+f[1]+"-"+st)
				checkThird()
			case "scall":
				method := kv["method"]
				caller, deleg := vmIdx(f[2]), vmIdx(f[3])
				val := vmIdx(f[4]) % len(c04Vals)
				if f[4] == "99" { // the most recently created validator
					val = len(c04Vals) - 1
				}
				f[4] = fmt.Sprint(val)
				pre, preAuth := c04Grant(method)
				expPre := c04Expiry(method)
				lim := big.NewInt(1000)
				if preAuth != nil && preAuth.MaxTokens != nil {
					lim = preAuth.MaxTokens.Amount.BigInt()
				}
				var amt *big.Int
				switch spec := kv["amt"]; {
				case strings.HasPrefix(spec, "abs:"):
					amt = mustBig(strings.TrimPrefix(spec, "abs:"))
				case spec == "lim-1":
					amt = new(big.Int).Sub(lim, big.NewInt(1))
				case spec == "lim+1":
					amt = new(big.Int).Add(lim, big.NewInt(1))
				case spec == "half":
					amt = new(big.Int).Rsh(lim, 1)
				default:
					amt = new(big.Int).Set(lim)
				}
				if amt.Sign() <= 0 {
					amt = big.NewInt(1)
				}
				if amt.BitLen() > 60 {
					amt = big.NewInt(1_000_000)
				}
				// would the native message succeed for the named delegator in this state? (dry run on a cached context)
				native := "1"
				{
					cctx, _ := nw.GetContext().CacheContext()
					srv := haqqstakingkeeper.NewMsgServerImpl(&app.StakingKeeper)
					va, _ := sdk.ValAddressFromBech32(c04Vals[val])
					coin := sdk.NewCoin(denom, sdkmath.NewIntFromBigInt(amt))
					var e error
					if method == "delegate" {
						_, e = srv.Delegate(sdk.WrapSDKContext(cctx), stakingtypes.NewMsgDelegate(addrOf(deleg).Bytes(), va, coin))
					} else if method == "cancel" {
						_, e = srv.CancelUnbondingDelegation(sdk.WrapSDKContext(cctx), stakingtypes.NewMsgCancelUnbondingDelegation(addrOf(deleg).Bytes(), va, c04UnbondingHeight(addrOf(deleg).Bytes(), va), coin))
					} else {
						_, e = srv.Undelegate(sdk.WrapSDKContext(cctx), stakingtypes.NewMsgUndelegate(addrOf(deleg).Bytes(), va, coin))
					}
					if e != nil {
						native = "0"
						tags = append(tags, "native-would-fail")
					}
				}
				f[5], f[6], f[7] = amt.String(), pre, native
				c[i] = strings.Join(f, " ")
				in, err := sabi.Pack(method, addrOf(deleg), c04Vals[val], amt)
				if method == "cancel" {
					va, _ := sdk.ValAddressFromBech32(c04Vals[val])
					in, err = sabi.Pack("cancelUnbondingDelegation", addrOf(deleg), c04Vals[val], amt, big.NewInt(c04UnbondingHeight(addrOf(deleg).Bytes(), va)))
				}
				if err != nil {
					panic(err)
				}
				b0 := []*big.Int{bonded(E.Addr), bonded(puppetAddr)}
				var failed bool
				if caller == 0 {
					res, _, _ := c07Send(puppetOrigin, evmtypes.EvmTxArgs{To: &stk, Input: in, GasLimit: 10_000_000, GasPrice: price})
					failed = res.Code != 0
					if !failed {
						if txr, e := evmtypes.DecodeTxResponse(res.Data); e == nil {
							failed = txr.Failed()
							if failed && os.Getenv("VERIF_DEBUG") != "" {
								fmt.Fprintln(os.Stderr, "C04 scall failed:", txr.VmError, "gas used", txr.GasUsed, "native", native)
							}
						}
					} else if os.Getenv("VERIF_DEBUG") != "" {
						fmt.Fprintln(os.Stderr, "C04 scall rejected:", res.Log)
					}
				} else if kv["swallow"] == "1" {
					// the contract makes the call with a low-level CALL and carries on whatever the result: the transaction
					// succeeds; whether the call did anything is read off the state
					o := puppetRun(big.NewInt(0), puppetCall(0, stk, big.NewInt(0), in), 12_000_000)
					failed = o.code != 0 || o.failed
					tags = append(tags, "call-result-ignored-by-contract")
				} else {
					o := puppetRun(big.NewInt(0), puppetCall(1, stk, big.NewInt(0), in), 12_000_000)
					failed = o.code != 0 || o.failed
				}
				post, _ := c04Grant(method)
				b1 := []*big.Int{bonded(E.Addr), bonded(puppetAddr)}
				if kv["swallow"] == "1" && !failed && post == pre && b1[0].Cmp(b0[0]) == 0 && b1[1].Cmp(b0[1]) == 0 {
					failed = true // the inner call was refused and left nothing behind
				}
				checkThird()
				if failed {
					out = "reject"
					tags = append(tags, "call-reject", fmt.Sprintf("reject:caller=%d,deleg=%d", caller, deleg))
					if post != pre {
						fl("C04:grant-changed-by-rejected-call", fmt.Sprintf("the call was rejected but the grant went from %s to %s", pre, post))
					}
					if b1[0].Cmp(b0[0]) != 0 || b1[1].Cmp(b0[1]) != 0 {
						fl("C04:stake-changed-by-rejected-call", "the call was rejected but a delegation changed")
					}
					return
				}
				tags = append(tags, "call-ok", fmt.Sprintf("ok:caller=%d,deleg=%d", caller, deleg))
				if caller != 0 {
					// a spend never changes when the grant ends, and no spend happens after the end the signer gave it
					now := nw.GetContext().BlockTime()
					if expPost := c04Expiry(method); expPre != nil && expPost != nil && !expPost.Equal(*expPre) {
						fl("C04:spend-changed-grant-expiration", fmt.Sprintf("a spend by the contract moved the end of the grant from %s to %s", expPre.UTC().Format(time.RFC3339), expPost.UTC().Format(time.RFC3339)))
					}
					if g, ok := c04GhostExpiry[method]; ok && now.After(g) {
						fl("C04:spent-after-the-grant-ended", fmt.Sprintf("the contract spent at %s; the grant the signer gave ended at %s", now.UTC().Format(time.RFC3339), g.UTC().Format(time.RFC3339)))
					}
					if now.After(nw.GetContext().BlockTime().Add(-time.Hour)) {
						tags = append(tags, "spend-with-expiry-checked")
					}
				}
				debited := -1
				for id := 0; id < 2; id++ {
					if b1[id].Cmp(b0[id]) != 0 {
						if debited >= 0 {
							fl("C04:two-accounts-affected", "both the signer's and the caller's delegation changed in one call")
						}
						debited = id
					}
				}
				if caller == 0 {
					out = fmt.Sprintf("ok %d %s", debited, pre)
					// the model echoes the grant it was given when no grant is consulted; so does the store
					if post != pre {
						fl("C04:grant-changed-without-being-used", fmt.Sprintf("signer called directly, grant went from %s to %s", pre, post))
					}
				} else {
					out = fmt.Sprintf("ok %d %s", debited, post)
					if g := c04Ghost[method]; g != nil && g.limited {
						g.spent.Add(g.spent, amt)
						if g.spent.Cmp(g.granted) > 0 {
							fl("C04:spent-more-than-granted", fmt.Sprintf("since the last approval the signer granted %s in total (approval + increases − decreases) and the contract has now spent %s", g.granted, g.spent))
						}
					}
					// the property's own predicate: a live grant covered type, validator and amount, and was reduced exactly
					switch {
					case preAuth == nil:
						fl("C04:spent-without-grant", "the contract acted for the signer although no live grant existed")
					default:
						inAllow := false
						if al := preAuth.GetAllowList(); al != nil {
							for _, v := range al.Address {
								if v == c04Vals[val] {
									inAllow = true
								}
							}
						}
						if !inAllow {
							fl("C04:validator-outside-grant", fmt.Sprintf("the contract acted for the signer with validator %d, which the grant %s does not cover", val, pre))
						}
						if preAuth.MaxTokens != nil {
							want := new(big.Int).Sub(preAuth.MaxTokens.Amount.BigInt(), amt)
							switch {
							case want.Sign() < 0:
								fl("C04:grant-overspent", fmt.Sprintf("spent %s with grant %s", amt, pre))
							case want.Sign() == 0 && post != "none":
								fl("C04:limit-not-exact", fmt.Sprintf("grant %s, spent %s, now %s (expected deleted)", pre, amt, post))
							case want.Sign() > 0 && !strings.HasPrefix(post, "L"+want.String()+"/"):
								fl("C04:limit-not-exact", fmt.Sprintf("grant %s, spent %s, now %s", pre, amt, post))
							}
						}
					}
				}
			}
		}()
		outs = append(outs, out)
	}
	return
}

func cosmosedKey(seed []byte) []byte {
	return ed25519NewKeyFromSeed(seed)
}

func init() {
	Register(&Property{
		ID:    "C04",
		Gen:   c04Gen,
		Exec:  c04Exec,
		Setup: func() error { c04Setup(); return nil },
		NonTrivial: func(tags []string) bool {
			return hasTag(tags, "call-ok") && hasTag(tags, "call-reject")
		},
		Rule: "real signed transactions on the application: the signer calls the staking precompile directly or through a contract (the script-interpreting puppet), naming itself, the contract or a third account as delegator, for delegate and undelegate, with validators inside and outside the grant's allow-list (validators are created after approvals), amounts limit−1 / limit / limit+1 / half / arbitrary, in grant states absent, limited, unlimited, revoked, produced by random approve / increase / decrease / revoke sequences; every verdict and the grant afterwards is compared with the Lean model, and the property's own predicates (third party untouched, grant covers validator and amount, limit reduced exactly) are evaluated on the store; non-trivial = a case with an accepted and a refused call; distinct = distinct op sequences",
	})
}

func ed25519NewKeyFromSeed(seed []byte) []byte { return stded25519.NewKeyFromSeed(seed) }
