package props

import (
	"math/big"

	sdkmath "cosmossdk.io/math"
	sdk "github.com/cosmos/cosmos-sdk/types"
	distrtypes "github.com/cosmos/cosmos-sdk/x/distribution/types"
	"github.com/ethereum/go-ethereum/common"

	stakingpc "github.com/haqq-network/haqq/precompiles/staking"
	evmtypes "github.com/haqq-network/haqq/x/evm/types"
)

// ProbeRewardsBurn: an EOA delegates through the staking precompile while it has pending rewards at that validator.
func ProbeRewardsBurn(logf func(string, ...interface{})) {
	nw, kr := fixture()
	app := nw.App
	denom := nw.GetDenom()
	k := kr.GetKey(2)
	sabi, _ := stakingpc.LoadABI()
	stk := common.HexToAddress(stakingpc.PrecompileAddress)
	val := nw.GetValidators()[0]
	price := big.NewInt(2_000_000_000)
	send := func(amt int64) int64 {
		in, _ := sabi.Pack("delegate", k.Addr, val.OperatorAddress, big.NewInt(amt))
		r, _, _ := c07Send(2, evmtypes.EvmTxArgs{To: &stk, Input: in, GasLimit: 500_000, GasPrice: price})
		if r.Code != 0 {
			panic(r.Log)
		}
		return r.GasUsed
	}
	send(1_000_000_000_000_000_000)
	_ = nw.NextBlock()
	ctx := nw.GetContext()
	coins := sdk.NewCoins(sdk.NewCoin(denom, sdkmath.NewInt(1_000_000_000)))
	_ = app.BankKeeper.MintCoins(ctx, "coinomics", coins)
	_ = app.BankKeeper.SendCoinsFromModuleToModule(ctx, "coinomics", distrtypes.ModuleName, coins)
	va, _ := sdk.ValAddressFromBech32(val.OperatorAddress)
	v, _ := app.StakingKeeper.GetValidator(ctx, va)
	app.DistrKeeper.AllocateTokensToValidator(ctx, v, sdk.NewDecCoinsFromCoins(sdk.NewCoin(denom, sdkmath.NewInt(900_000_000))))
	_ = nw.NextBlock()
	ctx = nw.GetContext()
	rew := app.DistrKeeper.GetValidatorOutstandingRewardsCoins(ctx, va)
	sup0 := app.BankKeeper.GetSupply(ctx, denom).Amount
	bal0 := app.BankKeeper.GetBalance(ctx, k.AccAddr, denom).Amount
	gas := send(5000)
	ctx = nw.GetContext()
	sup1 := app.BankKeeper.GetSupply(ctx, denom).Amount
	bal1 := app.BankKeeper.GetBalance(ctx, k.AccAddr, denom).Amount
	fee := sdkmath.NewInt(gas).Mul(sdkmath.NewIntFromBigInt(price))
	logf("outstanding rewards at validator before: %s", rew)
	logf("supply delta: %s", sup1.Sub(sup0))
	logf("delegator balance delta (net of fee %s): %s   (delegated 5000)", fee, bal1.Sub(bal0).Add(fee))
}
