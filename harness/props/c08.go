package props

import (
	"fmt"
	"github.com/ethereum/go-ethereum/crypto"
	"math/big"
	"math/rand"
	"os"
	"strings"
	"time"

	sdkmath "cosmossdk.io/math"
	sdk "github.com/cosmos/cosmos-sdk/types"
	authtypes "github.com/cosmos/cosmos-sdk/x/auth/types"
	sdkvesting "github.com/cosmos/cosmos-sdk/x/auth/vesting/types"
	banktypes "github.com/cosmos/cosmos-sdk/x/bank/types"
	govtypes "github.com/cosmos/cosmos-sdk/x/gov/types"
	govv1 "github.com/cosmos/cosmos-sdk/x/gov/types/v1"
	govv1beta1 "github.com/cosmos/cosmos-sdk/x/gov/types/v1beta1"
	stakingtypes "github.com/cosmos/cosmos-sdk/x/staking/types"
	"github.com/ethereum/go-ethereum/common"

	stakingpc "github.com/haqq-network/haqq/precompiles/staking"
	haqqbankkeeper "github.com/haqq-network/haqq/x/bank/keeper"
	coinomicstypes "github.com/haqq-network/haqq/x/coinomics/types"
	evmtypes "github.com/haqq-network/haqq/x/evm/types"
	haqqstakingkeeper "github.com/haqq-network/haqq/x/staking/keeper"
	ucdaotypes "github.com/haqq-network/haqq/x/ucdao/types"
	vestingtypes "github.com/haqq-network/haqq/x/vesting/types"
)

// C08 — locked and unvested coins cannot leave. Ops (shared with lean/HaqqModel/Driver/C08.lean):
//
//	vgrant # k=<keyIdx> off=<startOffset> lockup=<periods> vesting=<periods>          (monitor-only set-up)
//	vtime # dt=<seconds>
//	vspend <kind> <acct> <bal> <amt> <now> # k=<keyIdx> path=<path> amt=<S-1|S|S+1|S/2|B|n>
//	     kind/acct/bal/amt/now are filled in by the executor; path ∈ send multisend fee daofund govdeposit delegate-msg
//	vmon # k=<keyIdx> path=evm-value|delegate-precompile|undelegate amt=<…>            (monitor-only paths)
func init() {
	Register(&Property{
		ID:   "C08",
		Gen:  c08Gen,
		Exec: c08Exec,
		NonTrivial: func(tags []string) bool {
			return hasTag(tags, "spend-ok") && hasTag(tags, "spend-reject")
		},
		Rule: "vesting accounts (keyring accounts converted with generated, repeatedly merged schedules) on the real application; at generated block times every spend path (bank send, multi-send, fee payment, DAO fund, governance deposit, EVM value transfer) is attempted with amounts spendable−1 / spendable / spendable+1 / half / whole balance, interleaved with delegations (message and staking precompile, same boundary amounts around balance−unvested) and undelegations; non-trivial = the case has both an accepted and a refused spend; distinct = distinct op sequences",
	})
}

func c08Gen(r *rand.Rand, tier string) []Case {
	n := 25
	if tier == "thorough" {
		n = 400
	}
	var out []Case
	// fixed case: a grant in two denominations, the second vesting at once and locked up for long; more of the staking
	// denomination delegated than the grant holds of it; then the second denomination spent at its boundary
	out = append(out, Case{
		"vgrant # k=3 off=-2 lockup=300@0:5000000,1:5000 vesting=1@0:1000000,1:5000;200@0:4000000",
		"vtime # dt=5",
		"vmon # k=3 path=send-b amt=S+1",
		"vspend ? ? ? ? ? # k=3 path=delegate-msg amt=S",
		"vmon # k=3 path=send-b amt=S+1",
		"vmon # k=3 path=send-b amt=S",
		"vspend ? ? ? ? ? # k=3 path=send amt=S+1",
		"vspend ? ? ? ? ? # k=3 path=send amt=S",
	})
	// fixed case: a small grant back-dated before the account's start is merged into an account that still has vesting
	// events ahead; what the first grant leaves unvested must stay out of reach
	out = append(out, Case{
		"vgrant # k=4 off=0 lockup=10@0:1000000 vesting=5000@0:1000000",
		"vtime # dt=20",
		"vgrant # k=4 off=-4000 lockup=1@0:10 vesting=1@0:10",
		"vtime # dt=2000",
		"vspend ? ? ? ? ? # k=4 path=delegate-msg amt=S",
		"vspend ? ? ? ? ? # k=4 path=send amt=S",
		"vspend ? ? ? ? ? # k=4 path=send amt=S+1",
		"vmon # k=4 path=evm-value amt=S",
	})
	// fixed case: everything vested at once and locked up for long, all of it staked, then the account asks to become a
	// plain account again (which drops the schedule)
	out = append(out, Case{
		"vgrant # k=5 off=-2 lockup=100000@0:7000000 vesting=1@0:7000000",
		"vtime # dt=5",
		"vunconv ? ? # k=5",
		"vspend ? ? ? ? ? # k=5 path=delegate-msg amt=B",
		"vunconv ? ? # k=5",
		"vmon # k=5 path=undelegate amt=B",
		"vspend ? ? ? ? ? # k=5 path=send amt=S+1",
	})
	// fixed case: a contract is created under a vesting account (a counterfactual address) and self-destructs
	out = append(out, Case{"vsuicide", "vtime # dt=5", "vsuicide"})
	paths := []string{"send", "multisend", "fee", "daofund", "govdeposit", "send", "fee"}
	amts := []string{"S-1", "S+1", "S/2", "S/2", "B", "1", "1000", "S+1", "S"}
	for i := 0; i < n; i++ {
		k := 3 + r.Intn(3)
		var c Case
		nl := 1 + r.Intn(3)
		lock := make([]period, nl)
		for j := range lock {
			lock[j] = period{L: int64(2 + r.Intn(40)), A: []coin{{D: 0, V: big.NewInt(int64(1_000_000 + r.Intn(9_000_000)))}}}
		}
		// one case in three: the grant also carries a second denomination (spent through the monitor-only path send-b)
		withB := r.Intn(3) == 0
		var totB *big.Int
		if withB {
			totB = new(big.Int)
			for j := range lock {
				b := big.NewInt(int64(1_000 + r.Intn(9_000)))
				lock[j].A = append(lock[j].A, coin{D: 1, V: b})
				totB.Add(totB, b)
			}
		}
		vest := "-"
		if r.Intn(2) == 0 || withB {
			// a vesting schedule with the same total, split in two
			tot := totalOf(lock)[0].V
			a := new(big.Int).Rand(r, tot)
			if a.Sign() == 0 {
				a = big.NewInt(1)
			}
			b := new(big.Int).Sub(tot, a)
			vs := []period{{L: int64(1 + r.Intn(30)), A: []coin{{D: 0, V: a}}}}
			if b.Sign() > 0 {
				vs = append(vs, period{L: int64(1 + r.Intn(60)), A: []coin{{D: 0, V: b}}})
			}
			if withB {
				// the second denomination vests early (vested but still locked up for most of the case)
				vs[0].A = append(vs[0].A, coin{D: 1, V: totB})
			}
			vest = fmtPeriods(vs)
		}
		c = append(c, fmt.Sprintf("vgrant # k=%d off=%d lockup=%s vesting=%s", k, r.Intn(20)-5, fmtPeriods(lock), vest))
		for j := 0; j < 6+r.Intn(8); j++ {
			if withB && r.Intn(3) == 0 {
				// more of the staking denomination delegated than the grant holds of it, then the second denomination spent
				if r.Intn(2) == 0 {
					c = append(c, fmt.Sprintf("vspend ? ? ? ? ? # k=%d path=delegate-msg amt=%s", k, pick(r, []string{"S", "S/2", "S-1"})))
				}
				c = append(c, fmt.Sprintf("vmon # k=%d path=send-b amt=%s", k, pick(r, amts)))
			}
			switch x := r.Intn(12); {
			case x < 3:
				c = append(c, fmt.Sprintf("vtime # dt=%d", 1+r.Intn(35)))
			case x < 8:
				c = append(c, fmt.Sprintf("vspend ? ? ? ? ? # k=%d path=%s amt=%s", k, pick(r, paths), pick(r, amts)))
			case x < 10:
				c = append(c, fmt.Sprintf("vspend ? ? ? ? ? # k=%d path=delegate-msg amt=%s", k, pick(r, amts)))
			case x < 11:
				if withB && r.Intn(2) == 0 {
					c = append(c, fmt.Sprintf("vmon # k=%d path=send-b amt=%s", k, pick(r, amts)))
				} else {
					c = append(c, fmt.Sprintf("vmon # k=%d path=%s amt=%s", k, pick(r, []string{"evm-value", "delegate-precompile"}), pick(r, amts)))
				}
			default:
				if r.Intn(4) == 0 {
					c = append(c, fmt.Sprintf("vunconv ? ? # k=%d", k))
				} else if r.Intn(3) == 0 {
					c = append(c, fmt.Sprintf("vclaw # k=%d", k))
				} else {
					c = append(c, fmt.Sprintf("vmon # k=%d path=undelegate amt=%s", k, pick(r, []string{"S/2", "1", "B"})))
				}
			}
		}
		if r.Intn(3) == 0 {
			// the old grant's vested coins leave the account, then a partly vested grant is merged in with stake=true
			// (the conversion delegates the vested part itself, past the staking message's own guard)
			tot := int64(1_000_000 + r.Intn(9_000_000))
			first := 1 + r.Int63n(tot-1)
			ls := []period{{L: int64(200 + r.Intn(200)), A: []coin{{D: 0, V: big.NewInt(tot)}}}}
			vs := []period{{L: int64(1 + r.Intn(8)), A: []coin{{D: 0, V: big.NewInt(first)}}}, {L: int64(100 + r.Intn(200)), A: []coin{{D: 0, V: big.NewInt(tot - first)}}}}
			c = append(c, fmt.Sprintf("vtime # dt=%d", 40+r.Intn(60)),
				fmt.Sprintf("vspend ? ? ? ? ? # k=%d path=send amt=S", k),
				fmt.Sprintf("vgrant # k=%d off=%d lockup=%s vesting=%s stake=1 scale=auto", k, -10-r.Intn(10), fmtPeriods(ls), fmtPeriods(vs)),
				fmt.Sprintf("vspend ? ? ? ? ? # k=%d path=send amt=S+1", k))
		}
		out = append(out, c)
	}
	return out
}

var c08Funded bool

// The checks' own record of what each fixture account was granted (start time and vesting events in the staking
// denomination), kept apart from what the account stores about itself: "unvested" in the property means unvested by
// the grants as they were made, whatever a merge did to the stored schedule.
type c08GhostGrant struct {
	start  int64
	events []c08GhostEvent // absolute time, amount
}
type c08GhostEvent struct {
	at  int64
	amt *big.Int
}

var c08Ghost = map[int][]c08GhostGrant{}

func c08GhostUnvested(k int, t int64) *big.Int {
	u := new(big.Int)
	for _, g := range c08Ghost[k] {
		for _, e := range g.events {
			// (an event at exactly t counts as vested, as in the merged schedule of an account that started earlier;
			// DESIGN.md §4: equality with the step function is claimed strictly after a grant's start)
			if e.at > t {
				u.Add(u, e.amt)
			}
		}
	}
	return u
}

func c08Exec(c Case) (outs []string, fails []Failure, tags []string) {
	nw, kr := fixture()
	app := nw.App
	denom := nw.GetDenom()
	bankMS := haqqbankkeeper.NewMsgServerImpl(haqqbankkeeper.NewWrappedBaseKeeper(app.BankKeeper, app.Erc20Keeper, app.AccountKeeper))
	stakeMS := haqqstakingkeeper.NewMsgServerImpl(&app.StakingKeeper)
	if !c08Funded {
		ctx := nw.GetContext()
		coins := sdk.NewCoins(sdk.NewCoin(denom, sdkmath.NewIntWithDecimal(1, 24)), sdk.NewCoin(schedDenoms[1], sdkmath.NewIntWithDecimal(1, 18)))
		_ = app.BankKeeper.MintCoins(ctx, coinomicstypes.ModuleName, coins)
		_ = app.BankKeeper.SendCoinsFromModuleToAccount(ctx, coinomicstypes.ModuleName, kr.GetAccAddr(0), coins)
		_ = app.DaoKeeper
		c08Funded = true
	}
	// the property's formula, computed independently of LockedCoins()
	var lockedFormulaOf func(va *vestingtypes.ClawbackVestingAccount, t time.Time, denom string) *big.Int
	lockedFormula := func(va *vestingtypes.ClawbackVestingAccount, t time.Time) *big.Int {
		return lockedFormulaOf(va, t, denom)
	}
	lockedFormulaOf = func(va *vestingtypes.ClawbackVestingAccount, t time.Time, denom string) *big.Int {
		orig := va.OriginalVesting.AmountOf(denom).BigInt()
		unl := va.GetUnlockedCoins(t).AmountOf(denom).BigInt()
		ves := va.GetVestedCoins(t).AmountOf(denom).BigInt()
		uv := unl
		if ves.Cmp(uv) < 0 {
			uv = ves
		}
		del := va.DelegatedFree.AmountOf(denom).BigInt()
		del = new(big.Int).Add(del, va.DelegatedVesting.AmountOf(denom).BigInt())
		a := new(big.Int).Sub(new(big.Int).Sub(orig, uv), del)
		if a.Sign() < 0 {
			a = big.NewInt(0)
		}
		b := new(big.Int).Sub(orig, ves)
		if b.Cmp(a) > 0 {
			return b
		}
		return a
	}
	for i, line := range c {
		f := strings.Fields(line)
		kv := vmKV(f)
		out := "bad-op"
		func() {
			defer func() {
				if r := recover(); r != nil {
					out = "panic:" + strings.ReplaceAll(fmt.Sprint(r), " ", "_")
				}
			}()
			fl := func(sig, what string) { fails = append(fails, Failure{Signature: sig, What: what, Case: c[:i+1]}) }
			ctx := nw.GetContext()
			k := vmIdx(kv["k"])
			switch f[0] {
			case "vgrant":
				out = "skip"
				start := ctx.BlockTime().Unix() + int64(vmIdx(kv["off"]))
				lps, vps := sdkPeriods(parsePeriods(kv["lockup"])), sdkPeriods(parsePeriods(kv["vesting"]))
				if kv["scale"] == "auto" {
					// the fixture's accounts accumulate grants over a run: make this grant larger than what the account was granted so far
					if va0, ok := app.AccountKeeper.GetAccount(ctx, kr.GetAccAddr(k)).(*vestingtypes.ClawbackVestingAccount); ok {
						fct := va0.OriginalVesting.AmountOf(denom).QuoRaw(1_000_000).AddRaw(1)
						for _, ps := range []sdkvesting.Periods{lps, vps} {
							for i := range ps {
								for j := range ps[i].Amount {
									ps[i].Amount[j].Amount = ps[i].Amount[j].Amount.Mul(fct)
								}
							}
						}
					}
				}
				stake := kv["stake"] == "1"
				var valAddr sdk.ValAddress
				if stake {
					valAddr = nw.GetValidators()[0].GetOperator()
				}
				msg := vestingtypes.NewMsgConvertIntoVestingAccount(kr.GetAccAddr(0), kr.GetAccAddr(k), time.Unix(start, 0).UTC(), lps, vps, true, stake, valAddr)
				if err := msg.ValidateBasic(); err != nil {
					panic(err)
				}
				cctx, write := ctx.CacheContext()
				if _, err := app.VestingKeeper.ConvertIntoVestingAccount(sdk.WrapSDKContext(cctx), msg); err != nil {
					// a different funder recorded from an earlier case etc.: the case simply runs on the account as it is
					tags = append(tags, "grant-refused")
					return
				}
				write()
				tags = append(tags, "grant-ok")
				{
					g := c08GhostGrant{start: start}
					ps := vps
					if len(ps) == 0 {
						ps = sdkvesting.Periods{{Length: 0, Amount: lps.TotalAmount()}}
					}
					at := start
					for _, p := range ps {
						at += p.Length
						if a := p.Amount.AmountOf(denom); a.IsPositive() {
							g.events = append(g.events, c08GhostEvent{at: at, amt: a.BigInt()})
						}
					}
					c08Ghost[k] = append(c08Ghost[k], g)
				}
				if stake {
					tags = append(tags, "grant-with-stake")
					ctx2 := nw.GetContext()
					if va2, ok := app.AccountKeeper.GetAccount(ctx2, kr.GetAccAddr(k)).(*vestingtypes.ClawbackVestingAccount); ok {
						post := app.BankKeeper.GetBalance(ctx2, kr.GetAccAddr(k), denom).Amount.BigInt()
						if unv := va2.GetVestingCoins(ctx2.BlockTime()).AmountOf(denom).BigInt(); post.Cmp(unv) < 0 {
							fl("C08:unvested-delegated:convert-with-stake", fmt.Sprintf("after a merged grant with stake=true the balance %s is below the unvested amount %s: unvested coins were delegated", post, unv))
						}
					}
				}
				// free float so that gas for the EVM paths can be paid even after boundary spends drained the account
				_ = app.BankKeeper.SendCoins(ctx, kr.GetAccAddr(0), kr.GetAccAddr(k), sdk.NewCoins(sdk.NewCoin(denom, sdkmath.NewIntWithDecimal(1, 16))))
			case "vclaw":
				out = "skip"
				va0, ok := app.AccountKeeper.GetAccount(ctx, kr.GetAccAddr(k)).(*vestingtypes.ClawbackVestingAccount)
				if !ok {
					return
				}
				funder := sdk.MustAccAddressFromBech32(va0.FunderAddress)
				pre := *va0
				vestedAtClaw := va0.GetVestedCoins(ctx.BlockTime())
				cctx, write := ctx.CacheContext()
				if _, err := app.VestingKeeper.Clawback(sdk.WrapSDKContext(cctx), vestingtypes.NewMsgClawback(funder, kr.GetAccAddr(k), funder)); err != nil {
					tags = append(tags, "claw-refused")
					return
				}
				write()
				tags = append(tags, "claw-ok")
				{
					// a clawback takes what is unvested at this moment: those events are gone
					t := ctx.BlockTime().Unix()
					var kept []c08GhostGrant
					for _, g := range c08Ghost[k] {
						var ev []c08GhostEvent
						for _, e := range g.events {
							if e.at <= t {
								ev = append(ev, e)
							}
						}
						if len(ev) > 0 {
							kept = append(kept, c08GhostGrant{start: g.start, events: ev})
						}
					}
					c08Ghost[k] = kept
				}
				// vested coins stay under their old lockup: for the rest of the old schedule the account must keep
				// locked what the old lockup schedule kept locked of the vested part
				if va2, ok := app.AccountKeeper.GetAccount(nw.GetContext(), kr.GetAccAddr(k)).(*vestingtypes.ClawbackVestingAccount); ok && !vestedAtClaw.IsZero() {
					for _, dt := range []int64{0, 1, 5, 20, 60} {
						t := ctx.BlockTime().Add(time.Duration(dt) * time.Second)
						want := pre.GetUnlockedCoins(t).Min(vestedAtClaw)
						got := va2.GetUnlockedCoins(t)
						if !got.IsEqual(want) && !(got.IsZero() && want.IsZero()) {
							fl("C08:clawback-unlocks-vested-early", fmt.Sprintf("after a clawback the account reports %s unlocked at +%ds, min(old lockup, vested) = %s", got, dt, want))
							break
						}
					}
				}
			case "vsuicide":
				// a vesting account at a counterfactual contract address: the address at which key 4's next deployment will
				// land gets a grant locked for a year; the deployment's init code then self-destructs to a fresh beneficiary.
				// The locked coins must not leave (the unchanged code refuses the burn of a locked balance: the transaction
				// fails as a whole).
				out = "skip"
				dep := kr.GetKey(0)
				X := crypto.CreateAddress(dep.Addr, app.EvmKeeper.GetNonce(ctx, dep.Addr))
				amt := sdkmath.NewInt(1_000_000 + int64(i))
				coins := sdk.NewCoins(sdk.NewCoin(denom, amt))
				lps := sdkvesting.Periods{{Length: 31_536_000, Amount: coins}}
				vps := sdkvesting.Periods{{Length: 1, Amount: coins}}
				msg := vestingtypes.NewMsgConvertIntoVestingAccount(kr.GetAccAddr(0), sdk.AccAddress(X.Bytes()), ctx.BlockTime().Add(-10*time.Second), lps, vps, true, false, nil)
				if _, err := app.VestingKeeper.ConvertIntoVestingAccount(sdk.WrapSDKContext(ctx), msg); err != nil {
					tags = append(tags, "vsuicide-grant-refused")
					return
				}
				benef := common.BytesToAddress(testAddr(7_000 + i))
				initCode := append(append([]byte{0x73}, benef.Bytes()...), 0xff) // PUSH20 beneficiary, SELFDESTRUCT
				price := new(big.Int).Mul(app.FeeMarketKeeper.GetBaseFee(ctx), big.NewInt(2))
				if price.Sign() == 0 {
					price = big.NewInt(2_000_000_000)
				}
				res, _, _ := c07Send(0, evmtypes.EvmTxArgs{Input: initCode, GasLimit: 300_000, GasPrice: price})
				if os.Getenv("VERIF_DEBUG") != "" {
					fmt.Fprintln(os.Stderr, "C08 vsuicide:", res.Code, res.Log)
				}
				tags = append(tags, fmt.Sprintf("contract-under-vesting-account-self-destructs:code-%d", res.Code))
				c2 := nw.GetContext()
				balX := app.BankKeeper.GetBalance(c2, sdk.AccAddress(X.Bytes()), denom).Amount
				balB := app.BankKeeper.GetBalance(c2, sdk.AccAddress(benef.Bytes()), denom).Amount
				if balB.IsPositive() || balX.LT(amt) {
					fl("C08:locked-coins-left-by-selfdestruct", fmt.Sprintf("a contract created under a vesting account with %s locked for a year self-destructed: the account now holds %s, the beneficiary %s", amt, balX, balB))
				}
			case "vunconv":
				// MsgConvertVestingAccount: back to a plain account, which drops the schedules.  Model: unconvertGuard
				// (nothing unvested, nothing locked up — wherever the coins are); a plain account is refused.
				addr := kr.GetAccAddr(k)
				now := ctx.BlockTime()
				for len(f) < 3 || f[1] == "#" {
					f = append([]string{f[0], "?", "?"}, f[1:]...)
				}
				f[1], f[2] = vmDumpAcct(ctx, addr), fmt.Sprint(now.Unix())
				c[i] = strings.Join(f, " ")
				va0, isVest := app.AccountKeeper.GetAccount(ctx, addr).(*vestingtypes.ClawbackVestingAccount)
				cctx, write := ctx.CacheContext()
				if _, err := app.VestingKeeper.ConvertVestingAccount(sdk.WrapSDKContext(cctx), vestingtypes.NewMsgConvertVestingAccount(addr)); err != nil {
					out = "reject"
					tags = append(tags, "unconvert-refused")
					return
				}
				write()
				out = "ok"
				tags = append(tags, "unconvert-ok")
				if !isVest {
					fl("C08:became-plain-account-while-locked", "MsgConvertVestingAccount succeeded for an account that is not a vesting account")
					return
				}
				uv := va0.GetUnlockedCoins(now).Min(va0.GetVestedCoins(now))
				held := va0.OriginalVesting.Sub(uv...) // still unvested or locked up, wherever the coins are at the moment
				if !held.IsZero() || c08GhostUnvested(k, now.Unix()).Sign() > 0 {
					fl("C08:became-plain-account-while-locked", fmt.Sprintf("the vesting account was turned into a plain account although %s of its grant is still unvested or locked up (delegated: %s): once undelegated, those coins can leave", held, va0.DelegatedFree.Add(va0.DelegatedVesting...)))
				}
				delete(c08Ghost, k)
			case "vtime":
				out = "skip"
				if err := nw.NextBlockAfter(time.Duration(vmIdx(kv["dt"])) * time.Second); err != nil {
					panic(err)
				}
			case "vspend", "vmon":
				addr := kr.GetAccAddr(k)
				acc := app.AccountKeeper.GetAccount(ctx, addr)
				va, isVest := acc.(*vestingtypes.ClawbackVestingAccount)
				bal := app.BankKeeper.GetBalance(ctx, addr, denom).Amount.BigInt()
				now := ctx.BlockTime()
				path := kv["path"]
				isDelegate := strings.HasPrefix(path, "delegate")
				avail := new(big.Int).Set(bal) // spendable (or delegatable)
				if isVest {
					if isDelegate {
						avail.Sub(avail, va.GetVestingCoins(now).AmountOf(denom).BigInt())
					} else {
						avail.Sub(avail, va.LockedCoins(now).AmountOf(denom).BigInt())
					}
					if avail.Sign() < 0 {
						avail = big.NewInt(0)
					}
				}
				var amt *big.Int
				switch kv["amt"] {
				case "S-1":
					amt = new(big.Int).Sub(avail, big.NewInt(1))
				case "S":
					amt = new(big.Int).Set(avail)
				case "S+1":
					amt = new(big.Int).Add(avail, big.NewInt(1))
				case "S/2":
					amt = new(big.Int).Quo(avail, big.NewInt(2))
				case "B":
					amt = new(big.Int).Set(bal)
				default:
					amt = mustBig(kv["amt"])
				}
				if amt.Sign() <= 0 {
					amt = big.NewInt(1)
				}
				coins := sdk.NewCoins(sdk.NewCoin(denom, sdkmath.NewIntFromBigInt(amt)))
				dest := testAddr(400 + k)
				if f[0] == "vspend" {
					f[1] = "spend"
					if isDelegate {
						f[1] = "delegate"
					}
					f[2], f[3], f[4], f[5] = vmDumpAcct(ctx, addr), bal.String(), amt.String(), fmt.Sprint(now.Unix())
					c[i] = strings.Join(f, " ")
				}
				val := nw.GetValidators()[0]
				cctx, write := ctx.CacheContext()
				var err error
				switch path {
				case "send":
					_, err = bankMS.Send(sdk.WrapSDKContext(cctx), banktypes.NewMsgSend(addr, dest, coins))
				case "multisend":
					_, err = bankMS.MultiSend(sdk.WrapSDKContext(cctx), banktypes.NewMsgMultiSend([]banktypes.Input{banktypes.NewInput(addr, coins)}, []banktypes.Output{banktypes.NewOutput(dest, coins)}))
				case "fee":
					err = app.BankKeeper.SendCoinsFromAccountToModule(cctx, addr, authtypes.FeeCollectorName, coins)
				case "daofund":
					err = app.DaoKeeper.Fund(cctx, coins, addr)
					_ = ucdaotypes.ModuleName
				case "govdeposit":
					content := govv1beta1.NewTextProposal("t", "d")
					legacy, e2 := govv1.NewLegacyContent(content, authtypes.NewModuleAddress(govtypes.ModuleName).String())
					if e2 != nil {
						panic(e2)
					}
					prop, e3 := app.GovKeeper.SubmitProposal(cctx, []sdk.Msg{legacy}, "", "t", "s", kr.GetAccAddr(0))
					if e3 != nil {
						panic(e3)
					}
					_, err = app.GovKeeper.AddDeposit(cctx, prop.Id, addr, coins)
				case "delegate-msg":
					_, err = stakeMS.Delegate(sdk.WrapSDKContext(cctx), stakingtypes.NewMsgDelegate(addr, val.GetOperator(), coins[0]))
				case "undelegate":
					out = "skip"
					d, found := app.StakingKeeper.GetDelegation(cctx, addr, val.GetOperator())
					if !found {
						return
					}
					tok := val.TokensFromShares(d.Shares).TruncateInt()
					if tok.LT(coins[0].Amount) {
						coins[0].Amount = tok
					}
					if coins[0].Amount.IsZero() {
						return
					}
					if _, err = stakeMS.Undelegate(sdk.WrapSDKContext(cctx), stakingtypes.NewMsgUndelegate(addr, val.GetOperator(), coins[0])); err == nil {
						write()
						tags = append(tags, "undelegate-ok")
					}
					return
				case "send-b":
					// a bank send of the grant's second denomination, amounts around what the account reports spendable
					out = "skip"
					dn := schedDenoms[1]
					balB := app.BankKeeper.GetBalance(ctx, addr, dn).Amount.BigInt()
					if !isVest || balB.Sign() == 0 {
						return
					}
					av := new(big.Int).Sub(balB, va.LockedCoins(now).AmountOf(dn).BigInt())
					if av.Sign() < 0 {
						av = big.NewInt(0)
					}
					var a *big.Int
					switch kv["amt"] {
					case "S-1":
						a = new(big.Int).Sub(av, big.NewInt(1))
					case "S+1":
						a = new(big.Int).Add(av, big.NewInt(1))
					case "S/2":
						a = new(big.Int).Quo(av, big.NewInt(2))
					case "B":
						a = new(big.Int).Set(balB)
					default:
						a = new(big.Int).Set(av)
					}
					if a.Sign() <= 0 {
						a = big.NewInt(1)
					}
					if _, e := bankMS.Send(sdk.WrapSDKContext(cctx), banktypes.NewMsgSend(addr, dest, sdk.NewCoins(sdk.NewCoin(dn, sdkmath.NewIntFromBigInt(a))))); e != nil {
						tags = append(tags, "send-b-reject")
						return
					}
					write()
					tags = append(tags, "send-b-ok")
					ctx2 := nw.GetContext()
					post := app.BankKeeper.GetBalance(ctx2, addr, dn).Amount.BigInt()
					if va2, ok := app.AccountKeeper.GetAccount(ctx2, addr).(*vestingtypes.ClawbackVestingAccount); ok {
						if lf := lockedFormulaOf(va2, now, dn); post.Cmp(lf) < 0 {
							fl("C08:balance-below-locked:send-second-denomination", fmt.Sprintf("after sending %s%s the balance %s%s is below max(original−unlockedVested−delegated, unvested) = %s (delegated %s / original %s of the staking denomination)", a, dn, post, dn, lf, va2.DelegatedFree.Add(va2.DelegatedVesting...), va2.OriginalVesting))
						}
					}
					return
				case "evm-value", "delegate-precompile":
					out = "skip"
					args := evmtypes.EvmTxArgs{GasLimit: 300000, GasPrice: big.NewInt(2_000_000_000)}
					if path == "evm-value" {
						to := common.BytesToAddress(dest)
						args.To, args.Amount = &to, amt
					} else {
						abi, e2 := stakingpc.LoadABI()
						if e2 != nil {
							panic(e2)
						}
						in, e3 := abi.Pack(stakingpc.DelegateMethod, kr.GetKey(k).Addr, val.OperatorAddress, amt)
						if e3 != nil {
							panic(e3)
						}
						pc := common.HexToAddress(stakingpc.PrecompileAddress)
						args.To, args.Input = &pc, in
					}
					preBonded := app.StakingKeeper.GetDelegatorBonded(ctx, addr)
					res, _, _ := c07Send(k, args)
					ctx2 := nw.GetContext()
					post := app.BankKeeper.GetBalance(ctx2, addr, denom).Amount.BigInt()
					okExec := false
					if res.Code == 0 {
						if txr, e := evmtypes.DecodeTxResponse(res.Data); e == nil && !txr.Failed() {
							okExec = true
						}
					}
					tags = append(tags, path, fmt.Sprintf("%s-executed-%v", path, okExec))
					if !okExec && res.Code != 0 {
						lg := res.Log
						if len(lg) > 60 {
							lg = lg[len(lg)-60:]
						}
						tags = append(tags, "evmlog:"+strings.ReplaceAll(lg, " ", "_"))
					}
					if va2, ok := app.AccountKeeper.GetAccount(ctx2, addr).(*vestingtypes.ClawbackVestingAccount); ok {
						if path == "evm-value" {
							if lf := lockedFormula(va2, now); post.Cmp(lf) < 0 && okExec {
								fl("C08:balance-below-locked:evm-value", fmt.Sprintf("after an EVM value transfer of %s the balance %s is below the locked amount %s", amt, post, lf))
							}
						} else if okExec && app.StakingKeeper.GetDelegatorBonded(ctx2, addr).GT(preBonded) {
							unv := va2.GetVestingCoins(now).AmountOf(denom).BigInt()
							if post.Cmp(unv) < 0 {
								fl("C08:unvested-delegated:precompile", fmt.Sprintf("after delegating %s through the precompile the balance %s is below the unvested amount %s", amt, post, unv))
							}
						}
					}
					return
				}
				if err != nil {
					out = "reject"
					tags = append(tags, "spend-reject", path+"-reject")
					return
				}
				write()
				out = "ok"
				tags = append(tags, "spend-ok", path+"-ok")
				// ---- monitor: the property's own predicate after a successful transaction ----
				ctx2 := nw.GetContext()
				post := app.BankKeeper.GetBalance(ctx2, addr, denom).Amount.BigInt()
				if va2, ok := app.AccountKeeper.GetAccount(ctx2, addr).(*vestingtypes.ClawbackVestingAccount); ok {
					if isDelegate {
						unv := va2.GetVestingCoins(now).AmountOf(denom).BigInt()
						if post.Cmp(unv) < 0 {
							fl("C08:unvested-delegated:"+path, fmt.Sprintf("after delegating %s the balance %s is below the unvested amount %s", amt, post, unv))
						}
					} else if lf := lockedFormula(va2, now); post.Cmp(lf) < 0 {
						fl("C08:balance-below-locked:"+path, fmt.Sprintf("after spending %s via %s the balance %s is below max(original−unlockedVested−delegated, unvested) = %s", amt, path, post, lf))
					}
					if gu := c08GhostUnvested(k, now.Unix()); post.Cmp(gu) < 0 && os.Getenv("VERIF_DEBUG") != "" {
						for _, g := range c08Ghost[k] {
							fmt.Fprintf(os.Stderr, "ghost grant start=%d:", g.start)
							for _, e := range g.events {
								fmt.Fprintf(os.Stderr, " %d@%s", e.at, e.amt)
							}
							fmt.Fprintln(os.Stderr)
						}
						fmt.Fprintf(os.Stderr, "account start=%d end=%d now=%d vesting=%v\n", va2.GetStartTime(), va2.EndTime, now.Unix(), va2.VestingPeriods)
					}
					if gu := c08GhostUnvested(k, now.Unix()); post.Cmp(gu) < 0 {
						fl("C08:balance-below-granted-unvested:"+path, fmt.Sprintf("after %s of %s the balance %s is below what the grants made to this account leave unvested at this time, %s (the account itself reports %s unvested)", path, amt, post, gu, va2.GetVestingCoins(now).AmountOf(denom)))
					}
				}
			}
		}()
		outs = append(outs, out)
	}
	return
}
