package props

import (
	"fmt"
	"math/big"
	"math/rand"
	"sort"
	"strings"
	"time"

	sdkmath "cosmossdk.io/math"
	sdk "github.com/cosmos/cosmos-sdk/types"
	authtypes "github.com/cosmos/cosmos-sdk/x/auth/types"
	sdkvesting "github.com/cosmos/cosmos-sdk/x/auth/vesting/types"

	vestingtypes "github.com/haqq-network/haqq/x/vesting/types"
)

// C09 — vesting schedule arithmetic (pure level). Ops (shared with lean/HaqqModel/Driver/C09.lean):
//
//	read s e periods total t | past s e periods t | disj sA sB pA pB | conj sA sB pA pB | align sA sB pA pB
//	acct funder start orig lockup vesting | deleg df dv | setend e | q t | validate | claw t
//
// periods = "len@coins;len@coins" | "-", coins = "d:v,d:v" | "-"
var schedDenoms = []string{"aISLM", "bcoin", "ccoin"}

func init() {
	Register(&Property{
		ID:   "C09",
		Gen:  c09Gen,
		Exec: c09Exec,
		NonTrivial: func(tags []string) bool {
			return hasTag(tags, "nontrivial")
		},
		Rule: "pure schedule functions and account methods on generated period lists (0–8 periods quick / 0–30 thorough, lengths from {0,1,2,small,large}, 1–3 denominations, forced simultaneous events, start offsets both ways, read times = event times ±1 and random) and account scripts (create, delegation fields, queries, validate, clawback at event times ±1); non-trivial = both lists non-empty with an event strictly inside the read window, or a clawback with both vested and unvested coins; distinct = distinct op sequences",
	})
}

type period struct {
	L int64
	A []coin
}

func fmtPeriods(ps []period) string {
	if len(ps) == 0 {
		return "-"
	}
	s := make([]string, len(ps))
	for i, p := range ps {
		s[i] = fmt.Sprintf("%d@%s", p.L, fmtCoins(p.A))
	}
	return strings.Join(s, ";")
}

func parsePeriods(s string) []period {
	if s == "-" {
		return nil
	}
	var out []period
	for _, it := range strings.Split(s, ";") {
		kv := strings.SplitN(it, "@", 2)
		var l int64
		fmt.Sscan(kv[0], &l)
		out = append(out, period{L: l, A: parseCoins(kv[1])})
	}
	return out
}

func schedCoins(cs []coin) sdk.Coins {
	out := sdk.Coins{}
	for _, c := range cs {
		out = append(out, sdk.Coin{Denom: schedDenoms[c.D], Amount: sdkmath.NewIntFromBigInt(c.V)})
	}
	return out
}

func sdkPeriods(ps []period) sdkvesting.Periods {
	out := sdkvesting.Periods{}
	for _, p := range ps {
		out = append(out, sdkvesting.Period{Length: p.L, Amount: schedCoins(p.A)})
	}
	return out
}

func showSdkCoins(cs sdk.Coins) string {
	var parts []string
	for d, name := range schedDenoms {
		if a := cs.AmountOf(name); a.IsPositive() {
			parts = append(parts, fmt.Sprintf("%d:%s", d, a))
		}
	}
	if len(parts) == 0 {
		return "-"
	}
	return strings.Join(parts, ",")
}

func showSdkPeriods(ps sdkvesting.Periods) string {
	if len(ps) == 0 {
		return "-"
	}
	s := make([]string, len(ps))
	for i, p := range ps {
		s[i] = fmt.Sprintf("%d@%s", p.Length, showSdkCoins(p.Amount))
	}
	return strings.Join(s, ";")
}

// ---- independent reference (monitor side): step function as a sum over all events ----
func stepRef(start int64, ps []period, t int64) [3]*big.Int {
	var out [3]*big.Int
	for i := range out {
		out[i] = new(big.Int)
	}
	if t <= start {
		return out
	}
	cum := start
	for _, p := range ps {
		cum += p.L
		if cum <= t {
			for _, c := range p.A {
				out[c.D].Add(out[c.D], c.V)
			}
		}
	}
	return out
}

func coinsVec(cs sdk.Coins) [3]*big.Int {
	var out [3]*big.Int
	for d, name := range schedDenoms {
		out[d] = cs.AmountOf(name).BigInt()
	}
	return out
}

func vecEq(a, b [3]*big.Int) bool {
	for i := range a {
		if a[i].Cmp(b[i]) != 0 {
			return false
		}
	}
	return true
}

func vecStr(a [3]*big.Int) string { return fmt.Sprintf("[%s %s %s]", a[0], a[1], a[2]) }

func totalOf(ps []period) []coin {
	var acc [3]*big.Int
	for i := range acc {
		acc[i] = new(big.Int)
	}
	for _, p := range ps {
		for _, c := range p.A {
			acc[c.D].Add(acc[c.D], c.V)
		}
	}
	var out []coin
	for d := 0; d < 3; d++ {
		if acc[d].Sign() > 0 {
			out = append(out, coin{D: d, V: acc[d]})
		}
	}
	return out
}

func totalLen(ps []period) int64 {
	var s int64
	for _, p := range ps {
		s += p.L
	}
	return s
}

func eventTimes(start int64, ps []period) []int64 {
	var out []int64
	cum := start
	for _, p := range ps {
		cum += p.L
		out = append(out, cum)
	}
	return out
}

// ---- generators ----
func genLen(r *rand.Rand) int64 {
	switch r.Intn(8) {
	case 0:
		return 0
	case 1:
		return 1
	case 2:
		return 2
	case 3:
		return int64(1_000_000 + r.Intn(1_000_000_000))
	default:
		return int64(1 + r.Intn(50))
	}
}

func genAmount(r *rand.Rand, nd int) []coin {
	var cs []coin
	for d := 0; d < nd; d++ {
		if nd > 1 && r.Intn(3) == 0 {
			continue
		}
		var v *big.Int
		switch r.Intn(5) {
		case 0:
			v = big.NewInt(1)
		case 1:
			v = new(big.Int).Add(randBig(r), big.NewInt(1))
		default:
			v = big.NewInt(int64(1 + r.Intn(1000)))
		}
		cs = append(cs, coin{D: d, V: v})
	}
	if len(cs) == 0 {
		cs = append(cs, coin{D: 0, V: big.NewInt(int64(1 + r.Intn(100)))})
	}
	return cs
}

func genPeriods(r *rand.Rand, maxN, nd int, minLen int64) []period {
	n := r.Intn(maxN + 1)
	ps := make([]period, n)
	for i := range ps {
		l := genLen(r)
		if l < minLen {
			l = minLen
		}
		ps[i] = period{L: l, A: genAmount(r, nd)}
	}
	return ps
}

// genPair: second list with events forced to coincide with the first with probability 1/4
func genPair(r *rand.Rand, maxN, nd int) (sA, sB int64, pA, pB []period) {
	sA = int64(1000 + r.Intn(1000))
	switch r.Intn(4) {
	case 0:
		sB = sA
	case 1:
		sB = sA + int64(r.Intn(100))
	case 2:
		sB = sA - int64(r.Intn(100))
	default:
		sB = sA + int64(r.Intn(3)) - 1
	}
	pA = genPeriods(r, maxN, nd, 0)
	pB = genPeriods(r, maxN, nd, 0)
	if r.Intn(4) == 0 && len(pA) > 0 && len(pB) > 0 {
		// align one event of B with an event of A
		ea := eventTimes(sA, pA)
		target := ea[r.Intn(len(ea))]
		i := r.Intn(len(pB))
		before := sB + totalLen(pB[:i])
		if target >= before {
			pB[i].L = target - before
		}
	}
	return
}

func pickTimes(r *rand.Rand, evs []int64, lo int64) []int64 {
	set := map[int64]bool{lo: true, lo - 1: true, lo + 1: true}
	for _, e := range evs {
		set[e-1], set[e], set[e+1] = true, true, true
	}
	var ts []int64
	for t := range set {
		ts = append(ts, t)
	}
	sort.Slice(ts, func(i, j int) bool { return ts[i] < ts[j] })
	if len(ts) > 14 {
		r.Shuffle(len(ts), func(i, j int) { ts[i], ts[j] = ts[j], ts[i] })
		ts = ts[:14]
		sort.Slice(ts, func(i, j int) bool { return ts[i] < ts[j] })
	}
	return ts
}

func c09Gen(r *rand.Rand, tier string) []Case {
	n, maxN := 400, 8
	if tier == "thorough" {
		n, maxN = 12000, 30
	}
	var out []Case
	for i := 0; i < n; i++ {
		nd := 1 + r.Intn(3)
		var c Case
		switch r.Intn(5) {
		case 0: // read / past on a valid schedule (and some with slack end / short end)
			s := int64(1000 + r.Intn(100))
			ps := genPeriods(r, maxN, nd, 0)
			e := s + totalLen(ps)
			if r.Intn(3) == 0 {
				e += int64(r.Intn(50))
			}
			tot := totalOf(ps)
			for _, t := range pickTimes(r, eventTimes(s, ps), s) {
				c = append(c, fmt.Sprintf("read %d %d %s %s %d", s, e, fmtPeriods(ps), fmtCoins(tot), t))
				c = append(c, fmt.Sprintf("past %d %d %s %d", s, e, fmtPeriods(ps), t))
			}
		case 1: // disj / align
			sA, sB, pA, pB := genPair(r, maxN, nd)
			c = append(c, fmt.Sprintf("disj %d %d %s %s", sA, sB, fmtPeriods(pA), fmtPeriods(pB)))
			if len(pA) > 0 && len(pB) > 0 {
				c = append(c, fmt.Sprintf("align %d %d %s %s", sA, sB, fmtPeriods(pA), fmtPeriods(pB)))
			}
		case 2: // conj
			sA, sB, pA, pB := genPair(r, maxN, nd)
			c = append(c, fmt.Sprintf("conj %d %d %s %s", sA, sB, fmtPeriods(pA), fmtPeriods(pB)))
		default: // account script
			s := int64(1000 + r.Intn(100))
			lock := genPeriods(r, maxN, nd, 0)
			if len(lock) == 0 {
				lock = []period{{L: genLen(r), A: genAmount(r, nd)}}
			}
			tot := totalOf(lock)
			// vesting schedule with the same total: split the total into k chunks
			k := 1 + r.Intn(maxN)
			vest := make([]period, k)
			rem := map[int]*big.Int{}
			for _, cn := range tot {
				rem[cn.D] = new(big.Int).Set(cn.V)
			}
			for j := 0; j < k; j++ {
				var a []coin
				for d := 0; d < 3; d++ {
					if rem[d] == nil || rem[d].Sign() == 0 {
						continue
					}
					var v *big.Int
					if j == k-1 {
						v = new(big.Int).Set(rem[d])
					} else {
						v = new(big.Int).Rand(r, new(big.Int).Add(rem[d], big.NewInt(1)))
						if r.Intn(3) == 0 {
							v = big.NewInt(0)
						}
					}
					if v.Sign() > 0 {
						a = append(a, coin{D: d, V: v})
						rem[d].Sub(rem[d], v)
					}
				}
				vest[j] = period{L: genLen(r), A: a}
			}
			if r.Intn(6) == 0 { // default vesting: a single zero-length period
				vest = []period{{L: 0, A: tot}}
			}
			if r.Intn(6) == 0 {
				lock = []period{{L: 0, A: tot}}
			}
			c = append(c, fmt.Sprintf("acct %d %d %s %s %s", 7, s, fmtCoins(tot), fmtPeriods(lock), fmtPeriods(vest)))
			c = append(c, "validate")
			if r.Intn(4) == 0 {
				// tracked delegations (any value: LockedCoins must cope)
				var df []coin
				for _, cn := range tot {
					if r.Intn(2) == 0 {
						df = append(df, coin{D: cn.D, V: new(big.Int).Rand(r, new(big.Int).Add(cn.V, big.NewInt(2)))})
					}
				}
				var nz []coin
				for _, x := range df {
					if x.V.Sign() > 0 {
						nz = append(nz, x)
					}
				}
				c = append(c, fmt.Sprintf("deleg %s -", fmtCoins(nz)))
			}
			evs := append(eventTimes(s, lock), eventTimes(s, vest)...)
			ts := pickTimes(r, evs, s)
			for _, t := range ts {
				if r.Intn(2) == 0 {
					c = append(c, fmt.Sprintf("q %d", t))
				}
			}
			ct := ts[r.Intn(len(ts))]
			c = append(c, fmt.Sprintf("claw %d", ct), "validate")
			for _, t := range ts {
				if r.Intn(2) == 0 {
					c = append(c, fmt.Sprintf("q %d", t))
				}
			}
			if r.Intn(3) == 0 {
				c = append(c, fmt.Sprintf("claw %d", ts[r.Intn(len(ts))]), "validate")
			}
		}
		if len(c) > 0 {
			out = append(out, c)
		}
	}
	// message level: create / merge (both entry points) / clawback / funder-update histories on the real app
	nm := 60
	if tier == "thorough" {
		nm = 1500
	}
	for i := 0; i < nm; i++ {
		out = append(out, vmGenC09(r, 4))
	}
	return out
}

func c09AcctDump(funder int, va *vestingtypes.ClawbackVestingAccount) string {
	return fmt.Sprintf("funder=%d start=%d end=%d orig=%s lockup=%s vesting=%s df=%s dv=%s", funder, va.GetStartTime(), va.EndTime,
		showSdkCoins(va.OriginalVesting), showSdkPeriods(va.LockupPeriods), showSdkPeriods(va.VestingPeriods), showSdkCoins(va.DelegatedFree), showSdkCoins(va.DelegatedVesting))
}

func c09ValidateClass(err error) string {
	if err == nil {
		return "ok"
	}
	m := err.Error()
	switch {
	case strings.Contains(m, "start-time must be before end-time"):
		return "err:startNotBeforeEnd"
	case strings.Contains(m, "lockup schedule extends beyond"):
		return "err:lockupBeyondEnd"
	case strings.Contains(m, "sum of all coins in lockup periods"):
		return "err:lockupSum"
	case strings.Contains(m, "vesting schedule extends beyond"):
		return "err:vestingBeyondEnd"
	case strings.Contains(m, "sum of all coins in vesting periods"):
		return "err:vestingSum"
	case strings.Contains(m, "delegated vesting amount"):
		return "err:delegatedVesting"
	}
	return "err:other:" + strings.ReplaceAll(m, " ", "_")
}

func c09Exec(c Case) (outs []string, fails []Failure, tags []string) {
	var va *vestingtypes.ClawbackVestingAccount
	funder := 0
	fail := func(i int, sig, what string) {
		fails = append(fails, Failure{Signature: sig, What: what, Case: c[:i+1]})
	}
	env := &vmEnv{}
	for i, line := range c {
		f := strings.Fields(line)
		out := "bad-op"
		if strings.HasPrefix(f[0], "m") {
			func() {
				defer func() {
					if r := recover(); r != nil {
						out = "panic:" + strings.ReplaceAll(fmt.Sprint(r), " ", "_")
					}
				}()
				o, ok := vmExec(env, c, i, func(sig, what string) { fail(i, sig, what) }, func(t string) {
					tags = append(tags, t)
					if t == "merge" || t == "clawed>0" {
						tags = append(tags, "nontrivial")
					}
				})
				if ok {
					out = o
				}
			}()
			outs = append(outs, out)
			continue
		}
		func() {
			defer func() {
				if r := recover(); r != nil {
					out = "panic"
				}
			}()
			switch f[0] {
			case "read":
				var s, e, t int64
				fmt.Sscan(f[1], &s)
				fmt.Sscan(f[2], &e)
				fmt.Sscan(f[5], &t)
				ps := parsePeriods(f[3])
				tot := parseCoins(f[4])
				got := vestingtypes.ReadSchedule(s, e, sdkPeriods(ps), schedCoins(tot), t)
				out = showSdkCoins(got)
				// monitors: step function (valid inputs only: e ≥ s+len, tot = Σ)
				if e >= s+totalLen(ps) && vecEq(coinsVec(schedCoins(tot)), coinsVec(schedCoins(totalOf(ps)))) {
					ref := stepRef(s, ps, t)
					if !vecEq(coinsVec(got), ref) {
						fail(i, "C09:read-ne-step", fmt.Sprintf("ReadSchedule(%d)=%s, Σ periods ended by t = %s", t, vecStr(coinsVec(got)), vecStr(ref)))
					}
					nxt := vestingtypes.ReadSchedule(s, e, sdkPeriods(ps), schedCoins(tot), t+1)
					if !got.IsAllLTE(nxt) {
						fail(i, "C09:read-not-monotone", fmt.Sprintf("read(%d)=%s > read(%d)=%s", t, got, t+1, nxt))
					}
					if len(ps) > 1 && t > s && t < e {
						tags = append(tags, "nontrivial")
					}
				}
			case "past":
				var s, e, t int64
				fmt.Sscan(f[1], &s)
				fmt.Sscan(f[2], &e)
				fmt.Sscan(f[4], &t)
				out = itoa(vestingtypes.ReadPastPeriodCount(s, e, sdkPeriods(parsePeriods(f[3])), t))
			case "disj", "conj":
				var sA, sB int64
				fmt.Sscan(f[1], &sA)
				fmt.Sscan(f[2], &sB)
				pA, pB := parsePeriods(f[3]), parsePeriods(f[4])
				var st, en int64
				var ps sdkvesting.Periods
				if f[0] == "disj" {
					st, en, ps = vestingtypes.DisjunctPeriods(sA, sB, sdkPeriods(pA), sdkPeriods(pB))
				} else {
					st, en, ps = vestingtypes.ConjunctPeriods(sA, sB, sdkPeriods(pA), sdkPeriods(pB))
				}
				out = fmt.Sprintf("%d %d %s", st, en, showSdkPeriods(ps))
				// monitor: union / minimum at every event time ±1 (read as step functions from the own starts)
				var res []period
				for _, p := range ps {
					var a []coin
					for d, name := range schedDenoms {
						if v := p.Amount.AmountOf(name); v.IsPositive() {
							a = append(a, coin{D: d, V: v.BigInt()})
						}
					}
					res = append(res, period{L: p.Length, A: a})
					if p.Length < 0 {
						fail(i, "C09:"+f[0]+"-negative-length", fmt.Sprintf("emitted period of length %d", p.Length))
					}
				}
				mx := sA
				if sB > mx {
					mx = sB
				}
				evs := append(eventTimes(sA, pA), eventTimes(sB, pB)...)
				for _, t := range append(evs, mx+1) {
					for _, tt := range []int64{t - 1, t, t + 1} {
						if tt <= mx {
							continue
						}
						a, b, g := stepRef(sA, pA, tt), stepRef(sB, pB, tt), stepRef(st, res, tt)
						var want [3]*big.Int
						for d := 0; d < 3; d++ {
							if f[0] == "disj" {
								want[d] = new(big.Int).Add(a[d], b[d])
							} else if a[d].Cmp(b[d]) < 0 {
								want[d] = a[d]
							} else {
								want[d] = b[d]
							}
						}
						if !vecEq(g, want) {
							fail(i, "C09:"+f[0]+"-read", fmt.Sprintf("t=%d: result releases %s, expected %s", tt, vecStr(g), vecStr(want)))
						}
					}
				}
				if en != st+totalLen(res) {
					fail(i, "C09:"+f[0]+"-end", fmt.Sprintf("end %d ≠ start+Σlen %d", en, st+totalLen(res)))
				}
				if len(pA) > 0 && len(pB) > 0 {
					tags = append(tags, "nontrivial", f[0])
				}
			case "align":
				var sA, sB int64
				fmt.Sscan(f[1], &sA)
				fmt.Sscan(f[2], &sB)
				s, e := vestingtypes.AlignSchedules(sA, sB, sdkPeriods(parsePeriods(f[3])), sdkPeriods(parsePeriods(f[4])))
				out = fmt.Sprintf("%d %d", s, e)
			case "acct":
				var s int64
				fmt.Sscan(f[1], &funder)
				fmt.Sscan(f[2], &s)
				base := authtypes.NewBaseAccountWithAddress(testAddr(100))
				va = vestingtypes.NewClawbackVestingAccount(base, testAddr(funder), schedCoins(parseCoins(f[3])), time.Unix(s, 0).UTC(), sdkPeriods(parsePeriods(f[4])), sdkPeriods(parsePeriods(f[5])), nil)
				out = c09AcctDump(funder, va)
			case "deleg":
				va.DelegatedFree = schedCoins(parseCoins(f[1]))
				va.DelegatedVesting = schedCoins(parseCoins(f[2]))
				out = "ok"
			case "setend":
				fmt.Sscan(f[1], &va.EndTime)
				out = "ok"
			case "q":
				var t int64
				fmt.Sscan(f[1], &t)
				bt := time.Unix(t, 0)
				unl, ves, unv, lup := va.GetUnlockedCoins(bt), va.GetVestedCoins(bt), va.GetVestingCoins(bt), va.GetLockedUpCoins(bt)
				out = fmt.Sprintf("unl=%s ves=%s unv=%s lup=%s uv=%s luv=%s locked=%s", showSdkCoins(unl), showSdkCoins(ves), showSdkCoins(unv), showSdkCoins(lup),
					showSdkCoins(va.GetUnlockedVestedCoins(bt)), showSdkCoins(va.GetLockedUpVestedCoins(bt)), showSdkCoins(va.LockedCoins(bt)))
				if !ves.Add(unv...).IsEqual(va.OriginalVesting) || !unl.Add(lup...).IsEqual(va.OriginalVesting) {
					fail(i, "C09:parts-ne-original", fmt.Sprintf("t=%d vested %s + unvested %s / unlocked %s + locked %s vs original %s", t, ves, unv, unl, lup, va.OriginalVesting))
				}
			case "validate":
				out = c09ValidateClass(va.Validate())
			case "claw":
				var t int64
				fmt.Sscan(f[1], &t)
				bt := time.Unix(t, 0)
				preValid := va.Validate() == nil
				vested, unvested := va.GetVestedCoins(bt), va.GetVestingCoins(bt)
				old := *va
				upd, clawed := va.ComputeClawback(t)
				out = fmt.Sprintf("clawed=%s %s", showSdkCoins(clawed), c09AcctDump(funder, &upd))
				if preValid {
					if !clawed.IsEqual(unvested) {
						fail(i, "C09:clawback-amount", fmt.Sprintf("clawed %s ≠ unvested %s", clawed, unvested))
					}
					if !upd.OriginalVesting.IsEqual(vested) {
						fail(i, "C09:clawback-keeps-vested", fmt.Sprintf("kept %s ≠ vested %s", upd.OriginalVesting, vested))
					}
					if !clawed.IsZero() { // transferClawback stores the account only when something is clawed back
						if err := upd.Validate(); err != nil {
							sig := "C09:clawback:invalid-account:" + strings.TrimPrefix(c09ValidateClass(err), "err:")
							fail(i, sig, fmt.Sprintf("account after clawback at t=%d fails Validate(): %v", t, err))
						}
					}
					// vested coins stay under their lockup: unlocked'(t') = min(unlocked(t'), vested(t))
					evs := eventTimes(old.GetStartTime(), nil)
					cum := old.GetStartTime()
					for _, p := range old.LockupPeriods {
						cum += p.Length
						evs = append(evs, cum-1, cum, cum+1)
					}
					evs = append(evs, t, t+1, old.EndTime, old.EndTime+1)
					for _, tt := range evs {
						got := upd.GetUnlockedCoins(time.Unix(tt, 0))
						want := old.GetUnlockedCoins(time.Unix(tt, 0)).Min(vested)
						if !got.IsEqual(want) && !(got.IsZero() && want.IsZero()) {
							fail(i, "C09:clawback-lockup-cap", fmt.Sprintf("after clawback at %d: unlocked(%d)=%s, expected min(old unlocked, vested)=%s", t, tt, got, want))
						}
					}
					if !vested.IsZero() && !unvested.IsZero() {
						tags = append(tags, "nontrivial", "claw-partial")
					}
				}
				va = &upd
			}
		}()
		outs = append(outs, out)
	}
	return
}
