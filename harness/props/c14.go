package props

import (
	"fmt"
	"math/big"
	"math/rand"
	"strings"

	sdkmath "cosmossdk.io/math"
	sdk "github.com/cosmos/cosmos-sdk/types"
	authtypes "github.com/cosmos/cosmos-sdk/x/auth/types"
	banktypes "github.com/cosmos/cosmos-sdk/x/bank/types"
	distrtypes "github.com/cosmos/cosmos-sdk/x/distribution/types"
	govtypes "github.com/cosmos/cosmos-sdk/x/gov/types"
	govv1 "github.com/cosmos/cosmos-sdk/x/gov/types/v1"
	govv1beta1 "github.com/cosmos/cosmos-sdk/x/gov/types/v1beta1"
	stakingkeeper "github.com/cosmos/cosmos-sdk/x/staking/keeper"
	stakingtypes "github.com/cosmos/cosmos-sdk/x/staking/types"
	ibctransfertypes "github.com/cosmos/ibc-go/v7/modules/apps/transfer/types"

	haqqbankkeeper "github.com/haqq-network/haqq/x/bank/keeper"
	coinomicstypes "github.com/haqq-network/haqq/x/coinomics/types"
	erc20types "github.com/haqq-network/haqq/x/erc20/types"
	evmtypes "github.com/haqq-network/haqq/x/evm/types"
	lvtypes "github.com/haqq-network/haqq/x/liquidvesting/types"
	ucdaotypes "github.com/haqq-network/haqq/x/ucdao/types"
)

// C14 — redirected burns. Ops (shared with lean/HaqqModel/Driver/C14.lean):
//
//	creset | fund <m> <amt> | burn <m> <amt> <bal>   (bal filled in by the executor)
//	slash <kind> <fractionPermille> | govburn <deposit>      (monitor-only scenario ops on the real staking / gov keepers)
//
// module numbering: 0 distribution, 1 gov, 2 bonded pool, 3 not-bonded pool, 4 erc20, 5 liquidvesting, 6 coinomics, 7 evm, 8 ucdao, 9 transfer
var c14Mods = []string{distrtypes.ModuleName, govtypes.ModuleName, stakingtypes.BondedPoolName, stakingtypes.NotBondedPoolName, erc20types.ModuleName, lvtypes.ModuleName, coinomicstypes.ModuleName, evmtypes.ModuleName, ucdaotypes.ModuleName, ibctransfertypes.ModuleName}

func init() {
	Register(&Property{
		ID:   "C14",
		Gen:  c14Gen,
		Exec: c14Exec,
		NonTrivial: func(tags []string) bool {
			return hasTag(tags, "redirect-ok") || hasTag(tags, "slash-ok")
		},
		Rule: "BurnCoins of the overriding bank keeper (built over the application's stores) for every module account with amounts around the module balance; real slashes (bonded stake, unbonding entries, redelegations to a bonded and to an unbonded validator, past and current infraction heights) through the application's staking keeper and burned governance deposits through the gov keeper, with supply / community-pool / distribution-account deltas monitored; non-trivial = a redirected burn or a slash happened; distinct = distinct op sequences",
	})
}

func c14Gen(r *rand.Rand, tier string) []Case {
	n := 60
	if tier == "thorough" {
		n = 1500
	}
	var out []Case
	for i := 0; i < n; i++ {
		c := Case{"creset"}
		if i%3 != 0 {
			c = append(c, fmt.Sprintf("pooldust %d", r.Intn(999)))
		}
		for j := 0; j < 4+r.Intn(8); j++ {
			m := 1 + r.Intn(9)
			bal := big.NewInt(int64(r.Intn(1_000_000)))
			if r.Intn(4) == 0 {
				bal = randBig(r)
			}
			if r.Intn(5) > 0 {
				c = append(c, fmt.Sprintf("fund %d %s", m, bal))
			}
			amt := new(big.Int).Set(bal)
			switch r.Intn(5) {
			case 0:
				amt.Add(amt, big.NewInt(1))
			case 1:
				amt = big.NewInt(int64(r.Intn(1000)))
			case 2:
				if amt.Sign() > 0 {
					amt = new(big.Int).Rand(r, amt)
				}
			}
			if amt.Sign() == 0 {
				amt = big.NewInt(1)
			}
			c = append(c, fmt.Sprintf("burn %d %s ?", m, amt))
		}
		kinds := []string{"bonded", "unbonding", "redelegate-bonded", "redelegate-unbonded", "all", "current-height"}
		c = append(c, fmt.Sprintf("slash %s %d", pick(r, kinds), 1+r.Intn(999)))
		if r.Intn(2) == 0 {
			c = append(c, fmt.Sprintf("slash %s %d", pick(r, kinds), 1+r.Intn(999)))
		}
		c = append(c, fmt.Sprintf("govburn %d", 1+r.Intn(1_000_000)))
		// two redirected burns at one height with the distribution module changing the community pool in between
		m1, m2 := 1+r.Intn(3), 1+r.Intn(3)
		c = append(c, fmt.Sprintf("fund %d 5000", m1), fmt.Sprintf("burn %d %d ?", m1, 1+r.Intn(2000)), fmt.Sprintf("fundpool %d", 1+r.Intn(100000)),
			fmt.Sprintf("fund %d 5000", m2), fmt.Sprintf("burn %d %d ?", m2, 1+r.Intn(2000)))
		// a redirected burn of several denominations at once (deposits of a vetoed proposal in two denominations)
		c = append(c, fmt.Sprintf("burn2 %d %d %d", 1+r.Intn(3), 1+r.Intn(1_000_000), 1+r.Intn(1_000_000)))
		// the same kinds of burn while transfers of the denominations are switched off in the bank module
		m3 := 1 + r.Intn(3)
		c = append(c, "sendoff", fmt.Sprintf("fund %d 5000", m3), fmt.Sprintf("burn %d %d ?", m3, 1+r.Intn(2000)), fmt.Sprintf("slash %s %d", pick(r, kinds), 1+r.Intn(999)),
			fmt.Sprintf("govburn %d", 1+r.Intn(1_000_000)), fmt.Sprintf("burn2 %d %d %d", 1+r.Intn(3), 1+r.Intn(1_000_000), 1+r.Intn(1_000_000)), "sendon")
		out = append(out, c)
	}
	return out
}

func c14Exec(c Case) (outs []string, fails []Failure, tags []string) {
	nw, kr := fixture()
	app := nw.App
	base := nw.GetContext()
	ctx, _ := base.CacheContext()
	hk := haqqbankkeeper.NewBaseKeeper(app.AppCodec(), app.GetKey(banktypes.StoreKey), app.GetKey(distrtypes.StoreKey), app.AccountKeeper, app.DistrKeeper, app.BlockedAddrs(), authtypes.NewModuleAddress(govtypes.ModuleName).String())
	denom := "aISLM"
	modBal := func(ctx sdk.Context, name string) *big.Int {
		return app.BankKeeper.GetBalance(ctx, authtypes.NewModuleAddress(name), denom).Amount.BigInt()
	}
	// what the stored community pool holds of one denomination: the sum over ALL its entries of that denomination (a
	// well-formed pool has one; AmountOf would stop at the first)
	poolOf := func(ctx sdk.Context, dn string) sdkmath.Int {
		t := sdk.ZeroDec()
		for _, dc := range app.DistrKeeper.GetFeePool(ctx).CommunityPool {
			if dc.Denom == dn {
				t = t.Add(dc.Amount)
			}
		}
		return t.TruncateInt()
	}
	pool := func(ctx sdk.Context) *big.Int { return poolOf(ctx, denom).BigInt() }
	// the same, exactly: the stored decimal amount × 10^18 (the pool holds fractions — reward remainders)
	poolRawOf := func(ctx sdk.Context, dn string) *big.Int {
		t := sdk.ZeroDec()
		for _, dc := range app.DistrKeeper.GetFeePool(ctx).CommunityPool {
			if dc.Denom == dn {
				t = t.Add(dc.Amount)
			}
		}
		return t.BigInt()
	}
	e18 := new(big.Int).Exp(big.NewInt(10), big.NewInt(18), nil)
	// the stored pool is a well-formed coin set (sorted, one entry per denomination, positive amounts)
	poolWellFormed := func(i int, what string) {
		if err := app.DistrKeeper.GetFeePool(ctx).CommunityPool.Validate(); err != nil {
			fails = append(fails, Failure{Signature: "C14:community-pool-malformed", What: fmt.Sprintf("%s: the stored community pool is %s: %v", what, app.DistrKeeper.GetFeePool(ctx).CommunityPool, err), Case: c[:i+1]})
		}
	}
	supply := func(ctx sdk.Context) *big.Int { return app.BankKeeper.GetSupply(ctx, denom).Amount.BigInt() }
	type snap struct{ sup, pool, poolRaw, distr, bonded, notb, gov *big.Int }
	take := func(ctx sdk.Context) snap {
		return snap{supply(ctx), pool(ctx), poolRawOf(ctx, denom), modBal(ctx, distrtypes.ModuleName), modBal(ctx, stakingtypes.BondedPoolName), modBal(ctx, stakingtypes.NotBondedPoolName), modBal(ctx, govtypes.ModuleName)}
	}
	sub := func(a, b *big.Int) *big.Int { return new(big.Int).Sub(a, b) }
	// the property's predicate for an event that destroys stake / deposits: supply unchanged, community pool and
	// distribution account grow by exactly what left the pools
	checkRedirect := func(i int, what string, pre, post snap) {
		left := new(big.Int).Add(sub(pre.bonded, post.bonded), sub(pre.notb, post.notb))
		left.Add(left, sub(pre.gov, post.gov))
		fl := func(sig, w string) {
			fails = append(fails, Failure{Signature: sig, What: what + ": " + w, Case: c[:i+1]})
		}
		if pre.sup.Cmp(post.sup) != 0 {
			fl("C14:supply-changed", fmt.Sprintf("total supply %s → %s (pools lost %s)", pre.sup, post.sup, left))
		}
		if sub(post.pool, pre.pool).Cmp(left) != 0 {
			fl("C14:community-pool-delta", fmt.Sprintf("community pool grew by %s, pools lost %s", sub(post.pool, pre.pool), left))
		}
		if sub(post.poolRaw, pre.poolRaw).Cmp(new(big.Int).Mul(left, e18)) != 0 {
			fl("C14:community-pool-delta", fmt.Sprintf("community pool grew by %s/1e18 (from %s/1e18), pools lost %s", sub(post.poolRaw, pre.poolRaw), pre.poolRaw, left))
		}
		if sub(post.distr, pre.distr).Cmp(left) != 0 {
			fl("C14:distribution-account-delta", fmt.Sprintf("distribution account grew by %s, pools lost %s", sub(post.distr, pre.distr), left))
		}
		poolWellFormed(i, what)
	}
	for i, line := range c {
		f := strings.Fields(line)
		out := "bad-op"
		func() {
			defer func() {
				if r := recover(); r != nil {
					out = "panic"
				}
			}()
			switch f[0] {
			case "creset":
				ctx, _ = base.CacheContext()
				ctx = ctx.WithBlockHeight(100)
				out = "ok"
			case "fund":
				m := vmIdx(f[1])
				coins := sdk.NewCoins(sdk.NewCoin(denom, sdkmath.NewIntFromBigInt(mustBig(f[2]))))
				if !coins.IsZero() {
					if err := app.BankKeeper.MintCoins(ctx, coinomicstypes.ModuleName, coins); err != nil {
						panic(err)
					}
					if c14Mods[m] != coinomicstypes.ModuleName {
						if err := app.BankKeeper.SendCoinsFromModuleToModule(ctx, coinomicstypes.ModuleName, c14Mods[m], coins); err != nil {
							panic(err)
						}
					}
				}
				out = "ok"
			case "burn":
				m := vmIdx(f[1])
				amt := mustBig(f[2])
				f[3] = modBal(ctx, c14Mods[m]).String()
				c[i] = strings.Join(f, " ")
				pre := take(ctx)
				preMod := modBal(ctx, c14Mods[m])
				cctx, write := ctx.CacheContext()
				err := hk.BurnCoins(cctx, c14Mods[m], sdk.NewCoins(sdk.NewCoin(denom, sdkmath.NewIntFromBigInt(amt))))
				if err != nil {
					out = "err:insufficient"
					return
				}
				write()
				post := take(ctx)
				out = fmt.Sprintf("ok dsupply=%s dpool=%s ddistr=%s dmod=%s", sub(pre.sup, post.sup), sub(post.pool, pre.pool), sub(post.distr, pre.distr), sub(preMod, modBal(ctx, c14Mods[m])))
				if m >= 1 && m <= 3 {
					tags = append(tags, "redirect-ok")
					checkRedirect(i, "BurnCoins("+c14Mods[m]+")", pre, post)
				} else {
					tags = append(tags, "plain-burn-ok")
					if sub(pre.sup, post.sup).Cmp(amt) != 0 || post.pool.Cmp(pre.pool) != 0 {
						fails = append(fails, Failure{Signature: "C14:plain-burn-changed-meaning", What: fmt.Sprintf("burn of %s by %s: supply −%s, community pool +%s", amt, c14Mods[m], sub(pre.sup, post.sup), sub(post.pool, pre.pool)), Case: c[:i+1]})
					}
				}
			case "sendoff", "sendon":
				// transfers of the denomination are switched off / on in the bank module (a launch phase, a frozen token):
				// the redirect moves coins between module accounts all the same
				app.BankKeeper.SetSendEnabled(ctx, denom, f[0] == "sendon")
				app.BankKeeper.SetSendEnabled(ctx, "bcoin", f[0] == "sendon")
				tags = append(tags, "transfers-"+strings.TrimPrefix(f[0], "send"))
				out = "skip"
			case "pooldust":
				// the community pool holds a fraction of a unit, as after any block of fee allocation (the remainder of the
				// validators' rewards goes to the pool as a decimal amount; the whole coin sits in the distribution account)
				one := sdk.NewCoins(sdk.NewCoin(denom, sdkmath.NewInt(1)), sdk.NewCoin("bcoin", sdkmath.NewInt(1)))
				if err := app.BankKeeper.MintCoins(ctx, coinomicstypes.ModuleName, one); err != nil {
					panic(err)
				}
				if err := app.BankKeeper.SendCoinsFromModuleToModule(ctx, coinomicstypes.ModuleName, distrtypes.ModuleName, one); err != nil {
					panic(err)
				}
				fp := app.DistrKeeper.GetFeePool(ctx)
				fp.CommunityPool = fp.CommunityPool.Add(sdk.NewDecCoinFromDec(denom, sdk.NewDecWithPrec(int64(1+vmIdx(f[1])%999), 3)), sdk.NewDecCoinFromDec("bcoin", sdk.NewDecWithPrec(5, 1)))
				app.DistrKeeper.SetFeePool(ctx, fp)
				tags = append(tags, "community-pool-holds-a-fraction")
				out = "skip"
			case "fundpool":
				// the distribution module's own write to the fee pool (MsgFundCommunityPool)
				coins := sdk.NewCoins(sdk.NewCoin(denom, sdkmath.NewIntFromBigInt(mustBig(f[1]))))
				who := kr.GetAccAddr(2)
				if err := app.BankKeeper.MintCoins(ctx, coinomicstypes.ModuleName, coins); err != nil {
					panic(err)
				}
				if err := app.BankKeeper.SendCoinsFromModuleToAccount(ctx, coinomicstypes.ModuleName, who, coins); err != nil {
					panic(err)
				}
				if err := app.DistrKeeper.FundCommunityPool(ctx, coins, who); err != nil {
					panic(err)
				}
				tags = append(tags, "community-pool-funded-between-burns")
				out = "ok"
			case "burn2":
				out = "skip"
				m := vmIdx(f[1])
				coins := sdk.NewCoins(sdk.NewCoin(denom, sdkmath.NewIntFromBigInt(mustBig(f[2]))), sdk.NewCoin("bcoin", sdkmath.NewIntFromBigInt(mustBig(f[3]))))
				if err := app.BankKeeper.MintCoins(ctx, coinomicstypes.ModuleName, coins); err != nil {
					panic(err)
				}
				if err := app.BankKeeper.SendCoinsFromModuleToModule(ctx, coinomicstypes.ModuleName, c14Mods[m], coins); err != nil {
					panic(err)
				}
				type two struct {
					sup, pool, distr sdk.Coins
					raw              map[string]*big.Int
				}
				take2 := func() two {
					t := two{raw: map[string]*big.Int{}}
					for _, c := range coins {
						t.raw[c.Denom] = poolRawOf(ctx, c.Denom)
						t.sup = t.sup.Add(app.BankKeeper.GetSupply(ctx, c.Denom))
						t.pool = t.pool.Add(sdk.NewCoin(c.Denom, poolOf(ctx, c.Denom)))
						t.distr = t.distr.Add(app.BankKeeper.GetBalance(ctx, authtypes.NewModuleAddress(distrtypes.ModuleName), c.Denom))
					}
					return t
				}
				pre := take2()
				if err := hk.BurnCoins(ctx, c14Mods[m], coins); err != nil {
					panic(err)
				}
				post := take2()
				tags = append(tags, "redirect-two-denominations")
				d := func(dn string) string {
					return fmt.Sprintf("%s/%s/%s", pre.sup.AmountOf(dn).Sub(post.sup.AmountOf(dn)), post.pool.AmountOf(dn).Sub(pre.pool.AmountOf(dn)), post.distr.AmountOf(dn).Sub(pre.distr.AmountOf(dn)))
				}
				out = fmt.Sprintf("ok a=%s b=%s", d(denom), d("bcoin"))
				fl := func(sig, w string) {
					fails = append(fails, Failure{Signature: sig, What: "BurnCoins(" + c14Mods[m] + ", " + coins.String() + "): " + w, Case: c[:i+1]})
				}
				if !post.sup.IsEqual(pre.sup) {
					fl("C14:supply-changed", fmt.Sprintf("total supply %s → %s", pre.sup, post.sup))
				}
				if !post.pool.Sub(pre.pool...).IsEqual(coins) {
					fl("C14:community-pool-delta", fmt.Sprintf("community pool grew by %s", post.pool.Sub(pre.pool...)))
				}
				for _, c := range coins {
					if sub(post.raw[c.Denom], pre.raw[c.Denom]).Cmp(new(big.Int).Mul(c.Amount.BigInt(), e18)) != 0 {
						fl("C14:community-pool-delta", fmt.Sprintf("community pool of %s grew by %s/1e18 (from %s/1e18), burned %s", c.Denom, sub(post.raw[c.Denom], pre.raw[c.Denom]), pre.raw[c.Denom], c.Amount))
					}
				}
				if !post.distr.Sub(pre.distr...).IsEqual(coins) {
					fl("C14:distribution-account-delta", fmt.Sprintf("distribution account grew by %s", post.distr.Sub(pre.distr...)))
				}
				poolWellFormed(i, "BurnCoins("+c14Mods[m]+", "+coins.String()+")")
			case "slash":
				out = "skip"
				vals := app.StakingKeeper.GetAllValidators(ctx)
				if len(vals) < 2 {
					return
				}
				val := vals[0]
				valAddr := val.GetOperator()
				del := kr.GetAccAddr(1)
				sk := stakingkeeper.NewMsgServerImpl(app.StakingKeeper.Keeper)
				one := sdkmath.NewIntWithDecimal(1, 17)
				infraction := int64(5)
				cctx := ctx.WithBlockHeight(10)
				if _, err := sk.Delegate(sdk.WrapSDKContext(cctx), stakingtypes.NewMsgDelegate(del, valAddr, sdk.NewCoin(denom, one.MulRaw(10)))); err != nil {
					panic(err)
				}
				kind := f[1]
				if kind == "unbonding" || kind == "all" {
					if _, err := sk.Undelegate(sdk.WrapSDKContext(cctx), stakingtypes.NewMsgUndelegate(del, valAddr, sdk.NewCoin(denom, one.MulRaw(4)))); err != nil {
						panic(err)
					}
				}
				if kind == "redelegate-bonded" || kind == "all" {
					if _, err := sk.BeginRedelegate(sdk.WrapSDKContext(cctx), stakingtypes.NewMsgBeginRedelegate(del, valAddr, vals[1].GetOperator(), sdk.NewCoin(denom, one.MulRaw(3)))); err != nil {
						panic(err)
					}
				}
				if kind == "redelegate-unbonded" {
					// destination validator jailed → unbonding; its delegations sit in the not-bonded pool
					dst := vals[1]
					dc, _ := dst.GetConsAddr()
					if !dst.IsJailed() {
						app.StakingKeeper.Jail(cctx, dc)
					}
					if _, err := sk.BeginRedelegate(sdk.WrapSDKContext(cctx), stakingtypes.NewMsgBeginRedelegate(del, valAddr, dst.GetOperator(), sdk.NewCoin(denom, one.MulRaw(3)))); err != nil {
						panic(err)
					}
					stakingkeeperEndBlock(app.StakingKeeper.Keeper, cctx)
				}
				if kind == "current-height" {
					infraction = 20
				}
				cons, _ := val.GetConsAddr()
				frac := sdk.NewDecWithPrec(int64(vmIdx(f[2])), 3)
				sctx := ctx.WithBlockHeight(20)
				v2, _ := app.StakingKeeper.GetValidator(sctx, valAddr)
				pre := take(sctx)
				app.StakingKeeper.Slash(sctx, cons, infraction, v2.ConsensusPower(app.StakingKeeper.PowerReduction(sctx)), frac)
				post := take(sctx)
				tags = append(tags, "slash-ok", "slash-"+kind)
				if sub(pre.notb, post.notb).Sign() > 0 {
					tags = append(tags, "slash-hit-notbonded")
				}
				checkRedirect(i, "Slash("+kind+")", pre, post)
			case "govburn":
				out = "skip"
				dep := sdk.NewCoins(sdk.NewCoin(denom, sdkmath.NewInt(int64(vmIdx(f[1])))))
				content := govv1beta1.NewTextProposal("t", "d")
				legacy, err := govv1.NewLegacyContent(content, authtypes.NewModuleAddress(govtypes.ModuleName).String())
				if err != nil {
					panic(err)
				}
				prop, err := app.GovKeeper.SubmitProposal(ctx, []sdk.Msg{legacy}, "", "t", "s", kr.GetAccAddr(2))
				if err != nil {
					panic(err)
				}
				if _, err := app.GovKeeper.AddDeposit(ctx, prop.Id, kr.GetAccAddr(2), dep); err != nil {
					panic(err)
				}
				pre := take(ctx)
				app.GovKeeper.DeleteAndBurnDeposits(ctx, prop.Id)
				post := take(ctx)
				tags = append(tags, "govburn-ok")
				checkRedirect(i, "DeleteAndBurnDeposits", pre, post)
			}
		}()
		outs = append(outs, out)
	}
	return
}

func stakingkeeperEndBlock(k *stakingkeeper.Keeper, ctx sdk.Context) {
	k.BlockValidatorUpdates(ctx)
}
