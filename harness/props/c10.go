package props

import (
	"fmt"
	transfertypes "github.com/cosmos/ibc-go/v7/modules/apps/transfer/types"
	clienttypes "github.com/cosmos/ibc-go/v7/modules/core/02-client/types"
	channeltypes "github.com/cosmos/ibc-go/v7/modules/core/04-channel/types"
	haqqapp "github.com/haqq-network/haqq/app"
	"math/big"
	"math/rand"
	"strings"

	sdkmath "cosmossdk.io/math"
	sdk "github.com/cosmos/cosmos-sdk/types"
	banktypes "github.com/cosmos/cosmos-sdk/x/bank/types"
	"github.com/ethereum/go-ethereum/accounts/abi"
	"github.com/ethereum/go-ethereum/common"
	ethtypes "github.com/ethereum/go-ethereum/core/types"
	"github.com/ethereum/go-ethereum/crypto"

	"github.com/haqq-network/haqq/contracts"
	testtx "github.com/haqq-network/haqq/testutil/tx"
	erc20types "github.com/haqq-network/haqq/x/erc20/types"
	evmtypes "github.com/haqq-network/haqq/x/evm/types"
)

// C10 — the ERC20 <-> coin peg.  Every case builds its pairs on a cached context of the application:
// pair 0 = coin-origin (RegisterCoin: the module deploys and owns the token), pair 1 = ERC20-origin with the honest
// ERC20MinterBurnerDecimals deployed by user 1 (RegisterERC20).  Messages go through the application's message
// router (the production wiring, including Haqq's bank MsgSend wrapper); ERC20 transfers, burns and mints are signed
// Ethereum transactions executed through the EVM keeper's EthereumTx (so that the PostTxProcessing hook runs).
// After every op the six quantities of the model are read back from the bank and the token contract.
//
//	preset <pair> <ext> <c1> <c2> <c3> <t1> <t2> <t3>
//	cc|ce <pair> <s> <r> <x>   tr <pair> <f> <t> <x>   burn <pair> <f> <x>   mint <pair> <r> <x>   toggle <pair>
//	send <pair> <f> <t> <x>                                  users 1..3, 0 = the erc20 module account
//	mal # kind=delayed|direct|forger op=… (monitor-only: the repository's malicious test tokens and a log forger)
//	amount placeholders: all | half | over | <n>   (resolved by the executor against the source balance)
type c10Pair struct {
	denom    string
	contract common.Address
	external bool
}

type c10Env struct {
	ctx   sdk.Context
	pairs map[int]*c10Pair
	mal   map[string]*c10Pair
	// how tokens of a malicious pair got into the module's escrow: "hook" (a transfer to the module address, converted by
	// the PostTxProcessing hook) and / or "msg" (an accepted MsgConvertERC20)
	malFilled map[string]map[string]bool
	// a script-interpreting contract (model address 4) and an unregistered log-forging token, deployed on demand
	puppet, stray common.Address
}

var c10ABI = contracts.ERC20MinterBurnerDecimalsContract.ABI

func c10Gen(r *rand.Rand, tier string) []Case {
	n := 14
	if tier == "thorough" {
		n = 400
	}
	var out []Case
	amt := func() string {
		return pick(r, []string{"all", "half", "half", "over", fmt.Sprint(1 + r.Intn(400)), fmt.Sprint(1 + r.Intn(400)), "0"})
	}
	// fixed case: the repository's balance-manipulating token — tokens sent to the module (the hook mints coins for what
	// arrived), then those coins come back over IBC and the middleware tries to convert them
	out = append(out, Case{"preset 0 0 500 0 0 0 0 0", "preset 1 1 0 0 0 500 0 0",
		"mal # kind=direct op=tr u=1 x=200", "mal # kind=direct op=ibcrecv u=1 x=0", "mal # kind=direct op=cc u=1 x=10",
		"mal # kind=delayed op=tr u=1 x=200", "mal # kind=delayed op=ibcrecv u=1 x=0",
		"cc 0 1 1 half", "cc 0 1 1 all # via=ibc", "ce 1 1 1 half", "cc 1 1 1 all # via=ibc"})
	// fixed case: the delayed-malicious token (its transfer secretly approves a third address on the recipient) converted
	// under every spelling of its contract address, then the approved address tries to empty the module's escrow
	out = append(out, Case{"preset 0 0 500 0 0 0 0 0", "preset 1 1 0 0 0 500 0 0",
		"mal # kind=delayed op=ce u=1 x=10", "mal # kind=delayed op=ce u=1 x=10 spell=lower", "mal # kind=delayed op=drain u=1 x=0",
		"mal # kind=delayed op=ce u=1 x=10 spell=upper", "mal # kind=delayed op=ce u=1 x=10 spell=nox", "mal # kind=delayed op=drain u=1 x=0",
		"ce 1 1 1 half # spell=lower", "ce 1 1 2 half # spell=nox", "ce 1 2 1 all # spell=upper"})
	// fixed case: a token that is honest while an escrow builds up and then runs its transfers backwards
	out = append(out, Case{"preset 0 0 500 0 0 0 0 0", "preset 1 1 0 0 0 500 0 0", "mal # kind=reverser op=ce u=1 x=100", "mal # kind=reverser op=flip u=1 x=0",
		"mal # kind=reverser op=ce u=2 x=100", "mal # kind=reverser op=cc u=1 x=30", "mal # kind=reverser op=ce u=1 x=50"})
	// fixed case (recorded finding): the same token sent to the module address directly — the hook converts it without
	// looking for Approval events — and the approved address empties the escrow
	out = append(out, Case{"preset 0 0 500 0 0 0 0 0", "preset 1 1 0 0 0 500 0 0", "mal # kind=delayed op=tr u=1 x=200", "mal # kind=delayed op=drain u=1 x=0"})
	// fixed case: conversions that name the pair by its contract address, by an account that holds nothing and by one that does
	out = append(out, Case{"preset 0 0 500 0 0 0 0 0", "preset 1 1 0 0 0 500 0 0", "cc 0 1 1 40", "ce 1 1 1 50",
		"ccalias 0 2 2 1000 # form=bare", "ccalias 1 2 2 30 # form=bare", "ccalias 0 1 2 100 # form=lower", "ccalias 1 1 2 20 # form=lower",
		"ccalias 0 1 1 10 # form=0x", "ccalias 1 1 1 10 # form=0x", "tr 1 1 2 half"})
	for i := 0; i < n; i++ {
		c := Case{
			fmt.Sprintf("preset 0 0 %d %d %d 0 0 0", 200+r.Intn(800), r.Intn(500), r.Intn(3)),
			fmt.Sprintf("preset 1 1 0 0 0 %d %d %d", 200+r.Intn(800), r.Intn(500), r.Intn(3)),
		}
		c = append(c, "cc 0 1 1 half", "cc 0 2 3 half", "ce 1 1 1 half", "ce 1 2 3 half", "cc 0 1 4 half", "tr 1 1 4 half")
		for j := 0; j < 8+r.Intn(18); j++ {
			p := r.Intn(2)
			u, v := 1+r.Intn(3), 1+r.Intn(3)
			switch x := r.Intn(24); {
			case x < 5:
				if r.Intn(4) == 0 {
					c = append(c, fmt.Sprintf("cc %d %d %d all # via=ibc", p, u, u))
				} else {
					c = append(c, fmt.Sprintf("cc %d %d %d %s", p, u, v, amt()))
				}
			case x < 9:
				if r.Intn(5) == 0 {
					c = append(c, fmt.Sprintf("ccalias %d %d %d %s # form=%s", p, u, v, pick(r, []string{"half", "1", fmt.Sprint(1 + r.Intn(2000))}), pick(r, []string{"bare", "bare", "lower", "0x"})))
				} else {
					sp := ""
					if r.Intn(4) == 0 {
						sp = " # spell=" + pick(r, []string{"lower", "upper", "nox"})
					}
					c = append(c, fmt.Sprintf("ce %d %d %d %s%s", p, u, v, amt(), sp))
				}
			case x < 13:
				c = append(c, fmt.Sprintf("tr %d %d %d %s", p, u, pick(r, []int{0, 0, v}), amt()))
			case x < 14:
				c = append(c, fmt.Sprintf("burn %d %d %s", p, u, amt()))
			case x < 15:
				c = append(c, fmt.Sprintf("mint 1 %d %d", u, 1+r.Intn(300)))
			case x < 16:
				c = append(c, fmt.Sprintf("toggle %d", p))
			case x == 22:
				c = append(c, fmt.Sprintf("multi %d %s %d", p, pick(r, []string{"half", "1", "7"}), 1+r.Intn(60)))
			case x >= 20:
				// an allowance for the module address (or a user): an Approval log with the shape of a Transfer log
				c = append(c, fmt.Sprintf("appr %d %d %d %d", p, u, pick(r, []int{0, 0, 0, v}), 1+r.Intn(400)))
			case x < 18:
				c = append(c, fmt.Sprintf("send 0 %d %d %s", u, v, amt()))
			default:
				kind := pick(r, []string{"delayed", "direct", "forger"})
				op := pick(r, []string{"ce", "tr", "cc", "ibcrecv"})
				if kind == "forger" {
					op = "forge"
				}
				c = append(c, fmt.Sprintf("mal # kind=%s op=%s u=%d x=%d", kind, op, u, 1+r.Intn(300)))
			}
		}
		out = append(out, c)
	}
	return out
}

// c10Spell: the spellings of a contract address MsgConvertERC20 accepts (all resolve to the same pair)
func c10Spell(a common.Address, how string) string {
	switch how {
	case "lower":
		return strings.ToLower(a.Hex())
	case "upper":
		return "0x" + strings.ToUpper(a.Hex()[2:])
	case "nox":
		return a.Hex()[2:]
	}
	return a.Hex()
}

func c10Exec(c Case) (outs []string, fails []Failure, tags []string) {
	nw, kr := fixture()
	app := nw.App
	env := &c10Env{pairs: map[int]*c10Pair{}, mal: map[string]*c10Pair{}, malFilled: map[string]map[string]bool{}}
	env.ctx, _ = nw.GetContext().CacheContext()
	env.ctx = env.ctx.WithGasMeter(sdk.NewInfiniteGasMeter()).WithBlockGasMeter(sdk.NewInfiniteGasMeter())
	modEth := erc20types.ModuleAddress
	modAcc := sdk.AccAddress(modEth.Bytes())
	ethOf := func(u int) common.Address {
		switch u {
		case 0:
			return modEth
		case 4:
			return env.puppet
		}
		return kr.GetKey(u).Addr
	}
	accOf := func(u int) sdk.AccAddress { return sdk.AccAddress(ethOf(u).Bytes()) }
	// a signed Ethereum transaction through the EVM keeper (hooks included); true = executed without VM error
	ethTx := func(ctx sdk.Context, u int, to *common.Address, input []byte) (bool, *evmtypes.MsgEthereumTxResponse) {
		key := kr.GetKey(u)
		msg := evmtypes.NewTx(&evmtypes.EvmTxArgs{ChainID: nw.GetEIP155ChainID(), Nonce: app.EvmKeeper.GetNonce(ctx, key.Addr), To: to,
			GasLimit: 3_000_000, GasPrice: big.NewInt(0), Input: input})
		msg.From = key.Addr.String()
		if err := msg.Sign(ethtypes.LatestSignerForChainID(nw.GetEIP155ChainID()), testtx.NewSigner(key.Priv)); err != nil {
			panic(err)
		}
		res, err := app.EvmKeeper.EthereumTx(sdk.WrapSDKContext(ctx), msg)
		if err != nil || res.Failed() {
			return false, res
		}
		return true, res
	}
	bal := func(p *c10Pair, a common.Address) *big.Int {
		b := app.Erc20Keeper.BalanceOf(env.ctx, c10ABI, p.contract, a)
		if b == nil {
			return big.NewInt(-1)
		}
		return b
	}
	supply := func(p *c10Pair) *big.Int {
		res, err := app.Erc20Keeper.CallEVM(env.ctx, c10ABI, modEth, p.contract, false, "totalSupply")
		if err != nil {
			return big.NewInt(-1)
		}
		out, err := c10ABI.Unpack("totalSupply", res.Ret)
		if err != nil || len(out) != 1 {
			return big.NewInt(-1)
		}
		return out[0].(*big.Int)
	}
	dump := func(p *c10Pair) (string, *big.Int, *big.Int, *big.Int, *big.Int) {
		esc := app.BankKeeper.GetBalance(env.ctx, modAcc, p.denom).Amount.BigInt()
		cs := app.BankKeeper.GetSupply(env.ctx, p.denom).Amount.BigInt()
		ts := supply(p)
		mod := bal(p, modEth)
		var cb, tb []string
		for u := 1; u <= 3; u++ {
			cb = append(cb, app.BankKeeper.GetBalance(env.ctx, accOf(u), p.denom).Amount.String())
			tb = append(tb, bal(p, ethOf(u)).String())
		}
		return fmt.Sprintf("esc=%s cs=%s ts=%s mod=%s c=%s t=%s", esc, cs, ts, mod, strings.Join(cb, ","), strings.Join(tb, ",")), esc, cs, ts, mod
	}
	deploy := func(owner int, contract evmtypes.CompiledContract, args ...interface{}) common.Address {
		ctor, err := contract.ABI.Pack("", args...)
		if err != nil {
			panic(err)
		}
		from := kr.GetKey(owner).Addr
		nonce := app.EvmKeeper.GetNonce(env.ctx, from)
		msg := ethtypes.NewMessage(from, nil, nonce, big.NewInt(0), 5_000_000, big.NewInt(0), big.NewInt(0), big.NewInt(0), append(append([]byte{}, contract.Bin...), ctor...), ethtypes.AccessList{}, false)
		res, err := app.EvmKeeper.ApplyMessage(env.ctx, msg, evmtypes.NewNoOpTracer(), true)
		if err != nil || res.Failed() {
			panic(fmt.Sprint("deploy failed: ", err, res))
		}
		return crypto.CreateAddress(from, nonce)
	}
	route := func(ctx sdk.Context, msg sdk.Msg) error {
		if vb, ok := msg.(interface{ ValidateBasic() error }); ok {
			if err := vb.ValidateBasic(); err != nil {
				return err
			}
		}
		h := app.MsgServiceRouter().Handler(msg)
		if h == nil {
			panic("no handler for " + sdk.MsgTypeURL(msg))
		}
		_, err := h(ctx, msg)
		return err
	}
	for i, line := range c {
		f := strings.Fields(line)
		kv := vmKV(f)
		out := "bad-op"
		func() {
			defer func() {
				if r := recover(); r != nil {
					out = "panic:" + strings.ReplaceAll(fmt.Sprint(r), " ", "_")
					fails = append(fails, Failure{Signature: "C10:harness-panic", What: fmt.Sprint(r), Case: c[:i+1]})
				}
			}()
			fl := func(sig, what string) { fails = append(fails, Failure{Signature: sig, What: what, Case: c[:i+1]}) }
			backed := func(p *c10Pair, op string) {
				_, esc, cs, ts, mod := dump(p)
				if p.external {
					if cs.Cmp(mod) > 0 {
						fl("C10:unbacked:erc20-origin:"+op, fmt.Sprintf("coin supply %s exceeds the %s tokens the module holds", cs, mod))
					}
				} else if ts.Cmp(esc) > 0 {
					fl("C10:unbacked:coin-origin:"+op, fmt.Sprintf("token supply %s exceeds the %s coins in escrow", ts, esc))
				}
			}
			// resolve an amount placeholder against a balance
			amount := func(spec string, have *big.Int) *big.Int {
				switch spec {
				case "all":
					return new(big.Int).Set(have)
				case "half":
					return new(big.Int).Rsh(have, 1)
				case "over":
					return new(big.Int).Add(have, big.NewInt(1))
				}
				return mustBig(spec)
			}
			switch f[0] {
			case "preset":
				id := vmIdx(f[1])
				p := &c10Pair{external: f[2] == "1"}
				// the next contract of the deployer gets an address whose hex form starts with a letter (so that the
				// address without 0x is a well-formed denomination: see `ccalias`)
				alpha := func(deployer common.Address) {
					for n := 0; n < 64; n++ {
						seq := app.EvmKeeper.GetNonce(env.ctx, deployer)
						if h := crypto.CreateAddress(deployer, seq).Hex()[2]; (h >= 'a' && h <= 'f') || (h >= 'A' && h <= 'F') {
							return
						}
						acc := app.AccountKeeper.GetAccount(env.ctx, deployer.Bytes())
						if acc == nil {
							return
						}
						if err := acc.SetSequence(seq + 1); err != nil {
							panic(err)
						}
						app.AccountKeeper.SetAccount(env.ctx, acc)
					}
				}
				if p.external {
					alpha(kr.GetKey(1).Addr)
				} else {
					alpha(modEth)
				}
				if !p.external {
					p.denom = fmt.Sprintf("apeg%d", id)
					for u := 1; u <= 3; u++ {
						if v := mustBig(f[2+u]); v.Sign() > 0 {
							coins := sdk.NewCoins(sdk.NewCoin(p.denom, sdkmath.NewIntFromBigInt(v)))
							_ = app.BankKeeper.MintCoins(env.ctx, "coinomics", coins)
							_ = app.BankKeeper.SendCoinsFromModuleToAccount(env.ctx, "coinomics", accOf(u), coins)
						}
					}
					if !app.BankKeeper.HasSupply(env.ctx, p.denom) {
						coins := sdk.NewCoins(sdk.NewCoin(p.denom, sdkmath.NewInt(1)))
						_ = app.BankKeeper.MintCoins(env.ctx, "coinomics", coins)
						_ = app.BankKeeper.BurnCoins(env.ctx, "coinomics", coins)
					}
					md := banktypes.Metadata{Description: "peg", Base: p.denom, Display: "peg", Name: p.denom, Symbol: "PEG",
						DenomUnits: []*banktypes.DenomUnit{{Denom: p.denom, Exponent: 0}, {Denom: "peg", Exponent: 18}}}
					pair, err := app.Erc20Keeper.RegisterCoin(env.ctx, md)
					if err != nil {
						panic(err)
					}
					p.contract = pair.GetERC20Contract()
				} else {
					p.contract = deploy(1, contracts.ERC20MinterBurnerDecimalsContract, "Token", "TOK", uint8(18))
					for u := 1; u <= 3; u++ {
						if v := mustBig(f[5+u]); v.Sign() > 0 {
							in, _ := c10ABI.Pack("mint", ethOf(u), v)
							if ok, _ := ethTx(env.ctx, 1, &p.contract, in); !ok {
								panic("mint failed")
							}
						}
					}
					pair, err := app.Erc20Keeper.RegisterERC20(env.ctx, p.contract)
					if err != nil {
						panic(err)
					}
					p.denom = pair.Denom
				}
				env.pairs[id] = p
				if (env.puppet == common.Address{}) {
					empty, _ := abi.JSON(strings.NewReader("[]"))
					env.puppet = deploy(1, evmtypes.CompiledContract{ABI: empty, Bin: c07InitCode(puppetRuntime())})
					env.stray = c10DeployForger(env, deploy)
				}
				d, _, _, _, _ := dump(p)
				out = "ok " + d
				tags = append(tags, "preset")
			case "cc", "ce", "tr", "burn", "mint", "toggle", "send", "appr", "multi", "ccalias":
				p := env.pairs[vmIdx(f[1])]
				if p == nil {
					out = "no-pair"
					return
				}
				cctx, write := env.ctx.CacheContext()
				ok := false
				switch f[0] {
				case "cc":
					s, r := vmIdx(f[2]), vmIdx(f[3])
					x := amount(f[4], app.BankKeeper.GetBalance(env.ctx, accOf(s), p.denom).Amount.BigInt())
					f[4] = x.String()
					if kv["via"] == "ibc" {
						// the same conversion, started by the IBC middleware for coins that came back over a channel: the whole
						// balance of the receiver, to the receiver's own hex address
						x = app.BankKeeper.GetBalance(env.ctx, accOf(s), p.denom).Amount.BigInt()
						f[3], f[4] = f[2], x.String()
						ok = x.Sign() > 0 && c10IBCRecv(cctx, app, p.denom, accOf(s), x)
						// (for a disabled pair the middleware acknowledges the receive and converts nothing: not a conversion)
						ok = ok && app.BankKeeper.GetBalance(cctx, accOf(s), p.denom).Amount.BigInt().Cmp(x) < 0
						if x.Sign() == 0 {
							ok = route(cctx, erc20types.NewMsgConvertCoin(sdk.Coin{Denom: p.denom, Amount: sdkmath.NewIntFromBigInt(x)}, ethOf(s), accOf(s))) == nil
						}
						tags = append(tags, "convert-via-ibc-receive")
					} else {
						ok = route(cctx, erc20types.NewMsgConvertCoin(sdk.Coin{Denom: p.denom, Amount: sdkmath.NewIntFromBigInt(x)}, ethOf(r), accOf(s))) == nil
					}
				case "ccalias":
					// MsgConvertCoin whose coin names the pair by the token contract's address (the pair lookup accepts an
					// address, with or without 0x) instead of by its denomination: nobody holds coins of such a
					// "denomination", so nothing can be escrowed and nothing may be handed out
					s, r := vmIdx(f[2]), vmIdx(f[3])
					x := amount(f[4], app.BankKeeper.GetBalance(env.ctx, accOf(s), p.denom).Amount.BigInt())
					f[4] = x.String()
					alias := p.contract.Hex()[2:]
					switch kv["form"] {
					case "lower":
						alias = strings.ToLower(alias)
					case "0x":
						alias = p.contract.Hex()
					}
					ok = route(cctx, erc20types.NewMsgConvertCoin(sdk.Coin{Denom: alias, Amount: sdkmath.NewIntFromBigInt(x)}, ethOf(r), accOf(s))) == nil
					tags = append(tags, "convert-names-pair-by-contract-address:"+kv["form"])
				case "ce":
					s, r := vmIdx(f[2]), vmIdx(f[3])
					x := amount(f[4], bal(p, ethOf(s)))
					f[4] = x.String()
					cm := erc20types.NewMsgConvertERC20(sdkmath.NewIntFromBigInt(x), accOf(r), p.contract, ethOf(s))
					if kv["spell"] != "" {
						cm.ContractAddress = c10Spell(p.contract, kv["spell"])
						tags = append(tags, "contract-address-spelled:"+kv["spell"])
					}
					ok = route(cctx, cm) == nil
				case "tr":
					s, t := vmIdx(f[2]), vmIdx(f[3])
					x := amount(f[4], bal(p, ethOf(s)))
					f[4] = x.String()
					in, _ := c10ABI.Pack("transfer", ethOf(t), x)
					ok, _ = ethTx(cctx, s, &p.contract, in)
					// the model refuses what the token accepts without effect
					if x.Sign() == 0 || s == t {
						ok = false
					}
				case "multi":
					x := amount(f[2], bal(p, env.puppet))
					f[2] = x.String()
					t1, _ := c10ABI.Pack("transfer", ethOf(2), x)
					forge := append([]byte{0xde, 0xad, 0xbe, 0xef}, common.LeftPadBytes(mustBig(f[3]).Bytes(), 32)...)
					script := append(puppetCall(1, p.contract, big.NewInt(0), t1), puppetCall(0, env.stray, big.NewInt(0), forge)...)
					script = append(script, puppetCall(0, env.stray, big.NewInt(0), forge)...)
					ok, _ = ethTx(cctx, 1, &env.puppet, script)
					if x.Sign() == 0 {
						ok = false
					}
				case "appr":
					in, _ := c10ABI.Pack("approve", ethOf(vmIdx(f[3])), mustBig(f[4]))
					ok, _ = ethTx(cctx, vmIdx(f[2]), &p.contract, in)
				case "burn":
					s := vmIdx(f[2])
					x := amount(f[3], bal(p, ethOf(s)))
					f[3] = x.String()
					in, _ := c10ABI.Pack("burn", x)
					ok, _ = ethTx(cctx, s, &p.contract, in)
				case "mint":
					if !p.external {
						ok = false
						break
					}
					in, _ := c10ABI.Pack("mint", ethOf(vmIdx(f[2])), mustBig(f[3]))
					ok, _ = ethTx(cctx, 1, &p.contract, in)
				case "toggle":
					_, err := app.Erc20Keeper.ToggleConversion(cctx, p.contract.Hex())
					ok = err == nil
				case "send":
					s, t := vmIdx(f[2]), vmIdx(f[3])
					have := new(big.Int).Add(app.BankKeeper.GetBalance(env.ctx, accOf(s), p.denom).Amount.BigInt(), bal(p, ethOf(s)))
					x := amount(f[4], have)
					f[4] = x.String()
					if s == t {
						ok = false // the model refuses a send to oneself (the wrapper's balance check fails on it)
						break
					}
					ok = route(cctx, banktypes.NewMsgSend(accOf(s), accOf(t), sdk.NewCoins(sdk.NewCoin(p.denom, sdkmath.NewIntFromBigInt(x))))) == nil
				}
				c[i] = strings.Join(f, " ")
				if ok {
					write()
				}
				d, _, _, _, _ := dump(p)
				if ok {
					out = "ok " + d
					tags = append(tags, f[0]+"-ok")
				} else {
					out = "rej " + d
					tags = append(tags, f[0]+"-rej")
				}
				backed(p, f[0])
			case "mal":
				out = "skip"
				kind := kv["kind"]
				p := env.mal[kind]
				if p == nil {
					p = &c10Pair{external: true}
					switch kind {
					case "delayed":
						p.contract = deploy(1, contracts.ERC20MaliciousDelayedContract, big.NewInt(1_000_000))
					case "direct":
						p.contract = deploy(1, contracts.ERC20DirectBalanceManipulationContract, big.NewInt(1_000_000))
					case "reverser":
						// a token that keeps real balances and behaves honestly until it is flipped; afterwards its `transfer`
						// runs backwards (debits the recipient, credits the caller) and still returns true
						p.contract = c10DeployReverser(deploy)
						if ok, _ := ethTx(env.ctx, 1, &p.contract, []byte{0x12, 0x49, 0xc5, 0x8b}); !ok { // mint(): 1e6 tokens to the caller
							panic("reverser mint failed")
						}
					default:
						p.contract = c10DeployForger(env, deploy)
					}
					pair, err := app.Erc20Keeper.RegisterERC20(env.ctx, p.contract)
					if err != nil {
						tags = append(tags, "mal-register-failed:"+kind+":"+strings.ReplaceAll(err.Error(), " ", "_"))
						return
					}
					p.denom = pair.Denom
					env.mal[kind] = p
				}
				u := vmIdx(kv["u"])
				x := mustBig(kv["x"])
				cctx, write := env.ctx.CacheContext()
				ok := false
				switch kv["op"] {
				case "ce":
					cm := erc20types.NewMsgConvertERC20(sdkmath.NewIntFromBigInt(x), accOf(u), p.contract, ethOf(1))
					if kv["spell"] != "" {
						cm.ContractAddress = c10Spell(p.contract, kv["spell"])
					}
					ok = route(cctx, cm) == nil
				case "flip":
					ok, _ = ethTx(cctx, 1, &p.contract, []byte{0xde, 0xad, 0xbe, 0xef})
				case "drain":
					// the address the delayed-malicious token secretly approves takes what it can out of the module's escrow
					thief := common.HexToAddress("0x4dC6ac40Af078661fc43823086E1513635Eeab14")
					have := bal(p, modEth)
					if have.Sign() > 0 {
						in, _ := c10ABI.Pack("transferFrom", modEth, thief, have)
						m := ethtypes.NewMessage(thief, &p.contract, app.EvmKeeper.GetNonce(cctx, thief), big.NewInt(0), 3_000_000, big.NewInt(0), big.NewInt(0), big.NewInt(0), in, ethtypes.AccessList{}, false)
						res, err := app.EvmKeeper.ApplyMessage(cctx, m, evmtypes.NewNoOpTracer(), true)
						ok = err == nil && !res.Failed()
					}
				case "cc":
					ok = route(cctx, erc20types.NewMsgConvertCoin(sdk.Coin{Denom: p.denom, Amount: sdkmath.NewIntFromBigInt(x)}, ethOf(u), accOf(u))) == nil
				case "tr":
					in, _ := c10ABI.Pack("transfer", modEth, x)
					ok, _ = ethTx(cctx, 1, &p.contract, in)
				case "forge":
					in := append([]byte{0xde, 0xad, 0xbe, 0xef}, common.LeftPadBytes(x.Bytes(), 32)...)
					ok, _ = ethTx(cctx, u, &p.contract, in)
				case "ibcrecv":
					// the holder's coins of this pair come back over IBC and the middleware converts the whole balance
					if b := app.BankKeeper.GetBalance(env.ctx, accOf(u), p.denom).Amount.BigInt(); b.Sign() > 0 {
						ok = c10IBCRecv(cctx, app, p.denom, accOf(u), b)
					}
				}
				if ok {
					write()
					if env.malFilled[kind] == nil {
						env.malFilled[kind] = map[string]bool{}
					}
					switch kv["op"] {
					case "tr":
						env.malFilled[kind]["hook"] = true
					case "ce":
						env.malFilled[kind]["msg"] = true
					}
				}
				tags = append(tags, "mal:"+kind+":"+kv["op"]+fmt.Sprintf(":%v", ok))
				cs := app.BankKeeper.GetSupply(env.ctx, p.denom).Amount.BigInt()
				mod := bal(p, modEth)
				if cs.Cmp(mod) > 0 {
					sig := "C10:unbacked:erc20-origin:malicious-" + kind + ":" + kv["op"]
					if kind == "forger" && kv["op"] == "forge" {
						sig = "C10:hook-trusts-logs:forged-transfer-log-mints-unbacked-coins"
					}
					if kv["op"] == "drain" {
						// the escrow that was emptied: filled through the hook only (recorded finding: the hook does not look for
						// Approval events), or (also) through an accepted message conversion (which does look for them)
						if env.malFilled[kind]["msg"] {
							sig += ":after-message-conversion"
						} else {
							sig = "C10:hook-ignores-approvals:escrow-of-hook-converted-tokens-drained"
						}
					}
					fl(sig, fmt.Sprintf("token %s: coin supply %s, the module holds %s tokens", kind, cs, mod))
				}
			}
		}()
		outs = append(outs, out)
	}
	return
}

// c10IBCRecv runs the ERC20 middleware's OnRecvPacket for coins of `denom` that an ICS-20 transfer has just credited to
// `to` (coming back to their source chain), the way ibc-go core does: on a branch of the state that is written only
// if the acknowledgement is a success.
func c10IBCRecv(ctx sdk.Context, app *haqqapp.Haqq, denom string, to sdk.AccAddress, amt *big.Int) bool {
	data := transfertypes.NewFungibleTokenPacketData("transfer/channel-0/"+denom, amt.String(), "cosmos1qql8ag4cluz6r4dz28p3w00dnc9w8ueulg2gmc", to.String(), "")
	packet := channeltypes.NewPacket(data.GetBytes(), 1, "transfer", "channel-0", "transfer", "channel-0", clienttypes.NewHeight(0, 1_000_000), 0)
	cctx, write := ctx.CacheContext()
	ack := app.Erc20Keeper.OnRecvPacket(cctx, packet, channeltypes.NewResultAcknowledgement([]byte{1}))
	if ack.Success() {
		write()
		return true
	}
	return false
}

// c10DeployReverser deploys a hand-assembled token with real balances (slot = holder address; slot 0 = mode):
// name / symbol / decimals, balanceOf, mint() (1e6 to the caller), transfer(to, x) — honest while the mode is 0, backwards
// (recipient debited, caller credited) once any other selector has been called.
func c10DeployReverser(deploy func(int, evmtypes.CompiledContract, ...interface{}) common.Address) common.Address {
	a := newAsm()
	sel := func(b ...byte) *asm { return a.op(0x80).op(append([]byte{0x63}, b...)...).op(0x14) } // DUP1 PUSH4 sel EQ
	a.push1(0).op(0x35).push1(0xe0).op(0x1c)
	sel(0x06, 0xfd, 0xde, 0x03).pushl("str").op(0x57)
	sel(0x95, 0xd8, 0x9b, 0x41).pushl("str").op(0x57)
	sel(0x31, 0x3c, 0xe5, 0x67).pushl("dec").op(0x57)
	sel(0x70, 0xa0, 0x82, 0x31).pushl("bal").op(0x57)
	sel(0xa9, 0x05, 0x9c, 0xbb).pushl("xfer").op(0x57)
	sel(0x12, 0x49, 0xc5, 0x8b).pushl("mint").op(0x57)
	a.push1(1).push1(0).op(0x55, 0x00) // any other call: mode := 1
	a.label("bal")
	a.push1(4).op(0x35, 0x54).push1(0).op(0x52).push1(0x20).push1(0).op(0xf3)
	a.label("mint")
	a.op(0x62, 0x0f, 0x42, 0x40, 0x33, 0x54, 0x01, 0x33, 0x55, 0x00) // PUSH3 1e6 CALLER SLOAD ADD CALLER SSTORE STOP
	a.label("xfer")
	a.push1(0x24).op(0x35).push1(4).op(0x35) // [x, to]
	a.push1(0).op(0x54).pushl("rev").op(0x57)
	a.op(0x33).pushl("move").op(0x56) // honest: from = caller
	a.label("rev")
	a.op(0x33, 0x90) // reversed: dest = caller, from = to
	a.label("move")   // [x, dest, from]
	a.op(0x80, 0x54)  // DUP1 SLOAD            [x, dest, from, balF]
	a.op(0x83, 0x81)  // DUP4 DUP2             [.., balF, x, balF]
	a.op(0x10).pushl("fail").op(0x57) // LT (balF < x) → fail
	a.op(0x83, 0x90, 0x03) // DUP4 SWAP1 SUB   [x, dest, from, balF-x]
	a.op(0x90, 0x55)  // SWAP1 SSTORE          [x, dest]
	a.op(0x80, 0x54)  // DUP1 SLOAD            [x, dest, balD]
	a.op(0x82, 0x01)  // DUP3 ADD              [x, dest, balD+x]
	a.op(0x90, 0x55)  // SWAP1 SSTORE          [x]
	a.op(0x50)
	a.push1(1).push1(0).op(0x52).push1(0x20).push1(0).op(0xf3)
	a.label("fail")
	a.push1(0).push1(0).op(0xfd)
	a.label("str")
	a.push1(0x20).push1(0).op(0x52)
	a.push1(3).push1(0x20).op(0x52)
	a.op(0x62, 0x52, 0x45, 0x56).push1(0xe8).op(0x1b) // "REV" << 232
	a.push1(0x40).op(0x52)
	a.push1(0x60).push1(0).op(0xf3)
	a.label("dec")
	a.push1(18).push1(0).op(0x52).push1(0x20).push1(0).op(0xf3)
	empty, _ := abi.JSON(strings.NewReader("[]"))
	return deploy(1, evmtypes.CompiledContract{ABI: empty, Bin: c07InitCode(a.bytes())})
}

// c10DeployForger deploys a hand-assembled token that answers name/symbol/decimals/balanceOf and, on any other call,
// emits Transfer(caller, erc20 module, n) without moving anything.
func c10DeployForger(env *c10Env, deploy func(int, evmtypes.CompiledContract, ...interface{}) common.Address) common.Address {
	topic0 := crypto.Keccak256([]byte("Transfer(address,address,uint256)"))
	a := newAsm()
	sel := func(b ...byte) *asm { return a.op(0x80).op(append([]byte{0x63}, b...)...).op(0x14) } // DUP1 PUSH4 sel EQ
	a.push1(0).op(0x35).push1(0xe0).op(0x1c)                                                     // selector
	sel(0x06, 0xfd, 0xde, 0x03).pushl("str").op(0x57)
	sel(0x95, 0xd8, 0x9b, 0x41).pushl("str").op(0x57)
	sel(0x31, 0x3c, 0xe5, 0x67).pushl("dec").op(0x57)
	sel(0x70, 0xa0, 0x82, 0x31).pushl("zero").op(0x57)
	// forge: mem[0] = calldata[4:36]; LOG3(0, 32, topic0, caller, module)
	a.push1(4).op(0x35).push1(0).op(0x52)
	a.op(append([]byte{0x73}, erc20types.ModuleAddress.Bytes()...)...) // PUSH20 module
	a.op(0x33)                                                         // CALLER
	a.op(append([]byte{0x7f}, topic0...)...)                           // PUSH32 topic0
	a.push1(0x20).push1(0).op(0xa3)                                    // LOG3
	a.op(0x00)
	a.label("str")
	a.push1(0x20).push1(0).op(0x52)                   // offset
	a.push1(3).push1(0x20).op(0x52)                   // length 3
	a.op(0x62, 0x46, 0x52, 0x47).push1(0xe8).op(0x1b) // "FRG" << 232
	a.push1(0x40).op(0x52)
	a.push1(0x60).push1(0).op(0xf3)
	a.label("dec")
	a.push1(18).push1(0).op(0x52).push1(0x20).push1(0).op(0xf3)
	a.label("zero")
	a.push1(0).push1(0).op(0x52).push1(0x20).push1(0).op(0xf3)
	rt := a.bytes()
	empty, _ := abi.JSON(strings.NewReader("[]"))
	return deploy(1, evmtypes.CompiledContract{ABI: empty, Bin: c07InitCode(rt)})
}

func init() {
	Register(&Property{
		ID:   "C10",
		Gen:  c10Gen,
		Exec: c10Exec,
		NonTrivial: func(tags []string) bool {
			return (hasTag(tags, "cc-ok") || hasTag(tags, "ce-ok")) && hasTag(tags, "tr-ok")
		},
		Rule: "per case a coin-origin pair (token deployed and owned by the module) and an ERC20-origin pair (honest ERC20MinterBurnerDecimals deployed by a user) are registered on the real application; random histories of MsgConvertCoin / MsgConvertERC20 through the message router, signed ERC20 transfers to users and to the module address (hook), holder burns, owner mints, conversion toggles and bank MsgSend of the pair's denomination (Haqq's wrapper); amounts all / half / balance+1 / 0 / arbitrary; after every op escrow, coin supply, token supply, the module's token balance and all user balances are read back and compared with the Lean model, and the backing (in)equation is evaluated independently; the repository's malicious test tokens and a hand-assembled log-forging token are registered as ERC20-origin pairs and exercised monitor-only; non-trivial = a case with an accepted conversion and an accepted transfer; distinct = distinct op sequences",
	})
}
