package props

import (
	"crypto/ecdsa"
	"encoding/hex"
	"fmt"
	"math/big"
	"math/rand"
	"strings"

	sdk "github.com/cosmos/cosmos-sdk/types"
	"github.com/ethereum/go-ethereum/common"
	ethtypes "github.com/ethereum/go-ethereum/core/types"
	"github.com/ethereum/go-ethereum/crypto"

	"github.com/haqq-network/haqq/crypto/ethsecp256k1"
	testtx "github.com/haqq-network/haqq/testutil/tx"
	evmtypes "github.com/haqq-network/haqq/x/evm/types"
)

// C18 — Ethereum transactions through the Cosmos envelope. Op (shared with lean/HaqqModel/Driver/C18.lean):
//
//	tx typ chain nonce gas gasPrice tip cap to value data access v r s baseFee # key=<k> unprot=<0|1>
//
// (v r s are filled in by the executor after signing).  The executor signs, wraps (FromEthereumTx), builds and
// encodes the Cosmos tx, decodes it, unwraps (AsTransaction) and prints the decoded TxData fields and figures.
func init() {
	Register(&Property{
		ID:   "C18",
		Gen:  c18Gen,
		Exec: c18Exec,
		NonTrivial: func(tags []string) bool {
			return hasTag(tags, "typed") || hasTag(tags, "legacy")
		},
		Rule: "random signed transactions of the three types (nil/zero/maximal amounts, values ≥ 2^256, empty and large data, access lists with 0–4 tuples of 0–3 keys incl. several tuples with keys, contract creation, unprotected legacy, 8 keys) through FromEthereumTx → BuildTx → TxEncoder → TxDecoder → AsTransaction; non-trivial = the transaction was wrapped successfully; distinct = distinct op lines",
	})
}

var c18Keys []*ecdsa.PrivateKey

func c18Key(i int) *ecdsa.PrivateKey {
	for len(c18Keys) <= i {
		b := make([]byte, 32)
		b[31] = byte(len(c18Keys) + 1)
		b[0] = 0x11
		k, err := crypto.ToECDSA(b)
		if err != nil {
			panic(err)
		}
		c18Keys = append(c18Keys, k)
	}
	return c18Keys[i]
}

func c18Gen(r *rand.Rand, tier string) []Case {
	n := 400
	if tier == "thorough" {
		n = 20000
	}
	max256 := new(big.Int).Sub(new(big.Int).Lsh(big.NewInt(1), 256), big.NewInt(1))
	amt := func() *big.Int {
		switch r.Intn(8) {
		case 0:
			return big.NewInt(0)
		case 1:
			return new(big.Int).Set(max256)
		case 2:
			return new(big.Int).Lsh(big.NewInt(1), 256) // does not fit
		default:
			return randBig(r)
		}
	}
	price := func() *big.Int {
		switch r.Intn(7) {
		case 0:
			return big.NewInt(0)
		case 1:
			return big.NewInt(1_000_000_000)
		case 2:
			// machine-word boundaries: sums of two of these cross 2^64 while each still fits
			b := new(big.Int).Lsh(big.NewInt(1), uint(pick(r, []int{31, 32, 63, 64, 64, 128})))
			switch r.Intn(3) {
			case 0:
				b.Sub(b, big.NewInt(1))
			case 1:
				b.Sub(b, big.NewInt(int64(r.Intn(1000))))
			}
			return b
		default:
			return new(big.Int).Rand(r, new(big.Int).Lsh(big.NewInt(1), uint(1+r.Intn(100))))
		}
	}
	var out []Case
	// fixed cases: dynamic-fee prices whose sum crosses a machine word while each of them still fits
	for _, w := range []uint{32, 63, 64} {
		one := big.NewInt(1)
		top := new(big.Int).Lsh(one, w)
		half := new(big.Int).Rsh(top, 1)
		for _, p := range [][3]*big.Int{
			{half, new(big.Int).Sub(top, one), half},                                          // tip, cap, base: tip+base = 2^w > cap
			{new(big.Int).Sub(top, one), new(big.Int).Sub(top, one), one},                     // tip+base = 2^w, cap = 2^w−1
			{half, new(big.Int).Lsh(top, 1), new(big.Int).Add(half, big.NewInt(5))},           // cap above the word
			{new(big.Int).Sub(half, one), new(big.Int).Sub(top, one), new(big.Int).Set(half)}, // tip+base = 2^w−1 = cap
		} {
			out = append(out, Case{fmt.Sprintf("tx 2 11235 7 21000 0 %s %s 1234 5 - - ? ? ? %s # key=1 unprot=0", p[0], p[1], p[2])})
		}
	}
	for i := 0; i < n; i++ {
		typ := r.Intn(3)
		chain := pick(r, []int64{11235, 1, 54211, 0})
		if typ != 0 && chain == 0 {
			chain = 11235
		}
		nonce := pick(r, []uint64{0, 1, uint64(r.Intn(1000)), ^uint64(0)})
		gas := pick(r, []uint64{21000, 0, 1, uint64(r.Int63()), ^uint64(0)})
		gp, tip, cap := price(), price(), price()
		if typ == 2 && tip.Cmp(cap) > 0 && r.Intn(3) > 0 {
			tip, cap = cap, tip
		}
		to := "-"
		if r.Intn(4) > 0 {
			b := make([]byte, 20)
			r.Read(b)
			if r.Intn(5) == 0 {
				b[0], b[1] = 0, 0 // leading zero bytes
			}
			to = new(big.Int).SetBytes(b).String()
		}
		data := "-"
		if r.Intn(2) == 0 {
			b := make([]byte, pick(r, []int{1, 4, 36, 200, 2000}))
			r.Read(b)
			if r.Intn(4) == 0 {
				b[0] = 0
			}
			data = hex.EncodeToString(b)
		}
		access := "-"
		if typ != 0 && r.Intn(3) > 0 {
			var ts []string
			for a := 0; a < 1+r.Intn(4); a++ {
				ab := make([]byte, 20)
				r.Read(ab)
				var ks []string
				for k := 0; k < r.Intn(4); k++ {
					kb := make([]byte, 32)
					r.Read(kb)
					if r.Intn(4) == 0 {
						kb = make([]byte, 32)
						kb[31] = byte(k)
					}
					ks = append(ks, new(big.Int).SetBytes(kb).String())
				}
				ts = append(ts, new(big.Int).SetBytes(ab).String()+":"+strings.Join(ks, "."))
			}
			access = strings.Join(ts, ";")
		}
		base := pick(r, []*big.Int{big.NewInt(0), big.NewInt(1_000_000_000), price()})
		unprot := 0
		if typ == 0 && (chain == 0 || r.Intn(6) == 0) {
			unprot = 1
		}
		if typ == 1 || typ == 0 {
			tip, cap = big.NewInt(0), big.NewInt(0)
		} else {
			gp = big.NewInt(0)
		}
		// one transaction in six is looked at without a base fee (decided without drawing: the random stream stays as it was)
		baseS := base.String()
		if (uint64(nonce)+uint64(gas))%6 == 0 {
			baseS = "nil"
		}
		out = append(out, Case{fmt.Sprintf("tx %d %d %d %d %s %s %s %s %s %s %s ? ? ? %s # key=%d unprot=%d", typ, chain, nonce, gas, gp, tip, cap, to, amt(), data, access, baseS, r.Intn(8), unprot) + pick(r, []string{"", "", " from=other"})})
	}
	// fixed cases: the three types without a base fee
	out = append(out, Case{"tx 2 11235 3 21000 0 2 10 1 5 - - ? ? ? nil # key=1 unprot=0"}, Case{"tx 1 11235 3 21000 7 0 0 1 5 - - ? ? ? nil # key=1 unprot=0"},
		Case{"tx 0 11235 3 21000 7 0 0 1 5 - - ? ? ? nil # key=1 unprot=0"})
	return out
}

func c18Addr(dec string) common.Address {
	return common.BytesToAddress(mustBig(dec).Bytes())
}

func c18Opt(p interface{ String() string }, isNil bool) string {
	if isNil {
		return "nil"
	}
	return p.String()
}

func c18Exec(c Case) (outs []string, fails []Failure, tags []string) {
	nw, _ := fixture()
	txCfg := nw.App.GetTxConfig()
	for i, line := range c {
		f := strings.Fields(line)
		out := "bad-op"
		func() {
			defer func() {
				if r := recover(); r != nil {
					out = "panic:" + strings.ReplaceAll(fmt.Sprint(r), " ", "_")
				}
			}()
			if f[0] != "tx" {
				return
			}
			kv := vmKV(f)
			var typ int
			var nonce, gas uint64
			fmt.Sscan(f[1], &typ)
			chain := mustBig(f[2])
			fmt.Sscan(f[3], &nonce)
			fmt.Sscan(f[4], &gas)
			gp, tip, cap, value := mustBig(f[5]), mustBig(f[6]), mustBig(f[7]), mustBig(f[9])
			// "nil": no base fee (London not active) — go-ethereum then prices a dynamic-fee transaction at its fee cap
			var base *big.Int
			if f[15] != "nil" {
				base = mustBig(f[15])
			} else {
				tags = append(tags, "no-base-fee")
			}
			var to *common.Address
			if f[8] != "-" {
				a := c18Addr(f[8])
				to = &a
			}
			var data []byte
			if f[10] != "-" {
				data, _ = hex.DecodeString(f[10])
			}
			var al ethtypes.AccessList
			if f[11] != "-" {
				for _, t := range strings.Split(f[11], ";") {
					p := strings.SplitN(t, ":", 2)
					tu := ethtypes.AccessTuple{Address: c18Addr(p[0])}
					if p[1] != "" {
						for _, k := range strings.Split(p[1], ".") {
							tu.StorageKeys = append(tu.StorageKeys, common.BigToHash(mustBig(k)))
						}
					}
					al = append(al, tu)
				}
			}
			var inner ethtypes.TxData
			switch typ {
			case 0:
				inner = &ethtypes.LegacyTx{Nonce: nonce, GasPrice: gp, Gas: gas, To: to, Value: value, Data: data}
			case 1:
				inner = &ethtypes.AccessListTx{ChainID: chain, Nonce: nonce, GasPrice: gp, Gas: gas, To: to, Value: value, Data: data, AccessList: al}
			default:
				inner = &ethtypes.DynamicFeeTx{ChainID: chain, Nonce: nonce, GasTipCap: tip, GasFeeCap: cap, Gas: gas, To: to, Value: value, Data: data, AccessList: al}
			}
			key := c18Key(vmIdx(kv["key"]))
			var signer ethtypes.Signer = ethtypes.LatestSignerForChainID(chain)
			if typ == 0 && kv["unprot"] == "1" {
				signer = ethtypes.HomesteadSigner{}
			}
			tx, err := ethtypes.SignNewTx(key, signer, inner)
			if err != nil {
				panic(err)
			}
			v, r, s := tx.RawSignatureValues()
			f[12], f[13], f[14] = v.String(), r.String(), s.String()
			c[i] = strings.Join(f, " ")
			msg := &evmtypes.MsgEthereumTx{}
			if err := msg.FromEthereumTx(tx); err != nil {
				out = "err:overflow"
				tags = append(tags, "overflow")
				// the property's own predicate: a signed transaction whose amounts all fit the 256-bit word (what RLP and
				// the EVM can carry) is wrapped; only larger numbers have no envelope
				fits := true
				for _, x := range []*big.Int{gp, tip, cap, value, chain} {
					if typ != 2 && (x == tip || x == cap) || typ == 2 && x == gp || typ == 0 && x == chain {
						continue
					}
					fits = fits && x.BitLen() <= 256
				}
				if fits {
					fails = append(fails, Failure{Signature: "C18:signed-transaction-refused-by-the-envelope", What: fmt.Sprintf("a signed type-%d transaction whose amounts fit 256 bits (value %s, gas price %s, tip %s, fee cap %s) cannot be wrapped: %v", typ, value, gp, tip, cap, err), Case: c[i : i+1]})
				}
				return
			}
			b := txCfg.NewTxBuilder()
			var built sdk.Tx
			if kv["from"] == "other" {
				// the message's From field is wire data, not part of what was signed: a Cosmos transaction assembled by hand
				// can carry any address there
				msg.From = common.BytesToAddress(crypto.Keccak256([]byte("someone else"))[:20]).Hex()
				if err := b.SetMsgs(msg); err != nil {
					panic(err)
				}
				built = b.GetTx()
				tags = append(tags, "from-field-set")
			} else {
				built, err = msg.BuildTx(b, "aISLM")
				if err != nil {
					panic(err)
				}
			}
			bz, err := txCfg.TxEncoder()(built)
			if err != nil {
				panic(err)
			}
			dec, err := txCfg.TxDecoder()(bz)
			if err != nil {
				out = "err:decode:" + strings.ReplaceAll(err.Error(), " ", "_")
				fails = append(fails, Failure{Signature: "C18:decode-failed", What: err.Error(), Case: c[i : i+1]})
				return
			}
			msgs := dec.GetMsgs()
			m2, ok := msgs[0].(*evmtypes.MsgEthereumTx)
			if !ok || len(msgs) != 1 {
				panic("decoded tx does not hold one MsgEthereumTx")
			}
			td, err := evmtypes.UnpackTxData(m2.Data)
			if err != nil {
				panic(err)
			}
			tx2 := m2.AsTransaction()
			// ---- decoded proto fields ----
			var chainS, gpS, tipS, capS, amtS, toS string
			var vb, rb, sb []byte
			switch t := td.(type) {
			case *evmtypes.LegacyTx:
				chainS, tipS, capS = "nil", "nil", "nil"
				gpS = c18Opt(t.GasPrice, t.GasPrice == nil)
				amtS = c18Opt(t.Amount, t.Amount == nil)
				toS, vb, rb, sb = t.To, t.V, t.R, t.S
				tags = append(tags, "legacy")
			case *evmtypes.AccessListTx:
				tipS, capS = "nil", "nil"
				chainS = c18Opt(t.ChainID, t.ChainID == nil)
				gpS = c18Opt(t.GasPrice, t.GasPrice == nil)
				amtS = c18Opt(t.Amount, t.Amount == nil)
				toS, vb, rb, sb = t.To, t.V, t.R, t.S
				tags = append(tags, "typed")
			case *evmtypes.DynamicFeeTx:
				gpS = "nil"
				chainS = c18Opt(t.ChainID, t.ChainID == nil)
				tipS = c18Opt(t.GasTipCap, t.GasTipCap == nil)
				capS = c18Opt(t.GasFeeCap, t.GasFeeCap == nil)
				amtS = c18Opt(t.Amount, t.Amount == nil)
				toS, vb, rb, sb = t.To, t.V, t.R, t.S
				tags = append(tags, "typed")
			}
			if toS == "" {
				toS = "nil"
			} else {
				toS = new(big.Int).SetBytes(common.HexToAddress(toS).Bytes()).String()
			}
			hx := func(b []byte) string {
				if len(b) == 0 {
					return "-"
				}
				return hex.EncodeToString(b)
			}
			same := tx2.Hash() == tx.Hash()
			rt := "0"
			if same {
				rt = "1"
			}
			fl := func(sig, what string) { fails = append(fails, Failure{Signature: sig, What: what, Case: c[i : i+1]}) }
			// the effective figures, each computed under a guard: a figure the message cannot produce is a finding, not a crash
			figure := func(name string, g func() *big.Int) (v *big.Int) {
				defer func() {
					if r := recover(); r != nil {
						v = big.NewInt(-1)
						fl("C18:effective-price:figure-panics", fmt.Sprintf("%s of a type-%d message with base fee %s panics: %v", name, typ, f[15], r))
					}
				}()
				return g()
			}
			ep := figure("EffectiveGasPrice", func() *big.Int { return td.EffectiveGasPrice(base) })
			ef := figure("EffectiveFee", func() *big.Int { return td.EffectiveFee(base) })
			ec := figure("EffectiveCost", func() *big.Int { return td.EffectiveCost(base) })
			out = fmt.Sprintf("ok chain=%s gp=%s tip=%s cap=%s amt=%s to=%s vb=%s rb=%s sb=%s fee=%s cost=%s ep=%s ef=%s ec=%s rt=%s", chainS, gpS, tipS, capS, amtS, toS,
				hx(vb), hx(rb), hx(sb), td.Fee(), td.Cost(), ep, ef, ec, rt)
			// ---- monitors: the property's own predicate on the real code ----
			if !same {
				fl("C18:hash-changed", fmt.Sprintf("hash %s → %s", tx.Hash(), tx2.Hash()))
			}
			if m2.Hash != tx.Hash().Hex() || msg.Hash != tx.Hash().Hex() {
				fl("C18:recorded-hash", fmt.Sprintf("message records %s / %s, tx hash %s", msg.Hash, m2.Hash, tx.Hash().Hex()))
			}
			s1, e1 := ethtypes.Sender(signer, tx)
			s2, e2 := ethtypes.Sender(signer, tx2)
			if e1 != nil || e2 != nil || s1 != s2 || s1 != crypto.PubkeyToAddress(key.PublicKey) {
				fl("C18:sender-changed", fmt.Sprintf("sender %s (%v) → %s (%v)", s1, e1, s2, e2))
			}
			if e1 == nil {
				if gs, e := m2.GetSender(chain); e != nil || gs != s1 {
					fl("C18:message-sender", fmt.Sprintf("the decoded message reports the sender %s (%v), the signature recovers %s", gs, e, s1))
				}
				// one message value reused for a second transaction keeps nothing of the first
				re := &evmtypes.MsgEthereumTx{}
				other, e0 := ethtypes.SignNewTx(c18Key((vmIdx(kv["key"])+1)%8), signer, inner)
				if e0 == nil && re.FromEthereumTx(other) == nil {
					_, _ = re.GetSender(chain)
					if raw, e := tx.MarshalBinary(); e == nil && re.UnmarshalBinary(raw) == nil {
						if gs, e := re.GetSender(chain); e != nil || gs != s1 {
							fl("C18:message-sender:reused-message", fmt.Sprintf("a message first holding another transaction reports the sender %s (%v) after UnmarshalBinary, the signature recovers %s", gs, e, s1))
						}
					}
				}
			}
			if e1 == nil && !(typ == 0 && kv["unprot"] == "1") {
				// a message that already carries a signature (of every other key in turn: both recovery ids occur) is signed
				// again, by this key, with the message's own Sign — what comes out must be the transaction this key signs
				// (ECDSA signing is deterministic): same hash, same signature values, same sender
				for d := 1; d < 8; d++ {
					prev, e0 := ethtypes.SignNewTx(c18Key((vmIdx(kv["key"])+d)%8), signer, inner)
					re := &evmtypes.MsgEthereumTx{}
					if e0 != nil || re.FromEthereumTx(prev) != nil {
						continue
					}
					re.From = s1.Hex()
					if e := re.Sign(signer, testtx.NewSigner(&ethsecp256k1.PrivKey{Key: crypto.FromECDSA(key)})); e != nil {
						fl("C18:re-signed-message", "signing a message that already carries a signature fails: "+e.Error())
						break
					}
					tags = append(tags, "re-signed")
					rtx := re.AsTransaction()
					rs, e := ethtypes.Sender(signer, rtx)
					if rtx.Hash() != tx.Hash() || re.Hash != tx.Hash().Hex() || e != nil || rs != s1 {
						pv, _, _ := prev.RawSignatureValues()
						nv, _, _ := rtx.RawSignatureValues()
						fl("C18:re-signed-message", fmt.Sprintf("a message holding the transaction signed by another key (V=%s) and then signed by this key unwraps to hash %s, V=%s, sender %s (%v); the transaction this key signs has hash %s, V=%s, sender %s", pv, rtx.Hash(), nv, rs, e, tx.Hash(), v, s1))
						break
					}
				}
			}
			// "the hash recorded in the message always equals the Ethereum hash": a hand-built envelope that spells the right
			// hash differently (upper case, 0X, extra leading bytes) must not pass the message's own validation
			for _, sp := range []struct{ how, h string }{
				{"upper-case", "0x" + strings.ToUpper(tx.Hash().Hex()[2:])}, {"0X-prefix", "0X" + tx.Hash().Hex()[2:]},
				{"leading-bytes", "0xdeadbeef" + tx.Hash().Hex()[2:]}, {"no-prefix", tx.Hash().Hex()[2:]}} {
				m3 := &evmtypes.MsgEthereumTx{}
				if m3.FromEthereumTx(tx) != nil {
					break
				}
				m3.Hash = sp.h
				if e := m3.ValidateBasic(); e == nil && m3.Hash != tx.Hash().Hex() {
					fl("C18:recorded-hash:other-spelling-accepted", fmt.Sprintf("a message recording the hash as %q (%s) passes ValidateBasic; the Ethereum hash is %s", sp.h, sp.how, tx.Hash().Hex()))
					break
				}
			}
			tags = append(tags, "recorded-hash-spellings")
			bin1, _ := tx.MarshalBinary()
			bin2, _ := tx2.MarshalBinary()
			if string(bin1) != string(bin2) {
				fl("C18:fields-changed", "canonical encodings of the original and the unwrapped transaction differ")
			}
			if td.Cost().Cmp(tx.Cost()) != 0 {
				fl("C18:cost", fmt.Sprintf("message cost %s, go-ethereum cost %s", td.Cost(), tx.Cost()))
			}
			wantFee := new(big.Int).Mul(tx.GasPrice(), new(big.Int).SetUint64(tx.Gas()))
			if td.Fee().Cmp(wantFee) != 0 {
				fl("C18:fee", fmt.Sprintf("message fee %s, gasPrice×gas %s", td.Fee(), wantFee))
			}
			wantEp := new(big.Int).Set(tx.GasPrice())
			if typ == 2 && base != nil {
				wantEp = new(big.Int).Add(tx.GasTipCap(), base)
				if wantEp.Cmp(tx.GasFeeCap()) > 0 {
					wantEp = new(big.Int).Set(tx.GasFeeCap())
				}
			}
			// go-ethereum's own figure (the message go-ethereum derives from the transaction), where it can be computed
			if m, e := tx.AsMessage(signer, base); e == nil && m.GasPrice().Cmp(wantEp) != 0 {
				fl("C18:harness:reference-figure", fmt.Sprintf("go-ethereum prices the transaction at %s, the harness expected %s", m.GasPrice(), wantEp))
			}
			if ep.Sign() >= 0 && ep.Cmp(wantEp) != 0 {
				fl("C18:effective-price", fmt.Sprintf("message effective price %s, go-ethereum's %s (base fee %s)", ep, wantEp, f[15]))
			}
			_ = sdk.AccAddress{}
		}()
		outs = append(outs, out)
	}
	return
}
