package props

import (
	"fmt"
	"math/big"
	"math/rand"
	"strings"

	sdkmath "cosmossdk.io/math"
	abci "github.com/cometbft/cometbft/abci/types"
	tmproto "github.com/cometbft/cometbft/proto/tendermint/types"
	sdk "github.com/cosmos/cosmos-sdk/types"
	evmante "github.com/haqq-network/haqq/app/ante/evm"

	feemarkettypes "github.com/haqq-network/haqq/x/feemarket/types"
)

// C17 — base fee. Ops (shared with lean/HaqqModel/Driver/C17.lean):
//
//	bf noBaseFee enableHeight baseFee elasticity denominator minGasPriceRaw multRaw height maxGas g
//	eb gasWanted gasUsed multRaw
//	pv <the seven params>
func init() {
	Register(&Property{
		ID:   "C17",
		Gen:  c17Gen,
		Exec: c17Exec,
		NonTrivial: func(tags []string) bool {
			return hasTag(tags, "up") && hasTag(tags, "down")
		},
		Rule: "CalculateBaseFee on the real keeper for generated (params, height, consensus MaxGas incl. -1/0/1/2^63-1, stored gas figure) with g swept across T-2..T+2 and random, parent base fee from {0,1,7,1e9,2^200,…}; EndBlock gas figure for (gasWanted, gasUsed, multiplier) incl. 2^63 boundaries; Params.Validate on zero/non-zero elasticity and denominator. non-trivial = the case hit both the raise and the lower branch; distinct = distinct op sequences",
	})
}

var e18 = new(big.Int).Exp(big.NewInt(10), big.NewInt(18), nil)

func c17Gen(r *rand.Rand, tier string) []Case {
	n := 300
	if tier == "thorough" {
		n = 20000
	}
	var out []Case
	// fixed case: blocks whose transactions declare more than the block gas limit in total (each one below it), at the
	// limit exactly, with one transaction above it, and on an unlimited block
	// fixed case (recorded finding): a fractional minimum gas price and a decrease that ends between ⌊minimum⌋ and the minimum
	out = append(out, Case{"bf 0 0 11 2 8 10900000000000000000 500000000000000000 5 100 0", "bf 0 0 11 2 8 10000000000000000000 500000000000000000 5 100 0"})
	out = append(out, Case{"gw 10000000 " + strings.TrimSuffix(strings.Repeat("1000000,", 30), ","), "gw 10000000 10000000", "gw 10000000 9999999,2,10000001,5",
		"gw -1 1000000,9223372036854775808,7", "gw 30000 21000,21000"})
	for i := 0; i < n; i++ {
		if i%10 == 0 {
			lim := pick(r, []int64{-1, 1_000_000, 10_000_000, 30_000_000, int64(21000 + r.Intn(10_000_000))})
			var gs []string
			for j := 0; j < 1+r.Intn(40); j++ {
				gs = append(gs, fmt.Sprint(pick(r, []int{21000, 100_000, 1_000_000, 1 + r.Intn(12_000_000)})))
			}
			out = append(out, Case{fmt.Sprintf("gw %d %s", lim, strings.Join(gs, ","))})
		}
		var c Case
		parent := pick(r, []*big.Int{big.NewInt(0), big.NewInt(1), big.NewInt(7), big.NewInt(1_000_000_000), new(big.Int).Lsh(big.NewInt(1), 200), randBig(r), big.NewInt(int64(r.Intn(100000)))})
		el := pick(r, []int64{1, 2, 2, 3, 7, 1 << 31, int64(1 + r.Intn(10))})
		dn := pick(r, []int64{1, 8, 8, 50, 1 << 31, int64(1 + r.Intn(20))})
		var maxGas int64
		switch r.Intn(8) {
		case 0:
			maxGas = -1
		case 1:
			maxGas = 1<<63 - 1
		case 2:
			maxGas = int64(r.Intn(5))
		default:
			maxGas = int64(10 + r.Intn(100_000_000))
		}
		var minGP *big.Int
		switch r.Intn(4) {
		case 0:
			minGP = big.NewInt(0)
		case 1: // above the parent
			minGP = new(big.Int).Mul(new(big.Int).Add(parent, big.NewInt(int64(1+r.Intn(1000)))), e18)
		case 2: // below or equal
			minGP = new(big.Int).Mul(new(big.Int).Rand(r, new(big.Int).Add(parent, big.NewInt(1))), e18)
			minGP.Add(minGP, new(big.Int).Rand(r, e18))
			if new(big.Int).Quo(minGP, e18).Cmp(parent) > 0 {
				minGP = new(big.Int).Mul(parent, e18)
			}
		default:
			minGP = new(big.Int).Rand(r, new(big.Int).Mul(big.NewInt(2_000_000_000), e18))
		}
		mult := pick(r, []*big.Int{new(big.Int).Quo(e18, big.NewInt(2)), e18, big.NewInt(0), new(big.Int).Rand(r, e18)})
		nb, eh, height := 0, int64(0), int64(1+r.Intn(1000))
		switch r.Intn(12) {
		case 0:
			nb = 1
		case 1:
			eh = height
		case 2:
			eh = height + 5
		}
		if r.Intn(25) == 0 {
			el = 0
		}
		if r.Intn(40) == 0 {
			dn = 0
		}
		params := fmt.Sprintf("%d %d %s %d %d %s %s", nb, eh, parent, el, dn, minGP, mult)
		// target for the sweep
		var T uint64
		if el > 0 {
			lim := new(big.Int).SetUint64(^uint64(0))
			if maxGas > -1 {
				lim = big.NewInt(maxGas)
			}
			T = new(big.Int).Quo(lim, big.NewInt(el)).Uint64()
		}
		gs := map[uint64]bool{}
		for _, d := range []int64{-2, -1, 0, 1, 2} {
			g := int64(T) + d
			if T > 1<<62 {
				g = int64(T/2) + d
			}
			if g >= 0 {
				gs[uint64(g)] = true
			}
		}
		gs[0] = true
		gs[T/2] = true
		if T < 1<<62 {
			gs[T*2] = true
			gs[T+uint64(r.Intn(1000))] = true
		}
		gs[uint64(r.Int63())] = true
		var sorted []uint64
		for g := range gs {
			sorted = append(sorted, g)
		}
		for a := 0; a < len(sorted); a++ {
			for b := a + 1; b < len(sorted); b++ {
				if sorted[b] < sorted[a] {
					sorted[a], sorted[b] = sorted[b], sorted[a]
				}
			}
		}
		c = append(c, "pv "+params)
		for _, g := range sorted {
			c = append(c, fmt.Sprintf("bf %s %d %d %d", params, height, maxGas, g))
		}
		for k := 0; k < 3; k++ {
			w := pick(r, []uint64{0, 1, 21000, uint64(r.Int63()), 1<<63 - 1, 1 << 63, uint64(r.Intn(10_000_000))})
			u := pick(r, []uint64{0, 1, 21000, uint64(r.Intn(10_000_000)), 1<<63 - 1, 1 << 63})
			c = append(c, fmt.Sprintf("eb %d %d %s", w, u, mult))
		}
		out = append(out, c)
	}
	return out
}

func c17Params(f []string) feemarkettypes.Params {
	var eh, el, dn int64
	fmt.Sscan(f[1], &eh)
	fmt.Sscan(f[3], &el)
	fmt.Sscan(f[4], &dn)
	return feemarkettypes.Params{
		NoBaseFee:                f[0] == "1",
		EnableHeight:             eh,
		BaseFee:                  sdkmath.NewIntFromBigInt(mustBig(f[2])),
		ElasticityMultiplier:     uint32(el),
		BaseFeeChangeDenominator: uint32(dn),
		MinGasPrice:              sdk.NewDecFromBigIntWithPrec(mustBig(f[5]), 18),
		MinGasMultiplier:         sdk.NewDecFromBigIntWithPrec(mustBig(f[6]), 18),
	}
}

func c17Exec(c Case) (outs []string, fails []Failure, tags []string) {
	nw, _ := fixture()
	k := nw.App.FeeMarketKeeper
	base := nw.GetContext()
	type prev struct {
		params string
		g      uint64
		fee    *big.Int
	}
	var last *prev
	for i, line := range c {
		f := strings.Fields(line)
		out := "bad-op"
		func() {
			defer func() {
				if r := recover(); r != nil {
					out = "panic"
				}
			}()
			ctx, _ := base.CacheContext()
			switch f[0] {
			case "bf":
				p := c17Params(f[1:8])
				var height, maxGas int64
				var g uint64
				fmt.Sscan(f[8], &height)
				fmt.Sscan(f[9], &maxGas)
				fmt.Sscan(f[10], &g)
				if err := k.SetParams(ctx, p); err != nil {
					panic(err)
				}
				ctx = ctx.WithBlockHeight(height).WithConsensusParams(&tmproto.ConsensusParams{Block: &tmproto.BlockParams{MaxGas: maxGas, MaxBytes: 10}})
				k.SetBlockGasWanted(ctx, g)
				fee := k.CalculateBaseFee(ctx)
				if fee == nil {
					out = "nil"
					last = nil
					if !p.NoBaseFee && height > p.EnableHeight {
						fails = append(fails, Failure{Signature: "C17:no-base-fee-while-enabled", What: fmt.Sprintf("the base fee mechanism is enabled (height %d > enable height %d) and the parent base fee is %s, yet no base fee is computed: the stored base fee stops following the EIP-1559 update", height, p.EnableHeight, p.BaseFee), Case: c[i : i+1]})
					}
					return
				}
				out = "fee " + fee.String()
				// ---- monitors (independent big.Int arithmetic) ----
				if p.NoBaseFee || height <= p.EnableHeight || p.ElasticityMultiplier == 0 || p.BaseFeeChangeDenominator == 0 {
					last = nil
					return
				}
				lim := new(big.Int).SetUint64(^uint64(0))
				if maxGas > -1 {
					lim = big.NewInt(maxGas)
				}
				T := new(big.Int).Quo(lim, big.NewInt(int64(p.ElasticityMultiplier)))
				if T.Sign() == 0 {
					last = nil
					return
				}
				parent := p.BaseFee.BigInt()
				minFloor := new(big.Int).Quo(mustBig(f[6]), e18)
				G := new(big.Int).SetUint64(g)
				den := big.NewInt(int64(p.BaseFeeChangeDenominator))
				var want *big.Int
				switch G.Cmp(T) {
				case 0:
					want = parent
				case 1:
					tags = append(tags, "up")
					d := new(big.Int).Sub(G, T)
					d.Mul(d, parent).Quo(d, T).Quo(d, den)
					if d.Cmp(big.NewInt(1)) < 0 {
						d = big.NewInt(1)
					}
					want = d.Add(d, parent)
				default:
					tags = append(tags, "down")
					d := new(big.Int).Sub(T, G)
					d.Mul(d, parent).Quo(d, T).Quo(d, den)
					want = new(big.Int).Sub(parent, d)
					if want.Cmp(minFloor) < 0 {
						want = minFloor
					}
					// the property's wording, strictly: never below the configured minimum (a decimal) — the code floors at
					// ⌊minimum⌋, so with a fractional minimum a decrease can end up to one unit below it
					if mg := mustBig(f[6]); new(big.Int).Mul(fee, e18).Cmp(mg) < 0 && new(big.Int).Mul(parent, e18).Cmp(mg) >= 0 {
						fails = append(fails, Failure{Signature: "C17:below-min-gas-price:fraction-truncated", What: fmt.Sprintf("g<T: the base fee was lowered from %s to %s, below the configured minimum gas price %s/1e18", parent, fee, mg), Case: c[i : i+1]})
					}
					if fee.Cmp(minFloor) < 0 {
						fails = append(fails, Failure{Signature: "C17:below-min-gas-price", What: fmt.Sprintf("g<T: base fee %s below ⌊minGasPrice⌋ %s", fee, minFloor), Case: c[i : i+1]})
					}
				}
				if fee.Cmp(want) != 0 {
					fails = append(fails, Failure{Signature: "C17:formula", What: fmt.Sprintf("base fee %s, EIP-1559 formula gives %s (T=%s g=%d parent=%s)", fee, want, T, g, parent), Case: c[i : i+1]})
				}
				ps := strings.Join(f[1:10], " ")
				if last != nil && last.params == ps && last.g <= g && last.fee.Cmp(fee) > 0 {
					sig := "C17:non-monotone"
					if minFloor.Cmp(parent) > 0 {
						sig = "C17:non-monotone:minGasPrice>parentBaseFee"
					}
					fails = append(fails, Failure{Signature: sig, What: fmt.Sprintf("base fee not monotone in g: g=%d → %s but g=%d → %s (parent %s, ⌊minGasPrice⌋ %s, T %s)", last.g, last.fee, g, fee, parent, minFloor, T), Case: Case{c[i-1], c[i]}})
				}
				last = &prev{params: ps, g: g, fee: fee}
			case "eb":
				var w, u uint64
				fmt.Sscan(f[1], &w)
				fmt.Sscan(f[2], &u)
				p := k.GetParams(ctx)
				p.MinGasMultiplier = sdk.NewDecFromBigIntWithPrec(mustBig(f[3]), 18)
				_ = k.SetParams(ctx, p)
				const sentinel = 0xDEADBEEF12345
				k.SetBlockGasWanted(ctx, sentinel)
				k.SetTransientBlockGasWanted(ctx, w)
				gm := sdk.NewInfiniteGasMeter()
				gm.ConsumeGas(u, "test")
				ctx = ctx.WithBlockGasMeter(gm)
				k.EndBlock(ctx, abci.RequestEndBlock{})
				got := k.GetBlockGasWanted(ctx)
				if got == sentinel {
					out = "none"
				} else {
					out = fmt.Sprint(got)
					if got < u {
						fails = append(fails, Failure{Signature: "C17:gas-figure-below-used", What: fmt.Sprintf("stored gas figure %d < gas used %d", got, u), Case: c[i : i+1]})
					}
					wm := new(big.Int).Mul(new(big.Int).SetUint64(w), mustBig(f[3]))
					wm.Quo(wm, e18)
					if new(big.Int).SetUint64(got).Cmp(wm) < 0 {
						fails = append(fails, Failure{Signature: "C17:gas-figure-below-wanted", What: fmt.Sprintf("stored gas figure %d < ⌊gasWanted·multiplier⌋ %s", got, wm), Case: c[i : i+1]})
					}
					// … and it is exactly the larger of the two: gas that was neither used nor charged for (the multiplier is what
					// senders are charged at least) does not count towards the next base fee
					want := new(big.Int).SetUint64(u)
					if wm.Cmp(want) > 0 {
						want = wm
					}
					if wm.IsUint64() && new(big.Int).SetUint64(got).Cmp(want) != 0 {
						fails = append(fails, Failure{Signature: "C17:gas-figure", What: fmt.Sprintf("stored gas figure %d, max(gas used %d, ⌊gasWanted %d · multiplier %s/1e18⌋) = %s", got, u, w, f[3], want), Case: c[i : i+1]})
					}
				}
			case "gw":
				// the ante decorator that records what a block's transactions declare (GasWantedDecorator), with a finite or
				// unlimited block gas limit: gw <maxGas> <gas of tx 1,gas of tx 2,…>; output: what the fee market has recorded
				var maxGas int64
				fmt.Sscan(f[1], &maxGas)
				p := k.GetParams(ctx)
				p.NoBaseFee, p.EnableHeight = false, 0
				_ = k.SetParams(ctx, p)
				ctx = ctx.WithBlockHeight(10).WithConsensusParams(&tmproto.ConsensusParams{Block: &tmproto.BlockParams{MaxGas: maxGas, MaxBytes: 10}})
				// (as baseapp does: the block gas meter carries the consensus limit, an infinite one when there is none)
				if maxGas > 0 {
					ctx = ctx.WithBlockGasMeter(sdk.NewGasMeter(uint64(maxGas)))
				} else {
					ctx = ctx.WithBlockGasMeter(sdk.NewInfiniteGasMeter())
				}
				k.SetTransientBlockGasWanted(ctx, 0)
				dec := evmante.NewGasWantedDecorator(nw.App.EvmKeeper, k)
				sum, rejected := new(big.Int), 0
				for _, gs := range strings.Split(f[2], ",") {
					var g uint64
					fmt.Sscan(gs, &g)
					if _, err := dec.AnteHandle(ctx, c07FeeTx{gas: g}, false, func(c sdk.Context, _ sdk.Tx, _ bool) (sdk.Context, error) { return c, nil }); err != nil {
						rejected++
						continue
					}
					sum.Add(sum, new(big.Int).SetUint64(g))
				}
				got := k.GetTransientGasWanted(ctx)
				out = fmt.Sprintf("%d rejected=%d", got, rejected)
				tags = append(tags, "declared-gas-recorded")
				if sum.IsUint64() && got != sum.Uint64() {
					fails = append(fails, Failure{Signature: "C17:declared-gas-not-recorded", What: fmt.Sprintf("the accepted transactions of the block declare %s gas in total, the fee market has recorded %d (block gas limit %d): the next base fee is computed from another figure than max(gasWanted × multiplier, gasUsed)", sum, got, maxGas), Case: c[i : i+1]})
				}
			case "pv":
				p := c17Params(f[1:8])
				err := p.Validate()
				out = "ok"
				if err != nil {
					out = "err"
				}
				if err == nil && p.ElasticityMultiplier == 0 {
					fails = append(fails, Failure{Signature: "C17:validate-accepts-zero-elasticity", What: "Params.Validate() accepts ElasticityMultiplier = 0 (CalculateBaseFee divides by it)", Case: c[i : i+1]})
				}
			}
		}()
		outs = append(outs, out)
	}
	return
}
