package props

import (
	"fmt"
	"math/big"
	"math/rand"
	"strings"

	sdkmath "cosmossdk.io/math"
	sdk "github.com/cosmos/cosmos-sdk/types"
	"github.com/ethereum/go-ethereum/common"
	ethtypes "github.com/ethereum/go-ethereum/core/types"

	coinomicstypes "github.com/haqq-network/haqq/x/coinomics/types"
	"github.com/haqq-network/haqq/x/evm/statedb"
)

// C05 / C02 — the StateDB: journal, snapshots, revert, commit against the real EVM keeper.
// Ops (shared with lean/HaqqModel/Driver/C05.lean):
//   sreset b0 b1 b2 | addbal a x | subbal a x | setnonce a v | setstate a k v | addrefund g | subrefund g | addlog |
//   suicide a | accaddr a | accslot a k | snap | revert id | commit | bank a +|- x | dump
// addresses 0..5 (0..2 exist and are funded), storage keys 0..2
const c05N, c05K = 6, 3

func c05Addr(i int) common.Address { return common.BytesToAddress(testAddr(500 + i)) }

func c05Gen(r *rand.Rand, tier string, withBank bool) []Case {
	n, maxOps := 150, 40
	if tier == "thorough" {
		n, maxOps = 5000, 120
	}
	var out []Case
	for i := 0; i < n; i++ {
		bal := []int64{int64(100 + r.Intn(1000)), int64(r.Intn(500)), int64(r.Intn(3))}
		c := Case{fmt.Sprintf("sreset %d %d %d", bal[0], bal[1], bal[2])}
		cache := map[int]int64{0: bal[0], 1: bal[1], 2: bal[2]}
		var snaps []int
		nextID := 0
		refund := int64(0)
		warm := r.Intn(2) == 0
		if warm {
			for a := 0; a < c05N; a++ {
				if r.Intn(2) == 0 {
					c = append(c, fmt.Sprintf("accaddr %d", a))
				}
			}
		}
		for j := 0; j < 5+r.Intn(maxOps); j++ {
			a, b := r.Intn(c05N), r.Intn(c05N)
			switch x := r.Intn(24); {
			case x < 5: // value transfer a → b
				amt := int64(0)
				if cache[a] > 0 {
					amt = 1 + r.Int63n(cache[a])
				}
				if r.Intn(8) == 0 {
					amt = 0
				}
				c = append(c, fmt.Sprintf("subbal %d %d", a, amt), fmt.Sprintf("addbal %d %d", b, amt))
				cache[a] -= amt
				cache[b] += amt
			case x < 8:
				c = append(c, fmt.Sprintf("setstate %d %d %d", a, r.Intn(c05K), r.Intn(4)))
			case x < 9:
				c = append(c, fmt.Sprintf("setnonce %d %d", a, r.Intn(5)))
			case x < 10:
				g := int64(r.Intn(100))
				c = append(c, fmt.Sprintf("addrefund %d", g))
				refund += g
			case x < 11:
				g := int64(0)
				if refund > 0 {
					g = r.Int63n(refund + 1)
				}
				c = append(c, fmt.Sprintf("subrefund %d", g))
				refund -= g
			case x < 12:
				c = append(c, "addlog")
			case x < 14:
				if r.Intn(2) == 0 {
					c = append(c, fmt.Sprintf("accaddr %d", a))
				} else {
					c = append(c, fmt.Sprintf("accslot %d %d", a, r.Intn(c05K)))
				}
			case x < 18:
				c = append(c, "snap")
				snaps = append(snaps, nextID)
				nextID++
			case x < 21:
				if len(snaps) > 0 {
					k := r.Intn(len(snaps))
					c = append(c, fmt.Sprintf("revert %d", snaps[k]), "dump")
					snaps = snaps[:k]
					// the generator's rough ledger is only a steering aid; resync lazily
					for a := range cache {
						cache[a] = cache[a]
					}
				}
			case x < 22:
				if r.Intn(3) == 0 {
					c = append(c, fmt.Sprintf("suicide %d", a))
					cache[a] = 0
				}
			case x < 23:
				c = append(c, "commit", "dump")
			default:
				if withBank {
					amt := int64(1 + r.Intn(50))
					sign := pick(r, []string{"+", "-"})
					c = append(c, "commit", fmt.Sprintf("bank %d %s %d", a%3, sign, amt))
					if r.Intn(2) == 0 { // mirrored into the StateDB, as the precompiles do for the caller
						if sign == "+" {
							c = append(c, fmt.Sprintf("addbal %d %d", a%3, amt))
						} else {
							c = append(c, fmt.Sprintf("subbal %d %d", a%3, amt))
						}
					}
				}
			}
			if r.Intn(6) == 0 {
				c = append(c, "dump")
			}
		}
		c = append(c, "dump", "commit", "dump")
		out = append(out, c)
	}
	return out
}

func init() {
	Register(&Property{
		ID:   "C05",
		Gen:  func(r *rand.Rand, tier string) []Case { return c05Gen(r, tier, false) },
		Exec: c05Exec,
		NonTrivial: func(tags []string) bool {
			return hasTag(tags, "revert-ok")
		},
		Rule: "random journals on the real StateDB over the application's EVM keeper: value transfers (incl. zero and to non-existent accounts), storage writes, nonce, refund counter, logs, access-list addresses and slots (cold and pre-warmed), selfdestruct, nested snapshots, reverts to any still-valid snapshot (not only the latest), commits in the middle; after every revert the whole observable state (cache and keeper side) is dumped and compared; non-trivial = at least one successful revert; distinct = distinct op sequences",
	})
}

type c05Env struct {
	ctx     sdk.Context
	db      *statedb.StateDB
	supply0 *big.Int
	// EVM-visible state remembered at each snapshot, for the revert monitor (independent of the model)
	snaps map[int]string
}

func c05Exec(c Case) (outs []string, fails []Failure, tags []string) {
	nw, _ := fixture()
	app := nw.App
	env := &c05Env{snaps: map[int]string{}}
	denom := nw.GetDenom()
	pool := testAddr(599)
	view := func() string {
		var parts []string
		for a := 0; a < c05N; a++ {
			ad := c05Addr(a)
			if !env.db.Exist(ad) {
				parts = append(parts, fmt.Sprintf("%d:none", a))
				continue
			}
			var st []string
			for k := 0; k < c05K; k++ {
				st = append(st, env.db.GetState(ad, common.BigToHash(big.NewInt(int64(k)))).Big().String())
			}
			s := "0"
			if env.db.HasSuicided(ad) {
				s = "1"
			}
			parts = append(parts, fmt.Sprintf("%d:b=%s,n=%d,s=%s,st=%s", a, env.db.GetBalance(ad), env.db.GetNonce(ad), s, strings.Join(st, ",")))
		}
		var acc []string
		for a := 0; a < c05N; a++ {
			ad := c05Addr(a)
			s := "0"
			if env.db.AddressInAccessList(ad) {
				s = "1"
			}
			s += "/"
			for k := 0; k < c05K; k++ {
				_, ok := env.db.SlotInAccessList(ad, common.BigToHash(big.NewInt(int64(k))))
				if ok {
					s += "1"
				} else {
					s += "0"
				}
			}
			acc = append(acc, s)
		}
		return fmt.Sprintf("cache[%s] R refund=%d logs=%d acc[%s]", strings.Join(parts, " "), env.db.GetRefund(), len(env.db.Logs()), strings.Join(acc, " "))
	}
	for i, line := range c {
		f := strings.Fields(line)
		out := "bad-op"
		func() {
			defer func() {
				if r := recover(); r != nil {
					out = "panic"
				}
			}()
			arg := func(k int) *big.Int { return mustBig(f[k]) }
			ad := func(k int) common.Address { return c05Addr(int(arg(k).Int64())) }
			key := func(k int) common.Hash { return common.BigToHash(arg(k)) }
			switch f[0] {
			case "sreset":
				base := nw.GetContext()
				env.ctx, _ = base.CacheContext()
				for a := 0; a < 3; a++ {
					acc := app.AccountKeeper.NewAccountWithAddress(env.ctx, c05Addr(a).Bytes())
					app.AccountKeeper.SetAccount(env.ctx, acc)
					if v := arg(1 + a); v.Sign() > 0 {
						coins := sdk.NewCoins(sdk.NewCoin(denom, sdkmath.NewIntFromBigInt(v)))
						_ = app.BankKeeper.MintCoins(env.ctx, coinomicstypes.ModuleName, coins)
						_ = app.BankKeeper.SendCoinsFromModuleToAccount(env.ctx, coinomicstypes.ModuleName, c05Addr(a).Bytes(), coins)
					}
				}
				coins := sdk.NewCoins(sdk.NewCoin(denom, sdkmath.NewInt(1_000_000)))
				_ = app.BankKeeper.MintCoins(env.ctx, coinomicstypes.ModuleName, coins)
				_ = app.BankKeeper.SendCoinsFromModuleToAccount(env.ctx, coinomicstypes.ModuleName, pool, coins)
				env.db = statedb.New(env.ctx, app.EvmKeeper, statedb.NewEmptyTxConfig(common.Hash{}))
				env.supply0 = app.BankKeeper.GetSupply(env.ctx, denom).Amount.BigInt()
				env.snaps = map[int]string{}
				out = "ok"
			case "addbal":
				env.db.AddBalance(ad(1), arg(2))
				out = "ok"
			case "subbal":
				env.db.SubBalance(ad(1), arg(2))
				out = "ok"
			case "setnonce":
				env.db.SetNonce(ad(1), arg(2).Uint64())
				out = "ok"
			case "setstate":
				env.db.SetState(ad(1), key(2), key(3))
				out = "ok"
			case "addrefund":
				env.db.AddRefund(arg(1).Uint64())
				out = "ok"
			case "subrefund":
				env.db.SubRefund(arg(1).Uint64())
				out = "ok"
			case "addlog":
				env.db.AddLog(&ethtypes.Log{Address: c05Addr(0)})
				out = "ok"
			case "suicide":
				env.db.Suicide(ad(1))
				out = "ok"
			case "accaddr":
				env.db.AddAddressToAccessList(ad(1))
				out = "ok"
			case "accslot":
				env.db.AddSlotToAccessList(ad(1), key(2))
				out = "ok"
			case "snap":
				id := env.db.Snapshot()
				env.snaps[id] = view()
				out = fmt.Sprintf("id=%d", id)
			case "revert":
				id := int(arg(1).Int64())
				want, known := env.snaps[id]
				env.db.RevertToSnapshot(id)
				out = "ok"
				tags = append(tags, "revert-ok")
				// the property's own predicate: everything the EVM can observe equals what it was at the snapshot
				if got := view(); known && got != want {
					fails = append(fails, Failure{Signature: "C05:revert-leaves-trace", What: fmt.Sprintf("after RevertToSnapshot(%d) the EVM-visible state is\n  %s\nat the snapshot it was\n  %s", id, got, want), Case: c[:i+1]})
				}
				for k := range env.snaps {
					if k >= id {
						delete(env.snaps, k)
					}
				}
			case "commit":
				if err := env.db.Commit(); err != nil {
					out = "err:" + strings.ReplaceAll(err.Error(), " ", "_")
				} else {
					out = "ok"
				}
			case "bank":
				a := sdk.AccAddress(ad(1).Bytes())
				coins := sdk.NewCoins(sdk.NewCoin(denom, sdkmath.NewIntFromBigInt(arg(3))))
				var err error
				if f[2] == "+" {
					err = app.BankKeeper.SendCoins(env.ctx, pool, a, coins)
				} else {
					err = app.BankKeeper.SendCoins(env.ctx, a, pool, coins)
				}
				if err != nil {
					panic(err)
				}
				out = "ok"
			case "dump":
				v := view()
				var keep []string
				for a := 0; a < c05N; a++ {
					cos := sdk.AccAddress(c05Addr(a).Bytes())
					acc := app.AccountKeeper.GetAccount(env.ctx, cos)
					e, n := "0", uint64(0)
					if acc != nil {
						e, n = "1", acc.GetSequence()
					}
					var st []string
					for k := 0; k < c05K; k++ {
						st = append(st, app.EvmKeeper.GetState(env.ctx, c05Addr(a), common.BigToHash(big.NewInt(int64(k)))).Big().String())
					}
					keep = append(keep, fmt.Sprintf("%d:e=%s,b=%s,n=%d,st=%s", a, e, app.BankKeeper.GetBalance(env.ctx, cos, denom).Amount, n, strings.Join(st, ",")))
				}
				sup := new(big.Int).Sub(app.BankKeeper.GetSupply(env.ctx, denom).Amount.BigInt(), env.supply0)
				out = strings.Replace(v, " R ", fmt.Sprintf(" keeper[%s] ", strings.Join(keep, " ")), 1) + fmt.Sprintf(" supply=%s", sup)
			}
		}()
		outs = append(outs, out)
	}
	return
}
