package props

import (
	"fmt"
	"math/big"
	"math/rand"
	"os"
	"sort"
	"strings"

	sdkmath "cosmossdk.io/math"
	sdk "github.com/cosmos/cosmos-sdk/types"
	authtypes "github.com/cosmos/cosmos-sdk/x/auth/types"
	authzkeeper "github.com/cosmos/cosmos-sdk/x/authz/keeper"
	banktypes "github.com/cosmos/cosmos-sdk/x/bank/types"
	distrkeeper "github.com/cosmos/cosmos-sdk/x/distribution/keeper"
	distrtypes "github.com/cosmos/cosmos-sdk/x/distribution/types"
	stakingtypes "github.com/cosmos/cosmos-sdk/x/staking/types"
	"github.com/ethereum/go-ethereum/common"
	ethtypes "github.com/ethereum/go-ethereum/core/types"
	"github.com/ethereum/go-ethereum/crypto"

	distrpc "github.com/haqq-network/haqq/precompiles/distribution"
	stakingpc "github.com/haqq-network/haqq/precompiles/staking"
	coinomicstypes "github.com/haqq-network/haqq/x/coinomics/types"
	"github.com/haqq-network/haqq/x/evm/statedb"
	evmtypes "github.com/haqq-network/haqq/x/evm/types"
	stakingkeeper "github.com/haqq-network/haqq/x/staking/keeper"
)

// C05 / C02 — the StateDB: journal, snapshots, revert, commit against the real EVM keeper.
// Ops (shared with lean/HaqqModel/Driver/C05.lean):
//
//	sreset b0 b1 b2 | addbal a x | subbal a x | setnonce a v | setstate a k v | addrefund g | subrefund g | addlog |
//	suicide a | accaddr a | accslot a k | snap | revert id | commit | bank a +|- x | dump
//
// addresses 0..5 (0..2 exist and are funded), storage keys 0..2
const c05N, c05K = 6, 3

func c05Addr(i int) common.Address { return common.BytesToAddress(testAddr(500 + i)) }

// c05Gen: mode "C05" = journals with reverts (commits may fall inside reverted spans: the flush a stateful
// precompile performs); mode "C02" = what a transaction does to balances: transfers, flushes, bank movements
// mirrored into the StateDB (and, rarely and marked, not mirrored), reverts only over spans without a flush.
func c05Gen(r *rand.Rand, tier string, mode string) []Case {
	withBank := mode == "C02"
	n, maxOps := 150, 40
	if tier == "thorough" {
		n, maxOps = 5000, 120
	}
	var out []Case
	if !withBank {
		// fixed cases: every pair of journalled kinds on one account (an existing one, 1, and a new one, 4) with the snapshot
		// between them — the second is reverted, the first must stay; then the same with a second snapshot after the pair
		kinds := func(a int) []string {
			return []string{fmt.Sprintf("addbal %d 7", a), fmt.Sprintf("subbal %d 3", a), fmt.Sprintf("setnonce %d 4", a), fmt.Sprintf("setstate %d 1 2", a),
				fmt.Sprintf("setstate %d 1 0", a), fmt.Sprintf("suicide %d", a), fmt.Sprintf("createacct %d", a), fmt.Sprintf("accaddr %d", a), "addrefund 9", "addlog"}
		}
		for _, a := range []int{1, 4} {
			for _, k1 := range kinds(a) {
				c := Case{"sreset 500 300 2"}
				id := 0
				for _, k2 := range kinds(a) {
					c = append(c, k1, "snap", k2, fmt.Sprintf("revert %d", id), "dump")
					id++
				}
				c = append(c, "dump", "commit", "dump")
				out = append(out, c)
			}
		}
		// CREATE over a funded object whose init code self-destructs, inside a frame that reverts (the balance carried
		// over into the new object must come back with the old one)
		for _, a := range []int{0, 1} {
			out = append(out, Case{"sreset 500 300 2", "dump", "snap", fmt.Sprintf("createacct %d", a), fmt.Sprintf("suicide %d", a), "dump", "revert 0", "dump", "commit", "dump"},
				Case{"sreset 500 300 2", fmt.Sprintf("addbal %d 5", a), "snap", "snap", fmt.Sprintf("createacct %d", a), fmt.Sprintf("selfdestruct %d 2 ?", a), "revert 1", "dump", "revert 0", "dump", "commit", "dump"})
		}
		// a Commit inside the reverted span (what a precompile call does) for an object that is dirty outside the span: the
		// final Commit has to write the reverted values back over the flushed ones
		// … and a slot the keeper held before the transaction, cleared inside the span
		out = append(out, Case{"sreset 500 300 2", "prestate 1 1 7", "setnonce 1 4", "dump", "snap", "setstate 1 1 0", "commit", "dump", "revert 0", "dump", "commit", "dump"},
			Case{"sreset 500 300 2", "prestate 1 1 7", "prestate 1 0 3", "setstate 1 0 9", "dump", "snap", "snap", "setstate 1 1 0", "setstate 1 0 0", "commit", "dump", "revert 1", "dump", "revert 0", "dump", "commit", "dump"})
		for _, k := range []string{"setstate 1 0 5", "setnonce 1 9", "addbal 1 11", "setstate 1 1 0"} {
			out = append(out, Case{"sreset 500 300 2", "setstate 1 1 2", "setnonce 1 4", "dump", "snap", k, "commit", "dump", "revert 0", "dump", "commit", "dump"})
		}
	}
	for i := 0; i < n; i++ {
		bal := []int64{int64(100 + r.Intn(1000)), int64(r.Intn(500)), int64(r.Intn(3))}
		c := Case{fmt.Sprintf("sreset %d %d %d", bal[0], bal[1], bal[2])}
		cache := map[int]int64{0: bal[0], 1: bal[1], 2: bal[2]}
		var snaps []int
		nextID := 0
		refund := int64(0)
		unmirrored := false // every code path that moves coins under the StateDB calls SyncBalances (after fix c.f. known_findings)
		warm := r.Intn(2) == 0
		if warm {
			for a := 0; a < c05N; a++ {
				if r.Intn(2) == 0 {
					c = append(c, fmt.Sprintf("accaddr %d", a))
				}
			}
		}
		for j := 0; j < 5+r.Intn(maxOps); j++ {
			a, b := r.Intn(c05N), r.Intn(c05N)
			switch x := r.Intn(24); {
			case x < 5: // value transfer a → b
				amt := int64(0)
				if cache[a] > 0 {
					amt = 1 + r.Int63n(cache[a])
				}
				if r.Intn(8) == 0 {
					amt = 0
				}
				if withBank {
					c = append(c, fmt.Sprintf("xfer %d %d %d", a, b, amt))
				} else {
					c = append(c, fmt.Sprintf("subbal %d %d", a, amt), fmt.Sprintf("addbal %d %d", b, amt))
				}
				cache[a] -= amt
				cache[b] += amt
			case x < 8:
				c = append(c, fmt.Sprintf("setstate %d %d %d", a, r.Intn(c05K), r.Intn(4)))
			case x < 9:
				c = append(c, fmt.Sprintf("setnonce %d %d", a, r.Intn(5)))
			case x < 10:
				g := int64(r.Intn(100))
				c = append(c, fmt.Sprintf("addrefund %d", g))
				refund += g
			case x < 11:
				g := int64(0)
				if refund > 0 {
					g = r.Int63n(refund + 1)
				}
				c = append(c, fmt.Sprintf("subrefund %d", g))
				refund -= g
			case x < 12:
				if r.Intn(2) == 0 {
					c = append(c, "addlog")
				} else if withBank {
					// a CREATE with an endowment at an address that already has an object, failing (the frame reverts),
					// then another balance change of that address
					amt := int64(1 + r.Intn(40))
					c = append(c, "snap", fmt.Sprintf("createacct %d", a), fmt.Sprintf("xfer %d %d %d", b, a, amt), fmt.Sprintf("revert %d", nextID), fmt.Sprintf("xfer %d %d 1", b, a), "commit", "dump")
					nextID++
					snaps = nil
				} else if !withBank {
					// CREATE / CREATE2 at an address that already has an object (e.g. pre-funded), init code that self-destructs
					c = append(c, fmt.Sprintf("createacct %d", a))
					if r.Intn(2) == 0 {
						c = append(c, fmt.Sprintf("suicide %d", a))
					}
				}
			case x < 14:
				if r.Intn(2) == 0 {
					c = append(c, fmt.Sprintf("accaddr %d", a))
				} else {
					c = append(c, fmt.Sprintf("accslot %d %d", a, r.Intn(c05K)))
				}
			case x < 18:
				c = append(c, "snap")
				snaps = append(snaps, nextID)
				nextID++
			case x < 21:
				if len(snaps) > 0 {
					k := r.Intn(len(snaps))
					c = append(c, fmt.Sprintf("revert %d", snaps[k]), "dump")
					snaps = snaps[:k]
					// the generator's rough ledger is only a steering aid; resync lazily
					for a := range cache {
						cache[a] = cache[a]
					}
				}
			case x < 22:
				if r.Intn(3) == 0 {
					if withBank && a != b { // SELFDESTRUCT pays the beneficiary first
						c = append(c, fmt.Sprintf("selfdestruct %d %d ?", a, b))
						cache[b] += cache[a]
						cache[a] = 0
					} else if !withBank {
						c = append(c, fmt.Sprintf("suicide %d", a))
						cache[a] = 0
					}
				}
			case x < 23:
				c = append(c, "commit", "dump")
				if withBank {
					snaps = nil
				}
				if r.Intn(2) == 0 && cache[a] > 0 && a != b {
					// round trip: a pays b, flush, b pays a back — the balances return to their loaded values
					amt := 1 + r.Int63n(cache[a])
					if withBank {
						c = append(c, fmt.Sprintf("xfer %d %d %d", a, b, amt), "commit", fmt.Sprintf("xfer %d %d %d", b, a, amt), "commit", "dump")
					} else {
						c = append(c, fmt.Sprintf("subbal %d %d", a, amt), fmt.Sprintf("addbal %d %d", b, amt), "commit",
							fmt.Sprintf("subbal %d %d", b, amt), fmt.Sprintf("addbal %d %d", a, amt), "commit", "dump")
					}
				}
			default:
				if withBank {
					amt := int64(1 + r.Intn(50))
					sign := pick(r, []string{"+", "-"})
					// the account a precompile moves coins of is its caller: an executing contract, so its object is loaded
					c = append(c, fmt.Sprintf("accaddr %d", a%3), fmt.Sprintf("setstate %d 0 %d", a%3, r.Intn(4)), "commit")
					snaps = nil
					// what a precompile does: the Cosmos message moves coins of any accounts, then SyncBalances
					for m := 0; m < 1+r.Intn(3); m++ {
						who := r.Intn(c05N)
						if who >= 3 && sign == "-" {
							who = who % 3
						}
						c = append(c, fmt.Sprintf("bank %d %s %d", who, sign, amt))
						if sign == "+" {
							cache[who] += amt
						} else {
							cache[who] -= amt
						}
						sign = pick(r, []string{"+", "-"})
						amt = int64(1 + r.Intn(50))
					}
					if !unmirrored || r.Intn(3) != 0 {
						c = append(c, "sync")
					}
				}
			}
			if r.Intn(6) == 0 {
				c = append(c, "dump")
			}
		}
		c = append(c, "dump", "commit", "dump")
		out = append(out, c)
	}
	// real transactions through the puppet contract
	np := 40
	if tier == "thorough" {
		np = 600
	}
	// fixed cases: the contract delegates coins of its own; rewards are allocated; the contract — already dirty in the
	// transaction (value received, storage written, a payment made) — claims / withdraws them, also next to a delegation
	// of the origin's coins, and the origin collects its own with its next delegation
	out = append(out, Case{"ptx # value=777 gas=2000000 script=S:0:3,G:500000000000000", "ptx # value=1000 gas=2000000 script=S:1:2,P:5,C rewards=900000000000000000000000",
		"ptx # value=0 gas=2000000 script=D:400000000000000,S:2:1", "ptx # value=300 gas=2000000 script=P:7,W,S:0:1 rewards=500000000000000000000000",
		"ptx # value=250 gas=2000000 script=S:0:2,D:3000,C,P:9 rewards=700000000000000000000000", "ptx # value=0 gas=2000000 script=C,[,S:1:5,C,]R,P:1 rewards=600000000000000000000000"})
	// fixed case: a payment to a module account, then a precompile call in the same frame — the flush at the precompile's
	// entry mints for the module account and is refused; nothing of that may stay
	out = append(out, Case{"psup # value=989 gas=2000000 script=S:1:4,[,z:fee_collector:973,D:94490,G:5533,]", "psup # value=0 gas=2000000 script=z:distribution:41,d:1000,S:0:1",
		"psup # value=10 gas=2000000 script=[,z:bonded_tokens_pool:5,C,]R,P:1", "sd3 # values=0,300,0", "sd3 # values=7,0,300,300,0"})
	// fixed case: value sent to module accounts from inside the EVM, by the contract and by the origin directly
	out = append(out, Case{"ptx # value=900 gas=2000000 script=S:0:4,z:fee_collector:300,P:5", "ptx # value=0 gas=2000000 script=z:distribution:7",
		"dtx # m=paymodule amt=1000000 gas=100000", "ptx # value=50 gas=2000000 script=[,z:bonded_tokens_pool:20,],S:1:1"})
	// fixed case: the origin calls the precompiles directly, with gas limits sweeping through the range in which the call
	// runs out of gas somewhere inside the Cosmos message
	{
		var c Case
		for g := 26_000; g <= 130_000; g += 1_300 {
			c = append(c, fmt.Sprintf("dtx # m=delegate amt=%d gas=%d", 1_000_000+g, g))
		}
		for g := 26_000; g <= 130_000; g += 4_100 {
			c = append(c, fmt.Sprintf("dtx # m=undelegate amt=%d gas=%d", 1000+g, g), fmt.Sprintf("dtx # m=claim gas=%d", g))
		}
		out = append(out, c)
	}
	for i := 0; i < np; i++ {
		out = append(out, Case{puppetGenLine(r, mode)})
		if r.Intn(8) == 0 {
			out = append(out, Case{fmt.Sprintf("dtx # m=%s amt=%d gas=%d", pick(r, []string{"delegate", "delegate", "undelegate", "claim"}), 1000+r.Intn(1_000_000), 25_000+r.Intn(120_000))})
		}
	}
	return out
}

// c05Dtx: the origin calls a stateful precompile directly (no contract in between) with a given gas limit.  A
// transaction that fails — here typically by running out of gas somewhere inside the Cosmos message — may leave nothing
// behind but the fee and the nonce: the staking, distribution, authz and bank stores are compared key by key.
func c05Dtx(f []string, prop string, line Case, fails *[]Failure, tags *[]string) {
	puppetSetup()
	nw, kr := fixture()
	app := nw.App
	kv := vmKV(f)
	E := kr.GetKey(puppetOrigin)
	val := nw.GetValidators()[0].OperatorAddress
	sabi, _ := stakingpc.LoadABI()
	dpc, _ := distrpc.NewPrecompile(distrkeeper.Keeper{}, stakingkeeper.Keeper{}, authzkeeper.Keeper{})
	var to common.Address
	var in []byte
	var val0 *big.Int
	switch kv["m"] {
	case "paymodule":
		// a plain value transfer to a module account: it cannot be credited, the transaction must not go through
		to = common.BytesToAddress(authtypes.NewModuleAddress(authtypes.FeeCollectorName).Bytes())
		val0 = mustBig(kv["amt"])
	case "undelegate":
		to = common.HexToAddress(stakingpc.PrecompileAddress)
		in, _ = sabi.Pack("undelegate", E.Addr, val, mustBig(kv["amt"]))
	case "claim":
		to = dpc.Address()
		in, _ = dpc.ABI.Pack("claimRewards", E.Addr, uint32(10))
	default:
		to = common.HexToAddress(stakingpc.PrecompileAddress)
		in, _ = sabi.Pack("delegate", E.Addr, val, mustBig(kv["amt"]))
	}
	keys := []string{stakingtypes.StoreKey, distrtypes.StoreKey, authzkeeper.StoreKey, banktypes.StoreKey}
	snap := func() map[string]map[string]string {
		ctx := nw.GetContext()
		m := map[string]map[string]string{}
		for _, k := range keys {
			m[k] = nodeStoreMap(ctx, app.GetKey(k))
		}
		return m
	}
	pre := snap()
	price := big.NewInt(2_000_000_000)
	sup0 := app.BankKeeper.GetSupply(nw.GetContext(), nw.GetDenom()).Amount
	res, _, _ := c07Send(puppetOrigin, evmtypes.EvmTxArgs{To: &to, Input: in, Amount: val0, GasLimit: uint64(vmIdx(kv["gas"])), GasPrice: price})
	post := snap()
	if sup1 := app.BankKeeper.GetSupply(nw.GetContext(), nw.GetDenom()).Amount; !sup1.Equal(sup0) {
		*fails = append(*fails, Failure{Signature: prop + ":tx:direct-call-changed-the-supply", What: fmt.Sprintf("a direct call (%s) by the origin changed the total supply from %s to %s (code %d)", kv["m"], sup0, sup1, res.Code), Case: line})
	}
	failed := res.Code != 0
	if res.Code == 0 {
		if txr, e := evmtypes.DecodeTxResponse(res.Data); e == nil {
			failed = txr.Failed()
		}
	}
	if !failed {
		*tags = append(*tags, "direct-precompile-call-ok")
		return
	}
	*tags = append(*tags, fmt.Sprintf("direct-precompile-call-failed:code-%d", res.Code))
	// bank: the origin's balance and the fee collector's move by the fee; nothing else may differ
	feeKeys := func(k string) bool {
		return strings.Contains(k, string(E.AccAddr.Bytes())) || strings.Contains(k, string(authtypes.NewModuleAddress(authtypes.FeeCollectorName).Bytes()))
	}
	var diffs []string
	for _, name := range keys {
		a, b := pre[name], post[name]
		for k, v := range a {
			if w, ok := b[k]; (!ok || w != v) && !(name == banktypes.StoreKey && feeKeys(k)) {
				diffs = append(diffs, fmt.Sprintf("%s store: key %x changed", name, k))
			}
		}
		for k := range b {
			if _, ok := a[k]; !ok && !(name == banktypes.StoreKey && feeKeys(k)) {
				diffs = append(diffs, fmt.Sprintf("%s store: key %x appeared", name, k))
			}
		}
	}
	if len(diffs) > 0 {
		sort.Strings(diffs)
		if len(diffs) > 6 {
			diffs = append(diffs[:6], fmt.Sprintf("… %d more", len(diffs)-6))
		}
		*fails = append(*fails, Failure{Signature: prop + ":tx:failed-direct-precompile-call-leaves-trace", What: fmt.Sprintf("the transaction failed (code %d, gas limit %s, %s) and yet: %s", res.Code, kv["gas"], strings.TrimSpace(res.Log), strings.Join(diffs, "; ")), Case: line})
	}
}

func kvOr(kv map[string]string, k, d string) string {
	if v, ok := kv[k]; ok && v != "" {
		return v
	}
	return d
}

// puppetGenLine generates one puppet transaction: value, and a script with nested frames.
func puppetGenLine(r *rand.Rand, mode string) string {
	var toks []string
	var gen func(depth int, inReverted bool)
	gen = func(depth int, inReverted bool) {
		n := 1 + r.Intn(4)
		for j := 0; j < n; j++ {
			switch x := r.Intn(12); {
			case x < 3:
				toks = append(toks, fmt.Sprintf("S:%d:%d", r.Intn(3), 1+r.Intn(6)))
			case x < 4:
				toks = append(toks, "L")
			case x < 6:
				if r.Intn(6) == 0 {
					// the contract tries to pay a module account (failure ignored): the credit is refused when the
					// transaction's state is committed, so the transaction must fail as a whole
					toks = append(toks, fmt.Sprintf("z:%s:%d", pick(r, []string{"fee_collector", "distribution", "bonded_tokens_pool"}), 1+r.Intn(1000)))
				} else {
					toks = append(toks, fmt.Sprintf("P:%d", 1+r.Intn(1000)))
				}
			case x < 7:
				toks = append(toks, fmt.Sprintf("D:%d", 1000+r.Intn(100000)))
			case x < 8:
				if r.Intn(3) == 0 {
					toks = append(toks, pick(r, []string{"C", "C", "W"}))
				} else {
					toks = append(toks, fmt.Sprintf("G:%d", 1000+r.Intn(100000)))
				}
			case x < 11:
				if depth < 3 {
					rv := r.Intn(3) != 0
					toks = append(toks, "[")
					gen(depth+1, inReverted || rv)
					if rv {
						toks = append(toks, "]R")
					} else {
						toks = append(toks, "]")
					}
				}
			default:
				toks = append(toks, fmt.Sprintf("S:%d:%d", r.Intn(3), 1+r.Intn(6)))
			}
		}
	}
	gen(0, false)
	// a payment to a module account leaves an uncreditable balance in the EVM's cache: every later flush in the same
	// transaction (each stateful precompile call begins with one) then fails, which the reading does not model — such
	// payments are generated only in scripts without precompile calls (where the transaction fails as a whole at the end)
	hasPC := false
	for _, t := range toks {
		if strings.HasPrefix(t, "D:") || strings.HasPrefix(t, "G:") || t == "C" || t == "W" {
			hasPC = true
		}
	}
	if hasPC {
		var keep []string
		for _, t := range toks {
			if !strings.HasPrefix(t, "z:") {
				keep = append(keep, t)
			}
		}
		toks = keep
	}
	value := 0
	if r.Intn(2) == 0 {
		value = 1 + r.Intn(5000)
	}
	gas := 2_000_000
	if r.Intn(8) == 0 && !strings.Contains(strings.Join(toks, ","), "[") {
		gas = 30_000 + r.Intn(200_000) // may run out of gas: the transaction then fails as a whole
	}
	rw := ""
	if r.Intn(3) == 0 {
		rw = fmt.Sprintf(" rewards=%d000000000000000000000", 1+r.Intn(1000))
	}
	return fmt.Sprintf("ptx # value=%d gas=%d script=%s%s", value, gas, strings.Join(toks, ","), rw)
}

func init() {
	Register(&Property{
		ID:   "C05",
		Gen:  func(r *rand.Rand, tier string) []Case { return c05Gen(r, tier, "C05") },
		Exec: func(c Case) ([]string, []Failure, []string) { return c05Exec(c, "C05") },
		NonTrivial: func(tags []string) bool {
			return hasTag(tags, "revert-ok")
		},
		Rule: "(a) random journals on the real StateDB over the application's EVM keeper: value transfers (incl. zero and to non-existent accounts), storage writes, nonce, refund counter, logs, access-list addresses and slots (cold and pre-warmed), selfdestruct, nested snapshots, reverts to any still-valid snapshot (not only the latest), commits in the middle; after every revert the whole observable state (cache and keeper side) is dumped and compared; (b) real signed Ethereum transactions to a script-interpreting contract: nested frames that revert or not, storage writes, logs, value transfers, staking-precompile delegations of the origin's and of the contract's own coins, also with too little gas; every observable (slots, logs, balances, delegations) is compared with the property's reading of the script; non-trivial = at least one successful revert / a transaction with a reverted inner frame; distinct = distinct op sequences",
	})
	Register(&Property{
		ID:   "C02",
		Gen:  func(r *rand.Rand, tier string) []Case { return c05Gen(r, tier, "C02") },
		Exec: func(c Case) ([]string, []Failure, []string) { return c05Exec(c, "C02") },
		NonTrivial: func(tags []string) bool {
			return hasTag(tags, "commit-with-dirty") || hasTag(tags, "ptx-ok")
		},
		Rule: "(a) balance histories on the real StateDB over the application's EVM keeper and bank: value transfers, round trips that return balances to their loaded values across a flush, storage/nonce writes, snapshots and reverts, Commit in the middle (precompile entry), Cosmos-side bank movements of arbitrary accounts (cached or not, dirty or not) against an outside pool followed by SyncBalances, as the stateful precompiles do; after every Commit the supply and every bank balance are compared with the EVM's view; (b) real signed Ethereum transactions to the script-interpreting contract with value, payments, delegations of the origin's coins by grant and of the contract's own coins, nested and reverted frames; supply and the bank balances of origin, contract and payee are compared with the property's reading of the script; non-trivial = a commit with dirty accounts / an executed puppet transaction; distinct = distinct op sequences",
	})
}

type c05Env struct {
	ctx     sdk.Context
	db      *statedb.StateDB
	supply0 *big.Int
	// EVM-visible state remembered at each snapshot, for the revert monitor (independent of the model)
	snaps map[int]string
	// snapshots that were followed by a Commit (the flush every stateful precompile performs on entry)
	flushed map[int]bool
	// the case contains a bank movement that is not mirrored into the StateDB
	rawBank bool
	// nothing but bank movements has happened since the last Commit (the only place the code calls SyncBalances:
	// inside a precompile's Run, which commits on entry)
	justFlushed bool
	// store-trace monitor (C05): where each snapshot was taken and which accounts the keeper had then; the Commits seen
	// so far with the objects that were self-destructed at that moment; the reverted spans; per-account classes
	snapAt     map[int]int
	existedAt  map[int][c05N]bool
	flushes    []c05Flush
	spans      [][2]int
	spanFlush  bool
	created    [c05N]bool
	deleted    [c05N]bool
	cleanAfter [c05N]bool
}

type c05Flush struct {
	at       int
	suicided [c05N]bool
}

func c05Exec(c Case, prop string) (outs []string, fails []Failure, tags []string) {
	nw, _ := fixture()
	app := nw.App
	env := &c05Env{snaps: map[int]string{}, flushed: map[int]bool{}, snapAt: map[int]int{}, existedAt: map[int][c05N]bool{}}
	orig := append(Case{}, c...)
	denom := nw.GetDenom()
	pool := testAddr(599)
	view := func() string {
		var parts []string
		for a := 0; a < c05N; a++ {
			ad := c05Addr(a)
			if !env.db.Exist(ad) {
				parts = append(parts, fmt.Sprintf("%d:none", a))
				continue
			}
			var st []string
			for k := 0; k < c05K; k++ {
				st = append(st, env.db.GetState(ad, common.BigToHash(big.NewInt(int64(k)))).Big().String())
			}
			s := "0"
			if env.db.HasSuicided(ad) {
				s = "1"
			}
			parts = append(parts, fmt.Sprintf("%d:b=%s,n=%d,s=%s,st=%s", a, env.db.GetBalance(ad), env.db.GetNonce(ad), s, strings.Join(st, ",")))
		}
		var acc []string
		for a := 0; a < c05N; a++ {
			ad := c05Addr(a)
			s := "0"
			if env.db.AddressInAccessList(ad) {
				s = "1"
			}
			s += "/"
			for k := 0; k < c05K; k++ {
				_, ok := env.db.SlotInAccessList(ad, common.BigToHash(big.NewInt(int64(k))))
				if ok {
					s += "1"
				} else {
					s += "0"
				}
			}
			acc = append(acc, s)
		}
		return fmt.Sprintf("cache[%s] R refund=%d logs=%d acc[%s]", strings.Join(parts, " "), env.db.GetRefund(), len(env.db.Logs()), strings.Join(acc, " "))
	}
	for i, line := range c {
		f := strings.Fields(line)
		out := "bad-op"
		func() {
			defer func() {
				if r := recover(); r != nil {
					out = "panic"
					if f[0] == "ptx" {
						fmt.Fprintln(os.Stderr, "ptx panic:", r)
					}
				}
			}()
			arg := func(k int) *big.Int { return mustBig(f[k]) }
			ad := func(k int) common.Address { return c05Addr(int(arg(k).Int64())) }
			key := func(k int) common.Hash { return common.BigToHash(arg(k)) }
			switch f[0] {
			case "commit":
				defer func() { env.justFlushed = true }()
			case "bank", "dump", "sync", "noop":
			default:
				env.justFlushed = false
			}
			switch f[0] {
			case "sreset":
				base := nw.GetContext()
				env.ctx, _ = base.CacheContext()
				for a := 0; a < 3; a++ {
					acc := app.AccountKeeper.NewAccountWithAddress(env.ctx, c05Addr(a).Bytes())
					app.AccountKeeper.SetAccount(env.ctx, acc)
					if v := arg(1 + a); v.Sign() > 0 {
						coins := sdk.NewCoins(sdk.NewCoin(denom, sdkmath.NewIntFromBigInt(v)))
						_ = app.BankKeeper.MintCoins(env.ctx, coinomicstypes.ModuleName, coins)
						_ = app.BankKeeper.SendCoinsFromModuleToAccount(env.ctx, coinomicstypes.ModuleName, c05Addr(a).Bytes(), coins)
					}
				}
				coins := sdk.NewCoins(sdk.NewCoin(denom, sdkmath.NewInt(1_000_000)))
				_ = app.BankKeeper.MintCoins(env.ctx, coinomicstypes.ModuleName, coins)
				_ = app.BankKeeper.SendCoinsFromModuleToAccount(env.ctx, coinomicstypes.ModuleName, pool, coins)
				env.db = statedb.New(env.ctx, app.EvmKeeper, statedb.NewEmptyTxConfig(common.Hash{}))
				env.supply0 = app.BankKeeper.GetSupply(env.ctx, denom).Amount.BigInt()
				env.snaps = map[int]string{}
				env.flushed = map[int]bool{}
				env.rawBank = false
				env.snapAt, env.existedAt, env.flushes, env.spans, env.spanFlush = map[int]int{}, map[int][c05N]bool{}, nil, nil, false
				env.created, env.deleted, env.cleanAfter = [c05N]bool{}, [c05N]bool{}, [c05N]bool{}
				out = "ok"
			case "addbal":
				env.db.AddBalance(ad(1), arg(2))
				out = "ok"
			case "subbal":
				// the EVM never debits more than the balance (CanTransfer): clamp what the generator's rough ledger got wrong
				amt := arg(2)
				if cur := env.db.GetBalance(ad(1)); amt.Cmp(cur) > 0 {
					amt = new(big.Int).Set(cur)
					f[2] = amt.String()
					c[i] = strings.Join(f, " ")
				}
				env.db.SubBalance(ad(1), amt)
				out = "ok"
			case "xfer":
				// CanTransfer + Transfer: never more than the sender has
				amt := arg(3)
				if cur := env.db.GetBalance(ad(1)); amt.Cmp(cur) > 0 {
					amt = new(big.Int).Set(cur)
				}
				if env.db.HasSuicided(ad(2)) {
					// coins sent to a self-destructed account are destroyed with it (an explicit burn): not generated
					amt = big.NewInt(0)
				}
				f[3] = amt.String()
				c[i] = strings.Join(f, " ")
				env.db.SubBalance(ad(1), amt)
				env.db.AddBalance(ad(2), amt)
				out = "ok"
			case "setnonce":
				env.db.SetNonce(ad(1), arg(2).Uint64())
				out = "ok"
			case "setstate":
				env.db.SetState(ad(1), key(2), key(3))
				out = "ok"
			case "prestate":
				// storage the keeper holds before the transaction starts (written by an earlier transaction)
				app.EvmKeeper.SetState(env.ctx, ad(1), key(2), key(3).Bytes())
				out = "ok"
			case "addrefund":
				env.db.AddRefund(arg(1).Uint64())
				out = "ok"
			case "subrefund":
				env.db.SubRefund(arg(1).Uint64())
				out = "ok"
			case "addlog":
				env.db.AddLog(&ethtypes.Log{Address: c05Addr(0)})
				out = "ok"
			case "suicide":
				env.db.Suicide(ad(1))
				out = "ok"
			case "noop":
				out = "ok"
			case "createacct":
				env.db.CreateAccount(ad(1))
				out = "ok"
			case "sync":
				if !env.justFlushed {
					// (a shrunk case may have lost the Commit: SyncBalances over unflushed changes is not a call the code makes)
					c[i] = "noop"
					out = "ok"
					return
				}
				env.db.SyncBalances()
				env.rawBank = false
				out = "ok"
			case "selfdestruct":
				if env.db.HasSuicided(ad(2)) || !env.db.Exist(ad(1)) {
					c[i] = "noop"
					out = "ok"
					return
				}
				bal := env.db.GetBalance(ad(1))
				f[3] = bal.String()
				c[i] = strings.Join(f, " ")
				env.db.AddBalance(ad(2), bal)
				env.db.Suicide(ad(1))
				out = "ok"
			case "accaddr":
				env.db.AddAddressToAccessList(ad(1))
				out = "ok"
			case "accslot":
				env.db.AddSlotToAccessList(ad(1), key(2))
				out = "ok"
			case "snap":
				id := env.db.Snapshot()
				env.snaps[id] = view()
				env.snapAt[id] = i
				var ex [c05N]bool
				for a := 0; a < c05N; a++ {
					ex[a] = app.AccountKeeper.GetAccount(env.ctx, c05Addr(a).Bytes()) != nil
				}
				env.existedAt[id] = ex
				out = fmt.Sprintf("id=%d", id)
			case "revert":
				id := int(arg(1).Int64())
				want, known := env.snaps[id]
				env.db.RevertToSnapshot(id)
				out = "ok"
				tags = append(tags, "revert-ok")
				// the property's own predicate: everything the EVM can observe equals what it was at the snapshot
				if got := view(); known && got != want {
					sig := "C05:revert-leaves-trace"
					if env.flushed[id] {
						// a Commit happened inside the reverted span: that is what a stateful precompile call does on entry
						sig = "C05:flush-then-revert:evm-state-persists"
					}
					fails = append(fails, Failure{Signature: sig, What: fmt.Sprintf("after RevertToSnapshot(%d) the EVM-visible state is\n  %s\nat the snapshot it was\n  %s", id, got, want), Case: c[:i+1]})
				}
				if at, ok := env.snapAt[id]; ok {
					env.spans = append(env.spans, [2]int{at, i})
					for _, fl := range env.flushes {
						if fl.at > at {
							env.spanFlush = true
							for a := 0; a < c05N; a++ {
								if !env.existedAt[id][a] {
									env.created[a] = true
								}
								if fl.suicided[a] {
									env.deleted[a] = true
								}
							}
						}
					}
					for a := 0; a < c05N; a++ {
						if env.db.VerifDirtyCount(c05Addr(a)) == 0 {
							env.cleanAfter[a] = true
						}
					}
				}
				for k := range env.snaps {
					if k >= id {
						delete(env.snaps, k)
						delete(env.flushed, k)
						delete(env.snapAt, k)
					}
				}
			case "commit":
				for id := range env.snaps {
					env.flushed[id] = true
				}
				{
					fl := c05Flush{at: i}
					for a := 0; a < c05N; a++ {
						fl.suicided[a] = env.db.VerifDirtyCount(c05Addr(a)) > 0 && env.db.HasSuicided(c05Addr(a))
					}
					env.flushes = append(env.flushes, fl)
				}
				if err := env.db.Commit(); err != nil {
					out = "err:" + strings.ReplaceAll(err.Error(), " ", "_")
				} else {
					out = "ok"
				}
				_ = view() // looks every account up (and so caches it), for C05 and C02 alike
				if prop == "C02" {
					// the property's own predicate: Commit neither mints nor burns in total, and the bank shows what the EVM sees
					tags = append(tags, "commit-with-dirty")
					var bad []string
					if d := new(big.Int).Sub(app.BankKeeper.GetSupply(env.ctx, denom).Amount.BigInt(), env.supply0); d.Sign() != 0 {
						bad = append(bad, "supply changed by "+d.String())
					}
					for a := 0; a < c05N; a++ {
						bank := app.BankKeeper.GetBalance(env.ctx, c05Addr(a).Bytes(), denom).Amount.BigInt()
						if evm := env.db.GetBalance(c05Addr(a)); evm.Cmp(bank) != 0 {
							bad = append(bad, fmt.Sprintf("account %d: EVM sees %s, bank holds %s", a, evm, bank))
						}
					}
					if len(bad) > 0 {
						sig := "C02:commit:bank-diverges-from-evm-view"
						if env.rawBank {
							sig = "C02:bank-movement-without-SyncBalances:overwritten-by-commit"
						}
						fails = append(fails, Failure{Signature: sig, What: "after Commit: " + strings.Join(bad, "; "), Case: c[:i+1]})
					}
				}
			case "bankm":
				// a precompile's bank movement of its caller followed by the mirroring AddBalance / SubBalance
				a := sdk.AccAddress(ad(1).Bytes())
				amt := arg(3)
				if env.db.HasSuicided(ad(1)) {
					amt = big.NewInt(0)
					f[3] = "0"
					c[i] = strings.Join(f, " ")
				}
				if f[2] == "-" {
					if cur := app.BankKeeper.GetBalance(env.ctx, a, denom).Amount.BigInt(); amt.Cmp(cur) > 0 {
						amt = cur
						f[3] = amt.String()
						c[i] = strings.Join(f, " ")
					}
				}
				if amt.Sign() > 0 {
					coins := sdk.NewCoins(sdk.NewCoin(denom, sdkmath.NewIntFromBigInt(amt)))
					if f[2] == "+" {
						if err := app.BankKeeper.SendCoins(env.ctx, pool, a, coins); err != nil {
							panic(err)
						}
						env.db.AddBalance(ad(1), amt)
					} else {
						if err := app.BankKeeper.SendCoins(env.ctx, a, pool, coins); err != nil {
							panic(err)
						}
						env.db.SubBalance(ad(1), amt)
					}
				}
				out = "ok"
			case "ptx":
				// the output line is the reading of the script (the reference the transaction is judged against), which the
				// Lean model computes too (Model/Script.lean: evalToks, proved to conserve coins for every script)
				var line string
				out, line = c05Ptx(f, prop, c[i:i+1], &fails, &tags)
				c[i] = line
			case "psup":
				// a puppet transaction outside what the reading of scripts covers (a payment to a module account followed
				// by a precompile call in the same frame: the flush at the precompile's entry fails half way): judged on the
				// total supply alone
				out = "skip"
				puppetSetup()
				{
					nw, _ := fixture()
					kv := vmKV(f)
					ref := puppetRef{dE: new(big.Int), dP: new(big.Int), dX: new(big.Int), bondE: new(big.Int), bondP: new(big.Int)}
					sc := puppetCompile(strings.Split(kv["script"], ","), &ref, nw.GetValidators()[0].OperatorAddress)
					o := puppetRun(mustBig(kv["value"]), sc.bytes, uint64(vmIdx(kv["gas"])))
					tags = append(tags, "supply-only-transaction")
					if o.dSupply.Sign() != 0 {
						fails = append(fails, Failure{Signature: prop + ":tx:supply-changed", What: "the total supply changed by " + o.dSupply.String() + "\n  observed: " + o.String(), Case: c[i : i+1]})
					}
				}
			case "sd3":
				// a contract that self-destructs on every call (CALLER SELFDESTRUCT), called by the puppet several times in one
				// transaction with the given values: each call hands everything the contract holds back to the puppet, so the
				// puppet's balance and the total supply end where they started.   sd3 # values=0,300,0
				out = "skip"
				puppetSetup()
				{
					nw, kr := fixture()
					kv := vmKV(f)
					dep := kr.GetKey(0)
					x := crypto.CreateAddress(dep.Addr, nw.App.EvmKeeper.GetNonce(nw.GetContext(), dep.Addr))
					res, _, _ := c07Send(0, evmtypes.EvmTxArgs{Input: common.FromHex("6133ff6000526002601ef3"), GasLimit: 200000, GasPrice: big.NewInt(2_000_000_000)})
					if res.Code != 0 || len(nw.App.EvmKeeper.GetCode(nw.GetContext(), common.BytesToHash(nw.App.EvmKeeper.GetAccountOrEmpty(nw.GetContext(), x).CodeHash))) != 2 {
						panic("sd3: deployment failed: " + res.Log)
					}
					var script []byte
					for _, v := range strings.Split(kv["values"], ",") {
						script = append(script, puppetCall(0, x, mustBig(v), nil)...)
					}
					o := puppetRun(big.NewInt(0), script, 1_000_000)
					tags = append(tags, "repeated-self-destruct")
					if o.code != 0 || o.failed {
						tags = append(tags, "repeated-self-destruct-failed")
					} else if o.dSupply.Sign() != 0 || o.dP.Sign() != 0 {
						fails = append(fails, Failure{Signature: prop + ":tx:supply-changed", What: "a contract self-destructing to its caller on each of the calls with values " + kv["values"] + ": the total supply changed by " + o.dSupply.String() + ", the caller's balance by " + o.dP.String() + "\n  observed: " + o.String(), Case: c[i : i+1]})
					}
				}
			case "dtx":
				out = "skip"
				c05Dtx(f, prop, c[i:i+1], &fails, &tags)
			case "bank":
				env.rawBank = true // until the next sync
				a := sdk.AccAddress(ad(1).Bytes())
				if f[2] == "-" {
					if cur := app.BankKeeper.GetBalance(env.ctx, a, denom).Amount.BigInt(); arg(3).Cmp(cur) > 0 {
						f[3] = cur.String()
						c[i] = strings.Join(f, " ")
					}
				}
				if f[2] == "+" && env.db.HasSuicided(ad(1)) {
					// coins credited to an account that self-destructed earlier in this transaction are destroyed with it
					// when the transaction ends (Ethereum's rule for value sent to a destructed contract): not generated,
					// as for `xfer`
					f[3] = "0"
					c[i] = strings.Join(f, " ")
				}
				if arg(3).Sign() == 0 {
					out = "ok"
					return
				}
				coins := sdk.NewCoins(sdk.NewCoin(denom, sdkmath.NewIntFromBigInt(arg(3))))
				var err error
				if f[2] == "+" {
					err = app.BankKeeper.SendCoins(env.ctx, pool, a, coins)
				} else {
					err = app.BankKeeper.SendCoins(env.ctx, a, pool, coins)
				}
				if err != nil {
					panic(err)
				}
				out = "ok"
			case "dump":
				v := view()
				var keep []string
				for a := 0; a < c05N; a++ {
					cos := sdk.AccAddress(c05Addr(a).Bytes())
					acc := app.AccountKeeper.GetAccount(env.ctx, cos)
					e, n := "0", uint64(0)
					if acc != nil {
						e, n = "1", acc.GetSequence()
					}
					var st []string
					for k := 0; k < c05K; k++ {
						st = append(st, app.EvmKeeper.GetState(env.ctx, c05Addr(a), common.BigToHash(big.NewInt(int64(k)))).Big().String())
					}
					keep = append(keep, fmt.Sprintf("%d:e=%s,b=%s,n=%d,st=%s", a, e, app.BankKeeper.GetBalance(env.ctx, cos, denom).Amount, n, strings.Join(st, ",")))
				}
				sup := new(big.Int).Sub(app.BankKeeper.GetSupply(env.ctx, denom).Amount.BigInt(), env.supply0)
				out = strings.Replace(v, " R ", fmt.Sprintf(" keeper[%s] ", strings.Join(keep, " ")), 1) + fmt.Sprintf(" supply=%s", sup)
			}
		}()
		// The model loads an object's storage when the object is loaded; the code loads each slot at its first read
		// (originStorage).  The two differ only for slots first read after a Commit deleted the account under a
		// self-destructed object; the executor keeps to histories where they agree by reading every slot of the
		// objects an operation has just loaded or created (DESIGN.md §10, "modelled rather than verified").
		switch f[0] {
		case "addbal", "subbal", "xfer", "setnonce", "setstate", "suicide", "selfdestruct", "createacct":
			func() {
				defer func() { _ = recover() }()
				nAddr := 1
				if f[0] == "xfer" || f[0] == "selfdestruct" {
					nAddr = 2
				}
				for j := 1; j <= nAddr && j < len(f); j++ {
					ad := c05Addr(int(mustBig(f[j]).Int64()))
					for k := 0; k < c05K; k++ {
						env.db.GetState(ad, common.BigToHash(big.NewInt(int64(k))))
					}
				}
			}()
		}
		outs = append(outs, out)
	}
	// ---- store-trace monitor (C05): what the keeper holds at the end of the history must be what it holds after the
	// same history without the reverted spans ----
	// (not for histories in which CreateAccount lands on an account whose storage has been written: the EVM creates
	// contracts only at addresses without code and nonce, which hold no storage; there a flush in the middle of the
	// transaction legitimately decides whether the earlier storage writes reach the keeper before the object is replaced)
	createOverStorage := false
	{
		wrote := map[string]bool{}
		for _, line := range orig {
			f := strings.Fields(line)
			if len(f) >= 2 && f[0] == "setstate" {
				wrote[f[1]] = true
			}
			if len(f) >= 2 && f[0] == "createacct" && wrote[f[1]] {
				createOverStorage = true
			}
		}
	}
	if prop == "C05" && !createOverStorage && len(env.spans) > 0 && len(outs) > 0 && strings.Contains(outs[len(outs)-1], "keeper[") {
		var ref Case
		for i, line := range orig {
			drop := false
			for _, sp := range env.spans {
				if i >= sp[0] && i <= sp[1] {
					drop = true
				}
			}
			if !drop {
				ref = append(ref, line)
			}
		}
		// both histories are brought to the end of the transaction (a final Commit) before the keeper is looked at: a flush
		// inside a reverted span also writes what was dirty before the span, which the final Commit would write anyway
		fin := func(h Case) Case { return append(append(Case{}, h...), "commit", "dump") }
		outs, _, _ := c05Exec(fin(orig), "C05ref")
		refOuts, _, _ := c05Exec(fin(ref), "C05ref")
		keeperOf := func(s string) []string {
			a := strings.Index(s, "keeper[")
			if a < 0 {
				return nil
			}
			b := strings.Index(s[a:], "]")
			return strings.Fields(s[a+len("keeper[") : a+b])
		}
		if len(refOuts) > 0 {
			got, want := keeperOf(outs[len(outs)-1]), keeperOf(refOuts[len(refOuts)-1])
			for a := 0; a < c05N && a < len(got) && a < len(want); a++ {
				if got[a] == want[a] {
					continue
				}
				class := "dirty-outside-span"
				switch {
				case !env.spanFlush:
					class = "no-commit-in-span"
				case env.created[a]:
					class = "created-in-span"
				case env.deleted[a]:
					class = "deleted-in-span"
				case env.cleanAfter[a]:
					class = "clean-outside-span"
				}
				fails = append(fails, Failure{Signature: "C05:reverted-span-leaves-trace-in-store:" + class,
					What: fmt.Sprintf("after the history the keeper holds %s; after the same history without the reverted spans it holds %s", got[a], want[a]), Case: c})
				break
			}
		}
	}
	return
}

// c05Ptx runs one puppet transaction on the real application and evaluates the C05 / C02 predicates on it.
func c05Ptx(f []string, prop string, line Case, fails *[]Failure, tags *[]string) (refOut string, opLine string) {
	refOut, opLine = "skip", strings.Join(f, " ")
	puppetSetup()
	nw, _ := fixture()
	kv := vmKV(f)
	value := mustBig(kv["value"])
	gas := uint64(vmIdx(kv["gas"]))
	var toks []string
	if kv["script"] != "" {
		toks = strings.Split(kv["script"], ",")
	}
	ctx := nw.GetContext()
	val0 := nw.GetValidators()[0]
	if n := mustBig(kvOr(kv, "rewards", "0")); n.Sign() > 0 {
		// (a delegation earns nothing in the block it was made in: rewards are allocated in a later block)
		if err := nw.NextBlock(); err != nil {
			panic(err)
		}
		ctx = nw.GetContext()
		// staking rewards are allocated to the validator (the unit-test network has no votes, so none accrue by themselves)
		coins := sdk.NewCoins(sdk.NewCoin(nw.GetDenom(), sdkmath.NewIntFromBigInt(n)))
		if err := nw.App.BankKeeper.MintCoins(ctx, "coinomics", coins); err != nil {
			panic(err)
		}
		if err := nw.App.BankKeeper.SendCoinsFromModuleToModule(ctx, "coinomics", distrtypes.ModuleName, coins); err != nil {
			panic(err)
		}
		if v, ok := nw.App.StakingKeeper.GetValidator(ctx, val0.GetOperator()); ok {
			nw.App.DistrKeeper.AllocateTokensToValidator(ctx, v, sdk.NewDecCoinsFromCoins(coins...))
			if os.Getenv("VERIF_DEBUG") != "" {
				fmt.Fprintln(os.Stderr, "ptx allocate", v.OperatorAddress, v.Tokens, v.Commission.Rate, nw.App.DistrKeeper.GetValidatorCurrentRewards(ctx, v.GetOperator()))
			}
		}
		*tags = append(*tags, "rewards-allocated")
	}
	// what is waiting for the origin and for the contract: a dry run of the withdrawal on a branch of the state
	pending := func(who sdk.AccAddress) *big.Int {
		cctx, _ := ctx.CacheContext()
		coins, err := nw.App.DistrKeeper.WithdrawDelegationRewards(cctx, who, val0.GetOperator())
		if os.Getenv("VERIF_DEBUG") != "" {
			fmt.Fprintln(os.Stderr, "ptx pending", who.String(), coins, err)
		}
		if err != nil || coins.AmountOf(nw.GetDenom()).IsZero() {
			return nil
		}
		return coins.AmountOf(nw.GetDenom()).BigInt()
	}
	_, kr0 := fixture()
	ref := puppetRef{dE: new(big.Int).Neg(value), dP: new(big.Int).Set(value), dX: big.NewInt(0), bondE: big.NewInt(0), bondP: big.NewInt(0),
		pendE: pending(kr0.GetKey(puppetOrigin).AccAddr), pendP: pending(puppetAddr.Bytes())}
	if ref.pendP != nil {
		*tags = append(*tags, "contract-has-pending-rewards")
	}
	var pre [3]int64
	for k := 0; k < 3; k++ {
		pre[k] = nw.App.EvmKeeper.GetState(ctx, puppetAddr, common.BigToHash(big.NewInt(int64(k)))).Big().Int64()
	}
	ref.slots = pre
	optS := func(x *big.Int) string {
		if x == nil {
			return "-"
		}
		return x.String()
	}
	scriptS := kv["script"]
	if scriptS == "" {
		scriptS = "-"
	}
	// the op line as the Lean driver reads it: ptx <value> <pending E> <pending P> <slot0,slot1,slot2> <script> # …
	var rest []string
	for j, t := range f {
		if t == "#" {
			for _, u := range f[j+1:] {
				if !strings.HasPrefix(u, "value=") && !strings.HasPrefix(u, "script=") {
					rest = append(rest, u)
				}
			}
			break
		}
	}
	opLine = fmt.Sprintf("ptx %s %s %s %d,%d,%d %s # value=%s script=%s %s", value, optS(ref.pendE), optS(ref.pendP), pre[0], pre[1], pre[2], scriptS, value, kv["script"], strings.Join(rest, " "))
	sc := puppetCompile(toks, &ref, nw.GetValidators()[0].OperatorAddress)
	refOut = fmt.Sprintf("ref dE=%s dP=%s dX=%s bondE=%s bondP=%s logs=%d slots=%d,%d,%d", ref.dE, ref.dP, ref.dX, ref.bondE, ref.bondP, ref.logs, ref.slots[0], ref.slots[1], ref.slots[2])
	o := puppetRun(value, sc.bytes, gas)
	fl := func(sig, what string) {
		*fails = append(*fails, Failure{Signature: sig, What: what + "\n  observed: " + o.String(), Case: line})
	}
	if o.code != 0 {
		// rejected before execution (ante / intrinsic gas): nothing to judge
		*tags = append(*tags, "ptx-rejected")
		return refOut, opLine
	}
	if o.failed {
		// the transaction failed as a whole: nothing but the fee and the nonce may change
		*tags = append(*tags, "ptx-failed")
		ref = puppetRef{slots: pre, dE: big.NewInt(0), dP: big.NewInt(0), dX: big.NewInt(0), bondE: big.NewInt(0), bondP: big.NewInt(0)}
	} else {
		*tags = append(*tags, "ptx-ok")
		if strings.Contains(kv["script"], "]R") {
			*tags = append(*tags, "revert-ok")
		}
	}
	var diffs []string
	cmp := func(name string, got, want *big.Int) bool {
		if got.Cmp(want) != 0 {
			diffs = append(diffs, fmt.Sprintf("%s is %s, the script says %s", name, got, want))
			return false
		}
		return true
	}
	known := func(base string) string {
		switch {
		case sc.precompileInReverted:
			return base + ":precompile-call-inside-reverted-frame"
		case o.failed && (sc.grantDelegate || strings.Contains(kv["script"], "G:")):
			return base + ":precompile-call-in-failed-transaction"
		}
		return base
	}
	if prop == "C05" {
		ok := true
		for k := 0; k < 3; k++ {
			if o.slots[k] != ref.slots[k] {
				diffs = append(diffs, fmt.Sprintf("slot %d is %d, the script says %d", k, o.slots[k], ref.slots[k]))
				ok = false
			}
		}
		ok = cmp("the origin's delegation change", o.bondE, ref.bondE) && ok
		ok = cmp("the contract's delegation change", o.bondP, ref.bondP) && ok
		ok = cmp("the payee's balance change", o.dX, ref.dX) && ok
		if !o.failed && o.logs != ref.logs {
			diffs = append(diffs, fmt.Sprintf("%d contract logs, the script says %d", o.logs, ref.logs))
			ok = false
		}
		if o.failed && o.logs != 0 {
			diffs = append(diffs, fmt.Sprintf("%d contract logs in a failed transaction", o.logs))
			ok = false
		}
		if !ok {
			fl(known("C05:tx:reverted-frame-leaves-trace"), strings.Join(diffs, "; "))
		}
		return refOut, opLine
	}
	// C02
	ok := true
	if o.dSupply.Sign() != 0 {
		diffs = append(diffs, "the total supply changed by "+o.dSupply.String())
		ok = false
	}
	ok = cmp("the origin's bank balance change (net of the fee)", o.dE, ref.dE) && ok
	ok = cmp("the contract's bank balance change", o.dP, ref.dP) && ok
	ok = cmp("the payee's bank balance change", o.dX, ref.dX) && ok
	if !ok {
		sig := known("C02:tx:bank-diverges-from-evm-view")
		if sig == "C02:tx:bank-diverges-from-evm-view" && sc.grantDelegate && value.Sign() > 0 {
			sig += ":unmirrored-grant-delegation-of-dirty-origin"
		}
		fl(sig, strings.Join(diffs, "; "))
	}
	return refOut, opLine
}
