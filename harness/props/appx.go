package props

import (
	"sync"

	sdk "github.com/cosmos/cosmos-sdk/types"

	"github.com/haqq-network/haqq/testutil/integration/haqq/keyring"
	"github.com/haqq-network/haqq/testutil/integration/haqq/network"
)

// shared in-process application fixture (the repo's own unit-test network): built once per run.
var (
	fixOnce sync.Once
	fixNW   *network.UnitTestNetwork
	fixKR   keyring.Keyring
)

func fixture() (*network.UnitTestNetwork, keyring.Keyring) {
	fixOnce.Do(func() {
		fixKR = keyring.New(6)
		fixNW = network.NewUnitTestNetwork(network.WithPreFundedAccounts(fixKR.GetAllAccAddrs()...))
	})
	return fixNW, fixKR
}

// testAddr returns a deterministic fresh (not pre-funded) address for index i.
func testAddr(i int) sdk.AccAddress {
	b := make([]byte, 20)
	b[0] = 0xA0
	b[18] = byte(i >> 8)
	b[19] = byte(i)
	return sdk.AccAddress(b)
}
